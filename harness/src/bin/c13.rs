//! C13 — peer message codec: the REAL encoders/decoders of `lightning::ln::msgs` on generated
//! messages and on mutations of their encodings, against the generic Lean codec model driven by the
//! schemas translated from msgs.rs.
//!
//! ops:  dec <MsgName> <hex>   `<MsgName as LengthReadable>::read_from_fixed_length_buffer`
//!                             -> `ok <hex of re-encoding>` | `err <DecodeError variant>` | `panic ..`
//!       wire <hex>            `ln::wire::read` (hook `verif_hooks::wire::read`), 2-byte type + payload
//!                             -> `ok <Variant> <id> <re-encoding>` | `ok Unknown <id> ignore|disconnect` | `err ..`
//!       tx|wit|cs|i64 <hex>   `Transaction` / `Witness` / `VarInt` / `i64` readers -> `ok <re-encoding|value> <rest hex> [structure]` | `err ..`
//!       bigsize <hex>         `util::ser::BigSize::read` -> `ok <n> <rest hex>` | `err ..`
//!       bigenc <n>            `BigSize(n).encode()`
//!
//! Valid stream: messages are built as Rust struct literals (public fields) with PRNG-chosen values —
//! every optional TLV present/absent, boundary integers, empty/long vectors, valid secp256k1 points and
//! signatures — and encoded with the real `Writeable::encode`.  `UpdateFailHTLC` and
//! `UpdateFailMalformedHTLC` have crate-private fields and `AttributionData` private ones: those are
//! obtained by decoding hand-assembled bytes (and then re-encoded by the real encoder).
//! Mutation stream: truncations, byte flips, appended / inserted unknown odd and even TLV records,
//! duplicated and swapped records, non-minimal BigSize type/length, wrong lengths, extension bytes,
//! random byte strings.  Point/signature validity is decided by the model as well (Codec.validPoint /
//! validSig), so mutations that hit keys and signatures are compared exactly like any other.
//!
//! Custom codecs (Model/MsgCustom.lean): `dec UnsignedNodeAnnouncement|NodeAnnouncement <hex>` answers
//! `ok <re-encoding> a=<descriptor type bytes> x=<len excess_address_data> e=<len excess_data>`, `dec QueryShortChannelIds|
//! ReplyChannelRange` answers `ok <re-encoding> n=<ids>`, `dec OnionMessage` answers `ok <re-encoding> h=<len hop_data>`, so the
//! parsed STRUCTURE is compared with the model, not only the bytes.  Their valid stream is a structured generator over the real
//! Rust types (`G::sock_addr`, `G::node_ann`, `G::scids`), their malformed stream is `custom_mutations` (every length field ±1, ±2,
//! …).  TxAddInput / TxSignatures / RevokeAndACK (Model/MsgBitcoin.lean) answer `ok <re-encoding> t=none|<inputs>,<outputs>,<witness elements>` /
//! `w=<elements per witness>` / `p=<hops per path>`; ops `tx` / `wit` / `cs` / `i64` compare the bitcoin consensus layer (Transaction,
//! Witness, VarInt through LDK's impl_consensus_ser! error mapping) and `i64::read` with the model on their own (`btc_stream`).
//!
//! Implementation-side oracles (independent of the model): no panic; decode(encode(m)) == m for every
//! built message; for every byte string that decodes, decode(encode(decoded)) == decoded; for node_announcement / scid lists /
//! onion_message / tx_add_input: the declared length field equals the size of what was parsed (sizes from
//! `Writeable::serialized_length`, not from the reader's bookkeeping), nothing of the input is dropped or read twice, and the
//! re-encoding is the canonical form (`node_ann_structure`, `scid_structure`).
use bitcoin::hashes::Hash;
use bitcoin::secp256k1::ecdsa::Signature;
use bitcoin::secp256k1::{PublicKey, Secp256k1, SecretKey};
use bitcoin::{ScriptBuf, Txid};
use ldk_verif_harness::common::*;
use lightning::ln::msgs::{self, DecodeError};
use lightning::ln::onion_utils::AttributionData;
use lightning::ln::types::ChannelId;
use lightning::ln::verif_hooks as vh;
use lightning::types::payment::{PaymentHash, PaymentPreimage};
use lightning::util::ser::{BigSize, LengthReadable, Readable, Writeable};
use std::panic::AssertUnwindSafe;

fn err_name(e: &DecodeError) -> String {
	let s = format!("{:?}", e);
	s.split(|c: char| !c.is_alphanumeric()).next().unwrap().to_string()
}

struct G {
	secp: Secp256k1<bitcoin::secp256k1::All>,
}

impl G {
	fn u64b(&self, r: &mut Rng) -> u64 {
		match r.below(8) {
			0 => 0,
			1 => u64::MAX,
			2 => 1 << r.below(64),
			3 => (1u64 << r.below(64)).wrapping_sub(1),
			4 => r.below(0x1_0000),
			_ => r.next(),
		}
	}
	fn u32b(&self, r: &mut Rng) -> u32 {
		match r.below(6) {
			0 => 0,
			1 => u32::MAX,
			2 => 1 << r.below(32),
			_ => r.next() as u32,
		}
	}
	fn u16b(&self, r: &mut Rng) -> u16 {
		match r.below(6) {
			0 => 0,
			1 => u16::MAX,
			2 => 0xfd,
			_ => r.next() as u16,
		}
	}
	fn i64b(&self, r: &mut Rng) -> i64 {
		match r.below(6) {
			0 => 0,
			1 => i64::MIN,
			2 => i64::MAX,
			3 => -1,
			_ => r.next() as i64,
		}
	}
	fn b32(&self, r: &mut Rng) -> [u8; 32] {
		match r.below(8) {
			0 => [0; 32],
			1 => [0xff; 32],
			_ => r.bytes32(),
		}
	}
	fn cid(&self, r: &mut Rng) -> ChannelId {
		ChannelId(self.b32(r))
	}
	fn txid(&self, r: &mut Rng) -> Txid {
		Txid::from_byte_array(self.b32(r))
	}
	fn pk(&self, r: &mut Rng) -> PublicKey {
		loop {
			if let Ok(sk) = SecretKey::from_slice(&r.bytes32()) {
				return PublicKey::from_secret_key(&self.secp, &sk);
			}
		}
	}
	fn sig(&self, r: &mut Rng) -> Signature {
		loop {
			let mut b = r.bytes(64);
			match r.below(8) {
				0 => { for x in b[..32].iter_mut() { *x = 0; } },   // r = 0 parses
				1 => { for x in b[32..].iter_mut() { *x = 0; } b[63] = 1; },
				2 => { b[0] &= 0x7f; b[32] &= 0x7f; },
				_ => {},
			}
			if let Ok(s) = Signature::from_compact(&b) {
				return s;
			}
		}
	}
	fn vecu8(&self, r: &mut Rng, max: usize) -> Vec<u8> {
		let n = match r.below(6) {
			0 => 0,
			1 => 1,
			2 => max,
			_ => r.below(max as u64 + 1) as usize,
		};
		r.bytes(n)
	}
	fn script(&self, r: &mut Rng) -> ScriptBuf {
		ScriptBuf::from(self.vecu8(r, 80))
	}
	fn chan_type(&self, r: &mut Rng) -> lightning::types::features::ChannelTypeFeatures {
		use lightning::types::features::ChannelTypeFeatures as F;
		match r.below(5) { 0 => F::only_static_remote_key(), 1 => F::anchors_zero_htlc_fee_and_dependencies(), 2 => F::from_be_bytes(vec![]), 3 => F::from_be_bytes(vec![0, 0, 0x10]), _ => { let n = r.below(9) as usize; F::from_be_bytes(r.bytes(n)) } }
	}
	fn node_id(&self, r: &mut Rng) -> lightning::routing::gossip::NodeId {
		use lightning::routing::gossip::NodeId;
		if r.chance(1, 3) { NodeId::from_slice(&r.bytes(33)).unwrap() } else { NodeId::from_pubkey(&self.pk(r)) }   // raw bytes: not validated as a point
	}
	fn chan_ann(&self, r: &mut Rng) -> msgs::UnsignedChannelAnnouncement {
		let n = match r.below(4) { 0 => 0, 1 => 1, _ => r.below(12) as usize };
		msgs::UnsignedChannelAnnouncement { features: lightning::types::features::ChannelFeatures::from_be_bytes(r.bytes(n)), chain_hash: bitcoin::constants::ChainHash::from(self.b32(r)), short_channel_id: self.u64b(r),
			node_id_1: self.node_id(r), node_id_2: self.node_id(r), bitcoin_key_1: self.node_id(r), bitcoin_key_2: self.node_id(r), excess_data: if r.chance(1, 2) { vec![] } else { self.vecu8(r, 60) } }
	}
	fn chan_upd(&self, r: &mut Rng) -> msgs::UnsignedChannelUpdate {
		msgs::UnsignedChannelUpdate { chain_hash: bitcoin::constants::ChainHash::from(self.b32(r)), short_channel_id: self.u64b(r), timestamp: self.u32b(r), message_flags: (r.next() as u8) | 1, channel_flags: r.next() as u8,
			cltv_expiry_delta: self.u16b(r), htlc_minimum_msat: self.u64b(r), htlc_maximum_msat: self.u64b(r), fee_base_msat: self.u32b(r), fee_proportional_millionths: self.u32b(r),
			excess_data: if r.chance(1, 2) { vec![] } else { self.vecu8(r, 60) } }
	}
	/// UTF-8 text with 1- to 4-byte characters (boundary code points included)
	fn text(&self, r: &mut Rng) -> String {
		let n = match r.below(5) { 0 => 0, 1 => 1, _ => r.below(40) as usize };
		(0..n).map(|_| match r.below(8) { 0 => 'a', 1 => '\u{7f}', 2 => '\u{80}', 3 => '\u{7ff}', 4 => '\u{800}', 5 => '\u{ffff}', 6 => *r.pick(&['\u{10000}', '\u{10ffff}', '\u{d7ff}', '\u{e000}']), _ => char::from_u32(r.below(0x11_0000) as u32).unwrap_or('?') }).collect()
	}
	fn padlen(&self, r: &mut Rng) -> u16 {
		match r.below(12) { 0 => 0, 1 => 1, 2 => 0xffff, 3 => 0xfffe, 4 => 0xfd, _ => r.below(300) as u16 }
	}
	/// every `SocketAddress` kind; hostnames of boundary lengths (0, 1, 255) over the whole allowed character set
	fn sock_addr(&self, r: &mut Rng) -> msgs::SocketAddress {
		use msgs::SocketAddress as A;
		let port = self.u16b(r);
		match r.below(5) {
			0 => { let b = r.bytes(4); A::TcpIpV4 { addr: [b[0], b[1], b[2], b[3]], port } },
			1 => { let mut a = [0u8; 16]; a.copy_from_slice(&r.bytes(16)); A::TcpIpV6 { addr: a, port } },
			2 => { let mut a = [0u8; 12]; a.copy_from_slice(&r.bytes(12)); A::OnionV2(a) },
			3 => A::OnionV3 { ed25519_pubkey: self.b32(r), checksum: self.u16b(r), version: r.next() as u8, port },
			_ => {
				let n = match r.below(8) { 0 => 0, 1 => 1, 2 => 255, 3 => 254, _ => r.below(40) as usize };
				const CS: &[u8] = b"abcdefghijklmnopqrstuvwxyzABCDEFGHIJKLMNOPQRSTUVWXYZ0123456789.-_";
				let s: String = (0..n).map(|_| *r.pick(CS) as char).collect();
				A::Hostname { hostname: lightning::util::ser::Hostname::try_from(s).expect("valid hostname"), port }
			},
		}
	}
	/// well-formed UnsignedNodeAnnouncement: 0..7 addresses of all kinds (any order, repeats), excess_address_data empty or
	/// starting with an unknown descriptor type (0, 6..=255), excess_data
	fn node_ann(&self, r: &mut Rng) -> msgs::UnsignedNodeAnnouncement {
		let nf = match r.below(4) { 0 => 0, 1 => 1, _ => r.below(12) as usize };
		let na = match r.below(6) { 0 => 0, 1 => 1, 2 => 5, _ => r.below(8) as usize };
		let addresses = (0..na).map(|_| self.sock_addr(r)).collect();
		let excess_address_data = if r.chance(1, 2) { vec![] } else {
			let mut v = self.vecu8(r, 30);
			if v.is_empty() { v.push(0); }
			v[0] = match r.below(4) { 0 => 0, 1 => 6, 2 => 255, _ => 6 + r.below(250) as u8 };
			v
		};
		let mut alias = [0u8; 32]; alias.copy_from_slice(&r.bytes(32));
		let rgb = r.bytes(3);
		msgs::UnsignedNodeAnnouncement { features: lightning::types::features::NodeFeatures::from_be_bytes(r.bytes(nf)), timestamp: self.u32b(r), node_id: self.node_id(r),
			rgb: [rgb[0], rgb[1], rgb[2]], alias: lightning::routing::gossip::NodeAlias(alias), addresses, excess_address_data,
			excess_data: if r.chance(1, 2) { vec![] } else { self.vecu8(r, 40) } }
	}
	fn scids(&self, r: &mut Rng) -> Vec<u64> {
		let n = match r.below(40) { 0 => 8191, 1..=4 => 0, 5..=8 => 1, 9 => 8190, _ => r.below(20) as usize };
		if n > 100 { let x = self.u64b(r); (0..n as u64).map(|i| x.wrapping_add(i)).collect() } else { (0..n).map(|_| self.u64b(r)).collect() }
	}
	fn witness(&self, r: &mut Rng) -> bitcoin::Witness {
		let n = match r.below(4) { 0 => 0, 1 => 1, _ => r.below(5) as usize };
		let items: Vec<Vec<u8>> = (0..n).map(|_| self.vecu8(r, 80)).collect();
		bitcoin::Witness::from_slice(&items)
	}
	/// a bitcoin transaction with 1..3 inputs, 0..3 outputs, with or without witnesses (serialized length far below the u16 prevtx length)
	fn tx(&self, r: &mut Rng) -> bitcoin::Transaction {
		use bitcoin::{absolute::LockTime, transaction::Version, Amount, OutPoint, Sequence, TxIn, TxOut};
		let segwit = r.chance(1, 2);
		let ni = 1 + r.below(3) as usize;
		let input = (0..ni).map(|_| TxIn { previous_output: OutPoint { txid: self.txid(r), vout: self.u32b(r) }, script_sig: self.script(r), sequence: Sequence(self.u32b(r)),
			witness: if segwit { self.witness(r) } else { bitcoin::Witness::new() } }).collect();
		let no = r.below(4) as usize;
		let output = (0..no).map(|_| TxOut { value: Amount::from_sat(self.u64b(r) % 21_000_000_0000_0000), script_pubkey: self.script(r) }).collect();
		bitcoin::Transaction { version: Version(self.u32b(r) as i32), lock_time: LockTime::from_consensus(self.u32b(r)), input, output }
	}
	fn attribution(&self, r: &mut Rng) -> AttributionData {
		let b = r.bytes(920);
		<AttributionData as Readable>::read(&mut &b[..]).expect("attribution data is 920 raw bytes")
	}
	fn onion(&self, r: &mut Rng) -> msgs::OnionPacket {
		let mut hop_data = [0u8; 1300];
		if !r.chance(1, 4) {
			for x in hop_data.iter_mut() { *x = r.next() as u8; }
		}
		let public_key = if r.chance(1, 5) { Err(bitcoin::secp256k1::Error::InvalidPublicKey) } else { Ok(self.pk(r)) };
		msgs::OnionPacket { version: if r.chance(3, 4) { 0 } else { r.next() as u8 }, public_key, hop_data, hmac: self.b32(r) }
	}
}

fn opt<T>(mask: u32, bit: u32, v: T) -> Option<T> {
	if mask & (1 << bit) != 0 { Some(v) } else { None }
}

/// names of the message types this harness builds (the macro-declared messages of msgs.rs that the
/// schema translator covers; if the translator stops covering one, the driver answers `no-schema`)
const NAMES: &[&str] = &[
	"Stfu", "SpliceInit", "SpliceAck", "SpliceLocked", "TxAddOutput", "TxRemoveInput", "TxRemoveOutput", "TxComplete",
	"TxInitRbf", "TxAckRbf", "TxAbort", "AnnouncementSignatures", "ChannelReestablish", "ClosingSigned", "ClosingComplete",
	"ClosingSig", "CommitmentSigned", "FundingCreated", "FundingSigned", "ChannelReady", "Shutdown", "UpdateFailHTLC",
	"UpdateFailMalformedHTLC", "UpdateFee", "UpdateFulfillHTLC", "PeerStorage", "PeerStorageRetrieval", "StartBatch",
	"UpdateAddHTLC", "ReplyShortChannelIdsEnd", "QueryChannelRange", "GossipTimestampFilter",
	// hand-written codecs with a hand-written schema (Model/MsgSchemasHand.lean; layout pinned to the source by
	// Generated handPinned + Props hand_schemas_match_source)
	"OpenChannel", "AcceptChannel", "OpenChannelV2", "AcceptChannelV2",
	// two feature vectors merged on read / split on write around an ordinary schema (Model/MsgCustom.lean decodeInit / encodeInit)
	"Init",
];
/// hand-written codecs ending in `excess_data` (TailSchema: no TLV stream; compared at message level, not behind `wire::read`;
/// the Unsigned… messages have no wire type of their own)
const TAIL_NAMES: &[&str] = &["UnsignedChannelAnnouncement", "ChannelAnnouncement", "UnsignedChannelUpdate", "ChannelUpdate",
	// irregular hand-written codecs with their own small model decoders (decodeErrorMsg / decodePing / decodePong)
	"ErrorMessage", "WarningMessage", "Ping", "Pong"];
/// hand-written codecs that are not a plain field sequence, with their own model decoders (Model/MsgCustom.lean): the answer line
/// carries the parsed structure as well, the mutation stream is structure-aware (`custom_mutations`), and three of them are
/// behind `wire::read`
const CUSTOM_NAMES: &[&str] = &["UnsignedNodeAnnouncement", "NodeAnnouncement", "QueryShortChannelIds", "ReplyChannelRange", "OnionMessage"];
/// messages with NO Lean model (bitcoin consensus encodings / blinded paths inside): the same valid + mutation streams run through the
/// real decoder for the impl-side oracles only (no panic, decode(encode(m)) == m, re-encode stability, declared prevtx length); the
/// op lines are recorded as directives (`oracle <Name> <hex>`, not compared with the model, not counted as cases)
const ORACLE_ONLY_NAMES: &[&str] = &[];
/// bitcoin consensus encodings / blinded paths inside (Model/MsgBitcoin.lean: decodeTxAddInput, decodeTxSignatures, decodeRevokeAndAck):
/// same valid + mutation streams as the schema messages, the answer line carries the parsed structure, all three behind `wire::read`
const BTC_NAMES: &[&str] = &["TxAddInput", "TxSignatures", "RevokeAndACK"];
/// number of TLV fields per message (for the presence mask)
fn n_tlvs(name: &str) -> u32 {
	match name {
		"SpliceInit" | "SpliceAck" | "TxInitRbf" | "TxAckRbf" | "ClosingSigned" | "CommitmentSigned" | "ChannelReady"
		| "UpdateFailHTLC" | "UpdateFulfillHTLC" | "StartBatch" | "TxAddInput" | "TxSignatures" | "RevokeAndACK" => 1,
		"ChannelReestablish" | "OpenChannel" | "AcceptChannel" | "Init" => 2,
		"ClosingComplete" | "ClosingSig" => 3,
		"UpdateAddHTLC" | "OpenChannelV2" | "AcceptChannelV2" => 4,
		_ => 0,
	}
}

/// Build message `name` from the PRNG with the TLVs selected by `mask`; returns its real encoding.
/// All random draws are independent of `mask` (so the same PRNG state with mask 0 gives the same
/// fixed part).  Also runs the impl oracle decode(encode(m)) == m.
fn build(name: &str, g: &G, r: &mut Rng, mask: u32, fails: &mut Vec<String>) -> Vec<u8> {
	macro_rules! fin {
		($m: expr, $t: ty) => {{
			let m: $t = $m;
			let e = m.encode();
			let back = <$t as LengthReadable>::read_from_fixed_length_buffer(&mut &e[..]);
			if back.as_ref().ok() != Some(&m) {
				fails.push(format!("decode(encode(m)) != m for {} m={:?} bytes={} got={:?}", name, m, hex(&e), back));
			}
			e
		}};
	}
	match name {
		"Stfu" => fin!(msgs::Stfu { channel_id: g.cid(r), initiator: r.chance(1, 2) }, msgs::Stfu),
		"SpliceInit" => fin!(msgs::SpliceInit { channel_id: g.cid(r), funding_contribution_satoshis: g.i64b(r), funding_feerate_per_kw: g.u32b(r), locktime: g.u32b(r), funding_pubkey: g.pk(r), require_confirmed_inputs: opt(mask, 0, ()) }, msgs::SpliceInit),
		"SpliceAck" => fin!(msgs::SpliceAck { channel_id: g.cid(r), funding_contribution_satoshis: g.i64b(r), funding_pubkey: g.pk(r), require_confirmed_inputs: opt(mask, 0, ()) }, msgs::SpliceAck),
		"SpliceLocked" => fin!(msgs::SpliceLocked { channel_id: g.cid(r), splice_txid: g.txid(r) }, msgs::SpliceLocked),
		"TxAddOutput" => fin!(msgs::TxAddOutput { channel_id: g.cid(r), serial_id: g.u64b(r), sats: g.u64b(r), script: g.script(r) }, msgs::TxAddOutput),
		"TxRemoveInput" => fin!(msgs::TxRemoveInput { channel_id: g.cid(r), serial_id: g.u64b(r) }, msgs::TxRemoveInput),
		"TxRemoveOutput" => fin!(msgs::TxRemoveOutput { channel_id: g.cid(r), serial_id: g.u64b(r) }, msgs::TxRemoveOutput),
		"TxComplete" => fin!(msgs::TxComplete { channel_id: g.cid(r) }, msgs::TxComplete),
		"TxInitRbf" => { let v = g.i64b(r); fin!(msgs::TxInitRbf { channel_id: g.cid(r), locktime: g.u32b(r), feerate_sat_per_1000_weight: g.u32b(r), funding_output_contribution: opt(mask, 0, v) }, msgs::TxInitRbf) },
		"TxAckRbf" => { let v = g.i64b(r); fin!(msgs::TxAckRbf { channel_id: g.cid(r), funding_output_contribution: opt(mask, 0, v) }, msgs::TxAckRbf) },
		"TxAbort" => fin!(msgs::TxAbort { channel_id: g.cid(r), data: g.vecu8(r, 300) }, msgs::TxAbort),
		"AnnouncementSignatures" => fin!(msgs::AnnouncementSignatures { channel_id: g.cid(r), short_channel_id: g.u64b(r), node_signature: g.sig(r), bitcoin_signature: g.sig(r) }, msgs::AnnouncementSignatures),
		"ChannelReestablish" => {
			let nf = msgs::NextFunding { txid: g.txid(r), retransmit_flags: r.next() as u8 };
			let fl = msgs::FundingLocked { txid: g.txid(r), retransmit_flags: r.next() as u8 };
			fin!(msgs::ChannelReestablish { channel_id: g.cid(r), next_local_commitment_number: g.u64b(r), next_remote_commitment_number: g.u64b(r), your_last_per_commitment_secret: g.b32(r), my_current_per_commitment_point: g.pk(r), next_funding: opt(mask, 0, nf), my_current_funding_locked: opt(mask, 1, fl) }, msgs::ChannelReestablish)
		},
		"ClosingSigned" => { let fr = msgs::ClosingSignedFeeRange { min_fee_satoshis: g.u64b(r), max_fee_satoshis: g.u64b(r) }; fin!(msgs::ClosingSigned { channel_id: g.cid(r), fee_satoshis: g.u64b(r), signature: g.sig(r), fee_range: opt(mask, 0, fr) }, msgs::ClosingSigned) },
		"ClosingComplete" => { let (a, b, c) = (g.sig(r), g.sig(r), g.sig(r)); fin!(msgs::ClosingComplete { channel_id: g.cid(r), closer_scriptpubkey: g.script(r), closee_scriptpubkey: g.script(r), fee_satoshis: g.u64b(r), locktime: g.u32b(r), closer_output_only: opt(mask, 0, a), closee_output_only: opt(mask, 1, b), closer_and_closee_outputs: opt(mask, 2, c) }, msgs::ClosingComplete) },
		"ClosingSig" => { let (a, b, c) = (g.sig(r), g.sig(r), g.sig(r)); fin!(msgs::ClosingSig { channel_id: g.cid(r), closer_scriptpubkey: g.script(r), closee_scriptpubkey: g.script(r), fee_satoshis: g.u64b(r), locktime: g.u32b(r), closer_output_only: opt(mask, 0, a), closee_output_only: opt(mask, 1, b), closer_and_closee_outputs: opt(mask, 2, c) }, msgs::ClosingSig) },
		"CommitmentSigned" => {
			let n = match r.below(5) { 0 => 0, 1 => 1, _ => r.below(12) as usize };
			let sigs: Vec<Signature> = (0..n).map(|_| g.sig(r)).collect();
			let t = g.txid(r);
			fin!(msgs::CommitmentSigned { channel_id: g.cid(r), signature: g.sig(r), htlc_signatures: sigs, funding_txid: opt(mask, 0, t) }, msgs::CommitmentSigned)
		},
		"FundingCreated" => fin!(msgs::FundingCreated { temporary_channel_id: g.cid(r), funding_txid: g.txid(r), funding_output_index: g.u16b(r), signature: g.sig(r) }, msgs::FundingCreated),
		"FundingSigned" => fin!(msgs::FundingSigned { channel_id: g.cid(r), signature: g.sig(r) }, msgs::FundingSigned),
		"ChannelReady" => { let a = g.u64b(r); fin!(msgs::ChannelReady { channel_id: g.cid(r), next_per_commitment_point: g.pk(r), short_channel_id_alias: opt(mask, 0, a) }, msgs::ChannelReady) },
		"Shutdown" => fin!(msgs::Shutdown { channel_id: g.cid(r), scriptpubkey: g.script(r) }, msgs::Shutdown),
		"UpdateFailHTLC" => {
			// crate-private `reason`: assemble the bytes by hand, decode with the real decoder, re-encode
			let mut b = g.b32(r).to_vec();
			b.extend_from_slice(&g.u64b(r).to_be_bytes());
			let reason = g.vecu8(r, 300);
			b.extend_from_slice(&(reason.len() as u16).to_be_bytes());
			b.extend_from_slice(&reason);
			let ad = r.bytes(920);
			if mask & 1 != 0 { b.push(1); b.extend_from_slice(&[0xfd, 0x03, 0x98]); b.extend_from_slice(&ad); }
			match <msgs::UpdateFailHTLC as LengthReadable>::read_from_fixed_length_buffer(&mut &b[..]) {
				Ok(m) => fin!(m, msgs::UpdateFailHTLC),
				Err(e) => { fails.push(format!("hand-assembled UpdateFailHTLC does not decode: {:?} {}", e, hex(&b))); b },
			}
		},
		"UpdateFailMalformedHTLC" => {
			let mut b = g.b32(r).to_vec();
			b.extend_from_slice(&g.u64b(r).to_be_bytes());
			b.extend_from_slice(&g.b32(r));
			b.extend_from_slice(&g.u16b(r).to_be_bytes());
			match <msgs::UpdateFailMalformedHTLC as LengthReadable>::read_from_fixed_length_buffer(&mut &b[..]) {
				Ok(m) => fin!(m, msgs::UpdateFailMalformedHTLC),
				Err(e) => { fails.push(format!("hand-assembled UpdateFailMalformedHTLC does not decode: {:?} {}", e, hex(&b))); b },
			}
		},
		"UpdateFee" => fin!(msgs::UpdateFee { channel_id: g.cid(r), feerate_per_kw: g.u32b(r) }, msgs::UpdateFee),
		"UpdateFulfillHTLC" => { let ad = g.attribution(r); fin!(msgs::UpdateFulfillHTLC { channel_id: g.cid(r), htlc_id: g.u64b(r), payment_preimage: PaymentPreimage(g.b32(r)), attribution_data: opt(mask, 0, ad) }, msgs::UpdateFulfillHTLC) },
		"PeerStorage" => fin!(msgs::PeerStorage { data: g.vecu8(r, 1200) }, msgs::PeerStorage),
		"PeerStorageRetrieval" => fin!(msgs::PeerStorageRetrieval { data: g.vecu8(r, 1200) }, msgs::PeerStorageRetrieval),
		"StartBatch" => { let t = g.u16b(r); fin!(msgs::StartBatch { channel_id: g.cid(r), batch_size: g.u16b(r), message_type: opt(mask, 0, t) }, msgs::StartBatch) },
		"UpdateAddHTLC" => {
			let (bp, sk, acc) = (g.pk(r), g.u64b(r), r.chance(1, 2));
			fin!(msgs::UpdateAddHTLC { channel_id: g.cid(r), htlc_id: g.u64b(r), amount_msat: g.u64b(r), payment_hash: PaymentHash(g.b32(r)), cltv_expiry: g.u32b(r), skimmed_fee_msat: opt(mask, 1, sk), onion_routing_packet: g.onion(r), blinding_point: opt(mask, 0, bp), hold_htlc: opt(mask, 2, ()), accountable: opt(mask, 3, acc) }, msgs::UpdateAddHTLC)
		},
		"ReplyShortChannelIdsEnd" => fin!(msgs::ReplyShortChannelIdsEnd { chain_hash: bitcoin::constants::ChainHash::from(g.b32(r)), full_information: r.chance(1, 2) }, msgs::ReplyShortChannelIdsEnd),
		"QueryChannelRange" => fin!(msgs::QueryChannelRange { chain_hash: bitcoin::constants::ChainHash::from(g.b32(r)), first_blocknum: g.u32b(r), number_of_blocks: g.u32b(r) }, msgs::QueryChannelRange),
		"GossipTimestampFilter" => fin!(msgs::GossipTimestampFilter { chain_hash: bitcoin::constants::ChainHash::from(g.b32(r)), first_timestamp: g.u32b(r), timestamp_range: g.u32b(r) }, msgs::GossipTimestampFilter),
		"OpenChannel" | "OpenChannelV2" => {
			let (script, ct) = (g.script(r), g.chan_type(r));
			let common_fields = msgs::CommonOpenChannelFields { chain_hash: bitcoin::constants::ChainHash::from(g.b32(r)), temporary_channel_id: g.cid(r), funding_satoshis: g.u64b(r), dust_limit_satoshis: g.u64b(r),
				max_htlc_value_in_flight_msat: g.u64b(r), htlc_minimum_msat: g.u64b(r), commitment_feerate_sat_per_1000_weight: g.u32b(r), to_self_delay: g.u16b(r), max_accepted_htlcs: g.u16b(r), funding_pubkey: g.pk(r),
				revocation_basepoint: g.pk(r), payment_basepoint: g.pk(r), delayed_payment_basepoint: g.pk(r), htlc_basepoint: g.pk(r), first_per_commitment_point: g.pk(r), channel_flags: r.next() as u8,
				shutdown_scriptpubkey: opt(mask, 0, script), channel_type: opt(mask, 1, ct) };
			if name == "OpenChannel" { fin!(msgs::OpenChannel { common_fields, push_msat: g.u64b(r), channel_reserve_satoshis: g.u64b(r) }, msgs::OpenChannel) }
			else { fin!(msgs::OpenChannelV2 { common_fields, funding_feerate_sat_per_1000_weight: g.u32b(r), locktime: g.u32b(r), second_per_commitment_point: g.pk(r), require_confirmed_inputs: opt(mask, 2, ()), disable_channel_reserve: opt(mask, 3, ()) }, msgs::OpenChannelV2) }
		},
		"AcceptChannel" | "AcceptChannelV2" => {
			let (script, ct) = (g.script(r), g.chan_type(r));
			let common_fields = msgs::CommonAcceptChannelFields { temporary_channel_id: g.cid(r), dust_limit_satoshis: g.u64b(r), max_htlc_value_in_flight_msat: g.u64b(r), htlc_minimum_msat: g.u64b(r), minimum_depth: g.u32b(r),
				to_self_delay: g.u16b(r), max_accepted_htlcs: g.u16b(r), funding_pubkey: g.pk(r), revocation_basepoint: g.pk(r), payment_basepoint: g.pk(r), delayed_payment_basepoint: g.pk(r), htlc_basepoint: g.pk(r),
				first_per_commitment_point: g.pk(r), shutdown_scriptpubkey: opt(mask, 0, script), channel_type: opt(mask, 1, ct) };
			if name == "AcceptChannel" { fin!(msgs::AcceptChannel { common_fields, channel_reserve_satoshis: g.u64b(r) }, msgs::AcceptChannel) }
			else { fin!(msgs::AcceptChannelV2 { common_fields, funding_satoshis: g.u64b(r), second_per_commitment_point: g.pk(r), require_confirmed_inputs: opt(mask, 2, ()), disable_channel_reserve: opt(mask, 3, ()) }, msgs::AcceptChannelV2) }
		},
		"UnsignedChannelAnnouncement" => fin!(g.chan_ann(r), msgs::UnsignedChannelAnnouncement),
		"ChannelAnnouncement" => fin!(msgs::ChannelAnnouncement { node_signature_1: g.sig(r), node_signature_2: g.sig(r), bitcoin_signature_1: g.sig(r), bitcoin_signature_2: g.sig(r), contents: g.chan_ann(r) }, msgs::ChannelAnnouncement),
		"UnsignedChannelUpdate" => fin!(g.chan_upd(r), msgs::UnsignedChannelUpdate),
		"ChannelUpdate" => fin!(msgs::ChannelUpdate { signature: g.sig(r), contents: g.chan_upd(r) }, msgs::ChannelUpdate),
		"ErrorMessage" => fin!(msgs::ErrorMessage { channel_id: g.cid(r), data: g.text(r) }, msgs::ErrorMessage),
		"WarningMessage" => fin!(msgs::WarningMessage { channel_id: g.cid(r), data: g.text(r) }, msgs::WarningMessage),
		"Ping" => fin!(msgs::Ping { ponglen: g.u16b(r), byteslen: g.padlen(r) }, msgs::Ping),
		"Pong" => fin!(msgs::Pong { byteslen: g.padlen(r) }, msgs::Pong),
		"TxAddInput" => {
			let t = g.txid(r);
			let prevtx = if r.chance(1, 4) { None } else { Some(g.tx(r)) };
			fin!(msgs::TxAddInput { channel_id: g.cid(r), serial_id: g.u64b(r), prevtx, prevtx_out: g.u32b(r), sequence: g.u32b(r), shared_input_txid: opt(mask, 0, t) }, msgs::TxAddInput)
		},
		"TxSignatures" => {
			let sg = g.sig(r);
			let n = match r.below(4) { 0 => 0, 1 => 1, _ => r.below(5) as usize };
			let witnesses = (0..n).map(|_| g.witness(r)).collect();
			fin!(msgs::TxSignatures { channel_id: g.cid(r), tx_hash: g.txid(r), witnesses, shared_input_signature: opt(mask, 0, sg) }, msgs::TxSignatures)
		},
		"RevokeAndACK" => {
			use lightning::blinded_path::{message::BlindedMessagePath, BlindedHop};
			let np = match r.below(3) { 0 => 1, 1 => 2, _ => 1 + r.below(4) as usize };
			let paths: Vec<(u64, BlindedMessagePath)> = (0..np).map(|_| {
				let nh = match r.below(24) { 0 => 255, 1 => 1, _ => 1 + r.below(3) as usize };
				let hops: Vec<BlindedHop> = (0..nh).map(|_| BlindedHop { blinded_node_id: g.pk(r), encrypted_payload: if nh > 100 { vec![] } else { g.vecu8(r, 60) } }).collect();
				let id = g.u64b(r);
				if r.chance(1, 2) { (id, BlindedMessagePath::from_blinded_path(g.pk(r), g.pk(r), hops)) }
				else {
					// DirectedShortChannelId introduction node: no public constructor — decode hand-assembled bytes with the real reader
					let mut b = vec![r.below(2) as u8]; b.extend_from_slice(&g.u64b(r).to_be_bytes()); b.extend_from_slice(&g.pk(r).serialize()); b.push(nh as u8);
					for h in &hops { b.extend(h.encode()); }
					match <BlindedMessagePath as Readable>::read(&mut &b[..]) { Ok(p) => (id, p), Err(e) => { fails.push(format!("hand-assembled BlindedMessagePath does not decode: {:?} {}", e, hex(&b))); (id, BlindedMessagePath::from_blinded_path(g.pk(r), g.pk(r), hops)) } }
				}
			}).collect();
			fin!(msgs::RevokeAndACK { channel_id: g.cid(r), per_commitment_secret: g.b32(r), next_per_commitment_point: g.pk(r), release_htlc_message_paths: if mask & 1 != 0 { paths } else { vec![] } }, msgs::RevokeAndACK)
		},
		"OnionMessage" => {
			let n = match r.below(10) { 0 => 0, 1 => 1, 2 => 1300, 3 => 4096, 4 => 4097, _ => r.below(200) as usize };
			fin!(msgs::OnionMessage { blinding_point: g.pk(r), onion_routing_packet: lightning::onion_message::packet::Packet { version: if r.chance(1, 2) { 0 } else { r.next() as u8 }, public_key: g.pk(r), hop_data: r.bytes(n), hmac: g.b32(r) } }, msgs::OnionMessage)
		},
		"Init" => {
			let nf = match r.below(6) { 0 => 0, 1 => 1, 2 => 2, 3 => 3, _ => r.below(14) as usize };
			let features = match r.below(4) { 0 => lightning::types::features::InitFeatures::from_be_bytes({ let mut b = r.bytes(nf); if !b.is_empty() && r.chance(1, 2) { b[0] = 0; } b }), _ => lightning::types::features::InitFeatures::from_be_bytes(r.bytes(nf)) };
			let nn = match r.below(4) { 0 => 0, 1 => 1, _ => r.below(4) as usize };
			let nets: Vec<bitcoin::constants::ChainHash> = (0..nn).map(|_| bitcoin::constants::ChainHash::from(g.b32(r))).collect();
			let addr = g.sock_addr(r);
			fin!(msgs::Init { features, networks: opt(mask, 0, nets), remote_network_address: opt(mask, 1, addr) }, msgs::Init)
		},
		"UnsignedNodeAnnouncement" => fin!(g.node_ann(r), msgs::UnsignedNodeAnnouncement),
		"NodeAnnouncement" => fin!(msgs::NodeAnnouncement { signature: g.sig(r), contents: g.node_ann(r) }, msgs::NodeAnnouncement),
		"QueryShortChannelIds" => fin!(msgs::QueryShortChannelIds { chain_hash: bitcoin::constants::ChainHash::from(g.b32(r)), short_channel_ids: g.scids(r) }, msgs::QueryShortChannelIds),
		"ReplyChannelRange" => fin!(msgs::ReplyChannelRange { chain_hash: bitcoin::constants::ChainHash::from(g.b32(r)), first_blocknum: g.u32b(r), number_of_blocks: g.u32b(r), sync_complete: r.chance(1, 2), short_channel_ids: g.scids(r) }, msgs::ReplyChannelRange),
		_ => panic!("no builder for {}", name),
	}
}

/// Run the real decoder of `T` on `bytes`; answer line + impl-side oracle.
fn dec_t<T: LengthReadable + Writeable + PartialEq + std::fmt::Debug>(name: &str, bytes: &[u8], fails: &mut Vec<String>) -> String {
	dec_s::<T>(name, bytes, fails, &|_, _, _| (String::new(), vec![]))
}

/// … `structure(message, input, re-encoding)` returns the structure suffix of the answer line and the violations of the
/// message-specific impl-side oracles (canonical form, declared lengths)
fn dec_s<T: LengthReadable + Writeable + PartialEq + std::fmt::Debug>(name: &str, bytes: &[u8], fails: &mut Vec<String>, structure: &dyn Fn(&T, &[u8], &[u8]) -> (String, Vec<String>)) -> String {
	let r = guarded(AssertUnwindSafe(|| {
		let mut s = bytes;
		<T as LengthReadable>::read_from_fixed_length_buffer(&mut s).map(|m| {
			let e = m.encode();
			let again = <T as LengthReadable>::read_from_fixed_length_buffer(&mut &e[..]);
			let stable = again.as_ref().ok() == Some(&m);
			let (suffix, bad) = structure(&m, bytes, &e);
			(e, stable, format!("{:?}", again.as_ref().err()), suffix, bad)
		})
	}));
	match r {
		Err(p) => { fails.push(format!("panic decoding {} from {}: {}", name, hex(bytes), p)); format!("panic {}", p.replace('\n', " ")) },
		Ok(Err(e)) => format!("err {}", err_name(&e)),
		Ok(Ok((e, stable, why, suffix, bad))) => {
			if !stable { fails.push(format!("re-encoding of decoded {} does not decode to an equal message: input={} reencoded={} ({})", name, hex(bytes), hex(&e), why)); }
			for b in bad { fails.push(format!("{} {}: input={} reencoded={}", name, b, hex(bytes), hex(&e))); }
			format!("ok {}{}", hex(&e), suffix)
		},
	}
}

/// `wire::Message` variant name -> name of the `msgs` struct it carries (they differ for two variants)
fn struct_name(variant: &str) -> &str { match variant { "Error" => "ErrorMessage", "Warning" => "WarningMessage", v => v } }

fn addr_id(a: &msgs::SocketAddress) -> u8 {
	use msgs::SocketAddress as A;
	match a { A::TcpIpV4 { .. } => 1, A::TcpIpV6 { .. } => 2, A::OnionV2(_) => 3, A::OnionV3 { .. } => 4, A::Hostname { .. } => 5 }
}

/// position of the `addrlen` field of an (Unsigned)NodeAnnouncement encoding (`sig` = 64 for the signed message): after
/// signature, features (u16 length + bytes), timestamp, node_id, rgb, alias.  Computed from the bytes alone.
fn addrlen_pos(b: &[u8], sig: usize) -> Option<usize> {
	let flen = u16::from_be_bytes([*b.get(sig)?, *b.get(sig + 1)?]) as usize;
	let pos = sig + 2 + flen + 4 + 33 + 3 + 32;
	if pos + 2 <= b.len() { Some(pos) } else { None }
}

/// impl-side oracles for an ACCEPTED node_announcement (independent of the model, of `SocketAddress::len` and of the reader's
/// own bookkeeping — descriptor sizes come from `Writeable::serialized_length`):
/// * the declared `addrlen` is exactly the number of bytes of the parsed address descriptors plus excess_address_data (the
///   decoder did not read an address past the declared length, nor leave part of the declared region unaccounted for);
/// * header + 2 + addrlen + excess_data is the whole input (nothing was dropped, nothing was read twice);
/// * the accepted bytes are the canonical encoding: every field is kept verbatim, so encode(decode(b)) == b.
fn node_ann_structure(c: &msgs::UnsignedNodeAnnouncement, sig: usize, input: &[u8], reenc: &[u8]) -> (String, Vec<String>) {
	let mut bad = vec![];
	match addrlen_pos(input, sig) {
		None => bad.push("accepted although the input ends before the addrlen field".to_string()),
		Some(pos) => {
			let declared = u16::from_be_bytes([input[pos], input[pos + 1]]) as usize;
			let occupied: usize = c.addresses.iter().map(|a| a.serialized_length()).sum::<usize>() + c.excess_address_data.len();
			if declared != occupied { bad.push(format!("accepted with declared addrlen {} but the parsed address descriptors + excess_address_data occupy {} bytes (addresses {:?})", declared, occupied, c.addresses)); }
			if pos + 2 + occupied + c.excess_data.len() != input.len() { bad.push(format!("accepted but header {} + addrlen field + {} address bytes + {} excess bytes != input length {}", pos, occupied, c.excess_data.len(), input.len())); }
		},
	}
	if reenc != input { bad.push("accepted bytes are not the canonical encoding (encode(decode(b)) != b)".to_string()); }
	(format!(" a={} x={} e={}", c.addresses.iter().map(|a| addr_id(a).to_string()).collect::<Vec<_>>().join(","), c.excess_address_data.len(), c.excess_data.len()), bad)
}

/// impl-side oracles for an accepted QueryShortChannelIds / ReplyChannelRange (`hdr` = bytes before `encoding_len`): the declared
/// `encoding_len` is exactly 1 + 8·(number of ids returned), the encoding type byte is 0, and the re-encoding is the prefix of the
/// input that the declared length covers (bytes after the list are not part of the message)
fn scid_structure(n: usize, hdr: usize, input: &[u8], reenc: &[u8]) -> (String, Vec<String>) {
	let mut bad = vec![];
	if input.len() < hdr + 3 { bad.push("accepted although the input ends before the encoding type".to_string()); }
	else {
		let declared = u16::from_be_bytes([input[hdr], input[hdr + 1]]) as usize;
		if declared != 1 + 8 * n { bad.push(format!("accepted with declared encoding_len {} but {} ids were returned", declared, n)); }
		if input[hdr + 2] != 0 { bad.push(format!("accepted with encoding type {}", input[hdr + 2])); }
		if input.len() < hdr + 2 + declared || reenc != &input[..hdr + 2 + declared] { bad.push("re-encoding is not the prefix of the input covered by encoding_len".to_string()); }
	}
	(format!(" n={}", n), bad)
}

fn dec(name: &str, bytes: &[u8], fails: &mut Vec<String>) -> String {
	match name {
		"UnsignedNodeAnnouncement" => return dec_s::<msgs::UnsignedNodeAnnouncement>(name, bytes, fails, &|m, i, e| node_ann_structure(m, 0, i, e)),
		"NodeAnnouncement" => return dec_s::<msgs::NodeAnnouncement>(name, bytes, fails, &|m, i, e| node_ann_structure(&m.contents, 64, i, e)),
		"QueryShortChannelIds" => return dec_s::<msgs::QueryShortChannelIds>(name, bytes, fails, &|m, i, e| scid_structure(m.short_channel_ids.len(), 32, i, e)),
		"ReplyChannelRange" => return dec_s::<msgs::ReplyChannelRange>(name, bytes, fails, &|m, i, e| scid_structure(m.short_channel_ids.len(), 41, i, e)),
		"Init" => return dec_t::<msgs::Init>(name, bytes, fails),
		// oracle: every declared u16 witness length is the consensus size of the witness returned, and count + lengths + witnesses are the bytes after the header
		"TxSignatures" => return dec_s::<msgs::TxSignatures>(name, bytes, fails, &|m, i, _| {
			let mut bad = vec![];
			let mut pos = 66usize;
			if i.len() < 66 || get_u16(i, 64) as usize != m.witnesses.len() { bad.push(format!("accepted with a declared witness count that is not the {} witnesses returned", m.witnesses.len())); }
			for w in &m.witnesses {
				if pos + 2 > i.len() { bad.push("accepted although the input ends before a witness length".to_string()); break; }
				let declared = get_u16(i, pos) as usize;
				let have = bitcoin::consensus::serialize(w).len();
				if declared != have || w.size() != have { bad.push(format!("accepted with declared witness length {} but the witness returned occupies {} bytes (size() = {})", declared, have, w.size())); }
				pos += 2 + have;
			}
			(format!(" w={}", m.witnesses.iter().map(|w| w.len().to_string()).collect::<Vec<_>>().join(",")), bad)
		}),
		"RevokeAndACK" => return dec_s::<msgs::RevokeAndACK>(name, bytes, fails, &|m, _, _| {
			(format!(" p={}", m.release_htlc_message_paths.iter().map(|(_, p)| p.blinded_hops().len().to_string()).collect::<Vec<_>>().join(",")),
			 if m.release_htlc_message_paths.iter().any(|(_, p)| p.blinded_hops().is_empty()) { vec!["accepted a blinded path without hops".to_string()] } else { vec![] })
		}),
		// oracle: the declared prevtx length (u16 after channel_id and serial_id) is exactly the serialized length of the transaction returned
		"TxAddInput" => return dec_s::<msgs::TxAddInput>(name, bytes, fails, &|m, i, _| {
			let declared = if i.len() >= 42 { u16::from_be_bytes([i[40], i[41]]) as usize } else { usize::MAX };
			let have = m.prevtx.as_ref().map(|t| t.serialized_length()).unwrap_or(0);
			let t = match &m.prevtx { None => "none".to_string(), Some(t) => format!("{},{},{}", t.input.len(), t.output.len(), t.input.iter().map(|x| x.witness.len()).sum::<usize>()) };
			(format!(" t={}", t), if declared != have { vec![format!("accepted with declared prevtx length {} but the transaction returned occupies {} bytes", declared, have)] } else { vec![] })
		}),
		// oracles: the declared packet length is exactly 66 + hop data, and the re-encoding is the prefix of the input it covers
		"OnionMessage" => return dec_s::<msgs::OnionMessage>(name, bytes, fails, &|m, i, e| {
			let mut bad = vec![];
			let h = m.onion_routing_packet.hop_data.len();
			if i.len() < 35 { bad.push("accepted although the input ends before the packet length".to_string()); }
			else {
				let declared = u16::from_be_bytes([i[33], i[34]]) as usize;
				if declared != 66 + h { bad.push(format!("accepted with declared packet length {} but the packet occupies {} bytes", declared, 66 + h)); }
				if i.len() < 35 + declared || e != &i[..35 + declared] { bad.push("re-encoding is not the prefix of the input covered by the packet length".to_string()); }
			}
			(format!(" h={}", h), bad)
		}),
		_ => {},
	}
	macro_rules! table { ($($n: ident),*) => { match name { $(stringify!($n) => dec_t::<msgs::$n>(name, bytes, fails),)* _ => panic!("no decoder for {}", name) } } }
	table!(Stfu, SpliceInit, SpliceAck, SpliceLocked, TxAddOutput, TxRemoveInput, TxRemoveOutput, TxComplete, TxInitRbf, TxAckRbf,
		TxAbort, AnnouncementSignatures, ChannelReestablish, ClosingSigned, ClosingComplete, ClosingSig, CommitmentSigned,
		FundingCreated, FundingSigned, ChannelReady, Shutdown, UpdateFailHTLC, UpdateFailMalformedHTLC, UpdateFee,
		UpdateFulfillHTLC, PeerStorage, PeerStorageRetrieval, StartBatch, UpdateAddHTLC, ReplyShortChannelIdsEnd,
		QueryChannelRange, GossipTimestampFilter, OpenChannel, AcceptChannel, OpenChannelV2, AcceptChannelV2,
		UnsignedChannelAnnouncement, ChannelAnnouncement, UnsignedChannelUpdate, ChannelUpdate, ErrorMessage, WarningMessage, Ping, Pong)
}

fn rb(r: &mut Rng, max: u64) -> Vec<u8> { let n = r.below(max) as usize; r.bytes(n) }
fn bigsize_bytes(n: u64) -> Vec<u8> { BigSize(n).encode() }

/// split a well-formed TLV stream into raw records (type, value); None if it is not well framed
fn split_tlvs(mut b: &[u8]) -> Option<Vec<(u64, Vec<u8>)>> {
	let mut out = vec![];
	while !b.is_empty() {
		let t: BigSize = Readable::read(&mut b).ok()?;
		let l: BigSize = Readable::read(&mut b).ok()?;
		if (b.len() as u64) < l.0 { return None; }
		out.push((t.0, b[..l.0 as usize].to_vec()));
		b = &b[l.0 as usize..];
	}
	Some(out)
}
fn join_tlvs(recs: &[(u64, Vec<u8>)]) -> Vec<u8> {
	let mut out = vec![];
	for (t, v) in recs { out.extend(bigsize_bytes(*t)); out.extend(bigsize_bytes(v.len() as u64)); out.extend_from_slice(v); }
	out
}
/// a deliberately non-minimal BigSize encoding of n (None if n is too large for the chosen width)
fn non_minimal(n: u64, r: &mut Rng) -> Vec<u8> {
	match r.below(3) {
		0 if n <= 0xffff => { let mut v = vec![0xfd]; v.extend_from_slice(&(n as u16).to_be_bytes()); if n >= 0xfd { vec![0xfe, 0, 0, (n >> 8) as u8, n as u8] } else { v } },
		1 if n <= 0xffff_ffff => { let mut v = vec![0xfe]; v.extend_from_slice(&(n as u32).to_be_bytes()); if n >= 0x10000 { let mut w = vec![0xff]; w.extend_from_slice(&n.to_be_bytes()); w } else { v } },
		_ => { let mut v = vec![0xff]; v.extend_from_slice(&n.to_be_bytes()); if n >= 0x1_0000_0000 { vec![0xff, 0, 0, 0, 0, 0, 0, 0, 1] } else { v } },
	}
}

/// descriptors of a well-formed address region: (offset of the type byte, total length, offset of the hostname length byte)
fn walk_descriptors(b: &[u8], start: usize, len: usize) -> Vec<(usize, usize, Option<usize>)> {
	let (mut out, mut o) = (vec![], start);
	while o < start + len && o < b.len() {
		let l = match b[o] { 1 => 7, 2 => 19, 3 => 13, 4 => 38, 5 => match b.get(o + 1) { Some(h) => 4 + *h as usize, None => break }, _ => break };
		if o + l > b.len() { break; }
		out.push((o, l, if b[o] == 5 { Some(o + 1) } else { None }));
		o += l;
	}
	out
}

fn set_u16(b: &mut [u8], pos: usize, v: u16) { b[pos] = (v >> 8) as u8; b[pos + 1] = v as u8; }
fn get_u16(b: &[u8], pos: usize) -> u16 { u16::from_be_bytes([b[pos], b[pos + 1]]) }

/// Structure-aware malformed stream for the custom codecs, from a valid encoding `full`: EVERY length field (features length,
/// addrlen, hostname lengths / encoding_len) perturbed by ±1, ±2 (and 0, max, ±8); every descriptor type byte / the encoding type
/// set to every small value and 255; addrlen set to cover exactly k descriptors, and k descriptors ± 1 byte, for every k;
/// a byte deleted / inserted at every descriptor boundary with and without adjusting addrlen; truncation at every offset
/// (`exhaustive`, else around the length fields and the tail + a sample); single-bit mutations of every byte from the first
/// length field on (`exhaustive`, else a sample); extensions.
fn custom_mutations(name: &str, full: &[u8], rng: &mut Rng, exhaustive: bool) -> Vec<(Vec<u8>, &'static str)> {
	let mut out: Vec<(Vec<u8>, &'static str)> = vec![];
	let long = full.len() > 1500;
	let deltas: [i32; 4] = [-2, -1, 1, 2];
	let (first_len_field, fields16): (usize, Vec<usize>);
	let mut fields8: Vec<usize> = vec![];
	let mut boundaries: Vec<usize> = vec![];
	let mut type_bytes: Vec<usize> = vec![];
	if name.ends_with("NodeAnnouncement") {
		let sig = if name == "NodeAnnouncement" { 64 } else { 0 };
		let pos = addrlen_pos(full, sig).expect("valid encoding");
		let declared = get_u16(full, pos) as usize;
		let ds = walk_descriptors(full, pos + 2, declared);
		first_len_field = sig; fields16 = vec![sig, pos];
		let mut covered = 0usize;
		boundaries.push(pos + 2);
		for (k, (o, l, h)) in ds.iter().enumerate() {
			type_bytes.push(*o);
			if let Some(h) = h { fields8.push(*h); }
			covered += l;
			boundaries.push(o + l);
			// addrlen covers exactly the first k+1 descriptors (valid: the rest is excess_data), or one / two bytes less or more
			for d in [-2i32, -1, 0, 1, 2] {
				let v = covered as i32 + d;
				if v >= 0 && v as usize != declared { let mut b = full.to_vec(); set_u16(&mut b, pos, v as u16); out.push((b, if d == 0 { "addrlen-covers-k" } else { "addrlen-k-off" })); }
			}
			let _ = k;
		}
		if declared > covered { type_bytes.push(pos + 2 + covered); }   // the unknown descriptor type that starts excess_address_data
		// a further valid descriptor after the declared region (it is excess_data), and the same with addrlen enlarged to include it / all but one byte
		let extra = msgs::SocketAddress::TcpIpV4 { addr: [1, 2, 3, 4], port: 5 }.encode();
		for d in [0usize, extra.len() - 1, extra.len(), extra.len() + 1] {
			let mut b = full[..pos + 2 + declared].to_vec(); b.extend_from_slice(&extra); b.extend_from_slice(&full[pos + 2 + declared..]);
			if declared + d <= 0xffff { set_u16(&mut b, pos, (declared + d) as u16); out.push((b, "insert-descriptor")); }
		}
	} else if name == "TxAddInput" {
		// channel_id, serial_id, then the u16 prevtx length (oracle-only message: no model answer, the declared-length oracle decides)
		first_len_field = 40; fields16 = vec![40];
		let declared = get_u16(full, 40) as usize;
		boundaries = vec![42, 42 + declared, 42 + declared + 4, 42 + declared + 8];
		if declared > 0 {
			// version | input count or segwit marker | flag or first txid byte | …: every small value in the count / marker / flag positions
			for o in [46usize, 47, 48] { if o < 42 + declared { type_bytes.push(o); } }
			boundaries.extend([46, 47, 42 + declared - 4]);
		}
	} else if name == "TxSignatures" {
		// channel_id, tx_hash, u16 witness count, then per witness a u16 length and the consensus-encoded witness
		first_len_field = 64;
		let n = get_u16(full, 64) as usize;
		let mut f = vec![64usize];
		let mut pos = 66usize;
		for _ in 0..n {
			if pos + 2 > full.len() { break; }
			f.push(pos); type_bytes.push(pos + 2);   // the witness's element count
			let l = get_u16(full, pos) as usize;
			if l > 1 { type_bytes.push(pos + 3); }   // the first element's length
			pos += 2 + l; boundaries.push(pos);
		}
		fields16 = f;
	} else if name == "OnionMessage" {
		first_len_field = 33; fields16 = vec![33];
		type_bytes.push(36);   // the tag byte of the packet's public key
		let declared = get_u16(full, 33) as usize;
		boundaries = vec![35, 36, 69, 35 + declared - 32, 35 + declared];
		for d in [-67i32, -66, -65, -33, -32, 32, 66] { let v = declared as i32 + d; if (0..=0xffff).contains(&v) { let mut b = full.to_vec(); set_u16(&mut b, 33, v as u16); out.push((b, "len16-off")); } }
		for v in [64u16, 65, 66, 67, 68] { let mut b = full.to_vec(); set_u16(&mut b, 33, v); out.push((b, "len16-set")); }
	} else {
		let hdr = if name == "QueryShortChannelIds" { 32 } else { 41 };
		first_len_field = hdr; fields16 = vec![hdr];
		type_bytes.push(hdr + 2);
		if name == "ReplyChannelRange" { type_bytes.push(40); }   // sync_complete: bool
		let declared = get_u16(full, hdr) as i32;
		for d in [-9i32, -8, -7, 7, 8, 9, 16] { let v = declared + d; if (0..=0xffff).contains(&v) { let mut b = full.to_vec(); set_u16(&mut b, hdr, v as u16); out.push((b, "len16-off8")); } }
		if !long { boundaries = (0..=(full.len() - hdr - 3) / 8).map(|k| hdr + 3 + 8 * k).collect(); }
	}
	for &f in &fields16 {
		let cur = get_u16(full, f) as i32;
		for d in deltas { let v = cur + d; if (0..=0xffff).contains(&v) { let mut b = full.to_vec(); set_u16(&mut b, f, v as u16); out.push((b, "len16-delta")); } }
		for v in [0u16, 1, 0xffff, 0x100, cur.wrapping_add(256) as u16] { if v as i32 != cur { let mut b = full.to_vec(); set_u16(&mut b, f, v); out.push((b, "len16-set")); } }
	}
	for &f in &fields8 {
		let cur = full[f] as i32;
		for d in deltas { let v = cur + d; if (0..=255).contains(&v) { let mut b = full.to_vec(); b[f] = v as u8; out.push((b, "len8-delta")); } }
		for v in [0u8, 255] { if v as i32 != cur { let mut b = full.to_vec(); b[f] = v; out.push((b, "len8-set")); } }
	}
	for &t in &type_bytes {
		for v in [0u8, 1, 2, 3, 4, 5, 6, 7, 255] { if t < full.len() && full[t] != v { let mut b = full.to_vec(); b[t] = v; out.push((b, "type-byte")); } }
	}
	for &o in &boundaries {
		if o > full.len() { continue; }
		for adjust in [false, true] {
			// delete the byte before the boundary / insert a byte at it; `adjust` keeps the first 16-bit length field after the header consistent
			let lf = *fields16.last().unwrap();
			if o > lf + 2 { let mut b = full.to_vec(); b.remove(o - 1); if adjust { let v = get_u16(&b, lf); set_u16(&mut b, lf, v.wrapping_sub(1)); } out.push((b, "delete-byte")); }
			let mut b = full.to_vec(); b.insert(o, rng.next() as u8); if adjust { let v = get_u16(&b, lf); set_u16(&mut b, lf, v.wrapping_add(1)); } out.push((b, "insert-byte"));
		}
	}
	// truncations
	let mut cuts: Vec<usize> = vec![];
	if exhaustive && !long { cuts.extend(0..full.len()); }
	else {
		for k in first_len_field.saturating_sub(2)..full.len() { if k <= first_len_field + 6 || full.len() - k <= 24 { cuts.push(k); } }
		for &f in &fields16 { for k in f.saturating_sub(1)..(f + 5).min(full.len()) { cuts.push(k); } }
		for &o in &boundaries { for k in o.saturating_sub(1)..(o + 2).min(full.len()) { cuts.push(k); } }
		for _ in 0..12 { cuts.push(rng.below(full.len() as u64) as usize); }
	}
	cuts.sort(); cuts.dedup();
	for k in cuts { out.push((full[..k].to_vec(), "trunc")); }
	// single-bit / single-byte mutations
	let mut offs: Vec<usize> = vec![];
	if exhaustive && !long { offs.extend(first_len_field..full.len()); for _ in 0..10 { offs.push(rng.below(full.len() as u64) as usize); } }
	else { for _ in 0..24 { offs.push(first_len_field + rng.below((full.len() - first_len_field) as u64) as usize); } for _ in 0..6 { offs.push(rng.below(full.len() as u64) as usize); } }
	for o in offs {
		let mut b = full.to_vec(); b[o] ^= 1 << rng.below(8); out.push((b, "flip-bit"));
		if exhaustive || rng.chance(1, 3) { let mut b = full.to_vec(); b[o] = match rng.below(4) { 0 => 0, 1 => 0xff, _ => rng.next() as u8 }; out.push((b, "flip-byte")); }
	}
	for n in 1..=3usize { let mut b = full.to_vec(); b.extend(rng.bytes(n)); out.push((b, "extend")); }
	out.push((rb(rng, full.len().min(300) as u64 + 20), "random"));
	if long { out = out.into_iter().enumerate().filter(|(i, _)| i % 4 == 0).map(|(_, x)| x).collect(); }   // 64 kB messages: a quarter of the stream
	out
}

struct Run<'a> { rec: Rec, fails: Vec<String>, g: &'a G, oracle_only: u64 }

impl<'a> Run<'a> {
	fn case_dec(&mut self, name: &str, bytes: &[u8], kind: &str) {
		if ORACLE_ONLY_NAMES.contains(&name) {
			let _ = dec(name, bytes, &mut self.fails);
			self.rec.directive(&format!("oracle {} {}", name, hex(bytes)));
			self.oracle_only += 1;
			self.flush_fails();
			return;
		}
		let ans = dec(name, bytes, &mut self.fails);
		let outcome = ans.split(' ').take(if ans.starts_with("err") { 2 } else { 1 }).collect::<Vec<_>>().join(":");
		self.rec.case(&format!("dec {} {}", name, hex(bytes)), &ans, &format!("{}:{}", kind, outcome), true);
		self.flush_fails();
	}
	fn flush_fails(&mut self) { for f in self.fails.drain(..) { self.rec.oracle_fail(f); } }
	/// op `tlvpe`: the real `encode_tlv_stream!` on the probe fields; oracle: the real `decode_tlv_stream!` reads the same fields back
	fn case_tlvpe(&mut self, a: u64, b: Option<u32>, c: u16, d: Option<u64>) {
		let f = |x: Option<u64>| x.map(|v| v.to_string()).unwrap_or("-".into());
		let op = format!("tlvpe {} {} {} {}", a, f(b.map(|x| x as u64)), c, f(d));
		let r = guarded(AssertUnwindSafe(|| tlv_probe_enc(a, b, c, d)));
		let ans = match &r {
			Err(p) => { self.rec.oracle_fail(format!("panic in encode_tlv_stream! on {}: {}", op, p)); format!("panic {}", p.replace('\n', " ")) },
			Ok(Err(_)) => "err Io".to_string(),
			Ok(Ok(bytes)) => {
				let back = guarded(AssertUnwindSafe(|| { let mut rd = &bytes[..]; tlv_probe(&mut rd) }));
				match back { Ok(Ok(v)) if v == (a, b, c, d) => {}, other => self.rec.oracle_fail(format!("decode_tlv_stream!(encode_tlv_stream!(fields)) != fields for `{}`: wrote {} read back {:?}", op, hex(bytes), other.map(|x| x.map_err(|e| err_name(&e))))) }
				hex(bytes)
			},
		};
		self.rec.case(&op, &ans, &format!("tlvpe:{}{}", if b.is_some() { "b" } else { "-" }, if d.is_some() { "d" } else { "-" }), true);
	}
	/// op `tlvp`: the real `decode_tlv_stream!` on a bare TLV stream. `recs` = the well-framed record list the bytes were made from
	/// (None for byte-level damage): the implementation-side oracle states the TLV rules on it without the Lean model.
	fn case_tlvp(&mut self, bytes: &[u8], recs: Option<&[(u64, Vec<u8>)]>, kind: &str) {
		let r = guarded(AssertUnwindSafe(|| { let mut rd = &bytes[..]; tlv_probe(&mut rd) }));
		let ans = match &r {
			Err(p) => { self.rec.oracle_fail(format!("panic in decode_tlv_stream! on {}: {}", hex(bytes), p)); format!("panic {}", p.replace('\n', " ")) },
			Ok(Err(e)) => format!("err {}", err_name(e)),
			Ok(Ok((a, b, c, d))) => format!("ok {} {} {} {}", a, b.map(|x| x.to_string()).unwrap_or("-".into()), c, d.map(|x| x.to_string()).unwrap_or("-".into())),
		};
		if let (Some(recs), Ok(res)) = (recs, &r) {
			let ascending = recs.windows(2).all(|w| w[0].0 < w[1].0);
			let unknown_even = recs.iter().any(|(t, _)| tlv_probe_width(*t).is_none() && t % 2 == 0);
			let bad_len = recs.iter().any(|(t, v)| tlv_probe_width(*t).map(|w| w != v.len()).unwrap_or(false));
			let has_req = [2u64, 6].iter().all(|q| recs.iter().any(|(t, _)| t == q));
			let expect_ok = ascending && !unknown_even && !bad_len && has_req;
			if res.is_ok() != expect_ok {
				self.rec.oracle_fail(format!("TLV stream rules violated by decode_tlv_stream! on {} (types {:?}): {} but ascending={} unknown_even={} wrong_length={} all_required_present={}",
					hex(bytes), recs.iter().map(|(t, _)| *t).collect::<Vec<_>>(), ans, ascending, unknown_even, bad_len, has_req));
			}
			if let Ok((a, b, c, d)) = res {
				let val = |t: u64| recs.iter().find(|(x, _)| *x == t).map(|(_, v)| v.iter().fold(0u64, |acc, x| (acc << 8) | *x as u64));
				if expect_ok && (Some(*a) != val(2) || b.map(|x| x as u64) != val(3) || Some(*c as u64) != val(6) || *d != val(9)) {
					self.rec.oracle_fail(format!("decode_tlv_stream! on {} returned {} but the records carry other values", hex(bytes), ans));
				}
			}
		}
		let outcome = ans.split(' ').take(if ans.starts_with("err") { 2 } else { 1 }).collect::<Vec<_>>().join(":");
		self.rec.case(&format!("tlvp {}", hex(bytes)), &ans, &format!("tlvp-{}:{}", kind, outcome), true);
	}
	/// op `tlvp` on EVERY prefix of a valid probe stream (both required types present, ascending, right widths, unknown odd types only):
	/// the `ReadTrackingReader` decision of `_decode_tlv_stream_range!`. Oracle: a cut at a record boundary is never ShortRead (ok iff both
	/// required records are before the cut, else InvalidValue); a cut anywhere inside a record (type, length or value) is ShortRead.
	fn case_tlvp_cuts(&mut self, recs: &[(u64, Vec<u8>)]) {
		let full = join_tlvs(recs);
		let mut ends = vec![0usize];
		for r in recs { let e = ends.last().unwrap() + join_tlvs(std::slice::from_ref(r)).len(); ends.push(e); }
		for k in 0..=full.len() {
			let bytes = &full[..k];
			let r = guarded(AssertUnwindSafe(|| { let mut rd = bytes; tlv_probe(&mut rd) }));
			let boundary = ends.iter().position(|e| *e == k);
			let got = match &r { Err(_) => "panic".to_string(), Ok(Err(e)) => err_name(e), Ok(Ok(_)) => "ok".to_string() };
			let want = match boundary {
				Some(j) => if [2u64, 6].iter().all(|q| recs[..j].iter().any(|(t, _)| t == q)) { "ok" } else { "InvalidValue" },
				None => "ShortRead",
			};
			if got != want {
				self.rec.oracle_fail(format!("end-of-stream rule violated by decode_tlv_stream! on the {}-byte prefix {} of the valid stream {} (record ends {:?}): {} but a cut {} must give {}",
					k, hex(bytes), hex(&full), ends, got, if boundary.is_some() { "at a record boundary" } else { "inside a record" }, want));
			}
			let ans = match &r {
				Err(p) => format!("panic {}", p.replace('\n', " ")),
				Ok(Err(e)) => format!("err {}", err_name(e)),
				Ok(Ok((a, b, c, d))) => format!("ok {} {} {} {}", a, b.map(|x| x.to_string()).unwrap_or("-".into()), c, d.map(|x| x.to_string()).unwrap_or("-".into())),
			};
			self.rec.case(&format!("tlvp {}", hex(bytes)), &ans, &format!("tlvp-eof-{}:{}", if boundary.is_some() { "boundary" } else { "inside" }, got), true);
		}
	}
	/// op `wlvec 32`: the real `WithoutLength<Vec<ChainHash>>` reader (read-to-end vector, `ReadTrackingReader` break guard) on a bare
	/// record body. Oracle: accepted iff the body is a whole number of 32-byte elements, and then the elements are its bytes; else ShortRead.
	fn case_wlvec(&mut self, bytes: &[u8], kind: &str) {
		use lightning::util::ser::WithoutLength;
		let r = guarded(AssertUnwindSafe(|| { let mut rd = bytes; <WithoutLength<Vec<bitcoin::constants::ChainHash>> as LengthReadable>::read_from_fixed_length_buffer(&mut rd) }));
		let ans = match &r {
			Err(p) => { self.rec.oracle_fail(format!("panic in WithoutLength<Vec<ChainHash>>::read on {}: {}", hex(bytes), p)); format!("panic {}", p.replace('\n', " ")) },
			Ok(Err(e)) => format!("err {}", err_name(e)),
			Ok(Ok(v)) => { let cat: Vec<u8> = v.0.iter().flat_map(|h| h.as_bytes().to_vec()).collect(); format!("ok {} {}", v.0.len(), hex(&cat)) },
		};
		let want = if bytes.len() % 32 == 0 { format!("ok {} {}", bytes.len() / 32, hex(bytes)) } else { "err ShortRead".to_string() };
		if !ans.starts_with("panic") && ans != want {
			self.rec.oracle_fail(format!("read-to-end vector rule violated by WithoutLength<Vec<ChainHash>>::read_from_fixed_length_buffer on {} ({} bytes): {} but expected {}", hex(bytes), bytes.len(), ans, want));
		}
		let outcome = ans.split(' ').take(if ans.starts_with("err") { 2 } else { 1 }).collect::<Vec<_>>().join(":");
		self.rec.case(&format!("wlvec 32 {}", hex(bytes)), &ans, &format!("wlvec-{}:{}", kind, outcome), true);
	}
	fn case_wire(&mut self, bytes: &[u8], kind: &str, covered_ids: &[u16]) {
		// only ids whose payload decoder the model covers, or ids the real reader does not know
		let r = guarded(AssertUnwindSafe(|| vh::wire::read(bytes)));
		let ans = match r {
			Err(p) => { self.rec.oracle_fail(format!("panic in wire::read on {}: {}", hex(bytes), p)); format!("panic {}", p.replace('\n', " ")) },
			Ok(Err((e, t))) => {
				if let Some(t) = t { if !covered_ids.contains(&t) { self.rec.discarded += 1; return; } }
				format!("err {}", err_name(&e))
			},
			Ok(Ok(w)) => {
				if w.variant == "Unknown" { format!("ok Unknown {} {}", w.type_id, if w.is_even { "disconnect" } else { "ignore" }) }
				else if !covered_ids.contains(&w.type_id) { self.rec.discarded += 1; return; }
				else {
					// oracle: re-encoding with the type prefix reads back as the same variant and bytes
					let mut again = w.type_id.to_be_bytes().to_vec(); again.extend_from_slice(&w.reencoded);
					match vh::wire::read(&again) { Ok(w2) if w2.variant == w.variant && w2.reencoded == w.reencoded => {}, _ => self.rec.oracle_fail(format!("wire::read(type ++ re-encoding) differs for {}", hex(bytes))) }
					format!("ok {} {} {}", struct_name(&w.variant), w.type_id, hex(&w.reencoded))
				}
			},
		};
		let outcome = ans.split(' ').take(2).collect::<Vec<_>>().join(":");
		self.rec.case(&format!("wire {}", hex(bytes)), &ans, &format!("wire-{}:{}", kind, outcome), true);
	}
	fn case_bigsize(&mut self, bytes: &[u8], kind: &str) {
		let r = guarded(AssertUnwindSafe(|| { let mut s = bytes; <BigSize as Readable>::read(&mut s).map(|v| (v.0, s.to_vec())) }));
		let ans = match r {
			Err(p) => { self.rec.oracle_fail(format!("panic in BigSize::read on {}", hex(bytes))); format!("panic {}", p) },
			Ok(Err(e)) => format!("err {}", err_name(&e)),
			Ok(Ok((n, rest))) => {
				// oracle: accepted encodings are the minimal ones
				let canon = bigsize_bytes(n);
				if bytes[..bytes.len() - rest.len()] != canon[..] { self.rec.oracle_fail(format!("BigSize::read accepted non-minimal {}", hex(bytes))); }
				format!("ok {} {}", n, hex(&rest))
			},
		};
		let outcome = ans.split(' ').take(if ans.starts_with("err") { 2 } else { 1 }).collect::<Vec<_>>().join(":");
		self.rec.case(&format!("bigsize {}", hex(bytes)), &ans, &format!("bigsize-{}:{}", kind, outcome), true);
	}
}

/// The public `decode_tlv_stream!` of /repo expanded on a field list WITH required TLVs (no peer message declares one today, so the
/// `required` arms of `_check_decoded_tlv_order!` / `_check_missing_tlv!` are reached by no message decoder); mirrored by
/// Model/TlvProbe.lean `tlvProbeSchema`.
fn tlv_probe<R: lightning::io::Read>(stream: &mut R) -> Result<(u64, Option<u32>, u16, Option<u64>), DecodeError> {
	let mut a = 0u64; let mut b: Option<u32> = None; let mut c = 0u16; let mut d: Option<u64> = None;
	lightning::decode_tlv_stream!(stream, { (2, a, required), (3, b, option), (6, c, required), (9, d, option) });
	Ok((a, b, c, d))
}
/// the real `encode_tlv_stream!` on the probe field list
fn tlv_probe_enc(a: u64, b: Option<u32>, c: u16, d: Option<u64>) -> Result<Vec<u8>, lightning::io::Error> {
	let mut w: Vec<u8> = Vec::new();
	lightning::encode_tlv_stream!(&mut w, { (2, a, required), (3, b, option), (6, c, required), (9, d, option) });
	Ok(w)
}
/// width of the probe's known types
fn tlv_probe_width(t: u64) -> Option<usize> { match t { 2 => Some(8), 3 => Some(4), 6 => Some(2), 9 => Some(8), _ => None } }

fn consensus_err(e: &bitcoin::consensus::encode::Error) -> String {
	// the mapping of util/ser.rs impl_consensus_ser!
	match e { bitcoin::consensus::encode::Error::Io(e) if e.kind() == bitcoin::io::ErrorKind::UnexpectedEof => "ShortRead".into(), bitcoin::consensus::encode::Error::Io(_) => "Io".into(), _ => "InvalidValue".into() }
}

/// bitcoin consensus layer on its own: ops `tx`, `wit`, `cs`, `i64`
fn btc_stream(run: &mut Run, rng: &mut Rng, thorough: bool) {
	use bitcoin::consensus::encode::VarInt;
	let g = run.g;
	let case_tx = |run: &mut Run, b: &[u8], kind: &str| {
		let r = guarded(AssertUnwindSafe(|| { let mut s = b; <bitcoin::Transaction as Readable>::read(&mut s).map(|t| (t, s.to_vec())) }));
		let ans = match r {
			Err(p) => { run.rec.oracle_fail(format!("panic decoding a Transaction from {}: {}", hex(b), p)); format!("panic {}", p.replace('\n', " ")) },
			Ok(Err(e)) => format!("err {}", err_name(&e)),
			Ok(Ok((t, rest))) => {
				let e = t.encode();
				if <bitcoin::Transaction as Readable>::read(&mut &e[..]).ok().as_ref() != Some(&t) { run.rec.oracle_fail(format!("re-encoding of a decoded Transaction does not decode to an equal one: {}", hex(b))); }
				if e.len() + rest.len() != b.len() || e[..] != b[..e.len()] { run.rec.oracle_fail(format!("Transaction decoder accepted a non-canonical encoding: input {} re-encoding {}", hex(b), hex(&e))); }
				if t.input.is_empty() && !t.input.iter().all(|i| i.witness.is_empty()) { run.rec.oracle_fail("unreachable".into()); }
				format!("ok {} {} {},{},{}", hex(&e), hex(&rest), t.input.len(), t.output.len(), t.input.iter().map(|x| x.witness.len()).sum::<usize>())
			},
		};
		let outcome = ans.split(' ').take(if ans.starts_with("err") { 2 } else { 1 }).collect::<Vec<_>>().join(":");
		run.rec.case(&format!("tx {}", hex(b)), &ans, &format!("tx-{}:{}", kind, outcome), true);
	};
	let case_wit = |run: &mut Run, b: &[u8], kind: &str| {
		let r = guarded(AssertUnwindSafe(|| { let mut s = b; <bitcoin::Witness as Readable>::read(&mut s).map(|t| (t, s.to_vec())) }));
		let ans = match r {
			Err(p) => { run.rec.oracle_fail(format!("panic decoding a Witness from {}: {}", hex(b), p)); format!("panic {}", p.replace('\n', " ")) },
			Ok(Err(e)) => format!("err {}", err_name(&e)),
			Ok(Ok((w, rest))) => {
				let e = w.encode();
				if w.size() != e.len() { run.rec.oracle_fail(format!("Witness::size() = {} but the witness encodes to {} bytes: {}", w.size(), e.len(), hex(b))); }
				if e.len() + rest.len() != b.len() || e[..] != b[..e.len()] { run.rec.oracle_fail(format!("Witness decoder accepted a non-canonical encoding: {}", hex(b))); }
				format!("ok {} {} {}", hex(&e), hex(&rest), w.size())
			},
		};
		let outcome = ans.split(' ').take(if ans.starts_with("err") { 2 } else { 1 }).collect::<Vec<_>>().join(":");
		run.rec.case(&format!("wit {}", hex(b)), &ans, &format!("wit-{}:{}", kind, outcome), true);
	};
	let case_cs = |run: &mut Run, b: &[u8], kind: &str| {
		let mut s = b;
		let ans = match <VarInt as bitcoin::consensus::Decodable>::consensus_decode(&mut s) { Ok(v) => format!("ok {} {}", v.0, hex(s)), Err(e) => format!("err {}", consensus_err(&e)) };
		let outcome = ans.split(' ').take(if ans.starts_with("err") { 2 } else { 1 }).collect::<Vec<_>>().join(":");
		run.rec.case(&format!("cs {}", hex(b)), &ans, &format!("cs-{}:{}", kind, outcome), true);
	};
	// transactions
	for k in 0..3 {
		let mut t = g.tx(rng);
		match k { 1 => { t.input.clear(); }, 2 => { for i in t.input.iter_mut() { i.witness = bitcoin::Witness::new(); } }, _ => {} }
		let full = t.encode();
		let mut ext = full.clone(); ext.extend(rb(rng, 4));
		case_tx(run, &ext, "valid");
		for c in 0..full.len() { if thorough || k == 0 || c < 12 || full.len() - c < 8 || rng.chance(1, 6) { case_tx(run, &full[..c], "trunc"); } }
		for o in 0..full.len() {
			if !(thorough || k == 0 || o < 12 || rng.chance(1, 4)) { continue; }
			for v in [full[o].wrapping_add(1), full[o].wrapping_sub(1), 0, 1, 0xfd, 0xff] { if v != full[o] { let mut b = full.clone(); b[o] = v; case_tx(run, &b, "byte"); } }
		}
		// segwit form whose witnesses are all empty ("witness flag set but no witnesses present"), with and without the lock_time
		if !t.input.is_empty() {
			let mut legacy = t.clone(); for i in legacy.input.iter_mut() { i.witness = bitcoin::Witness::new(); }
			let l = legacy.encode();
			let mut b = l[..4].to_vec(); b.extend([0u8, 1]); b.extend_from_slice(&l[4..l.len() - 4]); b.extend(std::iter::repeat(0u8).take(legacy.input.len()));
			for tail in [4usize, 3, 0] { let mut c = b.clone(); c.extend_from_slice(&l[l.len() - 4..l.len() - 4 + tail]); case_tx(run, &c, "empty-witnesses"); }
			for flag in [0u8, 2, 0xff] { let mut c = b.clone(); c[5] = flag; c.extend_from_slice(&l[l.len() - 4..]); case_tx(run, &c, "bad-flag"); }
		}
		// non-minimal CompactSize input count
		let mut b = full[..4].to_vec(); b.extend([0xfd, full[4], 0]); b.extend_from_slice(&full[5..]); case_tx(run, &b, "non-minimal");
	}
	case_tx(run, &rb(rng, 80), "random");
	// witnesses
	let maxv = 4_000_000u64;
	for _ in 0..3 {
		let w = g.witness(rng).encode();
		let mut ext = w.clone(); ext.extend(rb(rng, 3)); case_wit(run, &ext, "valid");
		for c in 0..w.len() { if c < 6 || w.len() - c < 4 || rng.chance(1, 5) { case_wit(run, &w[..c], "trunc"); } }
		for _ in 0..12 { let mut b = w.clone(); let o = rng.below(b.len() as u64) as usize; b[o] = match rng.below(4) { 0 => b[o].wrapping_add(1), 1 => b[o].wrapping_sub(1), 2 => 0xfd, _ => rng.next() as u8 }; case_wit(run, &b, "byte"); }
	}
	// declared element counts / element sizes around MAX_VEC_SIZE (the count test precedes everything; the size test precedes the read)
	for n in [maxv - 1, maxv, maxv + 1, 0xffff_ffff, u64::MAX, 0x1_0000_0000] {
		let mut b = bitcoin::consensus::serialize(&VarInt(n)); b.extend(rb(rng, 6)); case_wit(run, &b, "count-limit");
	}
	for (first, sz) in [(0u64, maxv - 5), (0, maxv - 6), (0, maxv - 4), (0, maxv), (0, u64::MAX), (0, u64::MAX - 8), (10, maxv - 16), (10, maxv - 17), (10, maxv - 15), (300, maxv - 308), (300, maxv - 309), (300, maxv - 307)] {
		// witness of 2 elements: the first of `first` bytes, the second DECLARES `sz` bytes (not present)
		let mut b = vec![2u8]; b.extend(bitcoin::consensus::serialize(&VarInt(first))); b.extend(std::iter::repeat(7u8).take(first as usize));
		b.extend(bitcoin::consensus::serialize(&VarInt(sz))); b.extend(rb(rng, 5));
		case_wit(run, &b, "size-limit");
	}
	// CompactSize
	for _ in 0..40 {
		let n = match rng.below(5) { 0 => *rng.pick(&[0u64, 0xfc, 0xfd, 0xfe, 0xffff, 0x10000, 0xffff_ffff, 0x1_0000_0000, u64::MAX]), 1 => { let c = *rng.pick(&[0xfdu64, 0x10000, 0x1_0000_0000]); rng.near(c) }, 2 => 1u64 << rng.below(64), _ => g.u64b(rng) };
		let enc = bitcoin::consensus::serialize(&VarInt(n));
		let mut b = enc.clone(); b.extend(rb(rng, 3)); case_cs(run, &b, "valid");
		let c = rng.below(enc.len() as u64 + 1) as usize; case_cs(run, &enc[..c], "trunc");
		// non-minimal: the value in the next wider form
		let wide: Vec<u8> = if n < 0xfd { vec![0xfd, n as u8, 0] } else if n <= 0xffff { let mut v = vec![0xfe]; v.extend_from_slice(&(n as u32).to_le_bytes()); v } else { let mut v = vec![0xff]; v.extend_from_slice(&n.to_le_bytes()); v };
		case_cs(run, &wide, "non-minimal");
		case_cs(run, &rb(rng, 10), "random");
	}
	// i64: two's complement
	for _ in 0..30 {
		let v = g.i64b(rng);
		let mut b = v.to_be_bytes().to_vec(); b.extend(rb(rng, 2));
		let c = if rng.chance(1, 6) { rng.below(8) as usize } else { b.len() };
		let mut s = &b[..c];
		let ans = match <i64 as Readable>::read(&mut s) { Ok(x) => { if x.encode() != b[..8] { run.rec.oracle_fail(format!("i64 {} re-encodes differently", x)); } format!("ok {} {}", x, hex(s)) }, Err(e) => format!("err {}", err_name(&e)) };
		run.rec.case(&format!("i64 {}", hex(&b[..c])), &ans, if ans.starts_with("ok") { "i64:ok" } else { "i64:err" }, true);
	}
}

fn main() {
	let args = &parse_args("c13");
	let rec = Rec::new(&args.out, "c13");
	let mut rng = Rng::new(args.seed);
	let g = G { secp: Secp256k1::new() };
	let mut run = Run { rec, fails: vec![], g: &g, oracle_only: 0 };
	// thorough: 480 rounds ≈ 4 M cases (the Lean driver answers ~8 k cases/s: ≈ 10 min after the ≈ 5 min harness run)
	let reps: u64 = if args.thorough { 480 } else { 10 } * args.scale;
	let n_mut: u64 = if args.thorough { 60 } else { 40 };

	// type ids of the covered messages, from the real reader
	let mut covered_ids: Vec<u16> = vec![];
	let mut id_of: std::collections::BTreeMap<String, Option<u16>> = Default::default();
	for name in NAMES.iter().chain(CUSTOM_NAMES.iter()).chain(BTC_NAMES.iter()).chain(TAIL_NAMES.iter()) {
		let mut tmp = Rng::new(7);
		let b = build(name, &g, &mut tmp, 0, &mut run.fails);
		// find the id: the Encode::TYPE constants are crate-private; probe the ids through wire::read
		let mut found = None;
		for id in 0u16..1024 {
			let mut w = id.to_be_bytes().to_vec(); w.extend_from_slice(&b);
			if let Ok(x) = vh::wire::read(&w) { if struct_name(&x.variant) == *name && x.reencoded == b { found = Some(id); break; } }
		}
		if let Some(id) = found { covered_ids.push(id); }
		id_of.insert(name.to_string(), found);
	}
	run.flush_fails();

	for rep in 0..reps {
		for name in NAMES.iter().chain(TAIL_NAMES.iter()).chain(BTC_NAMES.iter()) {
			// the long messages (1.4 kB onion, 920-byte attribution data, kB blobs) dominate the size of the
			// op files: in the thorough tier they take part in every 8th round only
			if args.thorough && rep % 8 != 0 && matches!(*name, "UpdateAddHTLC" | "PeerStorage" | "PeerStorageRetrieval" | "UpdateFailHTLC" | "UpdateFulfillHTLC") { continue; }
			if args.thorough && rep % 4 != 0 && BTC_NAMES.contains(name) { continue; }
			let nt = n_tlvs(name);
			// (a) valid stream: every presence mask (up to 16), fresh values
			let masks: Vec<u32> = (0..(1u32 << nt)).collect();
			let mut seeds: Vec<(u64, u32)> = vec![];
			for &mask in &masks {
				let st = rng.next();
				let mut r1 = Rng(st);
				let b = build(name, &g, &mut r1, mask, &mut run.fails);
				run.case_dec(name, &b, "valid");
				seeds.push((st, mask));
			}
			// (b) mutation stream on a few of them
			for _ in 0..2 {
				let (st, mask) = *rng.pick(&seeds);
				let full = build(name, &g, &mut Rng(st), mask, &mut run.fails);
				let base = build(name, &g, &mut Rng(st), 0, &mut run.fails);
				let fixed_len = base.len();
				debug_assert!(full[..fixed_len] == base[..]);
				let recs = split_tlvs(&full[fixed_len..]).unwrap_or_default();
				let max_t = recs.last().map(|x| x.0).unwrap_or(0);
				// truncations: every offset near both ends of the TLV part and the tail, sampled elsewhere
				let mut cuts: Vec<usize> = vec![];
				for k in 0..full.len().min(4) { cuts.push(k); }
				for k in fixed_len.saturating_sub(3)..full.len() { if full.len() - k <= 48 || k <= fixed_len + 12 { cuts.push(k); } }
				for _ in 0..10 { cuts.push(rng.below(full.len() as u64) as usize); }
				cuts.sort(); cuts.dedup();
				for k in cuts { run.case_dec(name, &full[..k], "trunc"); }
				for _ in 0..n_mut {
					let mut b = full.clone();
					let kind;
					match rng.below(16) {
						0 | 1 => { kind = "flip-bit"; if !b.is_empty() { let i = rng.below(b.len() as u64) as usize; b[i] ^= 1 << rng.below(8); } },
						2 => { kind = "flip-byte"; if !b.is_empty() { let i = rng.below(b.len() as u64) as usize; b[i] = rng.next() as u8; } },
						3 => { kind = "flip-tlv"; if b.len() > fixed_len { let i = fixed_len + rng.below((b.len() - fixed_len) as u64) as usize; b[i] = match rng.below(4) { 0 => 0, 1 => 0xff, 2 => 0xfd, _ => rng.next() as u8 }; } else { b.push(rng.next() as u8); } },
						4 => { kind = "append-odd"; let t = max_t + 1 + 2 * rng.below(1000) + (max_t % 2); let t = if t % 2 == 0 { t + 1 } else { t }; let v = rb(&mut rng, 40); b.extend(join_tlvs(&[(t, v)])); },
						5 => { kind = "append-even"; let t = max_t + 2 + 2 * rng.below(1000); let t = if t % 2 == 1 { t + 1 } else { t }; let v = rb(&mut rng, 40); b.extend(join_tlvs(&[(t, v)])); },
						6 => {
							kind = "insert-unknown";
							// a record of a fresh type at a position that keeps the types increasing (when one exists)
							let mut rs = recs.clone();
							let pos = rng.below(rs.len() as u64 + 1) as usize;
							let lo = if pos == 0 { 0 } else { rs[pos - 1].0 + 1 };
							let hi = if pos == rs.len() { lo + 50 } else { rs[pos].0 };
							if lo < hi { let t = lo + rng.below(hi - lo); rs.insert(pos, (t, rb(&mut rng, 12))); }
							b.truncate(fixed_len); b.extend(join_tlvs(&rs));
						},
						7 => { kind = "dup-record"; let mut rs = recs.clone(); if !rs.is_empty() { let i = rng.below(rs.len() as u64) as usize; let x = rs[i].clone(); rs.insert(i, x); } else { rs.push((1, vec![])); rs.push((1, vec![])); } b.truncate(fixed_len); b.extend(join_tlvs(&rs)); },
						8 => { kind = "swap-records"; let mut rs = recs.clone(); if rs.len() >= 2 { let i = rng.below(rs.len() as u64 - 1) as usize; rs.swap(i, i + 1); } else { rs.push((max_t + 5, vec![1])); rs.push((max_t + 3, vec![2])); } b.truncate(fixed_len); b.extend(join_tlvs(&rs)); },
						9 => {
							kind = "non-minimal";
							// first record (or a fresh odd one) with a non-minimal type or length
							let mut rs = recs.clone(); if rs.is_empty() { rs.push((max_t + 1 + (max_t % 2), rng.bytes(3))); if rs[0].0 % 2 == 0 { rs[0].0 += 1; } }
							let (t, v) = rs.remove(0);
							let mut out = vec![];
							if rng.chance(1, 2) { out.extend(non_minimal(t, &mut rng)); out.extend(bigsize_bytes(v.len() as u64)); } else { out.extend(bigsize_bytes(t)); out.extend(non_minimal(v.len() as u64, &mut rng)); }
							out.extend_from_slice(&v); out.extend(join_tlvs(&rs));
							b.truncate(fixed_len); b.extend(out);
						},
						10 => {
							kind = "wrong-length";
							let mut rs = recs.clone(); if rs.is_empty() { rs.push((max_t | 1, rng.bytes(4))); }
							let i = rng.below(rs.len() as u64) as usize;
							let mut out = join_tlvs(&rs[..i]);
							let (t, v) = &rs[i];
							let l = v.len() as u64;
							let nl = match rng.below(5) { 0 => l + 1, 1 => l.saturating_sub(1), 2 => l + 1000, 3 => u64::MAX, _ => rng.below(l + 3) };
							out.extend(bigsize_bytes(*t)); out.extend(bigsize_bytes(nl)); out.extend_from_slice(v); out.extend(join_tlvs(&rs[i + 1..]));
							b.truncate(fixed_len); b.extend(out);
						},
						11 => { kind = "extend"; let n = 1 + rng.below(4) as usize; b.extend(rng.bytes(n)); },
						12 => { kind = "extend-bigsize-prefix"; b.push(*rng.pick(&[0xfdu8, 0xfe, 0xff, 0x01, 0x00])); if rng.chance(1, 2) { b.extend(rb(&mut rng, 9)); } },
						13 => { kind = "len-prefix"; if fixed_len >= 2 { let i = rng.below(fixed_len as u64 - 1) as usize; b[i] = 0xff; b[i + 1] = 0xff; } },
						14 => { kind = "zero-run"; if !b.is_empty() { let i = rng.below(b.len() as u64) as usize; let n = (1 + rng.below(40) as usize).min(b.len() - i); for x in b[i..i + n].iter_mut() { *x = 0; } } },
						_ => { kind = "random"; b = rb(&mut rng, fixed_len as u64 + 20); },
					}
					run.case_dec(name, &b, kind);
				}
				// wire level: the same message behind its type id, plus mutations of the id
				if let Some(Some(id)) = id_of.get(*name) {
					let mut w = id.to_be_bytes().to_vec(); w.extend_from_slice(&full);
					run.case_wire(&w, "valid", &covered_ids);
					let k = rng.below(w.len() as u64 + 1) as usize;
					run.case_wire(&w[..k], "trunc", &covered_ids);
					let mut w2 = w.clone(); w2.extend(join_tlvs(&[(max_t + 2 + (max_t % 2), vec![7])]));
					run.case_wire(&w2, "append-even", &covered_ids);
					let mut w3 = w.clone(); let t = rng.next() as u16; w3[0] = (t >> 8) as u8; w3[1] = t as u8;
					run.case_wire(&w3, "other-id", &covered_ids);
				}
			}
		}
		// custom codecs: valid stream + structure-aware malformed stream (exhaustive for the first message of each round)
		for name in CUSTOM_NAMES {
			// thorough tier: every 8th round (the structure-aware stream is ~5000 cases per round)
			if args.thorough && rep % 8 != 0 { continue; }
			let n_valid = if name.ends_with("NodeAnnouncement") { 6 } else { 3 };
			for k in 0..n_valid {
				let st = rng.next();
				let full = build(name, &g, &mut Rng(st), 0, &mut run.fails);
				run.case_dec(name, &full, "valid");
				if k >= 3 { continue; }
				for (b, kind) in custom_mutations(name, &full, &mut rng, k == 0) { run.case_dec(name, &b, kind); }
				if let Some(Some(id)) = id_of.get(*name) {
					let mut w = id.to_be_bytes().to_vec(); w.extend_from_slice(&full);
					run.case_wire(&w, "valid", &covered_ids);
					for (b, kind) in custom_mutations(name, &full, &mut rng, false).into_iter().filter(|(_, k)| *k != "trunc" && *k != "flip-bit" && *k != "flip-byte").take(40) {
						let mut w = id.to_be_bytes().to_vec(); w.extend_from_slice(&b);
						run.case_wire(&w, kind, &covered_ids);
					}
					let k = rng.below(w.len() as u64 + 1) as usize;
					run.case_wire(&w[..k], "trunc", &covered_ids);
				}
			}
		}
		// OPT-IN (env VERIF_C13_OVERSIZE=1; off by default because the first three fail on the unmodified code — candidate findings
		// reported to the integrator): values / inputs beyond the u16 arithmetic of the hand-written codecs.  (1) a > 64 kB
		// UnsignedNodeAnnouncement byte string with addrlen 0xffff whose descriptors cross the u16 boundary: `addr_readpos + 1 + addr.len()`
		// overflows (panic with overflow checks, wrap-around without) — the model (unbounded Nat) answers BadLengthDescriptor;
		// (2) encoding > 65535 bytes of addresses; (3) encoding 8192 short_channel_ids (`len as u16 * 8`).
		if rep == 0 && std::env::var("VERIF_C13_OVERSIZE").map(|v| v == "1").unwrap_or(false) {
			let host = msgs::SocketAddress::Hostname { hostname: lightning::util::ser::Hostname::try_from("a".repeat(255)).unwrap(), port: 80 };
			let mut m = g.node_ann(&mut rng); m.addresses = vec![]; m.excess_address_data = vec![]; m.excess_data = vec![];
			let mut b = m.encode(); let n = b.len(); b[n - 2] = 0xff; b[n - 1] = 0xff;
			for _ in 0..260 { b.extend(host.encode()); }
			run.case_dec("UnsignedNodeAnnouncement", &b, "oversize");
			m.addresses = vec![host; 254];
			if guarded(AssertUnwindSafe(|| m.encode().len())).is_err() { run.rec.oracle_fail("panic encoding an UnsignedNodeAnnouncement with 254 hostname addresses of 255 characters (65786 address bytes > u16::MAX)".into()); }
			let q = msgs::QueryShortChannelIds { chain_hash: bitcoin::constants::ChainHash::from([0u8; 32]), short_channel_ids: vec![1; 8192] };
			match guarded(AssertUnwindSafe(|| { let e = q.encode(); <msgs::QueryShortChannelIds as LengthReadable>::read_from_fixed_length_buffer(&mut &e[..]).ok() == Some(q.clone()) })) {
				Err(p) => run.rec.oracle_fail(format!("panic encoding a QueryShortChannelIds with 8192 short_channel_ids: {}", p.replace('\n', " "))),
				Ok(false) => run.rec.oracle_fail("decode(encode(m)) != m for a QueryShortChannelIds with 8192 short_channel_ids".into()),
				Ok(true) => {},
			}
		}
		// TxAddInput / TxSignatures: the same structure-aware stream around the u16 prevtx length / witness count and lengths
		if !args.thorough || rep % 4 == 0 {
			for name in ["TxAddInput", "TxSignatures"] {
				for k in 0..2 {
					let st = rng.next();
					let full = build(name, &g, &mut Rng(st), rng.below(2) as u32, &mut run.fails);
					run.case_dec(name, &full, "valid");
					for (b, kind) in custom_mutations(name, &full, &mut rng, k == 0) { run.case_dec(name, &b, kind); }
				}
			}
			btc_stream(&mut run, &mut rng, args.thorough);
		}
		// CollectionLength boundary (0xfffe / 0xffff / 0x10000 bytes: the 2-byte form, the first and second value of the ffff + u64 escape)
		if rep == 0 {
			for n in [0xfffeusize, 0xffff, 0x10000] {
				let m = msgs::TxAbort { channel_id: g.cid(&mut rng), data: rng.bytes(n) };
				let e = m.encode();
				if <msgs::TxAbort as LengthReadable>::read_from_fixed_length_buffer(&mut &e[..]).ok().as_ref() != Some(&m) { run.rec.oracle_fail(format!("decode(encode(m)) != m for a TxAbort with {} data bytes", n)); }
				run.case_dec("TxAbort", &e, "colllen-boundary");
				run.case_dec("TxAbort", &e[..e.len() - 1], "colllen-boundary-trunc");
			}
		}
		// unknown / cfg-gated / short type ids
		for _ in 0..40 {
			let id: u16 = match rng.below(5) { 0 => 40 + rng.below(2) as u16, 1 => rng.below(300) as u16, 2 => 32768 + rng.below(32768) as u16, _ => rng.next() as u16 };
			let mut w = id.to_be_bytes().to_vec(); w.extend(rb(&mut rng, 50));
			run.case_wire(&w, "random-id", &covered_ids);
		}
		run.case_wire(&[], "short", &covered_ids);
		run.case_wire(&[rng.next() as u8], "short", &covered_ids);
		// the TLV stream macro on a field list with REQUIRED types (2, 6) and optional ones (3, 9): every subset of the types 0..=10 in
		// ascending order once per run (2048 streams: missing / skipped required, unknown even / odd before, between and after), then
		// per round damaged streams: duplicated, swapped, wrong value length, non-minimal type / length, truncated
		{
			let mk = |t: u64, rng: &mut Rng| -> (u64, Vec<u8>) { (t, rng.bytes(tlv_probe_width(t).unwrap_or((t % 3) as usize))) };
			if rep == 0 {
				for mask in 0u32..(1 << 11) {
					let recs: Vec<(u64, Vec<u8>)> = (0..11u64).filter(|t| mask >> t & 1 == 1).map(|t| mk(t, &mut rng)).collect();
					run.case_tlvp(&join_tlvs(&recs), Some(&recs), "subset");
				}
			}
			// every prefix of valid streams (ReadTrackingReader: clean end only between records); odd unknown types with 1-, 3- and 5-byte
			// BigSize type fields and a 3-byte length field, so that cuts fall inside type and length fields too
			for _ in 0..3 {
				let mut recs: Vec<(u64, Vec<u8>)> = vec![];
				if rng.chance(1, 2) { recs.push(mk(1, &mut rng)); }
				recs.push(mk(2, &mut rng));
				if rng.chance(1, 2) { recs.push(mk(3, &mut rng)); }
				if rng.chance(1, 2) { recs.push(mk(5, &mut rng)); }
				recs.push(mk(6, &mut rng));
				if rng.chance(1, 2) { recs.push(mk(9, &mut rng)); }
				if rng.chance(2, 3) { let n = rng.below(4) as usize; let t = 253 + 2 * rng.below(1000); recs.push((t, rng.bytes(n))); }
				if rng.chance(1, 2) { let n = if rng.chance(1, 4) { 253 + rng.below(8) as usize } else { rng.below(3) as usize }; let t = 0x1_0001 + 2 * rng.below(1000); recs.push((t, rng.bytes(n))); }
				run.case_tlvp_cuts(&recs);
			}
			// WithoutLength<Vec<ChainHash>>: whole elements, every cut of a short vector, lengths around the element size
			for k in 0..=65usize { let b = rng.bytes(k); run.case_wlvec(&b, if k % 32 == 0 { "whole" } else { "partial" }); }
			for _ in 0..6 { let k0 = 32 * rng.below(6) as usize; let k = k0 + *rng.pick(&[0usize, 0, 1, 31]); let b = rng.bytes(k); run.case_wlvec(&b, if k % 32 == 0 { "whole" } else { "partial" }); }
			for _ in 0..40 {
				let (a, c) = (run.g.u64b(&mut rng), run.g.u16b(&mut rng));
				let b = if rng.chance(1, 2) { Some(run.g.u32b(&mut rng)) } else { None };
				let d = if rng.chance(1, 2) { Some(run.g.u64b(&mut rng)) } else { None };
				run.case_tlvpe(a, b, c, d);
			}
			for _ in 0..60 {
				// mostly without the unknown even types 0, 4, 8, 10 (they end every stream early) and with both required types
				let mask = ((rng.next() as u32 & 0x7ff) & if rng.chance(3, 4) { !0x511 } else { !0 }) | if rng.chance(2, 3) { 0b100_0100 } else { 0 };
				let mut recs: Vec<(u64, Vec<u8>)> = (0..11u64).filter(|t| mask >> t & 1 == 1).map(|t| mk(t, &mut rng)).collect();
				if rng.chance(1, 4) { recs.push(mk(11 + 2 * rng.below(1 << 20), &mut rng)); }
				if recs.is_empty() { recs.push(mk(2, &mut rng)); }
				let i = rng.below(recs.len() as u64) as usize;
				match rng.below(6) {
					0 => { let x = recs[i].clone(); recs.insert(i, x); run.case_tlvp(&join_tlvs(&recs), Some(&recs), "dup"); },
					1 => { if recs.len() >= 2 { let j = rng.below(recs.len() as u64 - 1) as usize; recs.swap(j, j + 1); } run.case_tlvp(&join_tlvs(&recs), Some(&recs), "swap"); },
					2 => { if rng.chance(1, 2) { recs[i].1.push(rng.next() as u8); } else { recs[i].1.pop(); } run.case_tlvp(&join_tlvs(&recs), Some(&recs), "value-len"); },
					3 => {
						let mut out = join_tlvs(&recs[..i]);
						let (t, v) = &recs[i];
						if rng.chance(1, 2) { out.extend(non_minimal(*t, &mut rng)); out.extend(bigsize_bytes(v.len() as u64)); } else { out.extend(bigsize_bytes(*t)); out.extend(non_minimal(v.len() as u64, &mut rng)); }
						out.extend_from_slice(v); out.extend(join_tlvs(&recs[i + 1..]));
						run.case_tlvp(&out, None, "non-minimal");
					},
					4 => { let b = join_tlvs(&recs); let k = rng.below(b.len() as u64 + 1) as usize; run.case_tlvp(&b[..k], None, "trunc"); },
					_ => { let mut b = join_tlvs(&recs); if !b.is_empty() { let k = rng.below(b.len() as u64) as usize; b[k] = rng.next() as u8; } run.case_tlvp(&b, None, "flip-byte"); },
				}
			}
		}
		// BigSize
		for _ in 0..120 {
			let n = match rng.below(6) { 0 => *rng.pick(&[0u64, 0xfc, 0xfd, 0xfe, 0xffff, 0x10000, 0xffff_ffff, 0x1_0000_0000, u64::MAX]), 1 => { let c = *rng.pick(&[0xfdu64, 0x10000, 0x1_0000_0000]); rng.near(c) }, 2 => 1u64 << rng.below(64), _ => g.u64b(&mut rng) };
			let enc = bigsize_bytes(n);
			run.rec.case(&format!("bigenc {}", n), &hex(&enc), "bigenc", true);
			let mut b = enc.clone(); b.extend(rb(&mut rng, 4));
			run.case_bigsize(&b, "valid");
			let k = rng.below(enc.len() as u64 + 1) as usize;
			run.case_bigsize(&enc[..k], "trunc");
			run.case_bigsize(&non_minimal(n, &mut rng), "non-minimal");
			run.case_bigsize(&rb(&mut rng, 10), "random");
		}
	}
	let _ = run.g;
	run.rec.notes.insert("rule".into(), "every op line (message name + exact byte string) is a distinct case; valid stream = every TLV presence mask of each of the 32 covered macro-declared messages, of the 12 hand-written codecs with a hand-written schema (Open/AcceptChannel(V2), (Unsigned)ChannelAnnouncement, (Unsigned)ChannelUpdate, ErrorMessage, WarningMessage, Ping, Pong) and of Init, TxAddInput, TxSignatures, RevokeAndACK (both introduction-node kinds, 1..4 paths, 1..255 hops), with fresh PRNG values; mutation stream = 16 mutation kinds + truncations on those encodings; custom codecs (UnsignedNodeAnnouncement, NodeAnnouncement, QueryShortChannelIds, ReplyChannelRange, OnionMessage): structured generator over the real Rust types (all five SocketAddress kinds, 0..7 addresses, hostnames of length 0/1/254/255, unknown descriptor types as excess address data, excess data; 0..8191 ids; hop data 0..4097 bytes) + structure-aware malformed stream (every length field +-1, +-2, 0, max; every descriptor / encoding type byte; addrlen covering k descriptors +-1, +-2; byte deleted / inserted at every field boundary; truncation at every offset; single-bit and single-byte mutations from the first length field on); wire ops through the verif_hooks::wire::read accessor; BigSize boundary values".into());
	run.rec.notes.insert("covered_messages".into(), format!("{},{},{},{}", NAMES.join(","), TAIL_NAMES.join(","), CUSTOM_NAMES.join(","), BTC_NAMES.join(",")));
	run.rec.notes.insert("wire_ids".into(), id_of.iter().map(|(k, v)| format!("{}={}", k, v.map(|x| x.to_string()).unwrap_or("not-dispatched".into()))).collect::<Vec<_>>().join(","));
	run.rec.notes.insert("impl_oracles".into(), "no panic; decode(encode(m)) == m for every generated message; for every accepted byte string decode(encode(decoded)) == decoded; node_announcement: declared addrlen == bytes of the parsed descriptors + excess_address_data (sizes from Writeable::serialized_length), header + addrlen + excess == input length, encode(decode(b)) == b; scid lists: declared encoding_len == 1 + 8*ids, encoding type 0, re-encoding == covered prefix of the input; onion_message: declared packet length == 66 + hop data, re-encoding == covered prefix; tx_add_input: declared prevtx length == serialized length of the returned transaction; tx_signatures: declared witness count and every declared witness length == what was returned (consensus size, Witness::size()); Transaction / Witness decoders accept only canonical encodings; BigSize: accepted encodings are minimal".into());
	let _ = run.oracle_only;
	run.rec.notes.insert("btc".into(), "TxAddInput, TxSignatures, RevokeAndACK are compared with Model/MsgBitcoin.lean (message level with parsed structure, and behind wire::read); ops tx / wit / cs compare bitcoin::Transaction / Witness / VarInt consensus decoding (through LDK's impl_consensus_ser! error mapping) with Btc.decodeTx / decodeWitness / CompactSize.decode on generated transactions (legacy, segwit, no inputs), every single-byte +-1 / 0 / ff / fd mutation, every truncation, all-empty witnesses behind the segwit flag, bad flags, declared counts and element sizes around MAX_VEC_SIZE; op i64 compares i64::read with readI64".into());
	run.rec.finish();
}
