//! Shared by c06.rs (model `c06bump`) and c07.rs (model `c07bump`): differential of the REAL
//! `chain::package::{feerate_bump, compute_fee_from_spent_amounts}`, `PackageTemplate::get_height_timer`
//! and `PackageTemplate::package_locktime` (through `lightning::ln::verif_hooks::package`) against the
//! Lean translation (Generated/Package.lean) on generated tuples.
//! ops:  bump <weight> <input_amounts> <dust_limit> <previous_feerate> <strategy 0|1|2> <est>
//!       fee <input_amounts> <weight> <est>
//!       timer <current_height> <counterparty_spendable_height> <input>…      → `<height_timer> <locktime>`
//!         input = ro | rh | co:<cltv> | cr:<cltv> | hh:<0|1>:<cltv> | hf
use bitcoin::hashes::Hash;
use bitcoin::secp256k1::{Message, PublicKey, Secp256k1, SecretKey};
use ldk_verif_harness::common::*;
use lightning::chain::chaininterface::{ConfirmationTarget, FeeEstimator};
use lightning::chain::transaction::OutPoint;
use lightning::ln::chan_utils::{
	ChannelPublicKeys, ChannelTransactionParameters, CommitmentTransaction, CounterpartyChannelTransactionParameters,
	HTLCOutputInCommitment, HolderCommitmentTransaction,
};
use lightning::ln::verif_hooks::package as vp;
use lightning::sign::{ChannelDerivationParameters, HTLCDescriptor};
use lightning::types::features::ChannelTypeFeatures;
use lightning::types::payment::{PaymentHash, PaymentPreimage};
use std::panic::AssertUnwindSafe;

pub struct ConstFee(pub u32);
impl FeeEstimator for ConstFee {
	fn get_est_sat_per_1000_weight(&self, _t: ConfirmationTarget) -> u32 { self.0 }
}

const RELAY: u64 = lightning::chain::chaininterface::INCREMENTAL_RELAY_FEE_SAT_PER_1000_WEIGHT;

fn show(r: &Result<Option<(u64, u64)>, String>) -> String {
	match r { Ok(Some((f, rt))) => format!("{} {}", f, rt), Ok(None) => "none".into(), Err(p) => format!("panic {}", p.split('\n').next().unwrap_or("")) }
}

struct Synth { params: ChannelTransactionParameters, holder_tx: HolderCommitmentTransaction, sig: bitcoin::secp256k1::ecdsa::Signature, point: PublicKey }

fn synth(anchors: bool) -> Synth {
	let secp = Secp256k1::new();
	let sk = SecretKey::from_slice(&[42; 32]).unwrap();
	let pk = PublicKey::from_secret_key(&secp, &sk);
	let sig = secp.sign_ecdsa(&Message::from_digest([42; 32]), &sk);
	let keys = ChannelPublicKeys { funding_pubkey: pk, revocation_basepoint: pk.into(), payment_point: pk, delayed_payment_basepoint: pk.into(), htlc_basepoint: pk.into() };
	let params = ChannelTransactionParameters {
		holder_pubkeys: keys.clone(), holder_selected_contest_delay: 42, is_outbound_from_holder: true,
		counterparty_parameters: Some(CounterpartyChannelTransactionParameters { pubkeys: keys, selected_contest_delay: 42 }),
		funding_outpoint: Some(OutPoint { txid: bitcoin::Txid::from_byte_array([42; 32]), index: 0 }),
		splice_parent_funding_txid: None,
		channel_type_features: if anchors { ChannelTypeFeatures::anchors_zero_htlc_fee_and_dependencies() } else { ChannelTypeFeatures::only_static_remote_key() },
		channel_value_satoshis: 1_000_000,
	};
	let inner = CommitmentTransaction::new(0, &pk, 0, 0, 0, Vec::new(), &params.as_holder_broadcastable(), &secp);
	let holder_tx = HolderCommitmentTransaction::new(inner, sig, Vec::new(), &pk, &pk);
	Synth { params, holder_tx, sig, point: pk }
}

#[derive(Clone, Copy)]
enum In { Ro, Rh, Co(u32), Cr(u32), Hh(bool, u32), Hf }

fn real_timer(s: &Synth, ins: &[In], csh: u32, h: u32) -> (u32, u32) {
	let inputs: Vec<vp::Input> = ins.iter().map(|i| match *i {
		In::Ro => vp::Input::RevokedOutput,
		In::Rh => vp::Input::RevokedHTLCOutput,
		In::Co(c) => vp::Input::CounterpartyOfferedHTLCOutput { cltv_expiry: c },
		In::Cr(c) => vp::Input::CounterpartyReceivedHTLCOutput { cltv_expiry: c },
		In::Hh(pre, c) => {
			let trusted = s.holder_tx.trust();
			vp::Input::HolderHTLCOutput { descriptor: HTLCDescriptor {
				channel_derivation_parameters: ChannelDerivationParameters { value_satoshis: s.params.channel_value_satoshis, keys_id: [0; 32], transaction_parameters: s.params.clone() },
				commitment_txid: trusted.txid(), per_commitment_number: trusted.commitment_number(), per_commitment_point: s.point,
				feerate_per_kw: 0,
				// an HTLC-success claim stores cltv_expiry 0 whatever the HTLC says: give it a real expiry
				htlc: HTLCOutputInCommitment { offered: !pre, amount_msat: 1_337_000, cltv_expiry: if pre { 777 } else { c }, payment_hash: PaymentHash([1; 32]), transaction_output_index: Some(0) },
				preimage: if pre { Some(PaymentPreimage([2; 32])) } else { None },
				counterparty_sig: s.sig,
			} }
		},
		In::Hf => vp::Input::HolderFundingOutput { commitment_tx: s.holder_tx.clone() },
	}).collect();
	vp::height_timer_and_locktime(inputs, &s.params, csh, h)
}

fn tok(i: &In) -> String {
	match *i { In::Ro => "ro".into(), In::Rh => "rh".into(), In::Co(c) => format!("co:{}", c), In::Cr(c) => format!("cr:{}", c),
		In::Hh(p, c) => format!("hh:{}:{}", p as u8, if p { 0 } else { c }), In::Hf => "hf".into() }
}

pub fn run_bump(rec: &mut Rec, rng: &mut Rng, thorough: bool, scale: u64) {
	let logger = NullLogger;
	// ---- feerate_bump -------------------------------------------------------------------------
	let n_bump = if thorough { 400_000 } else { 12_000 } * scale;
	let ests: [u64; 9] = [0, 100, 252, 253, 254, 1000, 5000, 50_000, 4_000_000_000];
	for k in 0..n_bump {
		let w = match rng.below(10) { 0 => rng.range(1, 8), 1 => rng.range(1, 2000), 2 => 1000, _ => rng.range(400, 6000) };
		let est = if rng.chance(1, 3) { rng.below(20_000) } else { *rng.pick(&ests) };
		let prev = match rng.below(8) { 0 => rng.range(0, 6), 1 => rng.near(est.max(3)), 2 => rng.near(253), 3 => rng.below(1 << 32), 4 => rng.near(est * 4 / 5 + 2), _ => rng.range(253, 30_000) };
		let dust = *rng.pick(&[0u64, 294, 330, 546, 1000]) + if rng.chance(1, 6) { rng.below(5000) } else { 0 };
		let prev_fee = prev * w / 1000;
		let inp = match rng.below(8) {
			0 => rng.near(prev_fee + RELAY * w / 1000 + dust),
			1 => rng.near((prev + prev / 4) * w / 1000 + dust),
			2 => rng.near(2 * (253 * w).div_ceil(1000)),       // around the floor of compute_fee_from_spent_amounts
			3 => rng.below(3000),
			4 => rng.below(21_000_000 * 100_000_000),
			_ => rng.range(500, 5_000_000),
		};
		let strat = (k % 3) as u8;
		let r = guarded(AssertUnwindSafe(|| vp::feerate_bump(w, inp, dust, prev, strat, ConstFee(est as u32), &logger)));
		let class = match &r {
			Ok(Some((_, rt))) => if *rt == prev { format!("bump{}:same", strat) } else { format!("bump{}:replace", strat) },
			Ok(None) => format!("bump{}:none", strat), Err(_) => "bump:panic".to_string() };
		// implementation-side property oracle (no model): never a lower feerate; a replacement pays the
		// previous fee plus the relay increment and keeps the output above dust; a re-broadcast keeps the fee
		if let Ok(Some((fee, rate))) = &r {
			let ok_rate = w < 4 || *rate >= prev;
			let ok_fee = (*rate == prev && *fee == prev_fee) || (*fee >= prev_fee + RELAY * w / 1000 && inp.saturating_sub(*fee) >= dust);
			let ok_force = !(strat == 2 && prev >= 4) || *fee >= prev_fee + RELAY * w / 1000;
			if !(ok_rate && ok_fee && ok_force) {
				rec.oracle_fail(format!("feerate_bump w={} inp={} dust={} prev={} strat={} est={} -> fee={} rate={}: not monotone / not BIP125", w, inp, dust, prev, strat, est, fee, rate));
			}
		}
		if let Err(p) = &r { rec.oracle_fail(format!("feerate_bump panicked w={} inp={} dust={} prev={} strat={} est={}: {}", w, inp, dust, prev, strat, est, p)); }
		rec.case(&format!("bump {} {} {} {} {} {}", w, inp, dust, prev, strat, est), &show(&r), &class, true);
		if k % 4 == 0 {
			let r = guarded(AssertUnwindSafe(|| vp::compute_fee_from_spent_amounts(inp, w, ConstFee(est as u32), &logger)));
			let class = match &r { Ok(Some(_)) => "fee:some", Ok(None) => "fee:none", Err(_) => "fee:panic" };
			if let Ok(Some((fee, rate))) = &r { if *rate < 253 || *fee > inp / 2 + 1 { rec.oracle_fail(format!("compute_fee_from_spent_amounts inp={} w={} est={} -> {} {}", inp, w, est, fee, rate)); } }
			rec.case(&format!("fee {} {} {}", inp, w, est), &show(&r), class, true);
		}
	}
	// ---- get_height_timer / package_locktime ------------------------------------------------------
	let synths = [synth(false), synth(true)];
	let n_timer = if thorough { 100_000 } else { 4_000 } * scale;
	for k in 0..n_timer {
		let s = &synths[(k % 2) as usize];
		let h = *rng.pick(&[100u64, 1000, 700_000, 2_000_000]) + rng.below(1000);
		let near = |rng: &mut Rng| -> u32 { match rng.below(4) { 0 => (h + rng.below(20)).saturating_sub(2) as u32, 1 => (h + rng.below(80)).saturating_sub(60) as u32, 2 => rng.below(50) as u32, _ => (h + rng.below(400)) as u32 } };
		let csh = near(rng);
		let n = rng.range(1, 5) as usize;
		let holder_mode = rng.chance(1, 3);
		let shared = (rng.chance(1, 2), near(rng));
		let mut ins = vec![];
		for _ in 0..n {
			ins.push(if holder_mode {
				match rng.below(5) { 0 => In::Ro, 1 => In::Rh, 2 => In::Co(near(rng)), 3 => In::Hf, _ => In::Hh(shared.0, shared.1) }
			} else {
				match rng.below(5) { 0 => In::Ro, 1 => In::Rh, 2 => In::Co(near(rng)), 3 => In::Cr(near(rng)), _ => In::Hf }
			});
		}
		let r = guarded(AssertUnwindSafe(|| real_timer(s, &ins, csh, h as u32)));
		let res = match &r { Ok((t, l)) => format!("{} {}", t, l), Err(p) => format!("panic {}", p.split('\n').next().unwrap_or("")) };
		let class = match &r { Ok((t, _)) => format!("timer:+{}", *t as u64 - h), Err(_) => "timer:panic".into() };
		if let Ok((t, l)) = &r {
			// impl-side oracles: the next bump is in (h, h+15]; an unsigned package's locktime is never below the height
			if !(*t as u64 > h && *t as u64 <= h + 15) { rec.oracle_fail(format!("get_height_timer({}) = {} outside (h, h+15] for {:?}", h, t, ins.iter().map(tok).collect::<Vec<_>>())); }
			if !ins.iter().any(|i| matches!(i, In::Hh(..))) && (*l as u64) < h { rec.oracle_fail(format!("package_locktime({}) = {} below the height", h, l)); }
		} else { rec.oracle_fail(format!("get_height_timer/package_locktime panicked h={} csh={} {:?}", h, csh, ins.iter().map(tok).collect::<Vec<_>>())); }
		rec.case(&format!("timer {} {} {}", h, csh, ins.iter().map(tok).collect::<Vec<_>>().join(" ")), &res, &class, true);
	}
	rec.notes.insert("rule".into(), "PRNG-drawn (weight, inputs, dust, previous feerate, strategy, estimator) tuples with boundary-biased draws (around the relay increment + dust boundary, the 25% bump, the feerate floor, tiny weights) through the real feerate_bump / compute_fee_from_spent_amounts; synthetic PackageTemplates over all six PackageSolvingData variants (both channel types) through the real get_height_timer / package_locktime; every case is distinct by its op text".into());
}

/// (add-only, used by c07.rs `c07fee`) the synthetic channel parameters of `synth`, for the
/// `verif_hooks::package::{compute_package_feerate, compute_package_output}` wrappers
#[allow(dead_code)]
pub fn synth_params(anchors: bool) -> ChannelTransactionParameters { synth(anchors).params }
