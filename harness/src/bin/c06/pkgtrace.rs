//! Package-layer differential (shared by c06justice and c07close): turns the lines recorded by the read-only hook
//! `lightning::ln::verif_hooks::pkgtrace` — one group per OnchainTxHandler::update_claims_view_from_matched_txn call, one pair per
//! aggregation in update_claims_view_from_requests — into `pkgblock` / `pkgagg` cases for the Lean model (Model/Packages.lean through
//! Driver/Packages.lean).  The REAL state before the call is the model's input, the REAL state after it the expected answer.
use lightning::ln::verif_hooks::pkgtrace as hook;

/// start recording on this thread (and forget what an aborted scenario left behind)
pub fn enable() { hook::enable(true); let _ = hook::drain(); }

fn count(list: &str) -> usize { if list == "-" { 0 } else { list.split(';').count() } }
fn outpoints_of_pending(p: &str) -> usize { if p == "-" { 0 } else { p.split(';').map(|e| e.rsplit(',').next().map(|i| if i == "-" { 0 } else { i.split('+').count() }).unwrap_or(0)).sum() } }

/// `(op line, expected answer, class)` for everything recorded since the last call
pub fn cases() -> Vec<(String, String, String)> {
	let lines = hook::drain();
	let mut out = vec![];
	let mut quiet = 0usize;
	let mut i = 0;
	while i < lines.len() {
		let w: Vec<&str> = lines[i].split(' ').collect();
		match w[0] {
			"agg-pre" if i + 1 < lines.len() && lines[i + 1].starts_with("agg-post ") && w.len() == 3 => {
				let post: Vec<&str> = lines[i + 1].split(' ').collect();
				if post.len() == 3 && count(w[2]) >= 2 {
					out.push((format!("pkgagg {} {}", w[1], w[2]), post[2].to_string(), format!("pkgagg:{}->{}", count(w[2]).min(6), count(post[2]).min(6))));
				}
				i += 2;
			},
			"pre" if w.len() == 8 => {
				// pre <conf> <cur> <pending> <claimable> <events> <locked> <txs>
				let mut j = i + 1;
				let mut mid: Option<Vec<&str>> = None;
				let mut issued: Vec<String> = vec![];
				let mut ended = false;
				while j < lines.len() {
					let v: Vec<&str> = lines[j].split(' ').collect();
					match v[0] {
						"mid" if v.len() == 6 && mid.is_none() => mid = Some(v),
						"issued" if v.len() == 3 => issued.push(format!("{}={}", v[1], v[2])),
						"end" => { ended = true; j += 1; break; },
						_ => break,      // (a nested call cannot happen; anything else: give the group up)
					}
					j += 1;
				}
				if let (Some(m), true) = (mid, ended) {
					let (pending, locked, txs, cands) = (w[3], w[6], w[7], m[5]);
					let touched = txs != "-" && (pending != "-" || locked != "-");
					let split = outpoints_of_pending(pending) != outpoints_of_pending(m[1]) && count(pending) == count(m[1]);
					let interesting = touched || cands != "-";
					if interesting || (pending != "-" && quiet < 3) {
						if !interesting { quiet += 1; }
						let class = if !interesting { "pkgblock:quiet".to_string() } else {
							format!("pkgblock:txs{}:pending{}:{}cands{}:issued{}{}", count(txs).min(3), count(pending).min(3), if split { "split:" } else { "" }, count(cands).min(3), issued.len().min(3),
								if w[1] != w[2] { ":conf<cur" } else { "" }) };
						out.push((format!("pkgblock {} {} {} {} {} {} {} {}", w[1], w[2], w[3], w[4], w[5], w[6], w[7], if issued.is_empty() { "-".to_string() } else { issued.join(";") }),
							format!("{} {} {} {} {} accept=1 wf=1 issued-ok", m[1], m[2], m[3], m[4], m[5]), class));
					}
				}
				i = j.max(i + 1);
			},
			_ => i += 1,
		}
	}
	out
}
