//! Package-layer differential (shared by c06justice and c07close): turns the lines recorded by the read-only hook
//! `lightning::ln::verif_hooks::pkgtrace` — one group per OnchainTxHandler::update_claims_view_from_matched_txn call, one pair per
//! aggregation in update_claims_view_from_requests — into `pkgblock` / `pkgagg` cases for the Lean model (Model/Packages.lean through
//! Driver/Packages.lean).  The REAL state before the call is the model's input, the REAL state after it the expected answer.
use lightning::ln::verif_hooks::pkgtrace as hook;

/// start recording on this thread (and forget what an aborted scenario left behind)
pub fn enable() { hook::enable(true); let _ = hook::drain(); KINDS.with(|k| k.borrow_mut().clear()); }

fn count(list: &str) -> usize { if list == "-" { 0 } else { list.split(';').count() } }
fn outpoints_of_pending(p: &str) -> usize { if p == "-" { 0 } else { p.split(';').map(|e| e.rsplit(',').next().map(|i| if i == "-" { 0 } else { i.split('+').count() }).unwrap_or(0)).sum() } }

thread_local! { static KINDS: std::cell::RefCell<std::collections::HashMap<(String, String), String>> = std::cell::RefCell::new(std::collections::HashMap::new()); }
fn learn_kinds(dest: &str, dump: &str) {
	// every `txid8:vout~KIND` token of a package dump, under the destination script of the handler that dumped it (both nodes' monitors are traced, and
	// the same outpoint is a different kind of input for each of them)
	KINDS.with(|k| { let mut k = k.borrow_mut(); for part in dump.split(|c| c == ',' || c == '+' || c == ';' || c == '/' || c == ' ') { if let Some((o, kind)) = part.split_once('~') { k.insert((dest.to_string(), o.to_string()), kind.to_string()); } } });
}
/// `pkgweight` case for a transaction this node broadcast, if every input is a package input of the handler that pays to the transaction's (single) output
/// script: the translated `package_weight` of its inputs must be at least its real weight
pub fn weight_case(tx: &bitcoin::Transaction, anchors: bool) -> Option<(String, String, String)> {
	if tx.output.len() != 1 { return None; }
	let dest: String = tx.output[0].script_pubkey.as_bytes().iter().map(|b| format!("{:02x}", b)).collect();
	let kinds: Option<Vec<String>> = KINDS.with(|k| { let k = k.borrow(); tx.input.iter().map(|i| k.get(&(dest.clone(), format!("{}:{}", &i.previous_output.txid.to_string()[..8], i.previous_output.vout))).cloned()).collect() });
	let kinds = kinds?;
	if kinds.iter().any(|k| k == "HF" || k.starts_with("HH")) { return None; }      // (pre-signed holder transactions are not built from package_weight)
	Some((format!("pkgweight {} {} {} {}", anchors as u8, tx.output[0].script_pubkey.len(), tx.weight().to_wu(), kinds.join("+")), "ge".to_string(), format!("pkgweight:inputs{}", kinds.len().min(6))))
}

/// `(op line, expected answer, class)` for everything recorded since the last call
pub fn cases() -> Vec<(String, String, String)> {
	let lines = hook::drain();
	for l in &lines { if l.starts_with("pre ") || l.starts_with("agg-pre ") { if let Some((body, dest)) = l.rsplit_once(' ') { learn_kinds(dest, body); } } }
	let mut out = vec![];
	let mut quiet = 0usize;
	let mut i = 0;
	while i < lines.len() {
		let w: Vec<&str> = lines[i].split(' ').collect();
		match w[0] {
			"agg-pre" if i + 1 < lines.len() && lines[i + 1].starts_with("agg-post ") && w.len() == 4 => {
				let post: Vec<&str> = lines[i + 1].split(' ').collect();
				if post.len() == 3 && count(w[2]) >= 2 {
					out.push((format!("pkgagg {} {}", w[1], w[2]), post[2].to_string(), format!("pkgagg:{}->{}", count(w[2]).min(6), count(post[2]).min(6))));
				}
				i += 2;
			},
			"pre" if w.len() == 9 => {
				// pre <conf> <cur> <pending> <claimable> <events> <locked> <txs> <destination script>
				let mut j = i + 1;
				let mut mid: Option<Vec<&str>> = None;
				let mut issued: Vec<String> = vec![];
				let mut ended = false;
				while j < lines.len() {
					let v: Vec<&str> = lines[j].split(' ').collect();
					match v[0] {
						"mid" if v.len() == 6 && mid.is_none() => mid = Some(v),
						"issued" if v.len() == 3 => issued.push(format!("{}={}", v[1], v[2])),
						"end" => { ended = true; j += 1; break; },
						_ => break,      // (a nested call cannot happen; anything else: give the group up)
					}
					j += 1;
				}
				if let (Some(m), true) = (mid, ended) {
					let (pending, locked, txs, cands) = (w[3], w[6], w[7], m[5]);
					let touched = txs != "-" && (pending != "-" || locked != "-");
					let split = outpoints_of_pending(pending) != outpoints_of_pending(m[1]) && count(pending) == count(m[1]);
					let interesting = touched || cands != "-";
					if interesting || (pending != "-" && quiet < 3) {
						if !interesting { quiet += 1; }
						let class = if !interesting { "pkgblock:quiet".to_string() } else {
							format!("pkgblock:txs{}:pending{}:{}cands{}:issued{}{}", count(txs).min(3), count(pending).min(3), if split { "split:" } else { "" }, count(cands).min(3), issued.len().min(3),
								if w[1] != w[2] { ":conf<cur" } else { "" }) };
						out.push((format!("pkgblock {} {} {} {} {} {} {} {}", w[1], w[2], w[3], w[4], w[5], w[6], w[7], if issued.is_empty() { "-".to_string() } else { issued.join(";") }),
							format!("{} {} {} {} {} accept=1 wf=1 issued-ok", m[1], m[2], m[3], m[4], m[5]), class));
					}
				}
				i = j.max(i + 1);
			},
			_ => i += 1,
		}
	}
	out
}
