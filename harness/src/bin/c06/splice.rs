//! C06, model `c06scope` — the per-FundingScope commitment data (`FundingScope::counterparty_claimable_outpoints`) while a splice
//! is PENDING, and the punishment of a revoked commitment that was signed during the pending splice.
//!
//! One scenario = a real 2-node channel (functional_test_utils): 0–2 HTLCs routed BEFORE the splice (so `renegotiated_funding` has
//! HTLC indices to rewrite), a splice-in / splice-out by either side left pending, 1–3 HTLCs routed WHILE it is pending (amounts aimed at
//! the two balances so that the BIP-69 position of an HTLC output differs between the two versions of the same commitment), then either
//! the splice confirms and locks (`promote_funding`) or it stays pending; the cheater's commitment is captured, revoked by one more
//! update, and confirmed on the victim.
//! Model ops (driver `c06scope`, Model/ScopeData.lean), replayed from the victim's REAL ChannelMonitorUpdates:
//!   sreset <funding>                              the monitor of a fresh channel
//!   scommit <funding/txid/htlc,…|-> …             update_counterparty_commitment_data: one commitment transaction per scope
//!   sreneg <funding/txid/htlcs>                   renegotiated_funding
//!   spromote <funding>                            promote_funding
//!   sverify <funding/txid/htlcs/number/point/feerate> …   verify_matching_commitment_transactions asked (read-only hook) about the last
//!                    real update's versions and about copies in which ONE attribute of ONE version differs → `ok` | `err <message>`
//!   sdump            → every scope's stored lists (non-dust HTLCs with their output index), compared with hook verif_scope_claimables
//!   sconfirm <funding> <txid> <sat,…>  → the HTLC outputs claimed when that commitment confirms (htlcClaims over the scope's stored list)
//! Implementation oracles (no model): every stored list of every scope equals the non-dust HTLC list of THAT scope's own commitment
//! transaction and survives the monitor's write/read round trip; after the revoked commitment confirms every HTLC output and the to_local output of it is spent by a broadcast that
//! verifies under libbitcoinconsensus; after burial SpendableOutputs are reported for every confirmed justice transaction.
use bitcoin::{Amount, OutPoint, Transaction, TxOut, Txid};
use ldk_verif_harness::common::*;
use ldk_verif_harness::sim::leak;
use lightning::chain::channelmonitor::ANTI_REORG_DELAY;
use lightning::events::Event;
use lightning::ln::chan_utils::CommitmentTransaction;
use lightning::ln::functional_test_utils::*;
use lightning::ln::msgs::BaseMessageHandler;
use lightning::ln::splicing_tests::{complete_interactive_funding_negotiation, complete_rbf_handshake, do_initiate_rbf_splice_in, do_initiate_splice_in, initiate_splice_out, lock_rbf_splice_after_blocks, lock_splice_after_blocks, sign_interactive_funding_tx, splice_channel, SignInteractiveFundingTxArgs};
use lightning::ln::types::ChannelId;
use lightning::ln::verif_hooks as vh;
use lightning::util::wallet_utils::WalletSourceSync;
use std::collections::{BTreeMap, BTreeSet, HashMap};

type H = (u64, bool, u32, Option<u32>);
fn htok(h: &H) -> String { format!("{}:{}:{}:{}", h.0, h.1 as u8, h.2, h.3.map(|i| i.to_string()).unwrap_or("-".into())) }
fn dash(v: Vec<String>, sep: &str) -> String { if v.is_empty() { "-".into() } else { v.join(sep) } }

#[derive(Default)]
struct Intern { ids: BTreeMap<Txid, usize>, pts: BTreeMap<[u8; 33], usize> }
impl Intern {
	fn id(&mut self, t: &Txid) -> usize { let n = self.ids.len() + 1; *self.ids.entry(*t).or_insert(n) }
	fn pt(&mut self, p: &[u8; 33]) -> usize { let n = self.pts.len() + 1; *self.pts.entry(*p).or_insert(n) }
}

struct CTx { funding: Txid, txid: Txid, htlcs: Vec<H>, num: u64, point: [u8; 33], feerate: u32 }
fn ctx_of(ct: &CommitmentTransaction) -> CTx {
	let t = ct.trust();
	let tx = &t.built_transaction().transaction;
	CTx { funding: tx.input[0].previous_output.txid, txid: t.txid(), htlcs: ct.nondust_htlcs().iter().map(|h| (h.amount_msat, h.offered, h.cltv_expiry, h.transaction_output_index)).collect(),
		num: ct.commitment_number(), point: ct.per_commitment_point().serialize(), feerate: ct.negotiated_feerate_per_kw() }
}
fn ctx_tok(c: &CTx, it: &mut Intern) -> String { format!("{}/{}/{}/{}/{}/{}", it.id(&c.funding), it.id(&c.txid), dash(c.htlcs.iter().map(htok).collect(), ","), c.num, it.pt(&c.point), c.feerate) }

/// the victim's real monitor updates as model ops, collected incrementally (`poll` after every phase: `counterparty_commitment_txs_from_update`
/// rebuilds a `LatestCounterpartyCommitmentTXInfo` transaction from the monitor's CURRENT locked funding and debug-asserts that nothing is pending)
struct Replayer { consumed: usize, started: bool, scopes: usize, ops: Vec<String>, seen: HashMap<(Txid, Txid), Vec<H>>,
	/// the transactions (one per scope) of the last and of the one-before-last counterparty commitment update
	last: Vec<CommitmentTransaction>, before_last: Vec<CommitmentTransaction> }
impl Replayer {
	fn new() -> Self { Replayer { consumed: 0, started: false, scopes: 1, ops: vec![], seen: HashMap::new(), last: vec![], before_last: vec![] } }
	fn poll(&mut self, node: &Node, chan: ChannelId, first_funding: Txid, splice_funding: Option<Txid>, it: &mut Intern) -> Result<(), String> {
		let mon = node.chain_monitor.chain_monitor.get_monitor(chan).map_err(|_| "no victim monitor")?;
		if !self.started {
			self.started = true;
			self.ops.push(format!("sreset {}", it.id(&first_funding)));
			let init = mon.initial_counterparty_commitment_tx().ok_or("no initial counterparty commitment")?;
			let c = ctx_of(&init); self.ops.push(format!("scommit {}", ctx_tok(&c, it))); self.seen.insert((c.funding, c.txid), c.htlcs);
		}
		let updates = node.chain_monitor.monitor_updates.lock().unwrap().get(&chan).cloned().unwrap_or_default();
		for u in updates.iter().skip(self.consumed) {
			let txs = mon.counterparty_commitment_txs_from_update(u);
			let mut ti = 0;
			for k in vh::monitor_update_step_kinds(u) { match k {
				"CounterpartyCommitmentTXInfo" | "CounterpartyCommitment" => {
					let n = if k == "CounterpartyCommitment" { self.scopes } else { 1 };
					if ti + n > txs.len() { return Err("counterparty commitment step without its transactions".into()); }
					let cs: Vec<CTx> = txs[ti..ti + n].iter().map(ctx_of).collect();
					self.before_last = std::mem::replace(&mut self.last, txs[ti..ti + n].to_vec()); ti += n;
					self.ops.push(format!("scommit {}", cs.iter().map(|c| ctx_tok(c, it)).collect::<Vec<_>>().join(" ")));
					for c in cs { self.seen.insert((c.funding, c.txid), c.htlcs); }
				},
				"RenegotiatedFunding" => {
					if ti >= txs.len() { return Err("RenegotiatedFunding without its transaction".into()); }
					let c = ctx_of(&txs[ti]); ti += 1; self.scopes += 1;
					self.ops.push(format!("sreneg {}", ctx_tok(&c, it))); self.seen.insert((c.funding, c.txid), c.htlcs);
				},
				"RenegotiatedFundingLocked" => { self.ops.push(format!("spromote {}", it.id(&splice_funding.ok_or("funding locked before any splice")?))); self.scopes = 1; },
				_ => {},
			} }
		}
		self.consumed = updates.len();
		Ok(())
	}
}

/// hook dump → (model answer line, oracle failures: a stored list that is not its own scope's commitment's list)
fn dump(node: &Node, chan: ChannelId, it: &mut Intern, seen: &HashMap<(Txid, Txid), Vec<H>>, ctx: &str) -> Result<(String, Vec<String>), String> {
	let mon = node.chain_monitor.chain_monitor.get_monitor(chan).map_err(|_| "no victim monitor")?;
	let mut fails = vec![]; let mut toks = vec![];
	{	// the per-scope data must survive serialisation (a reload can happen at any point)
		use lightning::util::ser::{ReadableArgs, Writeable};
		let bytes = mon.encode(); let mut cur = lightning::io::Cursor::new(&bytes[..]);
		match <(lightning::chain::BlockLocator, lightning::chain::channelmonitor::ChannelMonitor<lightning::util::test_channel_signer::TestChannelSigner>)>::read(&mut cur, (node.keys_manager, node.keys_manager)) {
			Ok((_, m2)) => if m2.verif_scope_claimables() != mon.verif_scope_claimables() { fails.push(format!("counterparty_claimable_outpoints of the FundingScopes differ after the monitor's write/read round trip: {:?} vs {:?} {}", mon.verif_scope_claimables(), m2.verif_scope_claimables(), ctx)); },
			Err(e) => fails.push(format!("the victim's monitor does not read back: {:?} {}", e, ctx)),
		}
	}
	for (si, (funding, entries)) in mon.verif_scope_claimables().into_iter().enumerate() {
		let mut es: Vec<(usize, String)> = vec![];
		for (txid, list) in entries {
			let nondust: Vec<H> = list.into_iter().filter(|h| h.3.is_some()).collect();
			match seen.get(&(funding, txid)) {
				Some(own) => if *own != nondust { fails.push(format!("FundingScope #{} (funding {}) stores for counterparty commitment {} the HTLC list [{}] but that scope's own commitment transaction has [{}] (amount_msat:offered:cltv:output index) {}", si, funding, txid, dash(nondust.iter().map(htok).collect(), ","), dash(own.iter().map(htok).collect(), ","), ctx)); },
				None => fails.push(format!("FundingScope #{} (funding {}) stores data for commitment {} which no monitor update supplied for that funding {}", si, funding, txid, ctx)),
			}
			es.push((it.id(&txid), dash(nondust.iter().map(htok).collect(), ",")));
		}
		es.sort();
		toks.push(format!("F{}[{}]", it.id(&funding), es.iter().map(|(t, l)| format!("{}={}", t, l)).collect::<Vec<_>>().join(";")));
	}
	Ok((toks.join(" "), fails))
}

/// round 6 — verify_matching_commitment_transactions' cross-version comparisons: the victim's REAL monitor (read-only hook
/// verif_verify_matching_commitment_transactions) is asked about the versions of the last real counterparty commitment update (one per
/// FundingScope, >= 2 while a splice / RBF candidate is pending) and about copies in which ONE attribute of ONE version is altered
/// (hook CommitmentTransaction::verif_with_attrs: number, per-commitment point, feerate, an HTLC dropped, an HTLC amount), the versions
/// swapped, one version missing.  Model op `sverify`; implementation oracle (no model): versions that differ are REFUSED.
fn verify_probes(node: &Node, chan: ChannelId, rp: &Replayer, it: &mut Intern, seed: u64, out: &mut Out, plan: &str) -> Result<(), String> {
	let n = rp.last.len();
	if n < 2 || n != rp.scopes { return Ok(()); }
	let mon = node.chain_monitor.chain_monitor.get_monitor(chan).map_err(|_| "no victim monitor")?;
	let mut rng = Rng::new(seed ^ 0x0c06_5eed_0006);
	let k = rng.below(n as u64) as usize;	// the altered version (0 = the locked scope's)
	let base = &rp.last;
	let other_point = rp.before_last.first().map(|c| c.per_commitment_point());
	let with = |f: &dyn Fn(&CommitmentTransaction) -> CommitmentTransaction| { let mut v = base.clone(); v[k] = f(&base[k]); v };
	let mut cases: Vec<(String, Vec<CommitmentTransaction>, bool)> = vec![("nothing".into(), base.clone(), false)];
	let dn = 1 + rng.below(3);
	cases.push(("the commitment number".into(), with(&|c| c.verif_with_attrs(Some(if rng_bit(seed, 1) { c.commitment_number() - dn } else { c.commitment_number() + dn }), None, None, false, None)), true));
	if let Some(p) = other_point { if p != base[k].per_commitment_point() { cases.push(("the per-commitment point".into(), with(&|c| c.verif_with_attrs(None, Some(p), None, false, None)), true)); } }
	cases.push(("the feerate".into(), with(&|c| c.verif_with_attrs(None, None, Some(if rng_bit(seed, 2) { c.negotiated_feerate_per_kw() + 1 } else { c.negotiated_feerate_per_kw() - 1 }), false, None)), true));
	if !base[k].nondust_htlcs().is_empty() {
		cases.push(("the number of non-dust HTLCs".into(), with(&|c| c.verif_with_attrs(None, None, None, true, None)), true));
		let a = base[k].nondust_htlcs()[0].amount_msat;
		cases.push(("the amount of the first non-dust HTLC".into(), with(&|c| c.verif_with_attrs(None, None, None, false, Some(if rng_bit(seed, 3) { a + 1 } else { a - 1 }))), true));
	}
	{ let mut v = base.clone(); v.swap(0, n - 1); cases.push(("the funding each version spends (versions swapped)".into(), v, true)); }
	{ let mut v = base.clone(); v.pop(); cases.push(("the number of versions (one missing)".into(), v, true)); }
	for (what, txs, differs) in cases {
		let res = mon.verif_verify_matching_commitment_transactions(&txs);
		let ans = match res { Ok(()) => "ok".to_string(), Err(e) => format!("err {}", e.replace(' ', "_")) };
		if differs && res.is_ok() { out.oracle.push(format!("verify_matching_commitment_transactions ACCEPTS counterparty commitment versions (one per funding scope) that differ in {} (version {} of {} altered; versions [{}]): the data stored for the pending funding would belong to another commitment than the locked funding's — one revocation secret no longer punishes every version {}", what, k, n, txs.iter().map(|c| ctx_tok(&ctx_of(c), it)).collect::<Vec<_>>().join(" "), plan)); }
		if !differs && res.is_err() { out.oracle.push(format!("verify_matching_commitment_transactions refuses the unaltered versions of the last real update: {} {}", ans, plan)); }
		let class = format!("scope:verify({} versions):{}", n, if differs { ans.clone() } else { "unaltered:".to_string() + &ans });
		out.lines.push((format!("sverify {}", txs.iter().map(|c| ctx_tok(&ctx_of(c), it)).collect::<Vec<_>>().join(" ")), Some(ans), class));
	}
	Ok(())
}
fn rng_bit(seed: u64, i: u32) -> bool { (seed >> (7 + i)) & 1 == 1 }

thread_local! { /// 0 = channel set-up and splice negotiation, 1 = everything after the splice transaction exists
	static PHASE: std::cell::Cell<u8> = std::cell::Cell::new(0);
	/// the plan of the running scenario (appended to the report of a panic of the real code)
	static PLAN: std::cell::RefCell<String> = std::cell::RefCell::new(String::new()); }

pub struct Out { pub lines: Vec<(String, Option<String>, String)>, pub oracle: Vec<String>, pub classes: Vec<String> }

pub fn scenario(seed: u64, index: u64) -> Result<Out, String> {
	let mut rng = Rng::new(seed);
	PHASE.with(|c| c.set(0));
	let mut out = Out { lines: vec![], oracle: vec![], classes: vec![] };
	let chanmon_cfgs = leak(create_chanmon_cfgs(2));
	let node_cfgs = leak(create_node_cfgs(2, chanmon_cfgs));
	let node_chanmgrs = leak(create_node_chanmgrs(2, node_cfgs, &[None, None]));
	let mut nodes = create_network(2, node_cfgs, node_chanmgrs);
	let (victim, cheater) = (0usize, 1usize);
	// ---- plan (the first scenarios are aimed: the HTLC value lies between a balance before and after the splice) ------------------
	let cap: u64 = 100_000 * rng.range(1, 4);
	// the test config's max in-flight value is 25 % of the (original) capacity per direction
	let htlc_sat: u64 = rng.range(14_000, 30_000.min(cap / 4 - 3_000));
	let aimed = index % 3 != 2;
	// node 0's balance before the splice: after paying the aimed HTLC what is left is BELOW the HTLC value (a splice-in lifts it above), or anywhere
	let bal0: u64 = if aimed { htlc_sat + rng.range(8_000, htlc_sat - 2_000) } else { rng.range(50_000, cap - 30_000) };
	let push = cap - bal0;
	let splicer = if aimed { 0 } else { rng.below(2) as usize };
	// what each side can still send (the aimed HTLC and a splice-out are set aside; 8000 sat stay for reserve and fees)
	let mut avail: [u64; 2] = [bal0 - htlc_sat, push];
	let mut inflight: [u64; 2] = [htlc_sat, 0];
	let splice_out = !aimed && rng.chance(1, 3) && avail[splicer] >= 22_000;
	if splice_out { avail[splicer] -= 12_000; }
	// 0: the splice confirms and LOCKS; 1: it stays unconfirmed (revoked commitment on the original funding); 2: it CONFIRMS but is NOT locked
	// (`alternative_funding_confirmed`: the revoked commitment spends the splice, punishment uses the PENDING scope's data)
	let mode: u8 = match index % 4 { 3 => 1, 2 => 2, _ => 0 };
	let lock = mode == 0;
	// the victim is restarted (manager + monitor written and read back) after the revoked state was recorded, before the cheat
	let restart = index % 3 == 1;
	// an RBF candidate of the splice is negotiated after the HTLCs routed during the first candidate: TWO pending scopes (k = 0, 1); what confirms is the RBF
	let rbf = !splice_out && index % 6 == 4;
	let n_before = rng.below(3) as usize; let n_during = 1 + rng.below(2) as usize;
	// the aimed HTLC is routed BEFORE the splice in a fifth of the scenarios: renegotiated_funding then has an index to rewrite that DIFFERS
	let aimed_before = index % 5 == 1;
	let plan = format!("[seed {} #{}: capacity {} sat, {} sat pushed to node 1, node {} splices {} (left pending), up to {} HTLC(s) before / {} during the pending splice (the aimed one: {} sat from node 0, routed {} the splice negotiation), splice {} before the revoked commitment confirms]",
		seed, index, cap, push, splicer, if splice_out { "out 10000 sat" } else { "in 100000 sat" }, n_before, n_during, htlc_sat, if aimed_before { "BEFORE" } else { "after" }, format!("{}{}{}", match mode { 0 => "confirms and LOCKS", 1 => "stays UNCONFIRMED", _ => "CONFIRMS but is NOT locked" }, if restart { "; victim RESTARTED before the cheat" } else { "" }, if rbf { "; an RBF candidate of the splice is negotiated too (two pending scopes), the RBF is what confirms" } else { "" }));
	PLAN.with(|p| *p.borrow_mut() = plan.clone());
	if std::env::var("C06_DEBUG").is_ok() { eprintln!("{}", plan); }
	let (_, _, chan, funding_tx) = create_announced_chan_between_nodes_with_value(&nodes, 0, 1, cap, push * 1000);
	let first_funding = funding_tx.compute_txid();
	let mut it = Intern::default(); let mut rp = Replayer::new();
	provide_utxo_reserves(&nodes, 2, Amount::ONE_BTC);
	let mut pre = vec![];
	let mut aimed_pay = None;
	if aimed_before { let r = route_payment(&nodes[0], &[&nodes[1]], htlc_sat * 1000); aimed_pay = Some((0usize, r.0, r.1)); }
	for _ in 0..n_before { let a = rng.below(2) as usize; let amt = rng.range(1_500, 5_000); if avail[a] < amt + 8_000 || inflight[a] + amt + 1_000 > cap / 4 { continue; } avail[a] -= amt; inflight[a] += amt; let r = route_payment(&nodes[a], &[&nodes[1 - a]], amt * 1000); pre.push((a, r.0, r.1)); }
	rp.poll(&nodes[victim], chan, first_funding, None, &mut it)?;
	// ---- the splice, left pending ------------------------------------------------------------------------------------------------
	let (ini, acc) = (&nodes[splicer], &nodes[1 - splicer]);
	let contribution = if splice_out {
		let outputs = vec![TxOut { value: Amount::from_sat(10_000), script_pubkey: ini.wallet_source.get_change_script().unwrap() }];
		initiate_splice_out(ini, acc, chan, outputs).map_err(|e| format!("splice_out {:?}", e))?
	} else { do_initiate_splice_in(ini, acc, chan, Amount::from_sat(100_000)) };
	let (splice_tx, new_funding_script) = splice_channel(ini, acc, chan, contribution);
	let splice_funding = splice_tx.compute_txid();
	PHASE.with(|c| c.set(1));
	// ---- HTLCs while it is pending ---------------------------------------------------------------------------------------------------
	let mut during = vec![];
	for k in 0..n_during {
		let aimed_now = k == 0 && !aimed_before;
		let (a, amt) = if aimed_now { (0usize, htlc_sat) } else { (rng.below(2) as usize, rng.range(1_500, 6_000)) };
		if !aimed_now { if avail[a] < amt + 8_000 || inflight[a] + amt + 1_000 > cap / 4 { continue; } avail[a] -= amt; inflight[a] += amt; }
		if std::env::var("C06_DEBUG").is_ok() { eprintln!("during {}: node {} sends {} sat; usable {:?}", k, a, amt, nodes[a].node.list_usable_channels().iter().map(|c| (c.next_outbound_htlc_limit_msat, c.next_outbound_htlc_minimum_msat, c.outbound_capacity_msat)).collect::<Vec<_>>()); }
		let r = route_payment(&nodes[a], &[&nodes[1 - a]], amt * 1000);
		if aimed_now { aimed_pay = Some((a, r.0, r.1)); } else { during.push((a, r.0, r.1)); }
	}
	{	// the data of BOTH scopes while the splice is pending
		rp.poll(&nodes[victim], chan, first_funding, Some(splice_funding), &mut it)?;
		let (ans, fails) = dump(&nodes[victim], chan, &mut it, &rp.seen, &plan)?;
		for o in rp.ops.drain(..) { out.lines.push((o, None, String::new())); }
		out.lines.push(("sdump".into(), Some(ans), "scope:dump-while-splice-pending".into()));
		out.oracle.extend(fails);
		verify_probes(&nodes[victim], chan, &rp, &mut it, seed, &mut out, &plan)?;
	}
	let first_candidate = splice_tx.clone();
	let (splice_tx, splice_funding) = if rbf {
		PHASE.with(|c| c.set(0));
		provide_utxo_reserves(&nodes, 2, Amount::ONE_BTC);
		let feerate = bitcoin::FeeRate::from_sat_per_kwu(253 + 25 + rng.below(200));
		let (ini, acc) = (&nodes[splicer], &nodes[1 - splicer]);
		let contribution = do_initiate_rbf_splice_in(ini, acc, chan, feerate);
		complete_rbf_handshake(ini, acc);
		complete_interactive_funding_negotiation(ini, acc, chan, contribution, new_funding_script.clone());
		let (rbf_tx, _) = sign_interactive_funding_tx(SignInteractiveFundingTxArgs::new(ini, acc).replacing(first_candidate.compute_txid()));
		expect_splice_pending_event(ini, &acc.node.get_our_node_id());
		let _ = acc.node.get_and_clear_pending_events();
		PHASE.with(|c| c.set(1));
		// one more HTLC with THREE versions of every commitment (if the limits allow)
		let a = rng.below(2) as usize; let amt = rng.range(1_500, 4_000);
		if avail[a] >= amt + 8_000 && inflight[a] + amt + 1_000 <= cap / 4 { avail[a] -= amt; inflight[a] += amt; let r = route_payment(&nodes[a], &[&nodes[1 - a]], amt * 1000); during.push((a, r.0, r.1)); }
		let id = rbf_tx.compute_txid();
		rp.poll(&nodes[victim], chan, first_funding, Some(id), &mut it)?;
		let (ans, fails) = dump(&nodes[victim], chan, &mut it, &rp.seen, &plan)?;
		for o in rp.ops.drain(..) { out.lines.push((o, None, String::new())); }
		out.lines.push(("sdump".into(), Some(ans), "scope:dump-with-two-pending-scopes(rbf)".into()));
		out.oracle.extend(fails);
		verify_probes(&nodes[victim], chan, &rp, &mut it, seed ^ 0x77, &mut out, &plan)?;
		(rbf_tx, id)
	} else { (splice_tx, splice_funding) };
	if lock {
		if rbf { lock_rbf_splice_after_blocks(&nodes[splicer], &nodes[1 - splicer], &splice_tx, ANTI_REORG_DELAY - 1, &[first_candidate.compute_txid()]); }
		else {
			mine_transaction(&nodes[0], &splice_tx); mine_transaction(&nodes[1], &splice_tx);
			lock_splice_after_blocks(&nodes[splicer], &nodes[1 - splicer], ANTI_REORG_DELAY - 1);
		}
		rp.poll(&nodes[victim], chan, first_funding, Some(splice_funding), &mut it)?;
	}
	if mode == 2 {
		mine_transaction(&nodes[0], &splice_tx); mine_transaction(&nodes[1], &splice_tx);
		let extra = rng.below(3) as u32; if extra > 0 { connect_blocks(&nodes[0], extra); connect_blocks(&nodes[1], extra); }
		rp.poll(&nodes[victim], chan, first_funding, Some(splice_funding), &mut it)?;
	}
	let on_splice = mode != 1;
	// ---- the cheater's commitment (on the locked funding: the splice if it locked, the original one otherwise) -----------------------
	let preimages: Vec<_> = pre.iter().chain(during.iter()).chain(aimed_pay.iter()).map(|(_, p, h)| (*h, *p)).collect();
	let (revoked_tx, htlc_outs): (Transaction, BTreeSet<u32>) = {
		let mon = nodes[cheater].chain_monitor.chain_monitor.get_monitor(chan).map_err(|_| "no cheater monitor")?;
		if mode == 2 {
			// the PENDING scope's version of the cheater's commitment (hook; unsafe_get_latest_holder_commitment_txn signs the locked funding's only)
			let (tx, hs) = mon.verif_unsafe_holder_commitment_for_funding(splice_funding).ok_or("cheater has no commitment for the pending splice")?;
			(tx, hs.into_iter().collect())
		} else {
			let txs = mon.unsafe_get_latest_holder_commitment_txn(&nodes[cheater].logger);
			let id = txs[0].compute_txid();
			let hs = mon.verif_holder_htlc_descriptors(&preimages).iter().map(|d| d.outpoint()).filter(|o| o.txid == id).map(|o| o.vout).collect();
			(txs[0].clone(), hs)
		}
	};
	let revoked_txid = revoked_tx.compute_txid();
	let spent_funding = revoked_tx.input[0].previous_output.txid;
	if spent_funding != if on_splice { splice_funding } else { first_funding } { return Err("captured commitment spends an unexpected funding".into()); }
	// ---- revoke it: settle the aimed HTLC ---------------------------------------------------------------------------------------------
	let (a, p, _) = aimed_pay.ok_or("no aimed HTLC")?;
	claim_payment(&nodes[a], &[&nodes[1 - a]], p);
	// ---- model: all updates, the final data, the claims on the confirmed commitment ---------------------------------------------------
	rp.poll(&nodes[victim], chan, first_funding, Some(splice_funding), &mut it)?;
	let seen = rp.seen.clone();
	if restart {	// a real restart of the victim: manager and monitor written, dropped, read back (peers disconnected)
		use lightning::util::ser::Writeable;
		let mgr = nodes[victim].node.encode();
		let mon_bytes = nodes[victim].chain_monitor.chain_monitor.get_monitor(chan).map_err(|_| "no victim monitor")?.encode();
		nodes[cheater].node.peer_disconnected(nodes[victim].node.get_our_node_id());
		let config = nodes[victim].node.get_current_config();
		let persister: &'static lightning::util::test_utils::TestPersister = leak(lightning::util::test_utils::TestPersister::new());
		let node = &mut nodes[victim];
		let new_chain_monitor: &'static lightning::util::test_utils::TestChainMonitor<'static> = leak(lightning::util::test_utils::TestChainMonitor::new(
			Some(node.chain_source), node.tx_broadcaster, node.logger, node.fee_estimator, persister, node.keys_manager));
		node.chain_monitor = new_chain_monitor;
		let new_mgr = leak(_reload_node(node, config, &mgr, &[&mon_bytes[..]], None));
		node.node = new_mgr;
		node.onion_messenger.set_offers_handler(new_mgr);
		node.onion_messenger.set_async_payments_handler(new_mgr);
		node.chain_monitor.added_monitors.lock().unwrap().clear();
		out.classes.push(format!("scope:victim-restarted-before-the-cheat:mode{}", mode));
	}
	let (ans, fails) = dump(&nodes[victim], chan, &mut it, &seen, &plan)?;
	for o in rp.ops.drain(..) { out.lines.push((o, None, String::new())); }
	out.lines.push(("sdump".into(), Some(ans), format!("scope:dump-before-confirmation:{}", match mode { 0 => "locked", 1 => "pending", _ => "confirmed-not-locked" })));
	out.oracle.extend(fails);
	let stored = seen.get(&(spent_funding, revoked_txid)).cloned().ok_or("captured commitment unknown to the victim's monitor")?;
	let moved = { let other = seen.iter().find(|((f, _), l)| *f != spent_funding && l.len() == stored.len() && l.iter().zip(stored.iter()).all(|(x, y)| (x.0, x.1, x.2) == (y.0, y.1, y.2)) && **l != stored); other.is_some() };
	out.classes.push(format!("scope:revoked-commitment-on-{}-funding:htlc-index-{}-between-the-two-versions", match (mode, rbf) { (0, false) => "splice", (0, true) => "rbf-splice", (1, false) => "original", (1, true) => "original(two-pending)", (_, false) => "CONFIRMED-UNLOCKED-splice", (_, true) => "CONFIRMED-UNLOCKED-rbf-splice(pending scope 1)" }, if moved { "DIFFERS" } else { "same" }));
	// ---- the cheater confirms it ----------------------------------------------------------------------------------------------------
	nodes[victim].tx_broadcaster.txn_broadcasted.lock().unwrap().clear();
	mine_transaction(&nodes[victim], &revoked_tx);
	let bcast: Vec<Transaction> = nodes[victim].tx_broadcaster.txn_broadcasted.lock().unwrap().drain(..).collect();
	let _ = nodes[victim].node.get_and_clear_pending_msg_events(); let _ = nodes[victim].node.get_and_clear_pending_events();
	let prevouts: HashMap<OutPoint, TxOut> = revoked_tx.output.iter().enumerate().map(|(i, o)| (OutPoint { txid: revoked_txid, vout: i as u32 }, o.clone())).collect();
	let mut claimed: BTreeSet<u32> = BTreeSet::new(); let mut justice = vec![];
	for t in bcast.iter() {
		if !t.input.iter().all(|i| i.previous_output.txid == revoked_txid) { continue; }
		if let Err(e) = t.verify(|op| prevouts.get(op).cloned()) { out.oracle.push(format!("justice tx {} on the revoked commitment fails consensus verification: {:?} {}", t.compute_txid(), e, plan)); }
		for i in &t.input { claimed.insert(i.previous_output.vout); }
		justice.push(t.clone());
	}
	let outs_desc = revoked_tx.output.iter().enumerate().map(|(i, o)| format!("{}:{}{}", i, o.value.to_sat(), if htlc_outs.contains(&(i as u32)) { "(HTLC)" } else { "" })).collect::<Vec<_>>().join(" ");
	for v in htlc_outs.iter() { if !claimed.contains(v) {
		out.oracle.push(format!("HTLC output {} of the revoked counterparty commitment {} (signed while the splice was pending, spends the {} funding; outputs {}) is NOT spent by any justice transaction (claimed outputs: {:?}; that commitment's own non-dust HTLCs: [{}]) {}", v, revoked_txid, match mode { 0 => "locked splice", 1 => "original", _ => "confirmed-but-unlocked splice" }, outs_desc, claimed, dash(stored.iter().map(htok).collect(), ","), plan)); } }
	if claimed.iter().filter(|v| !htlc_outs.contains(v)).count() != 1 { out.oracle.push(format!("expected exactly one claimed non-HTLC output (to_local) of revoked commitment {}, claimed {:?} HTLC outputs {:?} {}", revoked_txid, claimed, htlc_outs, plan)); }
	let model_claims: Vec<String> = claimed.iter().filter(|v| htlc_outs.contains(v)).map(|v| v.to_string()).collect();
	out.lines.push((format!("sconfirm {} {} {}", it.id(&spent_funding), it.id(&revoked_txid), revoked_tx.output.iter().map(|o| o.value.to_sat().to_string()).collect::<Vec<_>>().join(",")), Some(dash(model_claims, ",")), format!("scope:confirm:htlcs{}", htlc_outs.len().min(4))));
	// ---- burial: the recovered value is reported ---------------------------------------------------------------------------------------
	if out.oracle.is_empty() && !justice.is_empty() {
		let block = create_dummy_block(nodes[victim].best_block_hash(), 42, justice.clone());
		connect_block(&nodes[victim], &block);
		connect_blocks(&nodes[victim], ANTI_REORG_DELAY - 1);
		let mut reported: BTreeSet<Txid> = BTreeSet::new();
		for e in nodes[victim].chain_monitor.chain_monitor.get_and_clear_pending_events() { if let Event::SpendableOutputs { outputs, .. } = e { for o in outputs { reported.insert(o.spendable_outpoint().into_bitcoin_outpoint().txid); } } }
		for t in justice.iter() { if !reported.contains(&t.compute_txid()) { out.oracle.push(format!("no SpendableOutputs reported for the buried justice transaction {} {}", t.compute_txid(), plan)); } }
	}
	let _ = nodes[victim].node.get_and_clear_pending_msg_events(); let _ = nodes[victim].node.get_and_clear_pending_events();
	std::mem::forget(nodes);
	Ok(out)
}

pub fn run(rec: &mut Rec, rng: &mut Rng, thorough: bool, scale: u64) {
	let n = if thorough { 240 } else { 60 } * scale;
	let only: Option<u64> = std::env::var("C06_ONLY").ok().and_then(|s| s.parse().ok());
	// where the last panic was raised (file:line), for the one harness-side exemption below
	static LAST_PANIC_AT: std::sync::Mutex<String> = std::sync::Mutex::new(String::new());
	let debug = std::env::var("C06_DEBUG").is_ok();
	std::panic::set_hook(Box::new(move |i| {
		*LAST_PANIC_AT.lock().unwrap() = i.location().map(|l| format!("{}:{}", l.file(), l.line())).unwrap_or_default();
		if debug { eprintln!("PANIC {} at {:?}\n{}", i, i.location(), std::backtrace::Backtrace::force_capture()); }
	}));
	for k in 0..n {
		let s = rng.next();
		if let Some(o) = only { if o != k { continue; } }
		match guarded(std::panic::AssertUnwindSafe(|| scenario(s, k))) {
			Ok(Ok(o)) => {
				rec.directive("reset");
				if std::env::var("C06_DEBUG").is_ok() { eprintln!("{:?}", o.lines); }
				for (op, res, cl) in &o.lines { match res { Some(r) => rec.case(op, r, cl, true), None => rec.directive(op) } }
				for c in &o.classes { *rec.classes.entry(c.clone()).or_insert(0) += 1; }
				for f in o.oracle { rec.oracle_fail(format!("scope scenario {}: {}", k, f)); }
			},
			Ok(Err(e)) => { rec.discarded += 1; *rec.classes.entry(format!("discarded:{}", e.chars().take(60).collect::<String>())).or_insert(0) += 1; },
			// a debug_assert of the CHANNEL's splice validation (ln/channel.rs validate_splice_contributions: the `*_prev_commitment_tx_balance` debug
			// bookkeeping of the candidate scope) fires for some splice-out amounts while the splice is being NEGOTIATED — before any monitor data
			// exists for it; not a C06 verdict: discarded and counted (reported as an observation)
			Err(p) if PHASE.with(|c| c.get()) == 0 && p.starts_with("assertion `left == right` failed") && LAST_PANIC_AT.lock().unwrap().contains("/ln/channel.rs:") => {
				rec.discarded += 1; *rec.classes.entry("discarded:debug_assert in ln/channel.rs (splice validation) while the splice is negotiated".into()).or_insert(0) += 1; },
			Err(p) => rec.oracle_fail(format!("scope scenario {} (seed {}) panicked at {}: {} {}", k, s, LAST_PANIC_AT.lock().unwrap(), p.replace('\n', " ").chars().take(400).collect::<String>(), PLAN.with(|p| p.borrow().clone()))),
		}
	}
	rec.notes.insert("rule".into(), "one scenario = one real 2-node channel with a pending splice (in / out, by either side), HTLCs routed before and during it, the cheater's commitment captured on the locked funding (the splice after it locked, or the original while the splice is pending), revoked and confirmed; distinct = distinct sdump / sconfirm lines".into());
}
