//! C12 — persisted objects survive serialization unchanged.
//!
//! Real nodes (scenario engine `sim`), 3 nodes / 2 channels, payments in flight, asynchronous monitor
//! persistence, disconnections, restarts, optional force-close followed by blocks.  After EVERY op, for
//! every node:
//!   (i)   every ChannelMonitor: encode -> `<(BlockLocator, ChannelMonitor)>::read` -> re-encode byte-identical and
//!         `==` (modulo the documented in-memory-only `failed_back_htlc_ids`, hook `verif_eq_modulo_unserialized`);
//!         every new ChannelMonitorUpdate: encode -> read -> `==` and byte-identical; the monitor bytes of the
//!         previous op, re-read and fed the new updates, equal the live (never serialized) monitor;
//!         every ChannelDetails of list_channels and every new Event: encode -> read -> `==`, byte-identical;
//!   (ii)  at sampled points the ChannelManager is written and the node restarted from those bytes; the
//!         observable dump (list_channels fields, list_recent_payments) after the implied disconnection must be equal;
//!   (iii) NetworkGraph: write -> read -> `==` and canonical per-entry bytes equal; ProbabilisticScorer fed with
//!         random path results over that graph: write -> read -> write canonical (entries sorted) bytes equal;
//!   (iv)  malformed streams on the collected ChannelMonitorUpdates, Events, ChannelDetails and on directly
//!         constructed small TLV objects: every strict truncation ⇒ Err, appended unknown odd record ⇒ equal
//!         object, appended unknown even record ⇒ Err, single-byte corruptions never panic.
//!   (v)   DEEP manager equivalence: after every op the manager of a node (all nodes in the thorough tier) is written and
//!         read into a fresh ChannelManager (never installed); the hook `manager_persisted_state_dump` (claimable payments
//!         per HTLC: value, sender_intended_value, total, cltv_expiry, timer_ticks, skimmed fee, previous hop; pending
//!         claims; forwards; intercepted HTLCs; HTLCs awaiting decoding; outbound payment states; pending / background
//!         events; blocked completion actions; in-flight update ids) of the original and of the copy must agree (see
//!         `deep_diff` for what a reload may legitimately change); the same at every real reload;
//!   (vi)  rare manager states + behavioural oracle: scripted scenarios (underpaid / over-forwarded HTLCs through an
//!         intercepting node, partially received multi-part payments, intercepted HTLCs awaiting a decision, holding cell,
//!         asynchronous persistence with blocked completion actions and pending claims), the manager written and the node
//!         restarted from the bytes at every cut point, each run compared with the run of the same script in which the
//!         node is only disconnected and reconnected: same payment events at every node, same observable end state;
//!         the per-channel ChannelConfig must survive every reload.  The deep dump also carries the hand-serialized
//!         POSITIONAL per-channel state (announced ChannelUpdateStatus, announcement-sigs state, channel state flags, resend
//!         order, pending / holding-cell fee update, every inbound / outbound HTLC with its state, holding-cell entries),
//!         compared modulo the pinned normalisation (`canon_chan_lines`, mirror of Props/C12 `enumCanon`); a gossip
//!         scenario (peer away for > DISABLE_GOSSIP_TICKS ticks, back for > ENABLE_GOSSIP_TICKS ticks, a short outage) writes
//!         all four ChannelUpdateStatus values and compares the sequence of broadcast channel_updates (disabled flag) of the
//!         reloaded run with the un-reloaded one.
//!
//! Op lines for the Lean driver (the model knows ONLY the (type, kind) list of the block, regenerated from the
//! Rust source by tools/gen_tlv_schemas.py; payloads are opaque):
//!   frame <Block> <hex TLV stream>     real: object with that stream (length prefix recomputed) read by the real
//!                                      decoder -> `ok` | `err <DecodeError>`; mutations whose verdict is decided by
//!                                      framing: identity, unknown odd/even appended or inserted, duplicate, swap,
//!                                      removed required record, removed optional record (declarative blocks),
//!                                      record length overrun
//!   lpframe <Block> <hex>              length prefix ++ stream: truncations and wrong length prefixes ->
//!                                      `ok <unread byte count>` | `err …`
//!   ver <this> <hex>                   version prefix mutations on ChannelMonitorUpdate / NetworkGraph
//!   variant <Enum> <id>                `[id, 0]` read as the enum: struct | tuple | skipped | rejected
use ldk_verif_harness::common::*;
use ldk_verif_harness::sim::*;
use lightning::chain::channelmonitor::{ChannelMonitor, ChannelMonitorUpdate};
use lightning::chain::BlockLocator;
use lightning::events::{ClosureReason, Event, HTLCHandlingFailureType, PathFailure, PaymentFailureReason, PaymentPurpose};
use lightning::ln::channel_state::{ChannelDetails, ChannelShutdownState, InboundHTLCDetails, InboundHTLCStateDetails, OutboundHTLCDetails, OutboundHTLCStateDetails};
use lightning::ln::functional_test_utils::*;
use lightning::ln::msgs::DecodeError;
use lightning::ln::types::ChannelId;
use lightning::ln::verif_hooks as vh;
use lightning::routing::gossip::{NetworkGraph, NodeId};
use lightning::routing::router::{Path, RouteHop};
use lightning::routing::scoring::{ProbabilisticScorer, ProbabilisticScoringDecayParameters, ScoreUpdate};
use lightning::types::features::{ChannelFeatures, NodeFeatures};
use lightning::types::payment::PaymentHash;
use lightning::util::ser::{BigSize, MaybeReadable, Readable, ReadableArgs, Writeable};
use lightning::util::test_channel_signer::TestChannelSigner;
use lightning::util::test_utils::{self, TestKeysInterface, TestLogger};
use std::collections::{BTreeMap, BTreeSet, HashSet};
use std::panic::AssertUnwindSafe;
use std::time::Duration;

type Mon = ChannelMonitor<TestChannelSigner>;

fn err_name(e: &DecodeError) -> String {
	let s = format!("{:?}", e);
	s.split(|c: char| !c.is_alphanumeric()).next().unwrap().to_string()
}

// ---------------------------------------------------------------------------------------------------
// the generated (type, kind) table — used by the harness only to CHOOSE mutations (which types are unknown,
// which records are required); the predictions come from the Lean driver
// ---------------------------------------------------------------------------------------------------
#[derive(Clone, Debug)]
struct Blk { name: String, mac: String, dir: String, enum_name: String, variant_id: Option<u64>, owner: String, tag: Option<u64>, fields: Vec<(u64, String)> }
impl Blk {
	fn known(&self) -> HashSet<u64> { self.fields.iter().map(|f| f.0).collect() }
	fn kind(&self, t: u64) -> Option<&str> { self.fields.iter().find(|f| f.0 == t).map(|f| f.1.as_str()) }
	/// macro-declared reader without default/custom/legacy closures: a missing optional record cannot fail
	fn plain_declarative(&self) -> bool { self.mac.starts_with("impl_") && self.dir == "both" && self.fields.iter().all(|f| f.1 == "required" || f.1 == "optional") }
}
struct Tab { blocks: Vec<Blk>, enums: Vec<(String, bool, Vec<u64>, Vec<u64>)>, findings: Vec<String> }
impl Tab {
	fn load() -> Tab {
		let p = concat!(env!("CARGO_MANIFEST_DIR"), "/../lean/LdkModel/Generated/tlv_schemas.txt");
		let text = std::fs::read_to_string(p).expect("tlv_schemas.txt (run tools/gen_tlv_schemas.py)");
		let mut t = Tab { blocks: vec![], enums: vec![], findings: vec![] };
		let nums = |s: &str| -> Vec<u64> { if s == "-" { vec![] } else { s.split(',').map(|x| x.parse().unwrap()).collect() } };
		for line in text.lines() {
			let c: Vec<&str> = line.split('\t').collect();
			match c[0] {
				"block" => t.blocks.push(Blk { name: c[1].into(), mac: c[3].into(), dir: c[4].into(), enum_name: c[6].into(), variant_id: c[7].parse().ok(), owner: c[8].into(), tag: c[9].parse().ok(),
					fields: if c[10] == "-" { vec![] } else { c[10].split(',').map(|x| { let (a, b) = x.split_once(':').unwrap(); (a.parse().unwrap(), b.to_string()) }).collect() } }),
				"enum" => t.enums.push((c[1].into(), c[2] == "1", nums(c[3]), nums(c[4]))),
				"unread_writer" | "reader_arm_without_tlv" => t.findings.push(format!("{}:{}", c[0], c[1])),
				_ => {},
			}
		}
		t
	}
	fn by_name(&self, n: &str) -> Option<&Blk> { self.blocks.iter().find(|b| b.name == n) }
	fn variant(&self, en: &str, id: u64) -> Option<&Blk> { self.blocks.iter().find(|b| b.enum_name == en && b.variant_id == Some(id)) }
	fn owner_read(&self, owner: &str, tag: u64) -> Option<&Blk> { self.blocks.iter().find(|b| b.owner == owner && b.dir == "read" && b.tag == Some(tag)) }
}

// ---------------------------------------------------------------------------------------------------
// generic object plumbing
// ---------------------------------------------------------------------------------------------------
/// Ok((Some(re-encoding) | None (MaybeReadable skipped the value), unread byte count))
type ReadFn = Box<dyn Fn(&[u8]) -> Result<(Option<Vec<u8>>, usize), DecodeError>>;
static REENC_PANICS: std::sync::atomic::AtomicU64 = std::sync::atomic::AtomicU64::new(0);
/// the re-encoding is computed under its own guard: a writer `debug_assert!` tripped by an object the reader accepted from
/// corrupted bytes is counted (`reencode-panics`), it is not a panic of the reader (a placeholder encoding is returned, so
/// every equality oracle on a valid / re-framed input still fails loudly)
fn reader<T: MaybeReadable + Writeable>() -> ReadFn {
	Box::new(|b: &[u8]| {
		let mut s = b;
		let r = <T as MaybeReadable>::read(&mut s)?;
		let left = s.len();
		Ok((r.map(|x| guarded(AssertUnwindSafe(|| x.encode())).unwrap_or_else(|_| { REENC_PANICS.fetch_add(1, std::sync::atomic::Ordering::Relaxed); vec![0xde, 0xad] })), left))
	})
}

struct Obj { class: &'static str, schema: Option<String>, off: usize, bytes: Vec<u8>, read: ReadFn, exact: bool }

fn bigsize(n: u64) -> Vec<u8> { BigSize(n).encode() }
fn split_tlvs(mut b: &[u8]) -> Option<Vec<(u64, Vec<u8>)>> {
	let mut out = vec![];
	while !b.is_empty() {
		let t: BigSize = Readable::read(&mut b).ok()?;
		let l: BigSize = Readable::read(&mut b).ok()?;
		if (b.len() as u64) < l.0 { return None; }
		out.push((t.0, b[..l.0 as usize].to_vec()));
		b = &b[l.0 as usize..];
	}
	Some(out)
}
fn join_tlvs(recs: &[(u64, Vec<u8>)]) -> Vec<u8> {
	let mut out = vec![];
	for (t, v) in recs { out.extend(bigsize(*t)); out.extend(bigsize(v.len() as u64)); out.extend_from_slice(v); }
	out
}
/// the length-prefixed TLV block starting at `off` must extend exactly to the end of the encoding
fn tail_block(bytes: &[u8], off: usize) -> Option<Vec<(u64, Vec<u8>)>> {
	if off > bytes.len() { return None; }
	let mut s = &bytes[off..];
	let l: BigSize = Readable::read(&mut s).ok()?;
	if l.0 != s.len() as u64 { return None; }
	split_tlvs(s)
}

/// Is the error KIND of reading a block cut after `cut` bytes of its stream decided by framing alone?  A cut strictly
/// inside the payload of a KNOWN record fails inside the (opaque) field decoder: ShortRead or, one nesting level down, a
/// missing-required InvalidValue; the end-of-stream processing of default_value / custom / legacy fields runs closures that
/// may fail.  Everywhere else (record headers, unknown payloads, record boundaries of plain blocks) the kind is exact.
fn cut_exact(b: &Blk, rs: &[(u64, Vec<u8>)], cut: usize) -> bool {
	if !b.fields.iter().all(|f| f.1 == "required" || f.1 == "optional") { return false; }
	let mut pos = 0usize;
	for (t, val) in rs.iter() {
		let hdr = bigsize(*t).len() + bigsize(val.len() as u64).len();
		if cut > pos + hdr && cut < pos + hdr + val.len() && b.kind(*t).is_some() { return false; }
		pos += hdr + val.len();
	}
	true
}

struct Ctx { rec: Rec, rng: Rng, tab: Tab, thorough: bool, stats: BTreeMap<String, u64>, in_corruption: bool, once: BTreeSet<String> }
impl Ctx {
	fn bump(&mut self, k: &str) { *self.stats.entry(k.to_string()).or_insert(0) += 1; }
	/// report a failure class once per run (later occurrences are only counted): the list of failing inputs is capped
	fn fail_once(&mut self, key: &str, s: String) { if self.once.insert(key.to_string()) { self.fail(s); } else { self.bump(&format!("repeated-failure:{}", key)); } }
	fn fail(&mut self, s: String) { self.rec.oracle_fail(s.chars().map(|c| if c.is_control() { ' ' } else { c }).take(900).collect()); }

	/// real verdict of reading `bytes` as the object: ("ok"|"err X"|"panic …", re-encoding, unread)
	fn verdict(&mut self, o: &Obj, bytes: &[u8]) -> (String, Option<Vec<u8>>, usize) {
		match guarded(AssertUnwindSafe(|| (o.read)(bytes))) {
			Err(p) => {
				let msg: String = p.chars().take(160).collect();
				// a monitor without counterparty_node_id is refused by a deliberate panic ("no updates since v0.0.118 … no longer
				// supported"): a documented refusal, counted, not a robustness failure
				if p.contains("These monitors are no longer supported") { self.bump("corrupt:deliberate-panic-unsupported-legacy-monitor"); }
				// A ChannelMonitor whose bytes were CORRUPTED (not truncated, not a framing mutation) can be internally
				// inconsistent (e.g. an offered HTLC in the holder commitment without a source) and trips the monitor's own
				// consistency panics inside read (get_claimable_balances, the debug_assertions re-encoding of HolderSignedTx).
				// C12 requires corrupted data not to be SILENTLY misread; a panic is loud. Counted as an observation class
				// with the message, not a violation (DESIGN 9.2).
				else if self.in_corruption && o.class == "ChannelMonitor" { let k = format!("corrupt:ChannelMonitor-consistency-panic:{}", msg.chars().take(60).collect::<String>().replace(' ', "_").replace('=', "_")); self.bump(&k); }
				else { self.fail(format!("{}::read panics on a corrupted / malformed encoding: {} | input ({} bytes): {}", o.class, msg, bytes.len(), hex(&bytes[..bytes.len().min(400)]))); }
				(format!("panic {}", p.replace('\n', " ").chars().take(60).collect::<String>()), None, 0)
			},
			Ok(Err(e)) => (format!("err {}", err_name(&e)), None, 0),
			Ok(Ok((re, left))) => ("ok".to_string(), re, left),
		}
	}

	/// (iv) + op lines for one object
	fn mutate(&mut self, o: &Obj, n_frame: usize, n_corrupt: usize) {
		// valid encoding reads back to itself, consuming everything
		let (v, re, left) = self.verdict(o, &o.bytes);
		if v != "ok" || left != 0 || (o.exact && re.as_deref() != Some(&o.bytes[..])) {
			self.fail(format!("{}: read(encode(x)) verdict={} unread={} re-encoding {} for {}", o.class, v, left, if re.as_deref() == Some(&o.bytes[..]) { "identical" } else { "DIFFERS" }, hex(&o.bytes[..o.bytes.len().min(300)])));
			return;
		}
		self.bump(&format!("obj:{}", o.class));
		let blk = o.schema.as_ref().and_then(|n| self.tab.by_name(n)).cloned();
		let recs = if blk.is_some() { tail_block(&o.bytes, o.off) } else { None };
		if blk.is_some() && recs.is_none() { self.rec.discarded += 1; }
		// ---- truncations -----------------------------------------------------------------------
		let len = o.bytes.len();
		let mut cuts: Vec<usize> = if len <= 400 { (0..len).collect() } else {
			let mut c: Vec<usize> = (0..8).chain(len - 40..len).collect();
			for _ in 0..40 { c.push(self.rng.below(len as u64) as usize); }
			if recs.is_some() { for k in o.off.saturating_sub(2)..(o.off + 6).min(len) { c.push(k); } }
			c.sort(); c.dedup(); c
		};
		if self.thorough == false && len <= 400 && len > 120 { cuts = cuts.into_iter().filter(|k| *k < 8 || *k + 60 >= len || *k % 3 == 0 || (*k >= o.off.saturating_sub(2) && *k < o.off + 6)).collect(); }
		for k in cuts {
			let (v, _, left) = self.verdict(o, &o.bytes[..k]);
			if v == "ok" { self.fail(format!("{}: strict prefix of length {} of a valid {}-byte encoding read successfully: {}", o.class, k, len, hex(&o.bytes[..k.min(300)]))); }
			if let (Some(b), Some(rs)) = (&blk, &recs) {
				if k >= o.off {
					let lp = bigsize(join_tlvs(rs).len() as u64).len();
					let inside_known = !(k < o.off + lp || cut_exact(b, rs, k - o.off - lp));
					let plain = true;
					if inside_known || !plain {
						let ans = if v == "ok" { format!("ok {}", left) } else { "err".to_string() };
						self.rec.case(&format!("lptrunc {} {}", b.name, hex(&o.bytes[o.off..k])), &ans, &format!("lp-trunc-in-payload:{}", v.replace(' ', ":")), true);
					} else {
						let ans = if v == "ok" { format!("ok {}", left) } else { v.clone() };
						self.rec.case(&format!("lpframe {} {}", b.name, hex(&o.bytes[o.off..k])), &ans, &format!("lp-trunc:{}", v.replace(' ', ":")), true);
					}
				}
			}
			self.bump("trunc");
		}
		// ---- TLV-level mutations -------------------------------------------------------------------
		if let (Some(b), Some(recs)) = (&blk, &recs) {
			let known = b.known();
			let max_t = recs.iter().map(|r| r.0).chain(known.iter().cloned()).max().unwrap_or(0);
			for m in 0..n_frame {
				let mut rs = recs.clone();
				let mut raw: Option<Vec<u8>> = None;
				let sel = if m < 3 { m as u64 } else { 3 + self.rng.below(7) };
				let kind = match sel {
					0 => "identity",
					1 => { let t = (max_t + 1 + 2 * self.rng.below(40)) | 1; let n = self.rng.below(12) as usize; rs.push((t, self.rng.bytes(n))); "append-odd" },
					2 => { let t = (max_t + 2 + 2 * self.rng.below(40)) & !1; let n = self.rng.below(12) as usize; rs.push((t, self.rng.bytes(n))); "append-even" },
					3 | 4 => {
						let pos = self.rng.below(rs.len() as u64 + 1) as usize;
						let lo = if pos == 0 { 0 } else { rs[pos - 1].0 + 1 };
						let hi = if pos == rs.len() { lo + 40 } else { rs[pos].0 };
						let cands: Vec<u64> = (lo..hi.min(lo + 200)).filter(|t| !known.contains(t) && (sel == 3) == (t % 2 == 1)).collect();
						if cands.is_empty() { "identity" } else { let t = *self.rng.pick(&cands); let n = self.rng.below(8) as usize; rs.insert(pos, (t, self.rng.bytes(n))); if sel == 3 { "insert-odd" } else { "insert-even" } }
					},
					5 => { if rs.is_empty() { rs.push(((max_t + 1) | 1, vec![])); rs.push(((max_t + 1) | 1, vec![])); } else { let i = self.rng.below(rs.len() as u64) as usize; let x = rs[i].clone(); rs.insert(i, x); } "dup-record" },
					6 => { if rs.len() >= 2 { let i = self.rng.below(rs.len() as u64 - 1) as usize; rs.swap(i, i + 1); } else { rs.push(((max_t + 5) | 1, vec![1])); rs.push(((max_t + 3) | 1, vec![2])); } "swap-records" },
					7 => {
						let req: Vec<usize> = (0..rs.len()).filter(|i| b.kind(rs[*i].0) == Some("required")).collect();
						if req.is_empty() { "identity" } else { let i = *self.rng.pick(&req); rs.remove(i); "remove-required" }
					},
					8 => {
						let opt: Vec<usize> = (0..rs.len()).filter(|i| b.kind(rs[*i].0) == Some("optional")).collect();
						if opt.is_empty() || !b.plain_declarative() { "identity" } else { let i = *self.rng.pick(&opt); rs.remove(i); "remove-optional" }
					},
					_ => {
						if rs.is_empty() { rs.push(((max_t + 1) | 1, vec![7])); }
						let (t, v) = rs.pop().unwrap();
						let mut s = join_tlvs(&rs);
						s.extend(bigsize(t)); s.extend(bigsize(v.len() as u64 + 1 + self.rng.below(300))); s.extend_from_slice(&v);
						raw = Some(s); "overrun"
					},
				};
				let stream = raw.unwrap_or_else(|| join_tlvs(&rs));
				let mut full = o.bytes[..o.off].to_vec(); full.extend(bigsize(stream.len() as u64)); full.extend_from_slice(&stream);
				let (v, re, left) = self.verdict(o, &full);
				if v == "ok" && left != 0 { self.fail(format!("{}: {} bytes left unread after a re-framed block ({})", o.class, left, kind)); }
				match kind {
					"append-odd" | "insert-odd" => if !(v == "ok" && re.as_deref() == Some(&o.bytes[..])) { self.fail(format!("{}: unknown odd TLV record not ignored ({}): verdict {} for stream {}", o.class, kind, v, hex(&stream))); },
					"append-even" | "insert-even" => if v == "ok" { self.fail(format!("{}: unknown even TLV record accepted: stream {}", o.class, hex(&stream))); },
					"dup-record" | "swap-records" | "overrun" | "remove-required" => if v == "ok" { self.fail(format!("{}: {} accepted: stream {}", o.class, kind, hex(&stream))); },
					_ => {},
				}
				self.rec.case(&format!("frame {} {}", b.name, hex(&stream)), &v, &format!("frame-{}:{}", kind, v.replace(' ', ":")), true);
			}
			// wrong length prefixes over the intact stream
			let stream = join_tlvs(recs);
			for _ in 0..3 {
				let l = stream.len() as u64;
				let nl = match self.rng.below(4) { 0 => l + 1, 1 => l.saturating_sub(1), 2 => l + 1 + self.rng.below(70000), _ => self.rng.below(l + 1) };
				let mut tail = bigsize(nl); tail.extend_from_slice(&stream);
				let mut full = o.bytes[..o.off].to_vec(); full.extend_from_slice(&tail);
				let (v, _, left) = self.verdict(o, &full);
				if nl >= l || cut_exact(b, recs, nl as usize) {
					let ans = if v == "ok" { format!("ok {}", left) } else { v.clone() };
					self.rec.case(&format!("lpframe {} {}", b.name, hex(&tail)), &ans, &format!("lp-len:{}", v.replace(' ', ":")), true);
				} else {
					let ans = if v == "ok" { format!("ok {}", left) } else { "err".to_string() };
					self.rec.case(&format!("lptrunc {} {}", b.name, hex(&tail)), &ans, &format!("lp-len-in-payload:{}", v.replace(' ', ":")), true);
				}
			}
		}
		// ---- single-byte corruptions: never a panic -----------------------------------------------
		self.in_corruption = true;
		for _ in 0..n_corrupt {
			let mut b = o.bytes.clone();
			let i = self.rng.below(b.len() as u64) as usize;
			b[i] = match self.rng.below(4) { 0 => b[i] ^ (1 << self.rng.below(8)), 1 => 0, 2 => 0xff, _ => self.rng.next() as u8 };
			let (v, _, _) = self.verdict(o, &b);
			self.bump(&format!("corrupt:{}", v.split(' ').next().unwrap()));
		}
		self.in_corruption = false;
	}
}

// ---------------------------------------------------------------------------------------------------
// scenario state and per-op checks
// ---------------------------------------------------------------------------------------------------
fn read_mon(bytes: &[u8], keys: &TestKeysInterface) -> Result<Mon, DecodeError> {
	let mut cur = lightning::io::Cursor::new(bytes);
	<(BlockLocator, Mon)>::read(&mut cur, (keys, keys)).map(|x| x.1)
}

#[derive(Default)]
struct St {
	prev: BTreeMap<(usize, ChannelId), (Vec<u8>, usize, u64)>, // monitor bytes at the previous op, #updates seen then, chain epoch
	seen_ev: BTreeMap<usize, usize>,
	epoch: u64,
	upd_pool: Vec<Vec<u8>>, ev_pool: Vec<Vec<u8>>, det_pool: Vec<Vec<u8>>, mon_pool: Vec<(Vec<u8>, usize)>,
	pool_keys: BTreeSet<u64>,
	n_mon_rt: u64, n_mon_identical: u64, n_upd_rt: u64, n_apply: u64, n_apply_skipped: u64, n_det: u64, n_ev: u64, n_mgr: u64, n_graph: u64, n_scorer: u64, n_shadow: u64, n_rare_runs: u64, n_rare_cuts: u64,
	mon_states: BTreeSet<String>,
	scorer_entry: Option<Vec<u8>>, // one real `ChannelLiquidity` encoding (length-prefixed TLV block), template of the boundary-size scorers
}
fn histogram(b: &[u8]) -> [u32; 256] { let mut h = [0u32; 256]; for x in b { h[*x as usize] += 1; } h }
fn fnv(b: &[u8]) -> u64 { let mut h = 0xcbf29ce484222325u64; for x in b { h ^= *x as u64; h = h.wrapping_mul(0x100000001b3); } h }

fn check_node(net: &Net, i: usize, st: &mut St, ctx: &mut Ctx, op: &str) {
	let node = &net.nodes[i];
	let keys = node.keys_manager;
	let mut cids = node.chain_monitor.chain_monitor.list_monitors();
	cids.sort();
	for cid in cids {
		let mon = match node.chain_monitor.chain_monitor.get_monitor(cid) { Ok(m) => m, Err(_) => continue };
		let bytes = mon.encode();
		// (i) monitor round trip
		match guarded(AssertUnwindSafe(|| read_mon(&bytes, keys))) {
			Err(p) => ctx.fail(format!("after {}: panic re-reading the monitor of node {}: {}", op, i, p.chars().take(200).collect::<String>())),
			Ok(Err(e)) => ctx.fail(format!("after {}: monitor of node {} does not read back: {:?} ({} bytes)", op, i, e, bytes.len())),
			Ok(Ok(m2)) => {
				st.n_mon_rt += 1;
				// the monitor's encoding iterates hash maps with per-instance random state: the re-encoding is a
				// permutation of the original bytes (same length, same byte histogram), not byte-identical
				let re = m2.encode();
				if re.len() != bytes.len() || histogram(&re) != histogram(&bytes) { ctx.fail(format!("after {}: monitor of node {} re-encodes differently ({} vs {} bytes)", op, i, bytes.len(), re.len())); }
				if re == bytes { st.n_mon_identical += 1; }
				if !mon.verif_eq_modulo_unserialized(&m2) {
					let m3 = read_mon(&re, keys).ok();
					let flds = format!("{:?} {:?}", mon.verif_unequal_fields(&m2), mon.verif_unequal_onchain_fields(&m2));
					ctx.fail_once(&format!("mon-ne:{}", class_key(&flds)), format!("after {}: monitor of node {} != its round trip: fields {} differ (re-encoding {}; second round trip {} the first)", op, i, flds, if re == bytes { "byte-identical" } else { "a permutation" },
						match m3 { Some(m3) => if m2.verif_eq_modulo_unserialized(&m3) { "==" } else { "!=" }, None => "unreadable unlike" }));
					if std::env::var("C12_DUMP").is_ok() { eprintln!("C12_DUMP monitor {}", hex(&bytes)); }
				}
			},
		}
		// new updates
		let ups: Vec<ChannelMonitorUpdate> = node.chain_monitor.monitor_updates.lock().unwrap().get(&cid).cloned().unwrap_or_default();
		let (prev_bytes, seen, epoch) = st.prev.get(&(i, cid)).cloned().unwrap_or((vec![], ups.len(), st.epoch));
		let new = if seen <= ups.len() { &ups[seen..] } else { &ups[..] };
		let mut kinds_all: Vec<&'static str> = vec![];
		for u in new {
			let e = u.encode();
			match guarded(AssertUnwindSafe(|| <ChannelMonitorUpdate as Readable>::read(&mut &e[..]))) {
				Ok(Ok(u2)) => { st.n_upd_rt += 1; if u2 != *u || u2.encode() != e { ctx.fail(format!("after {}: ChannelMonitorUpdate {} of node {} does not round trip: {}", op, u.update_id, i, hex(&e[..e.len().min(300)]))); } },
				other => ctx.fail(format!("after {}: ChannelMonitorUpdate {} of node {} does not read back: {:?}", op, u.update_id, i, other.map(|r| r.map(|_| ())))),
			}
			let kinds = vh::monitor_update_step_kinds(u);
			for k in &kinds { st.mon_states.insert(format!("step:{}", k)); }
			kinds_all.extend(kinds);
			if st.pool_keys.insert(fnv(&e)) && st.upd_pool.len() < 4000 { st.upd_pool.push(e); }
		}
		// apply-before vs apply-after a round trip
		if !new.is_empty() && !prev_bytes.is_empty() && seen <= ups.len() {
			if epoch != st.epoch || kinds_all.iter().any(|k| k.contains("ForceClosed")) { st.n_apply_skipped += 1; }
			else if let Ok(Ok(x)) = guarded(AssertUnwindSafe(|| read_mon(&prev_bytes, keys))) {
				let bc = test_utils::TestBroadcaster::with_blocks(node.blocks.clone());
				let mut ok = true;
				for u in new { if guarded(AssertUnwindSafe(|| x.update_monitor(u, &&bc, &node.fee_estimator, &node.logger))).map(|r| r.is_err()).unwrap_or(true) { ok = false; } }
				st.n_apply += 1;
				if !ok { ctx.fail(format!("after {}: a re-read monitor of node {} rejected updates the live monitor accepted", op, i)); }
				else if x.encode().len() != bytes.len() || !mon.verif_eq_modulo_unserialized(&x) { ctx.fail(format!("after {}: node {}: update applied after a round trip != update applied to the live monitor (updates {:?})", op, i, new.iter().map(|u| u.update_id).collect::<Vec<_>>())); }
			}
		}
		let bal = mon.get_claimable_balances().len();
		st.mon_states.insert(format!("balances:{}", bal.min(6)));
		if st.pool_keys.insert(fnv(&bytes)) && st.mon_pool.len() < 400 { st.mon_pool.push((bytes.clone(), i)); }
		st.prev.insert((i, cid), (bytes, ups.len(), st.epoch));
	}
	// ChannelDetails
	for d in node.node.list_channels() {
		let e = d.encode();
		match guarded(AssertUnwindSafe(|| <ChannelDetails as Readable>::read(&mut &e[..]))) {
			Ok(Ok(d2)) => { st.n_det += 1; if d2.encode() != e { ctx.fail(format!("after {}: ChannelDetails of node {} re-encodes differently: {}", op, i, hex(&e[..e.len().min(300)]))); } },
			other => ctx.fail(format!("after {}: ChannelDetails of node {} does not read back: {:?}", op, i, other.map(|r| r.map(|_| ())))),
		}
		st.mon_states.insert(format!("htlcs:in{}out{}", d.pending_inbound_htlcs.len().min(3), d.pending_outbound_htlcs.len().min(3)));
		if st.pool_keys.insert(fnv(&e)) && st.det_pool.len() < 2000 { st.det_pool.push(e); }
	}
	// new events
	let seen = *st.seen_ev.get(&i).unwrap_or(&0);
	for ev in &net.events[i][seen.min(net.events[i].len())..] {
		let e = ev.encode();
		match guarded(AssertUnwindSafe(|| { let mut s = &e[..]; <Event as MaybeReadable>::read(&mut s).map(|x| (x, s.len())) })) {
			Ok(Ok((Some(ev2), left))) => { st.n_ev += 1; if ev2 != *ev || ev2.encode() != e || left != 0 { let k = format!("{:?}", ev); ctx.fail_once(&format!("event-rt:{}", event_kind(&k)), format!("after {}: Event of node {} does not round trip (unread {}): written {:?} read back {:?}", op, i, left, ev, ev2)); } },
			Ok(Ok((None, _))) => { ctx.bump(&format!("event-not-persisted:id{}", e[0])); },
			other => ctx.fail(format!("after {}: Event of node {} does not read back: {:?} {:?}", op, i, other.map(|r| r.map(|_| ())), ev)),
		}
		if st.pool_keys.insert(fnv(&e)) && st.ev_pool.len() < 3000 { st.ev_pool.push(e); }
	}
	st.seen_ev.insert(i, net.events[i].len());
}

fn check_all(net: &Net, st: &mut St, ctx: &mut Ctx, op: &str) { for i in 0..net.nodes.len() { check_node(net, i, st, ctx, op); } }

fn canon_graph(g: &NetworkGraph<&TestLogger>) -> Vec<u8> {
	let ro = g.read_only();
	let mut chans: Vec<(u64, Vec<u8>)> = ro.channels().unordered_iter().map(|(s, c)| (*s, c.encode())).collect();
	chans.sort();
	let mut nodes: Vec<(NodeId, Vec<u8>)> = ro.nodes().unordered_iter().map(|(id, n)| (*id, n.encode())).collect();
	nodes.sort();
	let mut out = vec![];
	for (s, e) in chans { out.extend_from_slice(&s.to_be_bytes()); out.extend_from_slice(&(e.len() as u32).to_be_bytes()); out.extend(e); }
	out.push(0xff);
	for (id, e) in nodes { out.extend_from_slice(id.as_slice()); out.extend_from_slice(&(e.len() as u32).to_be_bytes()); out.extend(e); }
	out
}

/// ChannelLiquidities = length-prefixed TLV { 0: HashMap<u64, ChannelLiquidity> }; the map is written in hash order:
/// split it into its entries (8-byte scid + length-prefixed value) and sort them
fn canon_scorer(b: &[u8]) -> Option<Vec<(u64, Vec<u8>)>> {
	let recs = tail_block(b, 0)?;
	if recs.len() != 1 || recs[0].0 != 0 { return None; }
	let mut s = &recs[0].1[..];
	let n: lightning::util::ser::CollectionLength = Readable::read(&mut s).ok()?;
	let mut out = vec![];
	for _ in 0..n.0 {
		let scid: u64 = Readable::read(&mut s).ok()?;
		let mut t = s;
		let l: BigSize = Readable::read(&mut t).ok()?;
		let hdr = s.len() - t.len();
		let tot = hdr + l.0 as usize;
		if s.len() < tot { return None; }
		out.push((scid, s[..tot].to_vec()));
		s = &s[tot..];
	}
	if !s.is_empty() { return None; }
	out.sort();
	Some(out)
}

fn check_graph_scorer(net: &Net, i: usize, st: &mut St, ctx: &mut Ctx, op: &str) -> Option<Vec<u8>> {
	let node = &net.nodes[i];
	let g = node.network_graph;
	let bytes = g.encode();
	let g2 = match guarded(AssertUnwindSafe(|| <NetworkGraph<&TestLogger> as ReadableArgs<&TestLogger>>::read(&mut &bytes[..], node.logger))) {
		Ok(Ok(g2)) => g2,
		other => { ctx.fail(format!("after {}: NetworkGraph of node {} does not read back: {:?}", op, i, other.map(|r| r.map(|_| ())))); return None; },
	};
	st.n_graph += 1;
	if *g != g2 || canon_graph(g) != canon_graph(&g2) || g2.encode().len() != bytes.len() { ctx.fail(format!("after {}: NetworkGraph of node {} != its round trip", op, i)); }
	// scorer over this graph
	let params = ProbabilisticScoringDecayParameters::default();
	let mut sc = ProbabilisticScorer::new(params, g, node.logger);
	let scids: Vec<(u64, NodeId, NodeId)> = g.read_only().channels().unordered_iter().map(|(s, c)| (*s, c.node_one, c.node_two)).collect();
	if !scids.is_empty() {
		let mut now = 1_700_000_000u64;
		for _ in 0..(4 + ctx.rng.below(24)) {
			let (scid, a, b) = *ctx.rng.pick(&scids);
			let dst = if ctx.rng.chance(1, 2) { a } else { b };
			let pk = match dst.as_pubkey() { Ok(p) => p, Err(_) => continue };
			let amt = match ctx.rng.below(4) { 0 => 1, 1 => 1_000_000_000, _ => 1 + ctx.rng.below(500_000_000) };
			let path = Path { hops: vec![RouteHop { pubkey: pk, node_features: NodeFeatures::empty(), short_channel_id: scid, channel_features: ChannelFeatures::empty(), fee_msat: amt, cltv_expiry_delta: 40, maybe_announced_channel: true }], blinded_tail: None };
			// mostly short steps; sometimes longer than historical_no_updates_half_life (14 days), so that time_passed decays the
			// historical buckets of channels without new data (offset_history_last_updated then differs from last_datapoint_time)
			now += if ctx.rng.chance(1, 6) { 1_300_000 + ctx.rng.below(4_000_000) } else { ctx.rng.below(100_000) };
			let d = Duration::from_secs(now);
			match ctx.rng.below(5) { 0 => sc.payment_path_failed(&path, scid, d), 1 => sc.payment_path_successful(&path, d), 2 => sc.probe_failed(&path, scid, d), 3 => sc.probe_successful(&path, d), _ => sc.time_passed(d) }
		}
	}
	if !scids.is_empty() && ctx.rng.chance(1, 2) { let now = 1_700_000_000u64 + 40 * 100_000 + 1_300_000 + ctx.rng.below(20_000_000); sc.time_passed(Duration::from_secs(now)); st.mon_states.insert("scorer-after-long-idle-decay".into()); }
	let sb = sc.encode();
	match guarded(AssertUnwindSafe(|| <ProbabilisticScorer<&NetworkGraph<&TestLogger>, &TestLogger>>::read(&mut &sb[..], (params, g, node.logger)))) {
		Ok(Ok(sc2)) => {
			st.n_scorer += 1;
			let (a, b) = (canon_scorer(&sb), canon_scorer(&sc2.encode()));
			if a.is_none() || a != b { ctx.fail(format!("after {}: ProbabilisticScorer over the graph of node {} does not round trip: {}", op, i, hex(&sb[..sb.len().min(300)]))); }
			else { let a = a.unwrap(); if let Some(e) = a.iter().max_by_key(|e| e.1.len()) { if st.scorer_entry.as_ref().map_or(true, |t| t.len() < e.1.len()) { st.scorer_entry = Some(e.1.clone()); } } st.mon_states.insert(format!("scorer-entries:{}", a.len().min(4))); }
		},
		other => ctx.fail(format!("after {}: ProbabilisticScorer does not read back: {:?}", op, other.map(|r| r.map(|_| ())))),
	}
	Some(bytes)
}

// ---------------------------------------------------------------------------------------------------
// (v) deep manager equivalence: the hook `manager_persisted_state_dump` prints what a ChannelManager persists outside
// of its channels (claimable payments per HTLC, pending claims, forwards, intercepted HTLCs, HTLCs awaiting decoding,
// outbound payment states, pending / background events, blocked completion actions, in-flight update ids).  The dump of
// the manager BEFORE it is written must equal the dump of the manager read back from those bytes, up to what a reload
// legitimately does:
//   * `timer_ticks` of a claimable HTLC is in-memory only (the reader sets 0): masked;
//   * pending events: every event pending before is still pending, in the same relative order; a reload may ADD events
//     (replays of HTLCIntercepted / PaymentClaimed / PaymentSent …): counted per kind, not a difference;
//   * background events are generated by the read itself (never written); in-flight monitor update ids, the completion
//     actions blocked on them and the pending claims are claim-REPLAY state: resolved by the read when the monitors handed
//     to it are up to date (the harness always hands over the latest monitors) and re-created by it for every claim a
//     monitor still records as in progress: counted per kind, not compared (their effects are events, compared in (vi)).
// Everything else (claimable payments and their HTLCs, forwards, intercepts, decode queue, outbound payments) must be
// line-for-line equal.
// ---------------------------------------------------------------------------------------------------
/// class of a failure text: long hex runs and numbers removed, truncated — the list of failing inputs is capped, one
/// representative per class is reported and the repetitions are counted
fn class_key(s: &str) -> String {
	let mut out = String::new();
	let mut run = String::new();
	for c in s.chars().chain(std::iter::once(' ')) {
		if c.is_ascii_hexdigit() { run.push(c); continue; }
		if !(run.len() >= 8 || run.chars().all(|x| x.is_ascii_digit())) { out.push_str(&run); } else { out.push('#'); }
		run.clear();
		out.push(c);
	}
	out.chars().take(110).collect()
}
fn mask_token(s: &str, key: &str) -> String {
	let mut out = String::new();
	let mut rest = s;
	while let Some(p) = rest.find(key) {
		out.push_str(&rest[..p + key.len()]); out.push('_');
		let tail = &rest[p + key.len()..];
		rest = &tail[tail.find(' ').unwrap_or(tail.len())..];
	}
	out.push_str(rest);
	out
}
/// in-memory-only parts of the dump: `timer_ticks` of a claimable HTLC (the reader sets 0); `retry_strategy` / `attempts`
/// of a Retryable outbound payment (declared `(not_written, …, (static_value, …))` in the enum's field list)
fn mask_ticks(s: &str) -> String { mask_token(&mask_token(&mask_token(s, "timer_ticks="), " retry="), " attempts=") }
fn line_kind(s: &str) -> &str { s.split(' ').next().unwrap_or("") }
fn event_body(s: &str) -> String { // "event #3 Xyz {..} action=.." -> "Xyz {..} action=.."
	let mut it = s.splitn(3, ' '); it.next(); it.next(); it.next().unwrap_or("").to_string()
}
fn event_kind(body: &str) -> String { body.split(|c: char| !c.is_alphanumeric()).next().unwrap_or("").to_string() }

/// The pinned normalisation of the hand-serialized per-channel state (mirrors Props/C12 `enumCanon` and the comments of
/// `FundedChannel::write`: "we write out as if remove_uncommitted_htlcs_and_mark_paused had just been called"):
///   update_status  DisabledStaged(_) -> Enabled, EnabledStaged(_) -> Disabled (the state as last ANNOUNCED; tick counters dropped)
///   announcement_sigs  MessageSent | Committed -> NotSent
///   state_bits     PEER_DISCONNECTED set, LOCAL_STFU_SENT / REMOTE_STFU_SENT / QUIESCENT cleared
///   pending_update_fee  outbound: (feerate, Outbound); inbound: kept only in AwaitingRemoteRevokeToAnnounce
///   inbound HTLCs in RemoteAnnounced are dropped (and next_counterparty_htlc_id reduced by their number)
///   outbound HTLCs in RemoteRemoved are written as Committed
/// Applied to the dump taken BEFORE the write (it is the identity on a dump of a freshly read manager).
fn canon_chan_lines(lines: &[String]) -> Vec<String> {
	let tok = |l: &str, key: &str| -> Option<String> { l.split(' ').find(|t| t.starts_with(key)).map(|t| t[key.len()..].to_string()) };
	let mut out = vec![];
	for l in lines {
		match line_kind(l) {
			"chan" => {
				let id = l.split(' ').nth(1).unwrap_or("").to_string();
				let dropped = lines.iter().filter(|m| line_kind(m) == "chan_in" && m.split(' ').nth(1) == Some(&id[..]) && m.contains(" state=RemoteAnnounced ")).count() as u64;
				let outbound = tok(l, "outbound=").as_deref() == Some("true");
				let toks: Vec<String> = l.split(' ').map(|t| {
					if let Some(v) = t.strip_prefix("update_status=") { format!("update_status={}", if v.starts_with("DisabledStaged") { "Enabled" } else if v.starts_with("EnabledStaged") { "Disabled" } else { v }) }
					else if let Some(v) = t.strip_prefix("announcement_sigs=") { format!("announcement_sigs={}", if v == "MessageSent" || v == "Committed" { "NotSent" } else { v }) }
					else if let Some(v) = t.strip_prefix("state_bits=") { let n: u64 = v.parse().unwrap_or(0); format!("state_bits={}", (n | (1 << 7)) & !((1 << 14) | (1 << 15) | (1 << 16))) }
					else if let Some(v) = t.strip_prefix("next_counterparty_htlc_id=") { let n: u64 = v.parse().unwrap_or(0); format!("next_counterparty_htlc_id={}", n.saturating_sub(dropped)) }
					else { t.to_string() }
				}).collect();
				let mut s = toks.join(" ");
				// pending_update_fee=Some((253, Outbound)) is two tokens: rewrite on the joined text
				if let Some(p) = s.find("pending_update_fee=Some((") {
					let rest = &s[p + 25..];
					let end = rest.find("))").map(|e| e + 2).unwrap_or(rest.len());
					let inner = &rest[..end.saturating_sub(2)];
					let feerate = inner.split(',').next().unwrap_or("").trim().to_string();
					let st = inner.split(',').nth(1).unwrap_or("").trim().to_string();
					let repl = if outbound { format!("pending_update_fee=Some(({}, Outbound))", feerate) } else if st == "AwaitingRemoteRevokeToAnnounce" { format!("pending_update_fee=Some(({}, AwaitingRemoteRevokeToAnnounce))", feerate) } else { "pending_update_fee=None".to_string() };
					s = format!("{}{}{}", &s[..p], repl, &rest[end..]);
				}
				out.push(s);
			},
			"chan_in" => { if !l.contains(" state=RemoteAnnounced ") { out.push(l.clone()); } },
			"chan_out" => out.push(l.replace(" state=RemoteRemoved ", " state=Committed ")),
			_ => out.push(l.clone()),
		}
	}
	out
}


// ---------------------------------------------------------------------------------------------------
// (v-b) the writer's "forget the peer's uncommitted updates" table, differential against the model over the TRANSLATED table
// (Generated/ChanForget.lean, tools/gen_chan_forget.py; Props/C12 written_state_is_forgotten_state / retransmission_restores):
//   forget_disk <chan>  the channel as dumped BEFORE the write -> the channel dumped by the manager READ BACK from those bytes
//   forget_mem <chan>   the channel before a real peer disconnection -> the channel after it (remove_uncommitted_htlcs_and_mark_paused)
//   forget_retx <chan>  after reload + reconnect: did the re-read channel accept what the peer retransmitted (`ok`) or close
//                       with "Remote skipped HTLC ID" / a fee-update protocol error (`refused`)
// <chan> = <outbound 0|1> <next_holder_htlc_id> <next_counterparty_htlc_id> <fee rate:State|-> <holding-cell fee|-> <in id:State,…|->
//          <out id:State,…|-> <holding-cell entries>.  Nothing here is normalised by the harness: both sides start from the raw dump.
// ---------------------------------------------------------------------------------------------------
/// channel id -> (<chan> text, holds a peer-uncommitted update?, role/fee-state consistent?)
fn forget_texts(lines: &[String]) -> BTreeMap<String, (String, bool, bool)> {
	let mut out = BTreeMap::new();
	for l in lines.iter().filter(|l| line_kind(l) == "chan") {
		let id = l.split(' ').nth(1).unwrap_or("").to_string();
		let tok = |key: &str| -> String { l.split(' ').find(|t| t.starts_with(key)).map(|t| t[key.len()..].to_string()).unwrap_or_default() };
		let between = |a: &str, b: &str| -> String { l.find(a).and_then(|p| l[p + a.len()..].find(b).map(|q| l[p + a.len()..p + a.len() + q].to_string())).unwrap_or_default() };
		let outbound = tok("outbound=") == "true";
		let fee_raw = between("pending_update_fee=", " holding_cell_update_fee=");
		let (fee, fee_state) = if fee_raw.starts_with("Some((") { let inner = fee_raw.trim_start_matches("Some((").trim_end_matches("))"); let mut it = inner.split(','); let r = it.next().unwrap_or("").trim().to_string(); let st = it.next().unwrap_or("").trim().to_string(); (format!("{}:{}", r, st), st) } else { ("-".to_string(), String::new()) };
		let hfee_raw = tok("holding_cell_update_fee=");
		let hfee = if hfee_raw.starts_with("Some(") { hfee_raw.trim_start_matches("Some(").trim_end_matches(')').to_string() } else { "-".to_string() };
		let states = |kind: &str| -> Vec<String> { lines.iter().filter(|m| line_kind(m) == kind && m.split(' ').nth(1) == Some(&id[..])).map(|m| { let hid = m.split(' ').find_map(|t| t.strip_prefix("htlc_id=")).unwrap_or("0"); let st = m.split(' ').find_map(|t| t.strip_prefix("state=")).unwrap_or("?"); format!("{}:{}", hid, st.split(':').next().unwrap_or("?")) }).collect() };
		let (i, o) = (states("chan_in"), states("chan_out"));
		let hold = lines.iter().filter(|m| line_kind(m) == "chan_hold" && m.split(' ').nth(1) == Some(&id[..])).count();
		let interesting = i.iter().any(|x| x.ends_with(":RemoteAnnounced")) || o.iter().any(|x| x.ends_with(":RemoteRemoved")) || fee_state == "RemoteAnnounced";
		let fee_wf = fee_state.is_empty() || (outbound == (fee_state == "Outbound"));
		let j = |v: &Vec<String>| if v.is_empty() { "-".to_string() } else { v.join(",") };
		out.insert(id, (format!("{} {} {} {} {} {} {} {}", if outbound { 1 } else { 0 }, tok("next_holder_htlc_id="), tok("next_counterparty_htlc_id="), fee, hfee, j(&i), j(&o), hold), interesting, fee_wf));
	}
	out
}
/// the per-HTLC optional vectors (Generated/ChanSideVecs.lean, Props/C12 side_vectors_reattach): for every channel of the dump taken
/// BEFORE the write and every vector, `sidevec <tlv> <kind=value,…>` (the elements of the list the vector belongs to, in order, with
/// the `sv<tlv>=` value the hook prints); the implementation's answer is the same list as the manager READ BACK dumps it.
fn emit_sidevecs(ctx: &mut Ctx, before: &[String], after: &[String]) {
	const ROWS: [(u32, &str); 12] = [(15, "chan_out"), (35, "chan_out"), (39, "chan_out"), (61, "chan_out"), (67, "chan_out"), (79, "chan_out"), (55, "chan_in"), (37, "chan_hold"), (41, "chan_hold"), (57, "chan_hold"), (69, "chan_hold"), (77, "chan_hold")];
	let elems = |lines: &[String], id: &str, kind: &str, tlv: u32| -> Vec<String> {
		lines.iter().filter(|m| line_kind(m) == kind && m.split(' ').nth(1) == Some(id)).map(|m| {
			let k = if kind == "chan_hold" { m.split(' ').nth(3).unwrap_or("?").to_string() } else { m.split(' ').find_map(|t| t.strip_prefix("state=")).unwrap_or("?").to_string() };
			let key = format!("sv{}=", tlv);
			format!("{}={}", k, m.split(' ').find_map(|t| t.strip_prefix(&key[..])).unwrap_or("-"))
		}).collect()
	};
	let ids: Vec<String> = before.iter().filter(|l| line_kind(l) == "chan").map(|l| l.split(' ').nth(1).unwrap_or("").to_string()).collect();
	for id in ids {
		for (tlv, kind) in ROWS {
			let b = elems(before, &id, kind, tlv);
			if b.is_empty() { continue; }
			let op = format!("sidevec {} {}", tlv, b.join(","));
			if !ctx.once.insert(format!("op:{}", op)) { continue; }
			let a = elems(after, &id, kind, tlv);
			let carried = b.iter().filter(|e| !e.ends_with("=-")).count();
			let dropped_in_front = b.iter().position(|e| e.starts_with("RemoteAnnounced=")).map(|p| b[p..].iter().any(|e| !e.ends_with("=-"))).unwrap_or(false);
			let class = format!("sidevec:{}:{}{}", tlv, if carried == 0 { "no-value" } else if carried < b.len() { "mixed-some-none" } else { "all-some" }, if dropped_in_front { ":after-dropped" } else { "" });
			ctx.rec.case(&op, &format!("ok {}", if a.is_empty() { "-".to_string() } else { a.join(",") }), &class, carried > 0);
		}
	}
}
/// one differential case per channel (each distinct op line once per run) + the role / fee-state invariant the theorems assume
fn emit_forget(ctx: &mut Ctx, kind: &str, before: &[String], after: &[String], at: &str) {
	if kind == "forget_disk" { emit_sidevecs(ctx, before, after); }
	let (b, a) = (forget_texts(before), forget_texts(after));
	for (id, (text, interesting, fee_wf)) in b.iter() {
		if !*fee_wf { ctx.fail_once("forget:fee-wf", format!("{}: channel {} has a pending_update_fee whose state contradicts its role (a funder holds only Outbound fee updates, a fundee never does): {}", at, id, text)); }
		let op = format!("{} {}", kind, text);
		if !ctx.once.insert(format!("op:{}", op)) { continue; }
		if let Some((res, _, _)) = a.get(id) {
			ctx.rec.case(&op, res, if *interesting { "forget:peer-uncommitted-update-present" } else { "forget:nothing-to-forget" }, *interesting);
			ctx.bump(&format!("{}:{}", kind, if *interesting { "with-uncommitted" } else { "plain" }));
			if text.split(' ').nth(3).map(|f| f.ends_with(":RemoteAnnounced")).unwrap_or(false) { ctx.bump(&format!("{}:fundee-fee-RemoteAnnounced", kind)); }
		}
	}
}

/// differences not explained by a reload; `added` collects the kinds of what the reload added / resolved (statistics)
fn deep_diff(before: &[String], after: &[String], added: &mut Vec<String>) -> Vec<String> { deep_diff_ex(before, after, added, false) }

/// `pumped`: the reloaded manager has already processed its background events (a real restart followed by
/// get_and_clear_pending_msg_events): a channel that was written with MONITOR_UPDATE_IN_PROGRESS and monitor-pending
/// messages has been restored by `MonitorUpdatesComplete` (the monitors handed over are up to date) — for such a channel
/// that bit and the monitor_pending / forwards / failures counters are not compared.
fn deep_diff_ex(before: &[String], after: &[String], added: &mut Vec<String>, pumped: bool) -> Vec<String> {
	let mut diffs = vec![];
	let mut before = canon_chan_lines(before);
	let mut after = canon_chan_lines(after);
	if pumped {
		let in_progress: Vec<String> = before.iter().filter(|l| line_kind(l) == "chan").filter(|l| l.split(' ').find_map(|t| t.strip_prefix("state_bits=")).and_then(|v| v.parse::<u64>().ok()).map(|n| n & (1 << 8) != 0).unwrap_or(false)).map(|l| l.split(' ').nth(1).unwrap_or("").to_string()).collect();
		for v in [&mut before, &mut after] { for l in v.iter_mut() {
			if line_kind(l) == "chan" && in_progress.iter().any(|id| l.split(' ').nth(1) == Some(&id[..])) {
				let toks: Vec<String> = l.split(' ').map(|t| if let Some(x) = t.strip_prefix("state_bits=") { format!("state_bits={}", x.parse::<u64>().unwrap_or(0) & !(1 << 8)) } else if t.starts_with("monitor_pending=") || t.starts_with("forwards=") || t.starts_with("failures=") || t.starts_with("resend_order=") { t.split('=').next().unwrap_or("").to_string() + "=_" } else { t.to_string() }).collect();
				*l = toks.join(" ");
				added.push("channel-monitor-update-restored-by-reload".into());
			}
		} }
	}
	let before = &before[..];
	let after = &after[..];
	let strict = ["claimable", "forward", "intercepted", "decode_update_add", "outbound", "chan", "chan_in", "chan_out", "chan_hold"];
	let pick = |v: &[String], k: &str| -> Vec<String> { let mut x: Vec<String> = v.iter().filter(|l| line_kind(l) == k).map(|l| mask_ticks(l)).collect(); x.sort(); x };
	let ev_after: Vec<String> = after.iter().filter(|l| line_kind(l) == "event").map(|l| event_body(l)).collect();
	let ev_before: Vec<String> = before.iter().filter(|l| line_kind(l) == "event").map(|l| event_body(l)).collect();
	for k in strict {
		let (mut a, mut b) = (pick(before, k), pick(after, k));
		if k == "outbound" {
			// startup replay of HTLC resolutions recorded by the monitors (of closed channels): the parts of an outbound
			// payment that a monitor shows as claimed / failed are finalized by the read — the session_priv list shrinks
			// (pending amounts with it) and the corresponding Payment* event is ADDED by the reload.  Accepted only in
			// that combination: same payment, same variant, privs a strict subset, an added event naming the payment.
			let privs = |l: &str| -> Vec<String> { l.split(" privs=[").nth(1).and_then(|t| t.split(']').next()).map(|t| t.split(',').filter(|x| !x.is_empty()).map(|x| x.to_string()).collect()).unwrap_or_default() };
			let norm = |l: &str| -> String { mask_token(&mask_token(&mask_token(l, " privs="), " pending_amt="), " pending_fee=") };
			for i in 0..a.len() {
				let id = a[i].split(' ').nth(1).unwrap_or("").to_string();
				if let Some(j) = b.iter().position(|m| m.split(' ').nth(1) == Some(&id[..])) {
					if a[i] != b[j] && norm(&a[i]) == norm(&b[j]) {
						let (pa, pb) = (privs(&a[i]), privs(&b[j]));
						let replayed = ev_after.iter().any(|e| e.contains(&id) && !ev_before.contains(e));
						if pb.len() < pa.len() && pb.iter().all(|x| pa.contains(x)) && replayed { added.push("outbound-parts-finalized-by-startup-replay".into()); b[j] = a[i].clone(); }
					}
				}
			}
			a.sort(); b.sort();
		}
		if a != b {
			let key = |l: &str| -> String { l.split(' ').take(if k.starts_with("chan_") { 3 } else { 2 }).collect::<Vec<_>>().join(" ") };
			let only_a: Vec<&String> = a.iter().filter(|l| !b.contains(l)).collect();
			let mut only_b: Vec<&String> = b.iter().filter(|l| !a.contains(l)).collect();
			for l in only_a {
				// the same item on both sides with different content: show the differing tokens
				if let Some(p) = only_b.iter().position(|m| key(m) == key(l)) {
					let m = only_b.remove(p);
					let (ta, tb): (Vec<&str>, Vec<&str>) = (l.split(' ').collect(), m.split(' ').collect());
					let toks: Vec<String> = if ta.len() == tb.len() { ta.iter().zip(tb.iter()).filter(|(x, y)| x != y).map(|(x, y)| format!("`{}` before the write, `{}` after the reload", x, y)).take(6).collect() } else { vec![format!("`{}` before the write, `{}` after the reload", l, m)] };
					diffs.push(format!("{} changed: {}", key(l), toks.join("; ")));
				} else { diffs.push(format!("only before the write: {}", l)); }
			}
			for l in only_b { diffs.push(format!("only after the reload: {}", l)); }
			if a.len() != b.len() && diffs.is_empty() { diffs.push(format!("{} lines of kind {} before, {} after", a.len(), k, b.len())); }
		}
	}
	// events: before is a subsequence of after
	let eb: Vec<String> = before.iter().filter(|l| line_kind(l) == "event").map(|l| event_body(l)).collect();
	let ea: Vec<String> = after.iter().filter(|l| line_kind(l) == "event").map(|l| event_body(l)).collect();
	let mut j = 0;
	for e in &eb {
		match ea[j..].iter().position(|x| x == e) {
			Some(p) => { for x in &ea[j..j + p] { added.push(format!("event-added-by-reload:{}", event_kind(x))); } j += p + 1; },
			None => diffs.push(format!("pending event lost (or reordered) by the reload: {}", e)),
		}
	}
	for x in &ea[j.min(ea.len())..] { added.push(format!("event-added-by-reload:{}", event_kind(x))); }
	// claim replay state: resolved by the read when the monitors are up to date, (re)created by the read for every claim
	// a monitor still records as in progress (`payment_claims` next to a stored preimage): counted, not compared — the
	// behavioural comparison covers what they lead to
	for k in ["in_flight", "blocked_action", "claiming"] {
		let (a, b) = (pick(before, k), pick(after, k));
		for _ in b.iter().filter(|l| !a.contains(l)) { added.push(format!("{}-added-or-changed-by-reload", k)); }
		for _ in a.iter().filter(|l| !b.contains(l)) { added.push(format!("{}-resolved-by-reload", k)); }
	}
	for l in after.iter().filter(|l| line_kind(l) == "background") { added.push(format!("background-event-after-reload:{}", l.split(' ').nth(1).unwrap_or(""))); }
	diffs
}

/// read the serialized manager of node i (with freshly re-read copies of its monitors) into a NEW ChannelManager that is
/// never installed, and return its deep dump: write -> read -> dump without restarting the node
fn shadow_reload_dump(net: &Net, i: usize) -> Result<Vec<String>, String> {
	use lightning::ln::channelmanager::ChannelManagerReadArgs;
	let node = &net.nodes[i];
	let (mgr, mons) = net.snapshot(i);
	let mut monitors: Vec<Mon> = vec![];
	for m in &mons { monitors.push(read_mon(m, node.keys_manager).map_err(|e| format!("monitor does not read back: {:?}", e))?); }
	let mut map = lightning::util::hash_tables::new_hash_map();
	for m in monitors.iter() { map.insert(m.channel_id(), m); }
	let args = ChannelManagerReadArgs {
		config: node.node.get_current_config(), entropy_source: node.keys_manager, node_signer: node.keys_manager, signer_provider: node.keys_manager,
		fee_estimator: node.fee_estimator, router: node.router, message_router: node.message_router, chain_monitor: node.chain_monitor,
		tx_broadcaster: node.tx_broadcaster, logger: node.logger, channel_monitors: map,
	};
	let mut s = &mgr[..];
	match guarded(AssertUnwindSafe(|| <(BlockLocator, TestChannelManager<'static, 'static>)>::read(&mut s, args))) {
		Err(p) => Err(format!("ChannelManager::read panics on its own serialization: {}", p.chars().take(200).collect::<String>())),
		Ok(Err(e)) => Err(format!("ChannelManager does not read back from its own serialization: {:?}", e)),
		Ok(Ok((_, m2))) => Ok(vh::manager_persisted_state_dump(&m2)),
	}
}

fn shadow_check(net: &Net, i: usize, st: &mut St, ctx: &mut Ctx, op: &str) {
	let before = vh::manager_persisted_state_dump(net.nodes[i].node);
	for l in &before { let k = line_kind(l).to_string(); if k != "event" { st.mon_states.insert(format!("mgr:{}", k)); } }
	match shadow_reload_dump(net, i) {
		Err(e) => ctx.fail(format!("after {}: node {}: {}", op, i, e)),
		Ok(after) => {
			st.n_shadow += 1;
			let mut added = vec![];
			emit_forget(ctx, "forget_disk", &before, &after, &format!("after {}: node {}", op, i));
			let d = deep_diff(&before, &after, &mut added);
			for a in added { ctx.bump(&format!("deep:{}", a)); }
			if !d.is_empty() { ctx.fail_once(&format!("shadow:{}", class_key(&d[0])), format!("after {}: ChannelManager of node {} written and read back differs in its persisted payment state: {}", op, i, d.iter().take(3).map(|s| s.chars().take(420).collect::<String>()).collect::<Vec<_>>().join(" || "))); }
		},
	}
}

/// per-channel `ChannelConfig` as `list_channels` reports it
fn chan_configs(net: &Net, i: usize) -> Vec<(ChannelId, bitcoin::secp256k1::PublicKey, Option<lightning::util::config::ChannelConfig>)> {
	let mut v: Vec<_> = net.nodes[i].node.list_channels().into_iter().map(|c| (c.channel_id, c.counterparty.node_id, c.config)).collect();
	v.sort_by_key(|x| x.0);
	v
}
/// the channel configuration is part of the manager's observable state ("channels, balances, limits"): it must survive
/// write + reload.  A difference is reported (once per run and field), then the pre-write configuration is re-applied through
/// the public `update_channel_config`, so that the scenario keeps exploring what lies behind.
fn check_configs_survive(net: &mut Net, i: usize, before: &[(ChannelId, bitcoin::secp256k1::PublicKey, Option<lightning::util::config::ChannelConfig>)], ctx: &mut Ctx, at: &str) {
	let after = chan_configs(net, i);
	for (cid, peer, cfg) in before {
		let now = after.iter().find(|x| x.0 == *cid).map(|x| x.2);
		if let (Some(b), Some(Some(a))) = (cfg, now) {
			if *b != a {
				let field = if b.accept_underpaying_htlcs != a.accept_underpaying_htlcs { "accept_underpaying_htlcs" } else { "other" };
				ctx.fail_once(&format!("config-lost:{}", field), format!("ChannelConfig::{} of a channel is lost by a ChannelManager write+reload: list_channels().config of node {}'s channel {} was {:?} before the manager was written and is {:?} after it was read back ({})", field, i, cid, b, a, at));
				let _ = net.nodes[i].node.update_channel_config(peer, &[*cid], b);
				net.pump(i);
			}
		}
	}
}

/// observable state of a ChannelManager that must survive write + reload (the peer is disconnected in both)
fn mgr_dump(net: &Net, i: usize) -> Vec<String> {
	let n = &net.nodes[i].node;
	let mut v: Vec<String> = n.list_channels().iter().map(|c| format!(
		"chan {} cp={} scid={:?} value={} reserve={:?} out_cap={} in_cap={} limit={} min={} ready={} outbound={} announced={} conf={:?}/{:?} shutdown={:?} type={:?} feerate={:?} in_htlcs={:?} out_htlcs={:?} cfg={:?}",
		c.channel_id, c.counterparty.node_id, c.short_channel_id, c.channel_value_satoshis, c.unspendable_punishment_reserve, c.outbound_capacity_msat, c.inbound_capacity_msat,
		c.next_outbound_htlc_limit_msat, c.next_outbound_htlc_minimum_msat, c.is_channel_ready, c.is_outbound, c.is_announced, c.confirmations, c.confirmations_required,
		c.channel_shutdown_state, c.channel_type, c.feerate_sat_per_1000_weight,
		{ let mut h: Vec<String> = c.pending_inbound_htlcs.iter().map(|h| format!("{}:{}:{}:{:?}", h.htlc_id, h.amount_msat, h.cltv_expiry, h.state)).collect(); h.sort(); h },
		{ let mut h: Vec<String> = c.pending_outbound_htlcs.iter().map(|h| format!("{:?}:{}:{}:{:?}", h.htlc_id, h.amount_msat, h.cltv_expiry, h.state)).collect(); h.sort(); h },
		c.config)).collect();
	v.sort();
	let mut p: Vec<String> = n.list_recent_payments().iter().map(|p| format!("pay {:?}", p)).collect();
	p.sort();
	v.extend(p);
	v
}

/// report every in-flight monitor update of node i complete (the persister stays in its current mode meanwhile: a
/// `Completed` answer while earlier updates of the channel are still in flight is an API violation the manager panics on)
fn complete_all(net: &mut Net, i: usize) {
	for _ in 0..50 {
		let mut any = false;
		for c in 0..net.chans.len() { if net.chans[c].0 == i || net.chans[c].1 == i { for id in net.pending_updates(i, c) { net.complete(i, c, id); any = true; } } }
		if !any { break; }
	}
}

fn reload_check(net: &mut Net, i: usize, st: &mut St, ctx: &mut Ctx) {
	// complete outstanding persists of node i first (a restart hands the latest monitors to the new manager)
	complete_all(net, i);
	net.set_mode(i, false);
	net.process_events(i);
	for j in 0..net.nodes.len() { if j != i && net.connected.contains(&(i, j)) { net.disconnect(i, j); } }
	net.process_events(i);
	check_all(net, st, ctx, "pre-reload");
	let before = mgr_dump(net, i);
	let deep_before = vh::manager_persisted_state_dump(net.nodes[i].node);
	let (mgr, mons) = net.snapshot(i);
	st.prev.retain(|k, _| k.0 != i);
	match net.restart_from(i, &mgr, &mons) {
		Err(p) => ctx.fail(format!("ChannelManager of node {} does not reload from its own serialization ({} bytes): {}", i, mgr.len(), p)),
		Ok(()) => {
			st.n_mgr += 1;
			let after = mgr_dump(net, i);
			if before != after {
				let d: Vec<String> = before.iter().filter(|x| !after.contains(x)).chain(after.iter().filter(|x| !before.contains(x))).map(|s| s.chars().take(400).collect()).take(4).collect();
				ctx.fail(format!("ChannelManager of node {}: observable state differs after write+reload: {:?}", i, d));
			}
			let deep_after = vh::manager_persisted_state_dump(net.nodes[i].node);
			let mut added = vec![];
			let dd = deep_diff_ex(&deep_before, &deep_after, &mut added, true);
			for a in added { ctx.bump(&format!("deep:{}", a)); }
			if !dd.is_empty() && std::env::var("C12_DEBUG").is_ok() { eprintln!("== reload_check node {}\nBEFORE\n{}\nAFTER\n{}\nTRACE\n{}", i, deep_before.join("\n"), deep_after.join("\n"), net.trace.iter().rev().take(60).rev().map(|o| fmt_obs(o)).collect::<Vec<_>>().join("\n")); }
			if !dd.is_empty() { ctx.fail_once(&format!("reload-deep:{}", class_key(&dd[0])), format!("ChannelManager of node {}: persisted payment state differs after write+reload: {}", i, dd.iter().take(3).map(|s| s.chars().take(420).collect::<String>()).collect::<Vec<_>>().join(" || "))); }
			let n_before = net.events[i].len();
			net.process_events(i);
			for e in &net.events[i][n_before..] { let k = format!("{:?}", e); ctx.bump(&format!("event-after-reload:{}", k.split(|c: char| !c.is_alphanumeric()).next().unwrap_or(""))); }
		},
	}
	st.prev.retain(|k, _| k.0 != i);
	for j in 0..net.nodes.len() { if j != i && (net.chans.iter().any(|c| (c.0 == i && c.1 == j) || (c.0 == j && c.1 == i))) { net.reconnect(i, j); } }
}

fn scenario(sub: &mut Rng, st: &mut St, ctx: &mut Ctx, steps: usize, with_close: bool) -> Net {
	let legacy = with_close || sub.chance(1, 2);
	let cfg = if legacy { Some(test_legacy_channel_config()) } else { None };
	let mut net = Net::new(3, vec![cfg.clone(), cfg.clone(), cfg]);
	let c0 = net.open(0, 1, *sub.pick(&[200_000u64, 1_000_000]), 50_000_000);
	let c1 = net.open(1, 2, *sub.pick(&[200_000u64, 1_000_000]), 50_000_000);
	check_all(&net, st, ctx, "open");
	let mut reloads = 0;
	for step in 0..steps {
		let op: String;
		match sub.below(26) {
			0 | 1 | 2 | 3 => {
				let (pn, pc): (Vec<usize>, Vec<usize>) = match sub.below(6) { 0 => (vec![0, 1, 2], vec![c0, c1]), 1 => (vec![2, 1, 0], vec![c1, c0]), 2 => (vec![0, 1], vec![c0]), 3 => (vec![1, 0], vec![c0]), 4 => (vec![1, 2], vec![c1]), _ => (vec![2, 1], vec![c1]) };
				let amt = match sub.below(4) { 0 => 1_000 + sub.below(5_000), 1 => 400_000 + sub.below(100_000), _ => 1_000_000 + sub.below(20_000_000) };
				let r = net.send(&pn, &pc, amt, 70 + sub.below(30) as u32);
				op = format!("send{}hops:{}", pn.len() - 1, if r.is_ok() { "ok" } else { "refused" });
			},
			4 | 5 | 6 | 7 | 8 | 9 | 20 | 21 | 22 | 23 | 24 | 25 => { let q: Vec<(usize, usize)> = net.q.iter().filter(|(_, v)| !v.is_empty()).map(|(k, _)| *k).collect(); if q.is_empty() { for i in 0..3 { if net.nodes[i].node.needs_pending_htlc_processing() { net.forward(i); } net.process_events(i); } op = "deliver:none->forward+events".into(); } else { let (i, j) = *sub.pick(&q); let k = net.deliver(i, j); op = format!("deliver:{}", k.unwrap_or("-")); } },
			10 | 11 => { let i = sub.below(3) as usize; net.forward(i); net.process_events(i); op = "forward+events".into(); },
			12 | 13 => {
				let cands: Vec<usize> = (0..net.pays.len()).filter(|p| net.claimable[net.pays[*p].to].iter().any(|c| c.0 == net.pays[*p].hash)).collect();
				if cands.is_empty() { op = "claim:none".into(); } else {
					let p = *sub.pick(&cands); let to = net.pays[p].to; let h = net.pays[p].hash;
					net.claimable[to].retain(|c| c.0 != h);
					if sub.chance(2, 3) { net.claim(p); op = "claim".into(); } else { net.fail_back(p); op = "fail-back".into(); }
				}
			},
			14 => {
				let i = sub.below(3) as usize; let m = !net.in_progress[i] && sub.chance(1, 2);
				if !m { complete_all(&mut net, i); }
				net.set_mode(i, m); op = format!("persist-mode:{}", if m { "InProgress" } else { "Completed" });
			},
			15 | 16 => {
				let mut all: Vec<(usize, usize, u64)> = vec![];
				for i in 0..3 { for c in [c0, c1] { if net.chans[c].0 == i || net.chans[c].1 == i { for id in net.pending_updates(i, c) { all.push((i, c, id)); } } } }
				if all.is_empty() { op = "complete:none".into(); } else { let (i, c, id) = *sub.pick(&all); net.complete(i, c, id); op = "complete".into(); }
			},
			17 => {
				let (a, b) = if sub.chance(1, 2) { (0, 1) } else { (1, 2) };
				if !net.connected.contains(&(a, b)) { net.reconnect(a, b); op = "reconnect".into(); }
				else if sub.chance(1, 3) { net.disconnect(a, b); op = "disconnect".into(); } else { op = "noop".into(); }
			},
			18 => { let i = sub.below(3) as usize; net.nodes[i].node.timer_tick_occurred(); net.pump(i); op = "timer-tick".into(); },
			_ => {
				if reloads < 2 && step > 3 { reloads += 1; let i = sub.below(3) as usize; reload_check(&mut net, i, st, ctx); op = "reload".into(); } else { op = "noop".into(); }
			},
		}
		ctx.bump(&format!("op:{}", op));
		check_all(&net, st, ctx, &op);
		if ctx.thorough { for i in 0..3 { shadow_check(&net, i, st, ctx, &op); } } else { shadow_check(&net, step % 3, st, ctx, &op); }
	}
	for i in 0..3 { check_graph_scorer(&net, i, st, ctx, "scenario-end"); }
	if with_close {
		// unilateral close with whatever is in flight, then blocks; every object is round-tripped after every block
		for (a, b) in [(0, 1), (1, 2)] { if !net.connected.contains(&(a, b)) { net.reconnect(a, b); } }
		let c = if sub.chance(1, 2) { c0 } else { c1 };
		let (a, b, cid, _) = net.chans[c];
		let (closer, peer) = if sub.chance(1, 2) { (a, b) } else { (b, a) };
		let mut confirmed: HashSet<bitcoin::Txid> = HashSet::new();
		for i in 0..3 { for m in net.nodes[i].chain_monitor.chain_monitor.list_monitors() { if let Ok(mon) = net.nodes[i].chain_monitor.chain_monitor.get_monitor(m) { confirmed.insert(mon.get_funding_txo().txid); } } }
		let mut seen_b: Vec<usize> = (0..3).map(|i| net.nodes[i].tx_broadcaster.txn_broadcasted.lock().unwrap().len()).collect();
		let r = net.nodes[closer].node.force_close_broadcasting_latest_txn(&cid, &net.ids[peer], "c12".to_string());
		ctx.bump(&format!("op:force-close:{}", if r.is_ok() { "ok" } else { "err" }));
		net.pump_all(); for i in 0..3 { net.process_events(i); }
		st.epoch += 1;
		check_all(&net, st, ctx, "force-close");
		let mut mempool: Vec<bitcoin::Transaction> = vec![];
		let mut spent: HashSet<bitcoin::OutPoint> = HashSet::new();
		let n_blocks = 14 + sub.below(16);
		for blk in 0..n_blocks {
			for i in 0..3 { let b = net.nodes[i].tx_broadcaster.txn_broadcasted.lock().unwrap(); for tx in &b[seen_b[i].min(b.len())..] { if !mempool.iter().any(|t| t.compute_txid() == tx.compute_txid()) { mempool.push(tx.clone()); } } seen_b[i] = b.len(); }
			// the nodes are at different heights (a channel open only mines on its two ends): one block per node
			let height = (0..3).map(|i| net.nodes[i].best_block_info().1).max().unwrap() + 1;
			let mut txs: Vec<bitcoin::Transaction> = vec![];
			let mut in_block: HashSet<bitcoin::Txid> = HashSet::new();
			let mut k = 0;
			while k < mempool.len() {
				let tx = &mempool[k];
				let lock_ok = !tx.lock_time.is_block_height() || tx.lock_time.to_consensus_u32() < height;
				let inputs_ok = tx.input.iter().all(|inp| !spent.contains(&inp.previous_output) && (confirmed.contains(&inp.previous_output.txid) || in_block.contains(&inp.previous_output.txid)));
				if lock_ok && inputs_ok && (blk > 0 || sub.chance(3, 4)) && sub.chance(4, 5) {
					let tx = mempool.remove(k);
					for inp in tx.input.iter() { spent.insert(inp.previous_output); }
					in_block.insert(tx.compute_txid());
					txs.push(tx);
				} else { k += 1; }
			}
			for t in &txs { confirmed.insert(t.compute_txid()); }
			for i in 0..3 { let block = create_dummy_block(net.nodes[i].best_block_hash(), net.nodes[i].best_block_info().1 + 1, txs.clone()); connect_block(&net.nodes[i], &block); }
			net.pump_all(); for i in 0..3 { net.process_events(i); }
			// let the surviving channel keep moving
			for _ in 0..3 { if let Some((i, j)) = net.any_queued() { net.deliver(i, j); } }
			st.epoch += 1;
			ctx.bump(&format!("op:block:txs{}", txs.len().min(3)));
			check_all(&net, st, ctx, "block");
			if blk == 6 {
				// jump past the CLTV expiries of whatever was in flight: timeout claims, the other channel may go on chain too
				for i in 0..3 { connect_blocks(&net.nodes[i], 60 + sub.below(40) as u32); }
				net.pump_all(); for i in 0..3 { net.process_events(i); }
				st.epoch += 1;
				ctx.bump("op:blocks-jump");
				check_all(&net, st, ctx, "blocks-jump");
			}
			if blk == 2 && sub.chance(1, 2) { let i = if sub.chance(1, 2) { closer } else { peer }; reload_check(&mut net, i, st, ctx); st.epoch += 1; check_all(&net, st, ctx, "reload-after-close"); ctx.bump("op:reload-after-close"); }
		}
	}
	net
}

// ---------------------------------------------------------------------------------------------------
// (vi) rare manager states + behavioural oracle.  Scripted (deterministic) scenarios on 3 nodes 0 -> 1 -> 2, node 1
// intercepting forwards to its intercept scid, node 2 accepting underpaying HTLCs:
//   underpaid / over-forwarded claimable HTLCs (value != sender_intended_value), partially received multi-part
//   payments, intercepted HTLCs awaiting a decision, HTLCs in the holding cell, in-flight (InProgress) monitor updates
//   with blocked completion actions, pending claims.
// A script is a list of acts; `Auto(n)` expands to n micro-steps (deliver ONE message | forward | process events), so
// every message boundary is a cut point.  For a cut (k, x):
//   reload run    acts[..k]; node x's manager + monitors are WRITTEN as they are and the node restarted from the bytes
//                 (deep dump before the write == deep dump after the reload, see (v)); reconnect; acts[k..]; settle
//   original run  acts[..k]; node x's peers are disconnected and reconnected (what writing implies), its in-flight
//                 persists reported complete (the restart hands over the latest monitors); acts[k..]; settle
// and the two runs must end the same: the same set of payment events at every node (kind, hash, amounts, failure
// reasons) and the same observable end state.  Events may be REPLAYED by a reload, so sets, not multisets.
// ---------------------------------------------------------------------------------------------------
#[derive(Clone, Debug)]
enum Act {
	/// node 0 pays node 2 through node 1, `parts` HTLCs; the last hop uses node 1's intercept scid when `intercept`
	Pay { parts: usize, amt: u64, intercept: bool },
	/// a 1-hop payment over channel c (c0: 0<->1, c1: 1<->2)
	PayDirect { from: usize, to: usize, chan: usize, amt: u64 },
	/// one micro-step: deliver the oldest message of the first non-empty queue | else forward at the first node that
	/// needs it | else process the events of every node
	Micro,
	/// node 1 forwards its oldest undecided intercepted HTLC with `expected_outbound - delta` (delta < 0: over-forwards)
	Intercept { delta: i64 },
	FailIntercept,
	/// 4 (> MPP_TIMEOUT_TICKS) timer ticks at the node
	Ticks(usize),
	/// every claimable payment not decided yet is claimed / failed back by its recipient
	Claim, FailBack,
	Mode(usize, bool), Complete(usize),
	Blocks(u32),
	/// the two peers lose / regain their connection
	Disconnect(usize, usize), Reconnect(usize, usize),
	/// ONE timer tick at the node (gossip enable / disable staging counts single ticks)
	Tick1(usize),
	/// the node's fee estimator rises by a quarter and a timer tick makes the funder of its channels send update_fee + commitment_signed
	FeeBump(usize),
	/// does nothing: a cut point of interest for this node (the quick tier cuts at the nodes the neighbouring acts concern)
	Nop(usize),
}
fn auto(v: &mut Vec<Act>, n: usize) { for _ in 0..n { v.push(Act::Micro); } }

struct Script { name: String, acts: Vec<Act>,
	/// timer ticks given to the cut node right after the cut, in BOTH runs (the staged tick counters are documented as not
	/// persisted: enough ticks to finish any staged transition make the two runs comparable)
	cut_ticks: usize }

fn rare_scripts(rng: &mut Rng) -> Vec<Script> {
	let amt = 600_000 + rng.below(400_000);
	let skim = 1 + rng.below(5_000) as i64;
	let over = 1 + rng.below(3_000) as i64;
	let mut out = vec![];
	// one underpaid / over-forwarded HTLC: intercepted (awaiting a decision), forwarded with a skimmed fee, claimable, ticks, then claim | fail | blocks
	for (tag, delta) in [("underpaid", skim), ("overforwarded", -over)] {
		for tail in ["claim", "fail", "blocks"] {
			let mut a = vec![Act::Pay { parts: 1, amt, intercept: true }]; auto(&mut a, 14);
			a.push(Act::Intercept { delta }); auto(&mut a, 14);
			a.push(Act::Ticks(2)); auto(&mut a, 2);
			match tail { "claim" => a.push(Act::Claim), "fail" => a.push(Act::FailBack), _ => { a.push(Act::Blocks(40)); a.push(Act::Ticks(2)); a.push(Act::Blocks(60)); } }
			auto(&mut a, 24);
			out.push(Script { cut_ticks: 0, name: format!("{}-{} amt={} delta={}", tag, tail, amt, delta), acts: a });
		}
	}
	// two-part payment, each part skimmed; partially received in between
	{
		let mut a = vec![Act::Pay { parts: 2, amt, intercept: true }]; auto(&mut a, 22);
		a.push(Act::Intercept { delta: skim }); auto(&mut a, 14);
		a.push(Act::Intercept { delta: skim / 2 }); auto(&mut a, 14);
		a.push(Act::Ticks(2)); auto(&mut a, 2); a.push(Act::Claim); auto(&mut a, 30);
		out.push(Script { cut_ticks: 0, name: format!("mpp2-underpaid-claim amt={} skims={},{}", amt, skim, skim / 2), acts: a });
		// the second part is decided only after the first timed out
		let mut a = vec![Act::Pay { parts: 2, amt, intercept: true }]; auto(&mut a, 22);
		a.push(Act::Intercept { delta: skim }); auto(&mut a, 14);
		a.push(Act::Ticks(2)); auto(&mut a, 16);
		a.push(Act::Intercept { delta: 0 }); auto(&mut a, 14);
		a.push(Act::Ticks(2)); auto(&mut a, 24);
		out.push(Script { cut_ticks: 0, name: format!("mpp2-partial-timeout amt={} skim={}", amt, skim), acts: a });
		// one part forwarded, the other failed by the interceptor
		let mut a = vec![Act::Pay { parts: 2, amt, intercept: true }]; auto(&mut a, 22);
		a.push(Act::Intercept { delta: -over }); auto(&mut a, 14);
		a.push(Act::FailIntercept); auto(&mut a, 14);
		a.push(Act::Ticks(2)); auto(&mut a, 24);
		out.push(Script { cut_ticks: 0, name: format!("mpp2-one-part-failed amt={} over={}", amt, over), acts: a });
	}
	// holding cell: three sends back to back (the 2nd and 3rd wait in the holding cell for the first RAA), both directions
	{
		let mut a = vec![Act::PayDirect { from: 0, to: 1, chan: 0, amt: 40_000 + rng.below(10_000) }, Act::PayDirect { from: 0, to: 1, chan: 0, amt: 50_000 + rng.below(10_000) }, Act::Micro, Act::Micro,
			Act::PayDirect { from: 1, to: 0, chan: 0, amt: 60_000 + rng.below(10_000) }, Act::Pay { parts: 1, amt, intercept: false }];
		auto(&mut a, 40); a.push(Act::Claim); auto(&mut a, 40);
		out.push(Script { cut_ticks: 0, name: format!("holding-cell amt={}", amt), acts: a });
	}
	// in-flight monitor updates, blocked completion actions, pending claims: the recipient and the forwarding node persist
	// asynchronously while the claim travels back
	{
		let mut a = vec![Act::Pay { parts: 1, amt, intercept: false }]; auto(&mut a, 26);
		a.push(Act::Mode(2, true)); a.push(Act::Mode(1, true)); a.push(Act::Claim); auto(&mut a, 6);
		a.push(Act::Complete(2)); auto(&mut a, 8); a.push(Act::Complete(1)); auto(&mut a, 8); a.push(Act::Complete(1)); a.push(Act::Complete(2)); a.push(Act::Mode(1, false)); a.push(Act::Mode(2, false)); auto(&mut a, 30);
		out.push(Script { cut_ticks: 0, name: format!("async-persist-claim amt={}", amt), acts: a });
		let mut a = vec![Act::Pay { parts: 2, amt, intercept: true }]; auto(&mut a, 22);
		a.push(Act::Mode(1, true)); a.push(Act::Intercept { delta: skim }); a.push(Act::Intercept { delta: 0 }); auto(&mut a, 8); a.push(Act::Complete(1)); auto(&mut a, 24);
		a.push(Act::Mode(2, true)); a.push(Act::Claim); auto(&mut a, 6); a.push(Act::Complete(2)); auto(&mut a, 6); a.push(Act::Complete(1)); a.push(Act::Complete(2)); a.push(Act::Mode(1, false)); a.push(Act::Mode(2, false)); auto(&mut a, 40);
		out.push(Script { cut_ticks: 0, name: format!("async-persist-mpp2-underpaid amt={} skim={}", amt, skim), acts: a });
	}
	// fee update in flight: the funder (node 0 of channel 0, node 1 of channel 1) raises the feerate; update_fee and commitment_signed
	// are delivered one by one, with a cut at the FUNDEE after each step: its pending_update_fee is RemoteAnnounced (not written:
	// the funder retransmits it), then AwaitingRemoteRevokeToAnnounce (written).  Second round with an HTLC travelling at the same
	// time (RemoteAnnounced inbound HTLC + RemoteAnnounced fee update in one write).
	{
		let mut a = vec![Act::FeeBump(0)];
		for _ in 0..8 { a.push(Act::Micro); a.push(Act::Nop(1)); a.push(Act::Nop(0)); }
		a.push(Act::PayDirect { from: 0, to: 1, chan: 0, amt: 30_000 + rng.below(10_000) }); a.push(Act::FeeBump(0));
		for _ in 0..14 { a.push(Act::Micro); a.push(Act::Nop(1)); }
		a.push(Act::Claim);
		a.push(Act::FeeBump(1));
		for _ in 0..14 { a.push(Act::Micro); a.push(Act::Nop(2)); a.push(Act::Nop(1)); }
		auto(&mut a, 20);
		out.push(Script { cut_ticks: 0, name: "fee-update in flight".into(), acts: a });
	}
	// gossip enable / disable staging: the peer of an announced channel goes away for more than DISABLE_GOSSIP_TICKS (10)
	// ticks (Enabled -> DisabledStaged(n) -> Disabled, a disabling channel_update is broadcast), comes back, and after
	// ENABLE_GOSSIP_TICKS (5) more ticks (Disabled -> EnabledStaged(n) -> Enabled) the enabling update is broadcast: all four
	// ChannelUpdateStatus values are written at some cut point
	{
		let mut a = vec![Act::Disconnect(0, 1)];
		for _ in 0..12 { a.push(Act::Tick1(0)); a.push(Act::Tick1(1)); }
		a.push(Act::Reconnect(0, 1)); auto(&mut a, 6);
		for _ in 0..7 { a.push(Act::Tick1(0)); a.push(Act::Tick1(1)); }
		auto(&mut a, 3);
		// a second, short outage: the peer is back before the disabling update went out (DisabledStaged -> Enabled, nothing broadcast)
		a.push(Act::Disconnect(0, 1)); for _ in 0..4 { a.push(Act::Tick1(0)); } a.push(Act::Reconnect(0, 1)); auto(&mut a, 6); for _ in 0..3 { a.push(Act::Tick1(0)); }
		out.push(Script { cut_ticks: 12, name: "gossip-status disable/enable staging".into(), acts: a });
	}
	out
}

struct Rare { net: Net, c0: usize, c1: usize, decided_intercepts: BTreeSet<[u8; 32]>, decided_pays: BTreeSet<PaymentHash>, notes: Vec<String> }

fn ev_summary(e: &Event) -> String {
	match e {
		Event::PaymentClaimable { payment_hash, amount_msat, counterparty_skimmed_fee_msat, .. } => format!("PaymentClaimable {} amt={} skimmed={}", payment_hash, amount_msat, counterparty_skimmed_fee_msat),
		Event::PaymentClaimed { payment_hash, amount_msat, htlcs, sender_intended_total_msat, .. } => format!("PaymentClaimed {} amt={} parts={} sender_intended_total={:?}", payment_hash, amount_msat, htlcs.len(), sender_intended_total_msat),
		Event::PaymentSent { payment_hash, fee_paid_msat, .. } => format!("PaymentSent {} fee={:?}", payment_hash, fee_paid_msat),
		Event::PaymentFailed { payment_hash, reason, .. } => format!("PaymentFailed {:?} reason={:?}", payment_hash, reason),
		Event::PaymentPathFailed { payment_hash, payment_failed_permanently, .. } => format!("PaymentPathFailed {} perm={}", payment_hash, payment_failed_permanently),
		Event::PaymentPathSuccessful { payment_hash, .. } => format!("PaymentPathSuccessful {:?}", payment_hash),
		Event::PaymentForwarded { total_fee_earned_msat, skimmed_fee_msat, claim_from_onchain_tx, outbound_amount_forwarded_msat, .. } => format!("PaymentForwarded fee={:?} skimmed={:?} onchain={} out_amt={:?}", total_fee_earned_msat, skimmed_fee_msat, claim_from_onchain_tx, outbound_amount_forwarded_msat),
		Event::HTLCHandlingFailed { failure_type, failure_reason, .. } => { let t = format!("{:?}", failure_type); format!("HTLCHandlingFailed {} reason={:?}", t.split(|c: char| !c.is_alphanumeric()).next().unwrap_or(""), failure_reason) },
		Event::HTLCIntercepted { payment_hash, inbound_amount_msat, expected_outbound_amount_msat, .. } => format!("HTLCIntercepted {} in={} expected_out={}", payment_hash, inbound_amount_msat, expected_outbound_amount_msat),
		Event::ChannelClosed { reason, .. } => format!("ChannelClosed {}", format!("{:?}", reason).chars().take(60).collect::<String>()),
		other => format!("{:?}", other).chars().take(48).collect(),
	}
}

impl Rare {
	fn new() -> Rare {
		let mut icfg = test_default_channel_config();
		icfg.htlc_interception_flags = lightning::util::config::HTLCInterceptionFlags::ToInterceptSCIDs as u8;
		let mut ucfg = test_default_channel_config();
		ucfg.channel_config.accept_underpaying_htlcs = true;
		let mut net = Net::new(3, vec![Some(test_default_channel_config()), Some(icfg), Some(ucfg)]);
		let c0 = net.open(0, 1, 1_000_000, 300_000_000);
		let c1 = net.open(1, 2, 1_000_000, 300_000_000);
		Rare { net, c0, c1, decided_intercepts: BTreeSet::new(), decided_pays: BTreeSet::new(), notes: vec![] }
	}
	fn pay(&mut self, nodes: &[usize], scids: &[u64], parts: usize, amt: u64) {
		use lightning::ln::channelmanager::PaymentId;
		use lightning::ln::outbound_payment::RecipientOnionFields;
		use lightning::routing::router::{PaymentParameters, Route, RouteParameters};
		let net = &mut self.net;
		let (src, dst) = (nodes[0], *nodes.last().unwrap());
		let (preimage, hash, secret) = get_payment_preimage_hash(&net.nodes[dst], Some(amt), None);
		let mut paths = vec![];
		for p in 0..parts {
			let part = if p + 1 == parts { amt - (amt / parts as u64) * (parts as u64 - 1) } else { amt / parts as u64 };
			let mut hops = vec![];
			for k in 1..nodes.len() {
				let last = k == nodes.len() - 1;
				hops.push(RouteHop { pubkey: net.ids[nodes[k]], node_features: NodeFeatures::empty(), short_channel_id: scids[k - 1], channel_features: ChannelFeatures::empty(),
					fee_msat: if last { part } else { 1000 }, cltv_expiry_delta: if last { 80 } else { 48 }, maybe_announced_channel: true });
			}
			paths.push(Path { hops, blinded_tail: None });
		}
		let params = PaymentParameters::from_node_id(net.ids[dst], 80).with_bolt11_features(net.nodes[dst].node.bolt11_invoice_features()).unwrap();
		let route = Route { paths, route_params: RouteParameters::from_payment_params_and_value(params, amt) };
		let id = PaymentId(hash.0);
		let r = net.nodes[src].node.send_payment_with_route(route, hash, RecipientOnionFields::secret_only(secret, amt), id);
		net.pump(src);
		match r { Ok(()) => net.pays.push(PendingPay { hash, preimage, secret, amt, id, from: src, to: dst }), Err(e) => self.notes.push(format!("send refused: {:?}", e).chars().take(100).collect()) }
	}
	/// returns whether the act did anything
	fn apply(&mut self, act: &Act) -> bool {
		match act {
			Act::Pay { parts, amt, intercept } => {
				let s0 = self.net.chans[self.c0].3;
				let s1 = if *intercept { self.net.nodes[1].node.get_intercept_scid() } else { self.net.chans[self.c1].3 };
				self.pay(&[0, 1, 2], &[s0, s1], *parts, *amt); true
			},
			Act::PayDirect { from, to, chan, amt } => { let c = if *chan == 0 { self.c0 } else { self.c1 }; let s = self.net.chans[c].3; self.pay(&[*from, *to], &[s], 1, *amt); true },
			Act::Micro => {
				if let Some((i, j)) = self.net.any_queued() { self.net.deliver(i, j); return true; }
				for i in 0..3 { if self.net.nodes[i].node.needs_pending_htlc_processing() { self.net.forward(i); return true; } }
				let mut any = false;
				for i in 0..3 { let n = self.net.events[i].len(); self.net.process_events(i); if self.net.events[i].len() != n { any = true; } }
				any
			},
			Act::Intercept { .. } | Act::FailIntercept => {
				let pending: Vec<(lightning::ln::channelmanager::InterceptId, u64)> = self.net.events[1].iter().filter_map(|e| match e { Event::HTLCIntercepted { intercept_id, expected_outbound_amount_msat, .. } if !self.decided_intercepts.contains(&intercept_id.0) => Some((*intercept_id, *expected_outbound_amount_msat)), _ => None }).collect();
				let (id, expected) = match pending.first() { Some(x) => *x, None => return false };
				self.decided_intercepts.insert(id.0);
				let r = match act {
					Act::Intercept { delta } => { let amt = (expected as i64 - *delta).max(1) as u64; let (cid, peer) = (self.net.chans[self.c1].2, self.net.ids[2]); self.net.nodes[1].node.forward_intercepted_htlc(id, &cid, peer, amt) },
					_ => self.net.nodes[1].node.fail_intercepted_htlc(id),
				};
				if let Err(e) = r { self.notes.push(format!("intercept decision refused: {:?}", e).chars().take(120).collect()); }
				self.net.pump(1); true
			},
			Act::Ticks(i) => { for _ in 0..4 /* > MPP_TIMEOUT_TICKS: 3 in production, 1 under _test_utils (crate-private) */ { self.net.nodes[*i].node.timer_tick_occurred(); } self.net.pump(*i); true },
			Act::Claim | Act::FailBack => {
				let mut any = false;
				for p in 0..self.net.pays.len() {
					let (to, h) = (self.net.pays[p].to, self.net.pays[p].hash);
					if self.decided_pays.contains(&h) || !self.net.claimable[to].iter().any(|c| c.0 == h) { continue; }
					self.decided_pays.insert(h); any = true;
					if matches!(act, Act::Claim) { self.net.claim(p); } else { self.net.fail_back(p); }
				}
				any
			},
			Act::Mode(i, m) => { if !*m { complete_all(&mut self.net, *i); } self.net.set_mode(*i, *m); true },
			Act::Complete(i) => { let mut any = false; for c in [self.c0, self.c1] { if self.net.chans[c].0 == *i || self.net.chans[c].1 == *i { if let Some(id) = self.net.pending_updates(*i, c).first().cloned() { self.net.complete(*i, c, id); any = true; } } } any },
			Act::Blocks(n) => { for i in 0..3 { connect_blocks(&self.net.nodes[i], *n); } self.net.pump_all(); true },
			Act::Disconnect(a, b) => { if self.net.connected.contains(&(*a, *b)) { self.net.disconnect(*a, *b); true } else { false } },
			Act::Reconnect(a, b) => { if !self.net.connected.contains(&(*a, *b)) { self.net.reconnect(*a, *b); true } else { false } },
			Act::Tick1(i) => { self.net.nodes[*i].node.timer_tick_occurred(); self.net.pump(*i); true },
			Act::FeeBump(i) => { { let mut f = self.net.nodes[*i].fee_estimator.sat_per_kw.lock().unwrap(); *f += *f / 4 + 20; } self.net.nodes[*i].node.timer_tick_occurred(); self.net.pump(*i); true },
			Act::Nop(_) => true,
		}
	}
	fn drain(&mut self) { for _ in 0..400 { match self.net.any_queued() { Some((i, j)) => { self.net.deliver(i, j); }, None => break } } }
	fn peers_of(&self, x: usize) -> Vec<usize> { (0..3).filter(|j| *j != x && self.net.chans.iter().any(|c| (c.0 == x && c.1 == *j) || (c.0 == *j && c.1 == x))).collect() }
}

struct Outcome { updates: Vec<String>, events: Vec<BTreeSet<String>>, end: Vec<Vec<String>>, effective: Vec<bool>, states: BTreeSet<String>, problem: Option<String>, notes: Vec<String> }

/// cut = (k, node, reload?)
fn run_script(sc: &Script, cut: Option<(usize, usize, bool)>, ctx: &mut Ctx, added: &mut Vec<String>) -> Outcome {
	let mut r = Rare::new();
	let mut effective = vec![];
	let mut states = BTreeSet::new();
	let mut problem = None;
	for (k, act) in sc.acts.iter().enumerate() {
		if let Some((ck, x, reload)) = cut { if ck == k {
			let was_connected: Vec<usize> = r.peers_of(x).into_iter().filter(|j| r.net.connected.contains(&(x, *j))).collect();
			let mut retx_before: Option<Vec<String>> = None;
			let errs_at_cut = r.net.trace.iter().filter(|o| matches!(o, Obs::ProtoError { .. })).count();
			let closed_at_cut = r.net.closed.len();
			if reload {
				let deep_before = vh::manager_persisted_state_dump(r.net.nodes[x].node);
				for l in &deep_before { if line_kind(l) == "claimable" && claimable_partial(l) { states.insert("written:claimable:partially-received-mpp".into()); } }
				for d in r.net.nodes[x].node.list_channels() {
					if d.pending_outbound_htlcs.iter().any(|h| h.htlc_id.is_none()) { states.insert("written:channel:htlc-in-holding-cell".into()); }
					for h in &d.pending_inbound_htlcs { states.insert(format!("written:channel:inbound-htlc:{:?}", h.state)); }
					for h in &d.pending_outbound_htlcs { states.insert(format!("written:channel:outbound-htlc:{:?}", h.state)); }
					if let Some(n) = vh::channel_restart_numbers(r.net.nodes[x].node, &d.counterparty.node_id, &d.channel_id) { if n[5] > 0 { states.insert("written:channel:blocked-monitor-updates".into()); } if n[0] != n[1] { states.insert("written:channel:unreleased-monitor-update".into()); } }
				}
				for l in &deep_before { if line_kind(l) == "chan" { if let Some(t) = l.split(' ').find_map(|t| t.strip_prefix("update_status=")) { states.insert(format!("written:channel:update_status:{}", t.split('(').next().unwrap_or(""))); } } }
				for l in &deep_before { states.insert(match line_kind(l) { "event" => format!("written:event:{}", event_kind(&event_body(l))), "claimable" => format!("written:claimable{}{}", if l.matches("{value=").count() > 1 { ":multi-part" } else { "" }, if claimable_amounts_differ(l) { ":value!=sender_intended" } else { "" }), k => format!("written:{}", k) }); }
				let (mgr, mons) = r.net.snapshot(x);
				let cfgs = chan_configs(&r.net, x);
				match r.net.restart_from(x, &mgr, &mons) {
					Err(p) => { problem = Some(format!("ChannelManager of node {} does not reload from its own serialization: {}", x, p)); break; },
					Ok(()) => {
						check_configs_survive(&mut r.net, x, &cfgs, ctx, &format!("scenario `{}`, reload before act #{}", sc.name, k));
						let deep_after = vh::manager_persisted_state_dump(r.net.nodes[x].node);
						emit_forget(ctx, "forget_disk", &deep_before, &deep_after, &format!("scenario `{}`, node {} written and reloaded before act #{}", sc.name, x, k));
						retx_before = Some(deep_before.clone());
						let d = deep_diff_ex(&deep_before, &deep_after, added, true);
						if !d.is_empty() && problem.is_none() { problem = Some(format!("persisted payment state of node {} differs after write+reload: {}", x, d.iter().take(3).map(|s| s.chars().take(420).collect::<String>()).collect::<Vec<_>>().join(" || "))); }
					},
				}
			} else {
				complete_all(&mut r.net, x); r.net.set_mode(x, false);
				let mem_before = vh::manager_persisted_state_dump(r.net.nodes[x].node);
				let all_connected = r.peers_of(x).iter().all(|j| r.net.connected.contains(&(x, *j)));
				for j in r.peers_of(x) { if r.net.connected.contains(&(x, j)) { r.net.disconnect(x, j); } }
				if all_connected { let mem_after = vh::manager_persisted_state_dump(r.net.nodes[x].node); emit_forget(ctx, "forget_mem", &mem_before, &mem_after, &format!("scenario `{}`, node {} disconnected before act #{}", sc.name, x, k)); }
			}
			let was_connected_n = was_connected.len();
			for j in was_connected { if !r.net.connected.contains(&(x, j)) { r.net.reconnect(x, j); } }
			r.drain();
			if let Some(b) = retx_before.take() { if was_connected_n == r.peers_of(x).len() {
				let refused = r.net.trace.iter().filter(|o| matches!(o, Obs::ProtoError { .. })).skip(errs_at_cut).any(|o| { let t = format!("{:?}", o); t.contains("Remote skipped HTLC ID") || t.contains("tried to update channel fee") }) || r.net.closed.len() > closed_at_cut;
				for (_, (text, interesting, _)) in forget_texts(&b).iter() { let op = format!("forget_retx {}", text); if ctx.once.insert(format!("op:{}", op)) { ctx.rec.case(&op, if refused { "refused" } else { "ok" }, if *interesting { "forget:retransmission-after-reload" } else { "forget:nothing-to-retransmit" }, *interesting); ctx.bump(&format!("forget_retx:{}", if *interesting { "with-uncommitted" } else { "plain" })); } }
			} }
			for _ in 0..sc.cut_ticks { r.net.nodes[x].node.timer_tick_occurred(); r.net.pump(x); }
		} }
		effective.push(r.apply(act));
	}
	// settle
	for i in 0..3 { complete_all(&mut r.net, i); r.net.set_mode(i, false); }
	r.net.settle(30);
	let events = (0..3).map(|i| r.net.events[i].iter().map(ev_summary).collect()).collect();
	// the announced state of every (node, channel): the sequence of disabled flags of its broadcast channel_updates,
	// consecutive repetitions collapsed (a reload may re-broadcast the current state)
	let mut updates: Vec<String> = vec![];
	{
		let mut seqs: BTreeMap<(usize, u64), Vec<bool>> = BTreeMap::new();
		for (n, scid, disabled, _) in r.net.bcast_updates.iter() { let v = seqs.entry((*n, *scid)).or_default(); if v.last() != Some(disabled) { v.push(*disabled); } }
		for ((n, scid), v) in seqs { updates.push(format!("node {} channel {}: broadcast channel_updates {}", n, r.net.chans.iter().position(|c| c.3 == scid).map(|c| c.to_string()).unwrap_or("?".into()), v.iter().map(|d| if *d { "DISABLED" } else { "enabled" }).collect::<Vec<_>>().join(" -> "))); }
	}
	let end = (0..3).map(|i| mgr_dump(&r.net, i)).collect();
	let notes = r.notes.clone();
	std::mem::forget(r);
	Outcome { updates, events, end, effective, states, problem, notes }
}

/// a `claimable` dump line whose parts do not add up to the total yet
fn claimable_partial(l: &str) -> bool {
	let num = |s: &str, key: &str| -> Vec<u64> { s.match_indices(key).map(|(p, _)| s[p + key.len()..].chars().take_while(|c| c.is_ascii_digit()).collect::<String>().parse().unwrap_or(0)).collect() };
	let total = num(l, " total_msat=").first().cloned().unwrap_or(0);
	num(l, " sender_intended_value=").iter().sum::<u64>() < total
}
fn claimable_amounts_differ(l: &str) -> bool {
	let num = |s: &str, key: &str| -> Vec<u64> { s.match_indices(key).map(|(p, _)| s[p + key.len()..].chars().take_while(|c| c.is_ascii_digit()).collect::<String>().parse().unwrap_or(0)).collect() };
	let (v, sv) = (num(l, "{value="), num(l, " sender_intended_value="));
	v.iter().zip(sv.iter()).any(|(a, b)| a != b)
}

fn rare_states(seed: u64, st: &mut St, ctx: &mut Ctx) {
	let mut rng = Rng::new(seed ^ 0x12a4e);
	let scripts = rare_scripts(&mut rng);
	let only = std::env::var("C12_RARE").ok();
	for sc in scripts.iter() {
		if let Some(o) = &only { if !sc.name.starts_with(o.as_str()) { continue; } }
		let mut added = vec![];
		// the run without any cut: which micro-steps do something (cut points), and is the script itself deterministic
		let base = match guarded(AssertUnwindSafe(|| run_script(sc, None, ctx, &mut added))) { Ok(o) => o, Err(p) => { ctx.fail(format!("rare-state scenario {} panicked without any reload: {}", sc.name, p.chars().take(300).collect::<String>())); continue; } };
		st.n_rare_runs += 1;
		for n in &base.notes { ctx.bump(&format!("rare-note:{}", n.split(':').next().unwrap_or("").replace(' ', "-"))); }
		for i in 0..3 { for e in &base.events[i] { st.mon_states.insert(format!("rare-event:{}", e.split(' ').next().unwrap_or(""))); } }
		let mut cuts: Vec<usize> = (0..sc.acts.len()).filter(|k| *k == 0 || base.effective[*k - 1]).collect();
		if !ctx.thorough {
			// quick tier: every cut point within two steps of a non-micro act (the rare states sit there), every third one of the rest
			let near = |k: usize| (k.saturating_sub(2)..(k + 3).min(sc.acts.len())).any(|j| !matches!(sc.acts[j], Act::Micro));
			let mut n = 0usize;
			cuts.retain(|k| near(*k) || { n += 1; n % 3 == 0 });
		}
		for &k in &cuts {
			// quick tier: one node per cut point (rotating), every third cut point for the long tails; thorough: all three nodes
			let concerned = |a: &Act| -> Vec<usize> { match a { Act::Pay { .. } => vec![0], Act::PayDirect { from, .. } => vec![*from], Act::Intercept { .. } | Act::FailIntercept => vec![1], Act::Ticks(i) | Act::Mode(i, _) | Act::Complete(i) => vec![*i], Act::Claim | Act::FailBack => vec![2], Act::Blocks(_) => vec![2], Act::Disconnect(a, _) | Act::Reconnect(a, _) => vec![*a], Act::Tick1(i) => vec![*i], Act::FeeBump(i) => vec![*i], Act::Nop(i) => vec![*i], Act::Micro => vec![] } };
			let mut nodes: Vec<usize> = if ctx.thorough { vec![0, 1, 2] } else { let mut v = concerned(&sc.acts[k]); if k > 0 { v.extend(concerned(&sc.acts[k - 1])); } v };
			if nodes.is_empty() { nodes.push([2usize, 1, 2, 0][(k + rng.below(4) as usize) % 4]); }
			nodes.sort(); nodes.dedup();
			for &x in &nodes {
				let orig = match guarded(AssertUnwindSafe(|| run_script(sc, Some((k, x, false)), ctx, &mut added))) { Ok(o) => o, Err(p) => { ctx.fail(format!("rare-state scenario {} panicked (original run, disconnect of node {} before act {}): {}", sc.name, x, k, p.chars().take(300).collect::<String>())); continue; } };
				let rel = match guarded(AssertUnwindSafe(|| run_script(sc, Some((k, x, true)), ctx, &mut added))) { Ok(o) => o, Err(p) => { ctx.fail(format!("rare-state scenario {}: run with node {} written and reloaded before act {} ({:?}) panicked: {}", sc.name, x, k, sc.acts[k], p.chars().take(300).collect::<String>())); continue; } };
				st.n_rare_runs += 2; st.n_rare_cuts += 1;
				for s in &rel.states { st.mon_states.insert(format!("rare:{}", s)); }
				let at = format!("scenario `{}`: node {} written and reloaded before act #{} {:?} (acts so far: {})", sc.name, x, k, sc.acts[k], { let mut v: Vec<(String, usize)> = vec![]; for a in sc.acts[..k].iter().filter(|a| !matches!(a, Act::Micro)) { let t = format!("{:?}", a); match v.last_mut() { Some(l) if l.0 == t => l.1 += 1, _ => v.push((t, 1)) } } let n = v.len(); v.iter().skip(n.saturating_sub(14)).map(|(t, c)| if *c > 1 { format!("{} x{}", t, c) } else { t.clone() }).collect::<Vec<_>>().join(", ") });
				let family = sc.name.split(" amt=").next().unwrap_or("").to_string();
				if let Some(p) = &rel.problem { ctx.fail_once(&format!("rare-deep:{}", family), format!("{}: {}", at, p)); }
				let mut diffs = vec![];
				for i in [x, (x + 1) % 3, (x + 2) % 3] {
					for e in orig.events[i].iter().filter(|e| !rel.events[i].contains(*e)) { diffs.push(format!("node {}: only the ORIGINAL produced `{}`", i, e)); }
					for e in rel.events[i].iter().filter(|e| !orig.events[i].contains(*e)) { diffs.push(format!("node {}: only the run with the RELOADED manager produced `{}`", i, e)); }
				}
				if orig.updates != rel.updates { diffs.insert(0, format!("announced channel state: ORIGINAL [{}] vs RELOADED [{}]", orig.updates.join("; "), rel.updates.join("; "))); }
				if !diffs.is_empty() && std::env::var("C12_DEBUG").is_ok() { eprintln!("== {}\n{}\n-- notes orig {:?} rel {:?}", at, diffs.join("\n"), orig.notes, rel.notes); }
				if !diffs.is_empty() { ctx.fail_once(&format!("rare-behaviour:{}", family), format!("{}: the reloaded manager does not behave like the original (same acts, node {} only disconnected and reconnected instead): {}", at, x, diffs.iter().take(6).cloned().collect::<Vec<_>>().join("; "))); }
				else {
					for i in 0..3 { if orig.end[i] != rel.end[i] {
						let d: Vec<String> = orig.end[i].iter().filter(|l| !rel.end[i].contains(l)).map(|l| format!("original: {}", l.chars().take(300).collect::<String>())).chain(rel.end[i].iter().filter(|l| !orig.end[i].contains(l)).map(|l| format!("reloaded: {}", l.chars().take(300).collect::<String>()))).take(2).collect();
						ctx.fail_once(&format!("rare-end:{}", family), format!("{}: same events but a different observable end state at node {}: {}", at, i, d.join(" || ")));
						break;
					} }
				}
				ctx.bump("rare:cut-compared");
			}
		}
		for a in added { ctx.bump(&format!("deep:{}", a)); }
	}
}

// ---------------------------------------------------------------------------------------------------

// ---------------------------------------------------------------------------------------------------
// (vii) length / integer primitives: CollectionLength, BigSize, HighZeroBytesDroppedBigSize — differential against the
// functions TRANSLATED from util/ser.rs (Generated/SerPrims.lean, ops colllen / colllen_rd / bigsize / bigsize_rd / hzd_rd)
// + model-free oracles (read(write n) = n with nothing left over), and collections of BOUNDARY size (65534 / 65535 /
// 65536 entries: byte blob, String, Vec<u32>, BTreeMap, HashMap, HashSet, a ProbabilisticScorer with that many channel
// liquidities) written and read back.
// ---------------------------------------------------------------------------------------------------
/// the CollectionLength encoding written down independently of the code under test (doc comment of `CollectionLength`)
fn colllen_by_hand(n: u64) -> Vec<u8> { if n < 0xffff { (n as u16).to_be_bytes().to_vec() } else { let mut v = vec![0xff, 0xff]; v.extend_from_slice(&(n - 0xffff).to_be_bytes()); v } }

fn ser_prims(st: &mut St, ctx: &mut Ctx) {
	use lightning::util::ser::CollectionLength;
	let rd_ans = |r: Result<(u64, usize), DecodeError>| match r { Ok((n, left)) => format!("ok {} {}", n, left), Err(e) => format!("err {}", err_name(&e)) };
	let coll_rd = |b: &[u8]| { let mut s = b; <CollectionLength as Readable>::read(&mut s).map(|c| (c.0, s.len())) };
	let big_rd = |b: &[u8]| { let mut s = b; <BigSize as Readable>::read(&mut s).map(|c| (c.0, s.len())) };
	let mut vals: Vec<u64> = vec![0, 1, 0xfb, 0xfc, 0xfd, 0xfe, 0xff, 0x100, 0xfffd, 0xfffe, 0xffff, 0x10000, 0x10001, 0x1fffd, 0x1fffe, 0x1ffff, 0x20000, 0xffff_fffe, 0xffff_ffff,
		0x1_0000_0000, 0x1_0000_fffe, 0x1_0000_ffff, 0x1_0001_0000, u64::MAX - 0x10000, u64::MAX - 0xffff, u64::MAX - 0xfffe, u64::MAX - 1, u64::MAX];
	for _ in 0..(if ctx.thorough { 4000 } else { 400 }) { let v = ctx.rng.next() >> ctx.rng.below(64); vals.push(v); if ctx.rng.chance(1, 4) { vals.push(0xffffu64.wrapping_add(ctx.rng.below(5)).wrapping_sub(2)); } }
	for &n in vals.iter() {
		// writers
		let e = CollectionLength(n).encode();
		ctx.rec.case(&format!("colllen {}", n), &hex(&e), &format!("colllen:{}", e.len()), true);
		if coll_rd(&e).ok() != Some((n, 0)) || e != colllen_by_hand(n) { ctx.fail_once("colllen-rt", format!("CollectionLength({}) is written as {} and read back as {:?} (expected encoding {})", n, hex(&e), coll_rd(&e), hex(&colllen_by_hand(n)))); }
		let e = BigSize(n).encode();
		ctx.rec.case(&format!("bigsize {}", n), &hex(&e), &format!("bigsize:{}", e.len()), true);
		if big_rd(&e).ok() != Some((n, 0)) { ctx.fail_once("bigsize-rt", format!("BigSize({}) is written as {} and read back as {:?}", n, hex(&e), big_rd(&e))); }
		// readers: the hand-made valid encoding with a suffix, every strict prefix of it, and the value re-framed in every width
		let mut b = colllen_by_hand(n); let sl = ctx.rng.below(4) as usize; let suffix = ctx.rng.bytes(sl); b.extend_from_slice(&suffix);
		let a = rd_ans(coll_rd(&b));
		ctx.rec.case(&format!("colllen_rd {}", hex(&b)), &a, &format!("colllen_rd:{}", a.split(' ').take(if a.starts_with("ok") { 1 } else { 2 }).collect::<Vec<_>>().join(":")), true);
		if a != format!("ok {} {}", n, suffix.len()) { ctx.fail_once("colllen-rd", format!("the CollectionLength encoding {} of {} is read as `{}`", hex(&b), n, a)); }
		for k in 0..colllen_by_hand(n).len() { let a = rd_ans(coll_rd(&b[..k])); ctx.rec.case(&format!("colllen_rd {}", hex(&b[..k])), &a, "colllen_rd:trunc", true); if a.starts_with("ok") { ctx.fail_once("colllen-trunc", format!("truncated CollectionLength {} read as `{}`", hex(&b[..k]), a)); } }
		for (tag, w) in [(0xfdu8, 2usize), (0xfe, 4), (0xff, 8)] {
			let mut b = vec![tag]; b.extend_from_slice(&n.to_be_bytes()[8 - w..]); b.extend_from_slice(&suffix);
			let a = rd_ans(big_rd(&b));
			ctx.rec.case(&format!("bigsize_rd {}", hex(&b)), &a, &format!("bigsize_rd:{:02x}:{}", tag, a.split(' ').take(if a.starts_with("ok") { 1 } else { 2 }).collect::<Vec<_>>().join(":")), true);
			let k = ctx.rng.below(b.len() as u64) as usize; let a = rd_ans(big_rd(&b[..k])); ctx.rec.case(&format!("bigsize_rd {}", hex(&b[..k])), &a, "bigsize_rd:trunc", true);
		}
		if n < 0xfd { let a = rd_ans(big_rd(&[n as u8, 7])); ctx.rec.case(&format!("bigsize_rd {}", hex(&[n as u8, 7])), &a, "bigsize_rd:1", true); }
		// HighZeroBytesDroppedBigSize: the written form, a zero-extended form, an over-long reader
		for w in [2usize, 4, 8] {
			let v = if w == 8 { n } else { n & ((1u64 << (8 * w)) - 1) };
			let e = vh::hzd_write(w, v);
			let a = rd_ans(vh::hzd_read(w, &e));
			ctx.rec.case(&format!("hzd_rd {} {}", w, hex(&e)), &a, &format!("hzd_rd:{}:{}", w, e.len()), true);
			if a != format!("ok {} 0", v) { ctx.fail_once("hzd-rt", format!("HighZeroBytesDroppedBigSize<u{}>({}) is written as {} and read back as `{}`", 8 * w, v, hex(&e), a)); }
			let mut z = vec![0u8]; z.extend_from_slice(&e); let a = rd_ans(vh::hzd_read(w, &z));
			ctx.rec.case(&format!("hzd_rd {} {}", w, hex(&z)), &a, "hzd_rd:zero-extended", true);
			let mut l = n.to_be_bytes().to_vec(); l.extend_from_slice(&suffix); let a = rd_ans(vh::hzd_read(w, &l));
			ctx.rec.case(&format!("hzd_rd {} {}", w, hex(&l)), &a, "hzd_rd:long", true);
		}
	}
	// marker without payload, overflowing payloads, random byte strings
	let mut raws: Vec<Vec<u8>> = vec![vec![0xff, 0xff], vec![0xff, 0xff, 0xff, 0xff, 0xff, 0xff, 0xff, 0xff, 0xff, 0xff], vec![0xff, 0xff, 0xff, 0xff, 0xff, 0xff, 0xff, 0xff, 0x00, 0x00], vec![0xff, 0xff, 0xff, 0xff, 0xff, 0xff, 0xff, 0xff, 0x00, 0x01], vec![0xff, 0xff, 0, 0, 0, 0, 0, 0, 0]];
	for _ in 0..(if ctx.thorough { 3000 } else { 300 }) { let k = ctx.rng.below(12) as usize; let mut b = ctx.rng.bytes(k); if !b.is_empty() && ctx.rng.chance(1, 2) { b[0] = *ctx.rng.pick(&[0xfcu8, 0xfd, 0xfe, 0xff]); if b.len() > 1 && ctx.rng.chance(1, 2) { b[1] = *ctx.rng.pick(&[0u8, 0xff, 0xfe]); } } raws.push(b); }
	for b in raws.iter() {
		let a = rd_ans(coll_rd(b)); ctx.rec.case(&format!("colllen_rd {}", hex(b)), &a, &format!("colllen_rd:raw:{}", a.split(' ').next().unwrap()), true);
		let a = rd_ans(big_rd(b)); ctx.rec.case(&format!("bigsize_rd {}", hex(b)), &a, &format!("bigsize_rd:raw:{}", a.split(' ').next().unwrap()), true);
		let w = *ctx.rng.pick(&[2usize, 4, 8]); let a = rd_ans(vh::hzd_read(w, b)); ctx.rec.case(&format!("hzd_rd {} {}", w, hex(b)), &a, &format!("hzd_rd:raw:{}", a.split(' ').next().unwrap()), true);
	}
	// ---- collections of boundary size, on the real code only -------------------------------------------------
	fn rt<T: Writeable + Readable + PartialEq>(ctx: &mut Ctx, what: &str, n: usize, v: T) {
		let r = guarded(AssertUnwindSafe(|| { let b = v.encode(); let mut s = &b[..]; let r = <T as Readable>::read(&mut s); (b.len(), hex(&b[..12.min(b.len())]), r.map(|x| (x == v, s.len()))) }));
		ctx.bump(&format!("boundary-collection:{}", what));
		match r { Ok((_, _, Ok((true, 0)))) => {}, other => ctx.fail_once(&format!("boundary:{}", what), format!("a {} with exactly {} entries does not survive write + read: {:?} (encoded length, first bytes, read result (equal, unread))", what, n, other)) }
	}
	let logger: &'static TestLogger = Box::leak(Box::new(TestLogger::new()));
	let graph: &'static NetworkGraph<&TestLogger> = Box::leak(Box::new(NetworkGraph::new(bitcoin::Network::Testnet, logger)));
	for n in [0xfffeusize, 0xffff, 0x10000] {
		rt(ctx, "Vec<u8>", n, (0..n).map(|i| (i * 7) as u8).collect::<Vec<u8>>());
		rt(ctx, "String", n, "c".repeat(n));
		rt(ctx, "Vec<u32>", n, (0..n as u32).collect::<Vec<u32>>());
		rt(ctx, "BTreeMap<u64,u16>", n, (0..n as u64).map(|i| (i * 3, i as u16)).collect::<BTreeMap<u64, u16>>());
		let mut hm = lightning::util::hash_tables::new_hash_map(); for i in 0..n as u64 { hm.insert(i + 5, (i % 251) as u8); }
		rt(ctx, "HashMap<u64,u8>", n, hm);
		let mut hs = lightning::util::hash_tables::new_hash_set(); for i in 0..n as u64 { hs.insert(i ^ 0x5555); }
		rt(ctx, "HashSet<u64>", n, hs);
		// ProbabilisticScorer with n channel liquidities: ChannelLiquidities = write_tlv_fields!{ (0, HashMap<u64, ChannelLiquidity>) }
		let entry = match &st.scorer_entry { Some(e) => e.clone(), None => { ctx.rec.discarded += 1; continue; } };
		let mut body = colllen_by_hand(n as u64);
		for i in 0..n as u64 { body.extend_from_slice(&(1_000_000 + i).to_be_bytes()); body.extend_from_slice(&entry); }
		let mut recb = bigsize(0); recb.extend(bigsize(body.len() as u64)); recb.extend(body);
		let mut full = bigsize(recb.len() as u64); full.extend(recb);
		let params = ProbabilisticScoringDecayParameters::default();
		let rd = |b: &[u8]| guarded(AssertUnwindSafe(|| { let mut s = b; <ProbabilisticScorer<&NetworkGraph<&TestLogger>, &TestLogger>>::read(&mut s, (params, graph, logger)).map(|x| (x, s.len())) }));
		match rd(&full) {
			Ok(Ok((sc1, 0))) => {
				let b1 = sc1.encode();
				match rd(&b1) {
					Ok(Ok((sc2, 0))) => {
						let (c0, c1, c2) = (canon_scorer(&full), canon_scorer(&b1), canon_scorer(&sc2.encode()));
						if c0.is_none() || c0 != c1 || c1 != c2 || c0.as_ref().map(|c| c.len()) != Some(n) { ctx.fail_once("boundary:scorer", format!("a ProbabilisticScorer with exactly {} channel liquidities does not round trip: entries {:?} -> {:?} -> {:?}; written prefix {}", n, c0.map(|c| c.len()), c1.map(|c| c.len()), c2.map(|c| c.len()), hex(&b1[..24.min(b1.len())]))); }
						else { st.n_scorer += 1; ctx.bump("boundary-collection:ProbabilisticScorer"); }
					},
					other => ctx.fail_once("boundary:scorer", format!("a ProbabilisticScorer with exactly {} channel liquidities (scids 1000000.., each entry {}) is written as {} bytes starting {} and does NOT read back: {:?}", n, hex(&entry), b1.len(), hex(&b1[..24.min(b1.len())]), other.map(|r| r.map(|x| x.1)))),
				}
			},
			other => ctx.fail_once("boundary:scorer-crafted", format!("crafted ProbabilisticScorer encoding with {} entries not readable: {:?}", n, other.map(|r| r.map(|x| x.1)))),
		}
	}
}

fn main() {
	let args = &parse_args("c12");
	silence_stdout();
	let rec = Rec::new(&args.out, "c12");
	let mut ctx = Ctx { rec, rng: Rng::new(args.seed ^ 0xc12), tab: Tab::load(), thorough: args.thorough, stats: BTreeMap::new(), in_corruption: false, once: BTreeSet::new() };
	let mut rng = Rng::new(args.seed);
	let mut st = St::default();
	let n_scen = if args.thorough { 240 } else { 24 } * args.scale as usize;
	let mut keys: Option<&'static TestKeysInterface> = None;
	for sc in 0..n_scen {
		let steps = if args.thorough { 80 + rng.below(160) as usize } else { 60 + rng.below(60) as usize };
		let with_close = sc % 2 == 1;
		let mut sub = Rng::new(rng.next());
		if let Ok(only) = std::env::var("C12_ONLY") { if only.parse::<usize>().ok() != Some(sc) { continue; } }
		if std::env::var("C12_RARE").is_ok() { continue; }
		st.prev.clear(); st.seen_ev.clear();
		let fails_before = ctx.rec.oracle_failures.len();
		match guarded(AssertUnwindSafe(|| scenario(&mut sub, &mut st, &mut ctx, steps, with_close))) {
			Ok(net) => { keys = Some(net.nodes[0].keys_manager); std::mem::forget(net); },
			Err(p) => ctx.fail_once(&format!("scenario-panic:{}", class_key(&p.chars().take(60).collect::<String>())), format!("scenario {} (seed {}, close={}) panicked: {}", sc, args.seed, with_close, p.chars().take(300).collect::<String>())),
		}
		// name the scenario of new failures
		for k in fails_before..ctx.rec.oracle_failures.len() { let f = &mut ctx.rec.oracle_failures[k]; if !f.is_empty() && !f.starts_with("scenario ") { *f = format!("scenario {}: {}", sc, f); } }
	}

	// ---- (vi) rare manager states, written and reloaded at every cut point, with the behavioural comparison ----------
	if std::env::var("C12_ONLY").is_err() { rare_states(args.seed, &mut st, &mut ctx); }

	// ---- (vii) length / integer primitives + boundary-size collections ---------------------------------------------
	if std::env::var("C12_ONLY").is_err() { ser_prims(&mut st, &mut ctx); }
	if std::env::var("C12_ONLY").is_err() {
		if let Err(p) = guarded(AssertUnwindSafe(|| manual_broadcast_probe(&mut st, &mut ctx))) { ctx.fail(format!("manual-broadcast probe panicked: {}", p.chars().take(300).collect::<String>())); }
	}
	if std::env::var("C12_ONLY").is_err() {
		let (fails, stats) = sweeper_rt::run(args.seed, if args.thorough { 400 } else { 40 });
		for f in fails.into_iter().take(3) { ctx.fail(f); }
		for (k, v) in stats { *ctx.stats.entry(k).or_insert(0) += v; }
	}

	// ---- (iv) malformed streams + op lines -----------------------------------------------------------
	let (n_frame, n_corrupt) = if args.thorough { (40, 60) } else { (14, 12) };
	let cap = |n: usize| if args.thorough { n * 12 } else { n };
	// ChannelMonitorUpdates seen in the scenarios: the TLV block is the 35-byte tail `22 03 20 <channel id>`
	let pool = std::mem::take(&mut st.upd_pool);
	let mut idx: Vec<usize> = (0..pool.len()).collect();
	for k in 0..idx.len() { let j = k + ctx.rng.below((idx.len() - k) as u64) as usize; idx.swap(k, j); }
	for &k in idx.iter().take(cap(60)) {
		let b = &pool[k];
		let off = b.len().saturating_sub(35);
		let ok = b.len() > 35 && b[off] == 0x22 && b[off + 1] == 0x03 && b[off + 2] == 0x20;
		let o = Obj { class: "ChannelMonitorUpdate", schema: if ok { Some("ChannelMonitorUpdate.read.r0".into()) } else { None }, off, bytes: b.clone(), read: reader::<ChannelMonitorUpdate>(), exact: true };
		if !ok { ctx.rec.discarded += 1; }
		ctx.mutate(&o, n_frame, n_corrupt);
		// version prefix (write_ver_prefix!(w, 1, 1); read_ver_prefix!(r, 1))
		for _ in 0..2 {
			let mut m = b.clone();
			m[0] = *ctx.rng.pick(&[0u8, 1, 2, 255]); m[1] = *ctx.rng.pick(&[0u8, 1, 2, 3, 255]);
			let (v, _, _) = ctx.verdict(&o, &m);
			let ans = if v == "ok" { format!("ok {} {}", m[0], m.len() - 2) } else { v.clone() };
			if (m[1] > 1) != (v == "err UnknownVersion") { ctx.fail(format!("ChannelMonitorUpdate with version prefix {:02x}{:02x}: verdict {}", m[0], m[1], v)); }
			ctx.rec.case(&format!("ver 1 {}", hex(&m)), &ans, &format!("ver:{}", v.replace(' ', ":")), true);
		}
		for k in 0..3usize { let (v, _, _) = ctx.verdict(&o, &b[..k.min(b.len())]); ctx.rec.case(&format!("ver 1 {}", hex(&b[..k.min(b.len())])), &if k < 2 { v.clone() } else { format!("ok {} {}", b[0], 0) }, "ver-trunc", true); }
	}
	// Events
	let pool = std::mem::take(&mut st.ev_pool);
	let mut by_id: BTreeMap<u8, Vec<usize>> = BTreeMap::new();
	for (k, b) in pool.iter().enumerate() { by_id.entry(b[0]).or_default().push(k); }
	for (id, ks) in by_id {
		for &k in ks.iter().take(cap(12)) {
			let b = &pool[k];
			// id 3 (PaymentPathFailed) carries two test-only fields before its TLV block: no frame ops for it
			let schema = if id == 3 { None } else { ctx.tab.owner_read("Event", id as u64).map(|x| x.name.clone()) };
			let o = Obj { class: "Event", schema, off: 1, bytes: b.clone(), read: reader::<Event>(), exact: true };
			ctx.mutate(&o, n_frame, n_corrupt);
		}
	}
	// ChannelDetails
	let pool = std::mem::take(&mut st.det_pool);
	let mut idx: Vec<usize> = (0..pool.len()).collect();
	for k in 0..idx.len() { let j = k + ctx.rng.below((idx.len() - k) as u64) as usize; idx.swap(k, j); }
	for &k in idx.iter().take(cap(25)) {
		let o = Obj { class: "ChannelDetails", schema: Some("ChannelDetails".into()), off: 0, bytes: pool[k].clone(), read: reader::<ChannelDetails>(), exact: true };
		ctx.mutate(&o, n_frame, n_corrupt);
	}
	// directly constructed small objects
	for _ in 0..cap(40) {
		let st_in = match ctx.rng.below(5) { 0 => None, 1 => Some(InboundHTLCStateDetails::AwaitingRemoteRevokeToAdd), 2 => Some(InboundHTLCStateDetails::Committed), 3 => Some(InboundHTLCStateDetails::AwaitingRemoteRevokeToRemoveFulfill), _ => Some(InboundHTLCStateDetails::AwaitingRemoteRevokeToRemoveFail) };
		let d = InboundHTLCDetails { htlc_id: ctx.rng.next() >> ctx.rng.below(64), amount_msat: ctx.rng.next() >> ctx.rng.below(64), cltv_expiry: ctx.rng.next() as u32, payment_hash: PaymentHash(ctx.rng.bytes32()), state: st_in, is_dust: ctx.rng.chance(1, 2) };
		let o = Obj { class: "InboundHTLCDetails", schema: Some("InboundHTLCDetails".into()), off: 0, bytes: d.encode(), read: reader::<InboundHTLCDetails>(), exact: true };
		ctx.mutate(&o, n_frame, n_corrupt);
		let st_out = match ctx.rng.below(5) { 0 => None, 1 => Some(OutboundHTLCStateDetails::AwaitingRemoteRevokeToAdd), 2 => Some(OutboundHTLCStateDetails::Committed), 3 => Some(OutboundHTLCStateDetails::AwaitingRemoteRevokeToRemoveSuccess), _ => Some(OutboundHTLCStateDetails::AwaitingRemoteRevokeToRemoveFailure) };
		let d = OutboundHTLCDetails { htlc_id: if ctx.rng.chance(1, 4) { None } else { Some(ctx.rng.next()) }, amount_msat: ctx.rng.next() >> ctx.rng.below(64), cltv_expiry: ctx.rng.next() as u32, payment_hash: PaymentHash(ctx.rng.bytes32()), state: st_out, skimmed_fee_msat: if ctx.rng.chance(1, 2) { None } else { Some(ctx.rng.below(1 << 40)) }, is_dust: ctx.rng.chance(1, 2), source: None };
		let o = Obj { class: "OutboundHTLCDetails", schema: Some("OutboundHTLCDetails".into()), off: 0, bytes: d.encode(), read: reader::<OutboundHTLCDetails>(), exact: true };
		ctx.mutate(&o, n_frame, n_corrupt);
		let cr = match ctx.rng.below(7) {
			0 => ClosureReason::HolderForceClosed { broadcasted_latest_txn: if ctx.rng.chance(1, 3) { None } else { Some(ctx.rng.chance(1, 2)) }, message: "c12 closed".into() },
			1 => ClosureReason::ProcessingError { err: "x".repeat(ctx.rng.below(40) as usize) },
			2 => ClosureReason::HTLCsTimedOut { payment_hash: if ctx.rng.chance(1, 2) { None } else { Some(PaymentHash(ctx.rng.bytes32())) } },
			3 => ClosureReason::PeerFeerateTooLow { peer_feerate_sat_per_kw: ctx.rng.next() as u32, required_feerate_sat_per_kw: ctx.rng.next() as u32 },
			4 => ClosureReason::CommitmentTxConfirmed,
			5 => ClosureReason::LocallyInitiatedCooperativeClosure,
			_ => ClosureReason::DisconnectedPeer,
		};
		let b = cr.encode();
		let schema = ctx.tab.variant("ClosureReason", b[0] as u64).map(|x| x.name.clone());
		let o = Obj { class: "ClosureReason", schema, off: 1, bytes: b, read: reader::<ClosureReason>(), exact: true };
		ctx.mutate(&o, n_frame, n_corrupt);
		// not TLV based: truncations / corruptions only
		let op = lightning::chain::transaction::OutPoint { txid: bitcoin::Txid::from_raw_hash(bitcoin::hashes::Hash::from_byte_array(ctx.rng.bytes32())), index: ctx.rng.next() as u16 };
		let o = Obj { class: "OutPoint", schema: None, off: 0, bytes: op.encode(), read: reader::<lightning::chain::transaction::OutPoint>(), exact: true };
		ctx.mutate(&o, 0, n_corrupt);
	}
	// enum variant ids: `[id, 0]` (an empty block) read as the enum
	macro_rules! variants { ($name: expr, $t: ty) => {{
		let known: Vec<u64> = ctx.tab.enums.iter().find(|e| e.0 == $name).map(|e| e.2.iter().chain(e.3.iter()).cloned().collect()).unwrap_or_default();
		if known.is_empty() { ctx.rec.discarded += 1; }
		for id in 0u64..256 {
			if known.contains(&id) || known.is_empty() { continue; }
			let r = guarded(AssertUnwindSafe(|| <$t as MaybeReadable>::read(&mut &[id as u8, 0u8][..])));
			let ans = match r { Ok(Ok(None)) => "skipped".to_string(), Ok(Err(DecodeError::UnknownRequiredFeature)) => "rejected".to_string(), Ok(Ok(Some(_))) => "struct".to_string(), Ok(Err(e)) => format!("err {}", err_name(&e)), Err(p) => { ctx.fail(format!("panic reading {} variant id {}: {}", $name, id, p)); "panic".to_string() } };
			ctx.rec.case(&format!("variant {} {}", $name, id), &ans, &format!("variant:{}", ans), true);
		}
	}}; }
	variants!("ClosureReason", ClosureReason);
	variants!("HTLCHandlingFailureType", HTLCHandlingFailureType);
	variants!("InboundHTLCStateDetails", InboundHTLCStateDetails);
	variants!("OutboundHTLCStateDetails", OutboundHTLCStateDetails);
	variants!("PaymentFailureReason", PaymentFailureReason);
	variants!("PathFailure", PathFailure);
	variants!("ChannelShutdownState", ChannelShutdownState);
	variants!("PaymentPurpose", PaymentPurpose);
	// monitors: truncations and corruptions of a sample (never a panic, never a successful strict prefix)
	if let Some(keys) = keys {
		let pool = std::mem::take(&mut st.mon_pool);
		let n = pool.len();
		let take = cap(10).min(n);
		for k in 0..take {
			let b = pool[(k * n) / take.max(1)].0.clone();
			let o = Obj { class: "ChannelMonitor", schema: None, off: 0, bytes: b, read: Box::new(move |x: &[u8]| read_mon(x, keys).map(|_| (Some(vec![]), 0))), exact: false };  // not re-encoded: the writer debug-asserts invariants a corrupted-but-accepted monitor may break
			ctx.mutate(&o, 0, if args.thorough { 200 } else { 40 });
		}
	}

	for f in ctx.tab.findings.clone() { ctx.bump(&format!("translator-note:{}", f)); }
	ctx.stats.insert("reencode-panics-on-corrupted-but-accepted-objects".into(), REENC_PANICS.load(std::sync::atomic::Ordering::Relaxed));
	let stats: Vec<String> = ctx.stats.iter().map(|(k, v)| format!("{}={}", k, v)).collect();
	let mut rec = ctx.rec;
	for (k, v) in ctx.stats.iter() { if k.starts_with("op:") || k.starts_with("obj:") { *rec.classes.entry(k.clone()).or_insert(0) += *v; } }
	rec.notes.insert("rule".into(), "3 real nodes / 2 channels, random schedules (1- and 2-hop sends, per-message delivery, forwards, claims/fail-backs, InProgress persistence with out-of-order completion, disconnect/reconnect, timer ticks, ChannelManager write+reload at sampled points, every second scenario ends with a unilateral close followed by 14-30 blocks); after EVERY op every monitor / new monitor update / ChannelDetails / new Event of every node is written, read back, compared (== and bytes) and new updates are applied to the re-read previous monitor and compared with the live one; op lines = TLV-level mutations (frame / lpframe / ver / variant) of the collected objects; distinct = distinct op-line texts; plus (v) a shadow write->read of the manager with a deep persisted-state dump comparison after every op and (vi) scripted rare-state scenarios reloaded at every cut point with a behavioural comparison against the un-reloaded run".into());
	rec.notes.insert("roundtrips".into(), format!("monitors={} (byte-identical re-encoding: {}) monitor_updates={} update_applied_after_roundtrip={} (skipped: {}) channel_details={} events={} manager_reloads={} manager_shadow_reloads_with_deep_dump={} rare_state_runs={} rare_state_cut_points={} network_graphs={} scorers={}", st.n_mon_rt, st.n_mon_identical, st.n_upd_rt, st.n_apply, st.n_apply_skipped, st.n_det, st.n_ev, st.n_mgr, st.n_shadow, st.n_rare_runs, st.n_rare_cuts, st.n_graph, st.n_scorer));
	rec.notes.insert("states_reached".into(), st.mon_states.iter().cloned().collect::<Vec<_>>().join(","));
	rec.notes.insert("stats".into(), stats.join(" "));
	rec.notes.insert("not_covered".into(), "OutputSweeper: round trip + behaviour of the re-read copy are checked on StaticOutput descriptors only (section viii; the other descriptor kinds need channel keys) and only at the points where the sweeper persists (track / sweep: chain updates are persisted lazily by design); ChannelManager malformed-stream mutations (each needs a full node reload); the behavioural comparison original vs reloaded manager covers the scripted rare-state scenarios (payment events and end state), not the random schedules (there the reloaded node continues under the engine's own oracles); reloads always hand over the LATEST monitors (stale-monitor restarts are C10's subject), so in-flight updates / blocked completion actions / pending claims are written but resolved by the read; retry_strategy / attempts of a Retryable payment and timer_ticks of a claimable HTLC are declared non-persistent and masked".into());
	rec.notes.insert("rare_states".into(), "scripts: {underpaid, overforwarded} x {claim, fail, blocks}, mpp2-underpaid-claim, mpp2-partial-timeout, mpp2-one-part-failed, holding-cell, async-persist-claim, async-persist-mpp2-underpaid, gossip-status (disable / enable staging, 12 extra ticks at the cut node in both runs because the staged tick counters are documented as not persisted); cut points = every effective act / micro-step (quick: all within two steps of a non-micro act + every third other one, the node(s) the neighbouring acts concern; thorough: all, every node); states written are listed in states_reached as rare:written:*".into());
	rec.finish();
}

// ---------------------------------------------------------------------------------------------------
// (ix) ChannelMonitor rare-state fields: a MANUALLY BROADCAST channel (`unsafe_manual_funding_transaction_generated`: the monitor is
// created with is_manual_broadcast = true and funding_seen_onchain = false).  Every monitor / manager round-trip oracle of
// check_all + the deep manager dump run (a) right after funding_signed, (b) after a force-close while the funding transaction has
// not been seen on chain (the holder commitment must NOT be broadcast yet), (c) after the funding transaction confirmed.
// ---------------------------------------------------------------------------------------------------
fn manual_broadcast_probe(st: &mut St, ctx: &mut Ctx) {
	use lightning::ln::msgs::{BaseMessageHandler, ChannelMessageHandler, MessageSendEvent};
	let net = Net::new(2, vec![Some(test_default_channel_config()), Some(test_default_channel_config())]);
	let (a, b) = (net.ids[0], net.ids[1]);
	{
		let nodes = &net.nodes;
		nodes[0].node.create_channel(b, 100_000, 0, 42, None, None).unwrap();
		let open = lightning::get_event_msg!(nodes[0], MessageSendEvent::SendOpenChannel, b);
		handle_and_accept_open_channel(&nodes[1], a, &open);
		let accept = lightning::get_event_msg!(nodes[1], MessageSendEvent::SendAcceptChannel, a);
		nodes[0].node.handle_accept_channel(b, &accept);
		let (temp, tx, outpoint) = create_funding_transaction(&nodes[0], &b, 100_000, 42);
		nodes[0].node.unsafe_manual_funding_transaction_generated(temp, b, outpoint).unwrap();
		let fc = lightning::get_event_msg!(nodes[0], MessageSendEvent::SendFundingCreated, b);
		nodes[1].node.handle_funding_created(a, &fc);
		let fs = lightning::get_event_msg!(nodes[1], MessageSendEvent::SendFundingSigned, a);
		nodes[0].node.handle_funding_signed(b, &fs);
		let _ = nodes[0].node.get_and_clear_pending_msg_events();
		let _ = nodes[1].node.get_and_clear_pending_msg_events();
		check_all(&net, st, ctx, "manual-broadcast channel: funding_signed handled, funding transaction not broadcast");
		shadow_check(&net, 0, st, ctx, "manual-broadcast channel: funding_signed handled");
		st.mon_states.insert("monitor:manual-broadcast:funding-not-seen".into());
		let cid = nodes[0].node.list_channels().first().map(|c| c.channel_id);
		if let Some(cid) = cid {
			let before = nodes[0].tx_broadcaster.txn_broadcasted.lock().unwrap().len();
			let _ = nodes[0].node.force_close_broadcasting_latest_txn(&cid, &b, "manual broadcast probe".to_string());
			let _ = nodes[0].node.get_and_clear_pending_msg_events();
			check_all(&net, st, ctx, "manual-broadcast channel: force-closed before its funding transaction was seen on chain");
			let after = nodes[0].tx_broadcaster.txn_broadcasted.lock().unwrap().len();
			if after != before { ctx.fail(format!("manual-broadcast channel: {} transaction(s) broadcast by the force-close although the funding transaction was never seen on chain", after - before)); }
			st.mon_states.insert("monitor:manual-broadcast:closed-before-funding-seen".into());
			mine_transaction(&nodes[0], &tx);
			check_all(&net, st, ctx, "manual-broadcast channel: funding transaction confirmed after the force-close");
			st.mon_states.insert("monitor:manual-broadcast:funding-seen-after-close".into());
		}
	}
	std::mem::forget(net);
}

// ---------------------------------------------------------------------------------------------------
// (viii) OutputSweeper round trip (util/sweep.rs; census row "OutputSweeper … NOT COVERED at run time"): a real
// `OutputSweeperSync` is driven through track / sweep / block connect / reorg; after EVERY op the bytes it persisted to its
// KVStore (after track / sweep: chain updates are persisted lazily) are read back into a second sweeper, which must report the same best block and the
// same tracked outputs (TrackedSpendableOutput: descriptor, channel id, counterparty, status — `==`), and the NEXT op is
// applied to both: same state and the same transactions broadcast afterwards ("reacting to all subsequent … blocks like
// the original").  Model-free implementation oracle.
// ---------------------------------------------------------------------------------------------------
mod sweeper_rt {
	use bitcoin::absolute::LockTime;
	use bitcoin::block::Header;
	use bitcoin::hashes::Hash;
	use bitcoin::secp256k1::{All, PublicKey, Secp256k1, SecretKey};
	use bitcoin::transaction::Version;
	use bitcoin::{Amount, BlockHash, ScriptBuf, Transaction, TxIn, TxOut, Txid};
	use ldk_verif_harness::common::{guarded, Rng};
	use lightning::chain::chaininterface::{BroadcasterInterface, ConfirmationTarget, FeeEstimator, TransactionType};
	use lightning::chain::transaction::OutPoint;
	use lightning::chain::{BlockLocator, Filter, Listen, WatchedOutput};
	use lightning::ln::types::ChannelId;
	use lightning::sign::{ChangeDestinationSourceSync, OutputSpender, SpendableOutputDescriptor};
	use lightning::util::persist::{KVStoreSync, OUTPUT_SWEEPER_PERSISTENCE_KEY, OUTPUT_SWEEPER_PERSISTENCE_PRIMARY_NAMESPACE, OUTPUT_SWEEPER_PERSISTENCE_SECONDARY_NAMESPACE};
	use lightning::util::ser::ReadableArgs;
	use lightning::util::sweep::{OutputSpendStatus, OutputSweeperSync};
	use lightning::util::test_utils::TestStore;
	use std::collections::BTreeMap;
	use std::panic::AssertUnwindSafe;
	use std::sync::atomic::{AtomicU64, Ordering};
	use std::sync::Mutex;

	pub struct Bcast(Mutex<Vec<Transaction>>);
	impl BroadcasterInterface for Bcast {
		fn broadcast_transactions(&self, txs: &[(&Transaction, TransactionType)]) { for (tx, _) in txs { self.0.lock().unwrap().push((*tx).clone()); } }
	}
	pub struct Fee;
	impl FeeEstimator for Fee { fn get_est_sat_per_1000_weight(&self, _: ConfirmationTarget) -> u32 { 253 } }
	pub struct NoFilter;
	impl Filter for NoFilter {
		fn register_tx(&self, _: &Txid, _: &bitcoin::Script) {}
		fn register_output(&self, _: WatchedOutput) {}
	}
	pub struct Change(AtomicU64);
	impl ChangeDestinationSourceSync for Change {
		fn get_change_destination_script(&self) -> Result<ScriptBuf, ()> { let n = self.0.fetch_add(1, Ordering::Relaxed); Ok(ScriptBuf::new_op_return(&n.to_be_bytes())) }
	}
	pub struct Spender;
	impl OutputSpender for Spender {
		fn spend_spendable_outputs(&self, descriptors: &[&SpendableOutputDescriptor], _: Vec<TxOut>, change: ScriptBuf, _: u32, locktime: Option<LockTime>, _: &Secp256k1<All>) -> Result<Transaction, ()> {
			let mut value = Amount::ZERO;
			let mut input = Vec::new();
			for d in descriptors {
				if let SpendableOutputDescriptor::StaticOutput { output, .. } = d { value += output.value; }
				input.push(TxIn { previous_output: d.spendable_outpoint().into_bitcoin_outpoint(), ..Default::default() });
			}
			Ok(Transaction { version: Version::TWO, lock_time: locktime.unwrap_or(LockTime::ZERO), input, output: vec![TxOut { value: value - Amount::from_sat(500), script_pubkey: change }] })
		}
	}
	type Sw = OutputSweeperSync<&'static Bcast, &'static Change, Fee, NoFilter, &'static TestStore, ldk_verif_harness::common::NullLogger, Spender>;
	struct Side { sw: Sw, bc: &'static Bcast, change: &'static Change, store: &'static TestStore }
	fn leak<T>(t: T) -> &'static T { Box::leak(Box::new(t)) }
	fn state(sw: &Sw) -> String { format!("best={:?} outputs={:?}", sw.current_best_block(), sw.tracked_spendable_outputs()) }
	/// a transaction up to the order of its inputs (the sweeper collects the outputs to spend in a HashSet: two instances with the same
	/// state build sweeps whose inputs are permuted)
	fn tx_key(t: &Transaction) -> String { let mut ins: Vec<String> = t.input.iter().map(|i| format!("{:?}", i)).collect(); ins.sort(); format!("v{:?} lt{:?} in{:?} out{:?}", t.version, t.lock_time, ins, t.output) }
	/// the state with every sweep transaction replaced by its `tx_key`: used to compare the BEHAVIOUR of the re-read copy
	fn behaviour(sw: &Sw) -> String {
		let outs: Vec<String> = sw.tracked_spendable_outputs().iter().map(|o| {
			let st = match &o.status {
				OutputSpendStatus::PendingInitialBroadcast { delayed_until_height } => format!("I {:?}", delayed_until_height),
				OutputSpendStatus::PendingFirstConfirmation { first_broadcast_hash, latest_broadcast_height, latest_spending_tx } => format!("F {:?} {} {}", first_broadcast_hash, latest_broadcast_height, tx_key(latest_spending_tx)),
				OutputSpendStatus::PendingThresholdConfirmations { first_broadcast_hash, latest_broadcast_height, latest_spending_tx, confirmation_height, confirmation_hash } => format!("T {:?} {} {} {} {:?}", first_broadcast_hash, latest_broadcast_height, tx_key(latest_spending_tx), confirmation_height, confirmation_hash),
			};
			format!("{:?} {:?} {:?} {}", o.descriptor, o.channel_id, o.counterparty_node_id, st)
		}).collect();
		format!("best={:?} outputs={:?}", sw.current_best_block(), outs)
	}
	fn header(prev: BlockHash, nonce: u32) -> Header {
		Header { version: bitcoin::block::Version::NO_SOFT_FORK_SIGNALLING, prev_blockhash: prev, merkle_root: bitcoin::hash_types::TxMerkleNode::all_zeros(), time: nonce, bits: bitcoin::pow::CompactTarget::from_consensus(42), nonce }
	}
	fn reread(orig: &Side) -> Result<Side, String> {
		let bytes = KVStoreSync::read(orig.store, OUTPUT_SWEEPER_PERSISTENCE_PRIMARY_NAMESPACE, OUTPUT_SWEEPER_PERSISTENCE_SECONDARY_NAMESPACE, OUTPUT_SWEEPER_PERSISTENCE_KEY).map_err(|e| format!("nothing persisted: {:?}", e))?;
		let (bc, change, store) = (leak(Bcast(Mutex::new(vec![]))), leak(Change(AtomicU64::new(orig.change.0.load(Ordering::Relaxed)))), leak(TestStore::new(false)));
		let mut s = &bytes[..];
		match guarded(AssertUnwindSafe(|| <(BlockLocator, Sw)>::read(&mut s, (bc, Fee, None, Spender, change, store, ldk_verif_harness::common::NullLogger)))) {
			Err(p) => Err(format!("OutputSweeper::read panics on the sweeper's own persisted bytes: {}", p.chars().take(200).collect::<String>())),
			Ok(Err(e)) => Err(format!("OutputSweeper does not read back from its own persisted bytes: {:?}", e)),
			Ok(Ok((best, sw))) => {
				if best != sw.current_best_block() { return Err(format!("OutputSweeper::read returns best block {:?} but the sweeper read says {:?}", best, sw.current_best_block())); }
				if !s.is_empty() { return Err(format!("OutputSweeper::read leaves {} bytes unread", s.len())); }
				Ok(Side { sw, bc, change, store })
			},
		}
	}
	/// returns (failures, statistics)
	pub fn run(seed: u64, scenarios: usize) -> (Vec<String>, BTreeMap<String, u64>) {
		let (mut fails, mut stats): (Vec<String>, BTreeMap<String, u64>) = (vec![], BTreeMap::new());
		let secp = Secp256k1::new();
		for sc in 0..scenarios {
			let mut rng = Rng::new(seed ^ 0x5eee9 ^ ((sc as u64) << 17));
			let base_height = rng.range(1, 500) as u32;
			let mut tip = (BlockHash::from_byte_array(rng.bytes32()), base_height);
			let mut chain: Vec<(Header, u32, Vec<Transaction>)> = vec![];
			let (bc, change, store) = (leak(Bcast(Mutex::new(vec![]))), leak(Change(AtomicU64::new((seed << 20) ^ sc as u64))), leak(TestStore::new(false)));
			let orig = Side { sw: OutputSweeperSync::new(BlockLocator::new(tip.0, tip.1), bc, Fee, None, Spender, change, store, ldk_verif_harness::common::NullLogger), bc, change, store };
			let mut shadow: Option<Side> = None;
			let mut pool: Vec<Transaction> = vec![];
			let mut hist: Vec<String> = vec![];
			let (mut next_id, mut nonce) = (1u32, (sc as u32) << 12);
			let n_ops = rng.range(12, 40);
			'ops: for _ in 0..n_ops {
				let r = rng.below(100);
				let op: String;
				let sides: Vec<&Side> = std::iter::once(&orig).chain(shadow.iter()).collect();
				if r < 22 {
					let id = next_id; next_id += 1;
					let mut b = [0x5au8; 32]; b[..4].copy_from_slice(&id.to_be_bytes());
					let keys_id = if rng.chance(1, 2) { Some(rng.bytes32()) } else { None };
					let d = SpendableOutputDescriptor::StaticOutput { outpoint: OutPoint { txid: Txid::from_byte_array(b), index: (id % 3) as u16 }, output: TxOut { value: Amount::from_sat(100_000 + id as u64), script_pubkey: ScriptBuf::new_op_return(&id.to_be_bytes()) }, channel_keys_id: keys_id };
					let cid = if rng.chance(2, 3) { Some(ChannelId(rng.bytes32())) } else { None };
					let peer = if rng.chance(1, 2) { Some(PublicKey::from_secret_key(&secp, &SecretKey::from_slice(&[(id % 200 + 1) as u8; 32]).unwrap())) } else { None };
					let delay = if rng.chance(3, 10) { Some(tip.1 + rng.below(4) as u32) } else { None };
					op = format!("track {} chan={} peer={} keys_id={} delay={:?}", id, cid.is_some(), peer.is_some(), keys_id.is_some(), delay);
					for s in &sides { let _ = s.sw.track_spendable_outputs(vec![d.clone()], cid, peer, false, delay); }
				} else if r < 45 {
					op = "sweep".into();
					for s in &sides { let _ = s.sw.regenerate_and_broadcast_spend_if_necessary(); }
				} else if r < 85 || chain.is_empty() {
					let pct = *rng.pick(&[0u64, 50, 100, 100]);
					let txs: Vec<Transaction> = pool.iter().filter(|_| rng.below(100) < pct).cloned().collect();
					// a block never spends the same outpoint twice
					let mut seen = std::collections::BTreeSet::new();
					let txs: Vec<Transaction> = txs.into_iter().filter(|t| t.input.iter().all(|i| seen.insert(i.previous_output))).collect();
					pool.retain(|t| !txs.contains(t));
					nonce += 1;
					let hd = header(tip.0, nonce);
					let h = tip.1 + 1;
					op = format!("connect {} with {} sweep txs", h, txs.len());
					let txdata: Vec<(usize, &Transaction)> = txs.iter().enumerate().collect();
					for s in &sides { s.sw.filtered_block_connected(&hd, &txdata, h); }
					tip = (hd.block_hash(), h);
					chain.push((hd, h, txs));
				} else {
					let k = 1 + rng.below(chain.len().min(3) as u64) as usize;
					for _ in 0..k { if let Some((_, _, txs)) = chain.pop() { pool.extend(txs); } }
					tip = chain.last().map(|(hd, h, _)| (hd.block_hash(), *h)).unwrap_or((orig.sw.current_best_block().block_hash, base_height));
					if chain.is_empty() { break 'ops; }
					op = format!("disconnect {} blocks, new tip {}", k, tip.1);
					for s in &sides { s.sw.blocks_disconnected(BlockLocator::new(tip.0, tip.1)); }
				}
				hist.push(op.clone());
				*stats.entry(format!("sweeper-op:{}", op.split(' ').next().unwrap_or(""))).or_insert(0) += 1;
				let txo: Vec<Transaction> = orig.bc.0.lock().unwrap().drain(..).collect();
				// behaviour of the copy read back before this op
				if let Some(sh) = &shadow {
					let txs: Vec<Transaction> = sh.bc.0.lock().unwrap().drain(..).collect();
					if behaviour(&sh.sw) != behaviour(&orig.sw) || txs.iter().map(tx_key).collect::<Vec<_>>() != txo.iter().map(tx_key).collect::<Vec<_>>() {
						if std::env::var("C12_DEBUG").is_ok() { let (a, b) = (state(&orig.sw), state(&sh.sw)); let p = a.chars().zip(b.chars()).position(|(x, y)| x != y).unwrap_or(0); eprintln!("SWEEPER DIFF at {}: ORIG …{} | REREAD …{} | txo {:?} | txs {:?}", p, a.chars().skip(p.saturating_sub(200)).take(500).collect::<String>(), b.chars().skip(p.saturating_sub(200)).take(500).collect::<String>(), txo, txs); }
						fails.push(format!("OutputSweeper scenario {} (seed {}): after `{}` the sweeper that was read back from the persisted bytes before this op differs from the original: ORIGINAL {} broadcast {:?} | RE-READ {} broadcast {:?} | ops: {}", sc, seed, op, state(&orig.sw).chars().take(500).collect::<String>(), txo.iter().map(|t| t.compute_txid()).collect::<Vec<_>>(), state(&sh.sw).chars().take(500).collect::<String>(), txs.iter().map(|t| t.compute_txid()).collect::<Vec<_>>(), hist.join("; ")));
						break 'ops;
					}
					*stats.entry("sweeper:op-applied-to-reread-copy-same-result".into()).or_insert(0) += 1;
				}
				for t in txo { if !pool.contains(&t) { pool.push(t); } }
				// round trip of what is persisted now.  Chain updates (Listen / Confirm) only mark the state dirty: it is persisted by the next
				// track / regenerate_and_broadcast_spend_if_necessary (documented lazy persistence), so the persisted bytes are compared with
				// the in-memory state after those two ops only; the copy read back then keeps receiving every later op.
				if !(op.starts_with("track") || op == "sweep") { *stats.entry("sweeper:chain-op-not-persisted-yet(by design)".into()).or_insert(0) += 1; continue; }
				match reread(&orig) {
					Err(e) if e.starts_with("nothing persisted") => { *stats.entry("sweeper:nothing-persisted-yet".into()).or_insert(0) += 1; },
					Err(e) => { fails.push(format!("OutputSweeper scenario {} (seed {}): after `{}`: {} | ops: {}", sc, seed, op, e, hist.join("; "))); break 'ops; },
					Ok(sh) => {
						if state(&sh.sw) != state(&orig.sw) {
							fails.push(format!("OutputSweeper scenario {} (seed {}): after `{}` the persisted bytes read back to a different sweeper: WRITTEN {} | READ {} | ops: {}", sc, seed, op, state(&orig.sw).chars().take(600).collect::<String>(), state(&sh.sw).chars().take(600).collect::<String>(), hist.join("; ")));
							break 'ops;
						}
						for o in sh.sw.tracked_spendable_outputs() { *stats.entry(format!("sweeper-written:{}", match o.status { OutputSpendStatus::PendingInitialBroadcast { delayed_until_height } => if delayed_until_height.is_some() { "PendingInitialBroadcast-delayed" } else { "PendingInitialBroadcast" }, OutputSpendStatus::PendingFirstConfirmation { .. } => "PendingFirstConfirmation", OutputSpendStatus::PendingThresholdConfirmations { .. } => "PendingThresholdConfirmations" })).or_insert(0) += 1; }
						*stats.entry("sweeper:roundtrip-equal".into()).or_insert(0) += 1;
						shadow = Some(sh);
					},
				}
			}
		}
		(fails, stats)
	}
}
