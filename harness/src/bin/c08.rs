//! C08 — timing decisions of the real code on boundary sweeps.
//! ops:  cltv <h> <out> <in> <delta>       (hook: check_incoming_htlc_cltv)
//!       peelfwd <h> <out> <in>            (public peel_payment_onion on a real 2-hop onion)
//!       peelfinal <h> <onion_cltv> <htlc_cltv>   (public peel_payment_onion, final hop)
//!       icpt <outCltv> <h>…                  (real node holding an intercepted HTLC while heights arrive: height of its own fail-back)
//!       monscan <conf> <await> <h> <set>:<weOffered>:<cltv>:<pre>…   (real monitor: did should_broadcast_holder_commitment_txn fire at h;
//!                                             HTLC only in the counterparty's commitment / inbound with preimage and a silent upstream)
use ldk_verif_harness::common::*;
use bitcoin::secp256k1::{PublicKey, Secp256k1, SecretKey};
use lightning::ln::channelmanager::MIN_CLTV_EXPIRY_DELTA;
use lightning::ln::msgs::UpdateAddHTLC;
use lightning::ln::onion_payment::peel_payment_onion;
use lightning::ln::onion_utils::create_payment_onion;
use lightning::ln::outbound_payment::RecipientOnionFields;
use lightning::ln::types::ChannelId;
use lightning::ln::verif_hooks as vh;
use lightning::routing::router::{Path, RouteHop};
use lightning::sign::{KeysManager, NodeSigner, Recipient};
use lightning::types::features::{ChannelFeatures, NodeFeatures};
use lightning::types::payment::{PaymentHash, PaymentSecret};

fn reason_name<T: std::fmt::Debug>(r: &T) -> String { let s = format!("{:?}", r); s.split(|c: char| !c.is_alphanumeric()).next().unwrap().to_string() }

struct Ctx { secp: Secp256k1<bitcoin::secp256k1::All>, km: KeysManager, me: PublicKey, next: PublicKey, session: SecretKey }

fn peel(ctx: &Ctx, two_hop: bool, base_height: u32, delta_last: u32, htlc_cltv: u32, cur_height: u32) -> Result<(), String> {
	let amt = 100_000u64;
	let mut hops = vec![];
	if two_hop {
		hops.push(RouteHop { pubkey: ctx.me, node_features: NodeFeatures::empty(), short_channel_id: 1, channel_features: ChannelFeatures::empty(), fee_msat: 1000, cltv_expiry_delta: 0, maybe_announced_channel: true });
		hops.push(RouteHop { pubkey: ctx.next, node_features: NodeFeatures::empty(), short_channel_id: 2, channel_features: ChannelFeatures::empty(), fee_msat: amt, cltv_expiry_delta: delta_last, maybe_announced_channel: true });
	} else {
		hops.push(RouteHop { pubkey: ctx.me, node_features: NodeFeatures::empty(), short_channel_id: 1, channel_features: ChannelFeatures::empty(), fee_msat: amt, cltv_expiry_delta: delta_last, maybe_announced_channel: true });
	}
	let path = Path { hops, blinded_tail: None };
	let hash = PaymentHash([7; 32]);
	let rof = RecipientOnionFields::secret_only(PaymentSecret([9; 32]), amt);
	let (onion, first_amt, _first_cltv) = create_payment_onion(&ctx.secp, &path, &ctx.session, &rof, base_height, &hash, &None, None, [3; 32]).map_err(|e| format!("build {:?}", e))?;
	let msg = UpdateAddHTLC { channel_id: ChannelId([0; 32]), htlc_id: 0, amount_msat: first_amt, payment_hash: hash, cltv_expiry: htlc_cltv, skimmed_fee_msat: None, onion_routing_packet: onion, blinding_point: None, hold_htlc: None, accountable: None };
	match peel_payment_onion(&msg, &ctx.km, &NullLogger, &ctx.secp, cur_height, false) {
		Ok(_) => Ok(()),
		Err(e) => Err(reason_name(&e.reason)),
	}
}

/// A -> B -> C payment, C never answers. Blocks are connected one at a time to all nodes. B's commitment is mined as
/// soon as it is broadcast; B's HTLC-timeout is mined `mine_timeout_after` blocks after it is first broadcast.
/// Returns (outCltv, inCltv, height of B's commitment broadcast, height at which B fails back upstream, height at which
/// the HTLC-timeout confirmed).
fn dead_downstream(mine_timeout_after: u32) -> Option<(u32, u32, Option<u32>, Option<u32>, Option<u32>)> {
	dead_downstream_ex(mine_timeout_after, 1).map(|r| (r.0, r.1, r.2, r.3, r.4))
}

/// as above with blocks delivered `step` at a time (B uses a block-skipping Confirm style when `step > 1`: it only sees
/// the last height of each batch); additionally returns B's best height before the first batch, every height delivered
/// to B with (block contains B's commitment, block contains B's HTLC-timeout), and the impl's action log
/// (`<h>:down`, `<h>:timeout`, `<h>:fail`; events are processed after every single delivery).
fn dead_downstream_ex(mine_timeout_after: u32, step: u32) -> Option<(u32, u32, Option<u32>, Option<u32>, Option<u32>, u32, Vec<(u32, bool, bool)>, Vec<String>)> {
	use ldk_verif_harness::sim::*;
	use lightning::ln::functional_test_utils::{connect_blocks, mine_transaction, ConnectStyle};
	let cfg = Some(lightning::ln::functional_test_utils::test_legacy_channel_config());
	let mut net = Net::new(3, vec![cfg.clone(), cfg.clone(), cfg]);
	let c0 = net.open(0, 1, 1_000_000, 400_000_000);
	let c1 = net.open(1, 2, 1_000_000, 400_000_000);
	let _p = net.send(&[0, 1, 2], &[c0, c1], 5_000_000, 70).ok()?;
	net.settle(6);
	let mut in_cltv = 0; let mut out_cltv = 0;
	for o in &net.trace { if let Obs::Msg { from, to, kind: "add", detail, .. } = o {
		let cltv: u32 = detail.split("cltv=").nth(1)?.trim().parse().ok()?;
		if (*from, *to) == (0, 1) { in_cltv = cltv; } if (*from, *to) == (1, 2) { out_cltv = cltv; }
	} }
	if in_cltv == 0 || out_cltv == 0 { return None; }
	if step > 1 { *net.nodes[1].connect_style.borrow_mut() = ConnectStyle::BestBlockFirstSkippingBlocks; }
	let best0 = net.nodes[1].best_block_info().1;
	let mut close_h = None; let mut fail_h = None; let mut timeout_conf = None; let mut timeout_seen: Option<(u32, bitcoin::Transaction)> = None;
	let mut mined: Vec<bitcoin::Txid> = vec![];
	let mut seen_b = net.nodes[1].tx_broadcaster.txn_broadcasted.lock().unwrap().len();
	let mut deliv: Vec<(u32, bool, bool)> = vec![]; let mut log: Vec<String> = vec![];
	macro_rules! after_delivery { ($c: expr, $t: expr) => { {
		let h = net.nodes[1].best_block_info().1; deliv.push((h, $c, $t));
		net.pump_all(); net.process_events(1); net.pump_all();
		if fail_h.is_none() && (net.trace.iter().any(|o| matches!(o, Obs::Msg { from: 1, to: 0, kind: "fail", .. })) || net.trace.iter().any(|o| matches!(o, Obs::Event { node: 1, text } if text.starts_with("HTLCHandlingFailed")))) { fail_h = Some(h); }
	} } }
	'outer: for _ in 0..(in_cltv + 20) {
		for i in 0..3 { connect_blocks(&net.nodes[i], step); }
		after_delivery!(false, false);
		let h = net.nodes[1].best_block_info().1;
		let txs: Vec<bitcoin::Transaction> = { let b = net.nodes[1].tx_broadcaster.txn_broadcasted.lock().unwrap(); let v = b[seen_b.min(b.len())..].to_vec(); seen_b = b.len(); v };
		let mut to_mine = vec![];
		for tx in txs {
			if mined.contains(&tx.compute_txid()) { continue; }
			if tx.lock_time.to_consensus_u32() == out_cltv && timeout_seen.is_none() { log.push(format!("{}:timeout", h)); timeout_seen = Some((h, tx)); continue; }
			if close_h.is_none() && tx.input.len() == 1 && tx.output.len() >= 2 { close_h = Some(h); log.push(format!("{}:down", h)); mined.push(tx.compute_txid()); to_mine.push(tx); }
		}
		if fail_h.is_some() { break 'outer; }
		for tx in to_mine {
			for i in 0..3 { mine_transaction(&net.nodes[i], &tx); }
			after_delivery!(true, false);
			let h = net.nodes[1].best_block_info().1;
			let txs: Vec<bitcoin::Transaction> = { let b = net.nodes[1].tx_broadcaster.txn_broadcasted.lock().unwrap(); let v = b[seen_b.min(b.len())..].to_vec(); seen_b = b.len(); v };
			for tx in txs { if tx.lock_time.to_consensus_u32() == out_cltv && timeout_seen.is_none() { log.push(format!("{}:timeout", h)); timeout_seen = Some((h, tx)); } }
		}
		if fail_h.is_some() { break 'outer; }
		let h = net.nodes[1].best_block_info().1;
		if let Some((seen_at, tx)) = &timeout_seen { if timeout_conf.is_none() && h >= seen_at + mine_timeout_after { for i in 0..3 { mine_transaction(&net.nodes[i], tx); } timeout_conf = Some(net.nodes[1].best_block_info().1); mined.push(tx.compute_txid()); after_delivery!(false, true); } }
		if fail_h.is_some() { break 'outer; }
	}
	if let Some(fh) = fail_h { log.push(format!("{}:fail", fh)); }
	// canonical order: by height, then in block_confirmed's stage order (scan -> fail-back stages -> claims); the three are observed
	// through different channels (broadcaster list vs. events), so their order inside one block is not observable here
	log.sort_by_key(|e| { let mut it = e.split(':'); let h: u32 = it.next().unwrap().parse().unwrap(); let r = match it.next().unwrap() { "down" => 0, "fail" => 1, _ => 2 }; (h, r) });
	std::mem::forget(net);
	Some((out_cltv, in_cltv, close_h, fail_h, timeout_conf, best0, deliv, log))
}

/// (seeded C08-r4) A -> B -> C, a pending splice on the outbound channel B-C, the forwarded HTLC parked in B-C's holding
/// cell (C owes a revoke_and_ack). `d` = (first height at which the HTLC is within the grace period) - (height at which
/// B's splice locks). Blocks are connected to B one at a time. Returns (inCltv, outCltv, best height before the first
/// block, per delivered block: (height, splice_locked emitted, HTLC left the holding cell, fail-back produced)).
fn splice_cell(d: i32, style: Option<lightning::ln::functional_test_utils::ConnectStyle>) -> Result<(u32, u32, u32, Vec<(u32, bool, bool, bool)>), String> {
	use ldk_verif_harness::sim::leak;
	use lightning::ln::functional_test_utils::*;
	use lightning::ln::splicing_tests::{initiate_splice_out, splice_channel};
	use lightning::ln::channelmanager::PaymentId;
	use lightning::events::{Event, HTLCHandlingFailureType};
	use lightning::ln::msgs::{BaseMessageHandler, ChannelMessageHandler, MessageSendEvent};
	use lightning::chain::channelmonitor::ANTI_REORG_DELAY;
	use bitcoin::{Amount, TxOut};
	use lightning::util::wallet_utils::WalletSourceSync;
	let grace = vh::consts::LATENCY_GRACE_PERIOD_BLOCKS as u32;
	let chanmon_cfgs = leak(create_chanmon_cfgs(3));
	let node_cfgs = leak(create_node_cfgs(3, chanmon_cfgs));
	let node_chanmgrs = leak(create_node_chanmgrs(3, node_cfgs, &[None, None, None]));
	let nodes = create_network(3, node_cfgs, node_chanmgrs);
	let ids: Vec<PublicKey> = nodes.iter().map(|n| n.node.get_our_node_id()).collect();
	let (_, _, _chan_ab, _) = create_announced_chan_between_nodes(&nodes, 0, 1);
	let (_, _, chan_bc, _) = create_announced_chan_between_nodes(&nodes, 1, 2);
	let maxh = nodes.iter().map(|n| n.best_block_info().1).max().unwrap();
	for n in &nodes { let dd = maxh - n.best_block_info().1; if dd > 0 { connect_blocks(n, dd); } }
	let outputs = vec![TxOut { value: Amount::from_sat(1_000), script_pubkey: nodes[1].wallet_source.get_change_script().unwrap() }];
	let contribution = initiate_splice_out(&nodes[1], &nodes[2], chan_bc, outputs).map_err(|e| format!("splice_out {:?}", e))?;
	let (splice_tx, _) = splice_channel(&nodes[1], &nodes[2], chan_bc, contribution);
	for n in &nodes { mine_transaction(n, &splice_tx); }
	let lock_h = nodes[1].best_block_info().1 + ANTI_REORG_DELAY - 1;
	for n in &nodes { connect_blocks(n, ANTI_REORG_DELAY - 3); }
	if nodes[1].best_block_info().1 != lock_h - 2 { return Err("height bookkeeping".into()); }
	let _ = nodes[1].node.get_and_clear_pending_msg_events();
	// B's own payment to C, unanswered: B-C awaits C's revoke_and_ack
	let (route, h1, _, s1) = lightning::get_route_and_payment_hash!(nodes[1], nodes[2], 100_000);
	nodes[1].node.send_payment_with_route(route, h1, RecipientOnionFields::secret_only(s1, 100_000), PaymentId(h1.0)).map_err(|e| format!("send1 {:?}", e))?;
	check_added_monitors(&nodes[1], 1);
	let _ = nodes[1].node.get_and_clear_pending_msg_events();
	// A -> B -> C with the outbound expiry chosen relative to the lock height
	let (mut route, h2, _, s2) = lightning::get_route_and_payment_hash!(nodes[0], nodes[2], 100_000);
	let last_delta = (grace as i32 + 1 + d) as u32;
	route.paths[0].hops[1].cltv_expiry_delta = last_delta;
	let out_cltv = nodes[0].best_block_info().1 + 1 + last_delta;
	nodes[0].node.send_payment_with_route(route, h2, RecipientOnionFields::secret_only(s2, 100_000), PaymentId(h2.0)).map_err(|e| format!("send2 {:?}", e))?;
	check_added_monitors(&nodes[0], 1);
	let update_add = get_htlc_update_msgs(&nodes[0], &ids[1]);
	let in_cltv = update_add.update_add_htlcs[0].cltv_expiry;
	nodes[1].node.handle_update_add_htlc(ids[0], &update_add.update_add_htlcs[0]);
	do_commitment_signed_dance(&nodes[1], &nodes[0], &update_add.commitment_signed, false, false);
	expect_and_process_pending_htlcs(&nodes[1], false);
	let in_cell = |nodes: &Vec<Node>| nodes[1].node.list_channels().iter().find(|c| c.channel_id == chan_bc).map(|c| c.pending_outbound_htlcs.iter().any(|h| h.payment_hash == h2 && h.htlc_id.is_none())).unwrap_or(false);
	if !in_cell(&nodes) { std::mem::forget(nodes); return Err("HTLC did not reach the holding cell".into()); }
	let _ = nodes[1].node.get_and_clear_pending_events(); let _ = nodes[1].node.get_and_clear_pending_msg_events();
	if let Some(st) = style { *nodes[1].connect_style.borrow_mut() = st; }
	let best0 = nodes[1].best_block_info().1;
	let mut blocks = vec![];
	let mut was_in = true;
	for _ in 0..5 {
		connect_blocks(&nodes[1], 1);
		let h = nodes[1].best_block_info().1;
		let now_in = in_cell(&nodes);
		let evs = nodes[1].node.get_and_clear_pending_events();
		let failed = evs.iter().any(|e| matches!(e, Event::HTLCHandlingFailed { failure_type: HTLCHandlingFailureType::Forward { channel_id, .. }, .. } if *channel_id == chan_bc));
		let locked = nodes[1].node.get_and_clear_pending_msg_events().iter().any(|m| matches!(m, MessageSendEvent::SendSpliceLocked { .. }));
		blocks.push((h, locked, was_in && !now_in, failed));
		was_in = now_in;
	}
	let _ = lock_h;
	std::mem::forget(nodes);
	Ok((in_cltv, out_cltv, best0, blocks))
}

/// (round 5) A -> B -> [B's intercept SCID]: B holds the intercepted HTLC and is told new heights `step` blocks at a time.
/// `d` places the timeout: outgoing expiry = (B's best height) + HTLC_FAIL_BACK_BUFFER + d, `hop_delta` = B's delta in the
/// onion. Returns (inCltv, outCltv as announced by HTLCIntercepted, every height delivered to B, height at which B failed
/// the HTLC back on its own (HTLCHandlingFailed InvalidForward)).
fn intercept_hold(d: i32, hop_delta: u32, step: u32, n_deliv: u32) -> Result<(u32, u32, Vec<u32>, Option<u32>), String> {
	use ldk_verif_harness::sim::leak;
	use lightning::ln::functional_test_utils::*;
	use lightning::ln::channelmanager::PaymentId;
	use lightning::events::{Event, HTLCHandlingFailureType};
	use lightning::routing::router::{PaymentParameters, RouteHint, RouteHintHop, RouteParameters};
	use lightning::routing::gossip::RoutingFees;
	use lightning::util::config::HTLCInterceptionFlags;
	let fbb = lightning::chain::channelmonitor::HTLC_FAIL_BACK_BUFFER as i32;
	let mut bcfg = test_legacy_channel_config();
	bcfg.htlc_interception_flags = HTLCInterceptionFlags::ToInterceptSCIDs as u8;
	let chanmon_cfgs = leak(create_chanmon_cfgs(3));
	let node_cfgs = leak(create_node_cfgs(3, chanmon_cfgs));
	let node_chanmgrs = leak(create_node_chanmgrs(3, node_cfgs, &[Some(test_legacy_channel_config()), Some(bcfg), Some(test_legacy_channel_config())]));
	let nodes = create_network(3, node_cfgs, node_chanmgrs);
	let ids: Vec<PublicKey> = nodes.iter().map(|n| n.node.get_our_node_id()).collect();
	create_announced_chan_between_nodes(&nodes, 0, 1);
	let maxh = nodes.iter().map(|n| n.best_block_info().1).max().unwrap();
	for n in &nodes { let dd = maxh - n.best_block_info().1; if dd > 0 { connect_blocks(n, dd); } }
	let amt = 100_000u64;
	let intercept_scid = nodes[1].node.get_intercept_scid();
	let pp = PaymentParameters::from_node_id(ids[2], TEST_FINAL_CLTV)
		.with_route_hints(vec![RouteHint(vec![RouteHintHop { src_node_id: ids[1], short_channel_id: intercept_scid, fees: RoutingFees { base_msat: 1000, proportional_millionths: 0 }, cltv_expiry_delta: MIN_CLTV_EXPIRY_DELTA, htlc_minimum_msat: None, htlc_maximum_msat: None }])]).map_err(|_| "hints")?
		.with_bolt11_features(nodes[2].node.bolt11_invoice_features()).map_err(|_| "features")?;
	let rp = RouteParameters::from_payment_params_and_value(pp, amt);
	let mut route = get_route(&nodes[0], &rp).map_err(|e| format!("route {}", e))?;
	if route.paths[0].hops.len() != 2 { return Err("route shape".into()); }
	let final_delta = fbb + d - 1; // out = best + 1 + final_delta = best + fbb + d
	if final_delta < 0 { return Err("d too small".into()); }
	route.paths[0].hops[0].cltv_expiry_delta = hop_delta;
	route.paths[0].hops[1].cltv_expiry_delta = final_delta as u32;
	let (hash, secret, _) = nodes[2].node.create_inbound_payment(Some(amt), 3600, None, None).map_err(|_| "inbound")?;
	nodes[0].node.send_payment_with_route(route, hash, RecipientOnionFields::secret_only(secret, amt), PaymentId(hash.0)).map_err(|e| format!("send {:?}", e))?;
	check_added_monitors(&nodes[0], 1);
	let upd = get_htlc_update_msgs(&nodes[0], &ids[1]);
	let in_cltv = upd.update_add_htlcs[0].cltv_expiry;
	{ use lightning::ln::msgs::ChannelMessageHandler; nodes[1].node.handle_update_add_htlc(ids[0], &upd.update_add_htlcs[0]); }
	do_commitment_signed_dance(&nodes[1], &nodes[0], &upd.commitment_signed, false, true);
	expect_and_process_pending_htlcs(&nodes[1], false);
	let evs = nodes[1].node.get_and_clear_pending_events();
	let mut out_cltv = None;
	for e in &evs { if let Event::HTLCIntercepted { outgoing_htlc_expiry_block_height, .. } = e { out_cltv = *outgoing_htlc_expiry_block_height; } }
	let out_cltv = match out_cltv { Some(o) => o, None => { std::mem::forget(nodes); return Err(format!("not intercepted (d={} events {})", d, evs.len())); } };
	*nodes[1].connect_style.borrow_mut() = if step > 1 { ConnectStyle::BestBlockFirstSkippingBlocks } else { ConnectStyle::BestBlockFirst };
	let mut deliv = vec![]; let mut fail_h = None;
	for _ in 0..n_deliv {
		connect_blocks(&nodes[1], step);
		let h = nodes[1].best_block_info().1; deliv.push(h);
		let evs = nodes[1].node.get_and_clear_pending_events();
		let failed = evs.iter().any(|e| matches!(e, Event::HTLCHandlingFailed { failure_type: HTLCHandlingFailureType::InvalidForward { requested_forward_scid }, .. } if *requested_forward_scid == intercept_scid));
		if failed && fail_h.is_none() { fail_h = Some(h); break; }
	}
	nodes[1].chain_monitor.added_monitors.lock().unwrap().clear();
	std::mem::forget(nodes);
	Ok((in_cltv, out_cltv, deliv, fail_h))
}

/// (round 6) A -> B -> [B's intercept SCID], with a real channel B-C: B holds the intercepted HTLC for `n_hold` deliveries of
/// `step` blocks, then the user RELEASES it (`forward_intercepted_htlc` towards C). With `d - n_hold*step == 1` that is the
/// LAST height at which the HTLC is still held; with `<= 0` the node has already given it up and the release must be refused.
/// After a successful release the HTLC is fully committed downstream (C takes part in the commitment dance, then goes
/// silent) and heights keep arriving at B `step_after` at a time. Returns (inCltv, outCltv, B's best height at interception,
/// event tokens for the model (`b:<h>:plain:0:0` | `r` | `d`), the impl's action log (`<h>:icpt <h>:fail` | `<h>:down` |
/// `<h>:timeout` | `<h>:fail`), whether the release was accepted, the heights delivered after the release).
fn intercept_release(d: i32, step: u32, n_hold: u32, step_after: u32) -> Result<(u32, u32, u32, Vec<String>, Vec<String>, bool, Vec<u32>), String> {
	use ldk_verif_harness::sim::leak;
	use lightning::ln::functional_test_utils::*;
	use lightning::ln::channelmanager::PaymentId;
	use lightning::ln::msgs::{BaseMessageHandler, ChannelMessageHandler};
	use lightning::events::{Event, HTLCHandlingFailureType};
	use lightning::util::config::HTLCInterceptionFlags;
	let fbb = lightning::chain::channelmonitor::HTLC_FAIL_BACK_BUFFER as i32;
	let grace = vh::consts::LATENCY_GRACE_PERIOD_BLOCKS as u32;
	let mut bcfg = test_legacy_channel_config();
	bcfg.htlc_interception_flags = HTLCInterceptionFlags::ToInterceptSCIDs as u8;
	let chanmon_cfgs = leak(create_chanmon_cfgs(3));
	let node_cfgs = leak(create_node_cfgs(3, chanmon_cfgs));
	let node_chanmgrs = leak(create_node_chanmgrs(3, node_cfgs, &[Some(test_legacy_channel_config()), Some(bcfg), Some(test_legacy_channel_config())]));
	let nodes = create_network(3, node_cfgs, node_chanmgrs);
	let ids: Vec<PublicKey> = nodes.iter().map(|n| n.node.get_our_node_id()).collect();
	create_announced_chan_between_nodes(&nodes, 0, 1);
	let chan_bc = create_announced_chan_between_nodes(&nodes, 1, 2).2;
	let maxh = nodes.iter().map(|n| n.best_block_info().1).max().unwrap();
	for n in &nodes { let dd = maxh - n.best_block_info().1; if dd > 0 { connect_blocks(n, dd); } }
	let amt = 100_000u64;
	let intercept_scid = nodes[1].node.get_intercept_scid();
	let (mut route, hash, _, secret) = lightning::get_route_and_payment_hash!(nodes[0], nodes[2], amt);
	if route.paths[0].hops.len() != 2 { std::mem::forget(nodes); return Err("route shape".into()); }
	let final_delta = fbb + d - 1; // out = best + 1 + final_delta = best + fbb + d
	if final_delta < 0 { std::mem::forget(nodes); return Err("d too small".into()); }
	route.paths[0].hops[1].short_channel_id = intercept_scid;
	route.paths[0].hops[0].cltv_expiry_delta = MIN_CLTV_EXPIRY_DELTA as u32;
	route.paths[0].hops[1].cltv_expiry_delta = final_delta as u32;
	nodes[0].node.send_payment_with_route(route, hash, RecipientOnionFields::secret_only(secret, amt), PaymentId(hash.0)).map_err(|e| format!("send {:?}", e))?;
	check_added_monitors(&nodes[0], 1);
	let upd = get_htlc_update_msgs(&nodes[0], &ids[1]);
	let in_cltv = upd.update_add_htlcs[0].cltv_expiry;
	nodes[1].node.handle_update_add_htlc(ids[0], &upd.update_add_htlcs[0]);
	do_commitment_signed_dance(&nodes[1], &nodes[0], &upd.commitment_signed, false, true);
	expect_and_process_pending_htlcs(&nodes[1], false);
	let evs = nodes[1].node.get_and_clear_pending_events();
	let mut icpt = None;
	for e in &evs { if let Event::HTLCIntercepted { outgoing_htlc_expiry_block_height, intercept_id, expected_outbound_amount_msat, .. } = e { icpt = Some(((*outgoing_htlc_expiry_block_height).unwrap_or(0), *intercept_id, *expected_outbound_amount_msat)); } }
	let (out_cltv, intercept_id, out_amt) = match icpt { Some(o) => o, None => { std::mem::forget(nodes); return Err(format!("not intercepted (d={} events {})", d, evs.len())); } };
	let best0 = nodes[1].best_block_info().1;
	let mut toks: Vec<String> = vec![]; let mut log: Vec<String> = vec![];
	*nodes[1].connect_style.borrow_mut() = if step > 1 { ConnectStyle::BestBlockFirstSkippingBlocks } else { ConnectStyle::BestBlockFirst };
	let mut timed_out = false;
	for _ in 0..n_hold {
		connect_blocks(&nodes[1], step);
		let h = nodes[1].best_block_info().1; toks.push(format!("b:{}:plain:0:0", h));
		let evs = nodes[1].node.get_and_clear_pending_events();
		let failed = evs.iter().any(|e| matches!(e, Event::HTLCHandlingFailed { failure_type: HTLCHandlingFailureType::InvalidForward { requested_forward_scid }, .. } if *requested_forward_scid == intercept_scid));
		if failed && !timed_out { timed_out = true; log.push(format!("{}:icpt", h)); log.push(format!("{}:fail", h)); }
	}
	if timed_out {
		// the fail-back towards A: let the manager produce it, drop the messages (A's answer does not matter here)
		if nodes[1].node.needs_pending_htlc_processing() { nodes[1].node.process_pending_htlc_forwards(); }
		let _ = nodes[1].node.get_and_clear_pending_msg_events();
		nodes[1].chain_monitor.added_monitors.lock().unwrap().clear();
	}
	let released = nodes[1].node.forward_intercepted_htlc(intercept_id, &chan_bc, ids[2], out_amt).is_ok();
	toks.push("r".into());
	let mut after = vec![];
	if released {
		expect_and_process_pending_htlcs(&nodes[1], false);
		nodes[1].chain_monitor.added_monitors.lock().unwrap().clear();
		let mut msgs = nodes[1].node.get_and_clear_pending_msg_events();
		if msgs.len() != 1 { std::mem::forget(nodes); return Err(format!("B produced {} messages instead of the one forward after the release", msgs.len())); }
		let ev = SendEvent::from_event(msgs.remove(0));
		if ev.msgs.len() != 1 || ev.msgs[0].cltv_expiry != out_cltv { std::mem::forget(nodes); return Err(format!("released forward carries expiry {:?}, announced {}", ev.msgs.get(0).map(|m| m.cltv_expiry), out_cltv)); }
		nodes[2].node.handle_update_add_htlc(ids[1], &ev.msgs[0]);
		do_commitment_signed_dance(&nodes[2], &nodes[1], &ev.commitment_msg, false, true);
		toks.push("d".into());
	}
	let seen0 = nodes[1].tx_broadcaster.txn_broadcasted.lock().unwrap().len();
	*nodes[1].connect_style.borrow_mut() = if step_after > 1 { ConnectStyle::BestBlockFirstSkippingBlocks } else { ConnectStyle::BestBlockFirst };
	let n_after = if released { (out_cltv + grace + 4).saturating_sub(nodes[1].best_block_info().1) / step_after + 2 } else { 3 };
	for _ in 0..n_after {
		connect_blocks(&nodes[1], step_after);
		let h = nodes[1].best_block_info().1; toks.push(format!("b:{}:plain:0:0", h)); after.push(h);
		let mut evs = nodes[1].node.get_and_clear_pending_events(); evs.extend(nodes[1].node.get_and_clear_pending_events());
		if evs.iter().any(|e| matches!(e, Event::HTLCHandlingFailed { .. })) { log.push(format!("{}:fail", h)); }
		let txs: Vec<bitcoin::Transaction> = nodes[1].tx_broadcaster.txn_broadcasted.lock().unwrap()[seen0..].to_vec();
		if !txs.is_empty() {
			log.push(format!("{}:down", h));
			break;
		}
	}
	let _ = nodes[1].node.get_and_clear_pending_msg_events(); let _ = nodes[2].node.get_and_clear_pending_msg_events();
	let _ = nodes[2].node.get_and_clear_pending_events();
	for n in nodes.iter() { n.chain_monitor.added_monitors.lock().unwrap().clear(); }
	std::mem::forget(nodes);
	Ok((in_cltv, out_cltv, best0, toks, log, released, after))
}

/// (round 5) A -> B -> C where C never answers B's update_add_htlc / commitment_signed: the forwarded HTLC is in C's
/// (the counterparty's) CURRENT commitment only, never in B's holder commitment. Blocks are delivered to B `step` at a
/// time. Returns (outCltv, every height delivered to B, height at which B's monitor put a transaction on the wire).
fn unrevoked_downstream(last_delta: u32, step: u32) -> Result<(u32, Vec<u32>, Option<u32>, u32, Vec<u32>, Option<u32>), String> {
	use ldk_verif_harness::sim::leak;
	use lightning::ln::functional_test_utils::*;
	use lightning::ln::channelmanager::PaymentId;
	use lightning::ln::msgs::{BaseMessageHandler, ChannelMessageHandler};
	let cfg = Some(test_legacy_channel_config());
	let chanmon_cfgs = leak(create_chanmon_cfgs(3));
	let node_cfgs = leak(create_node_cfgs(3, chanmon_cfgs));
	let node_chanmgrs = leak(create_node_chanmgrs(3, node_cfgs, &[cfg.clone(), cfg.clone(), cfg]));
	let nodes = create_network(3, node_cfgs, node_chanmgrs);
	let ids: Vec<PublicKey> = nodes.iter().map(|n| n.node.get_our_node_id()).collect();
	create_announced_chan_between_nodes(&nodes, 0, 1);
	create_announced_chan_between_nodes(&nodes, 1, 2);
	let maxh = nodes.iter().map(|n| n.best_block_info().1).max().unwrap();
	for n in &nodes { let dd = maxh - n.best_block_info().1; if dd > 0 { connect_blocks(n, dd); } }
	let (mut route, hash, _, secret) = lightning::get_route_and_payment_hash!(nodes[0], nodes[2], 100_000);
	route.paths[0].hops[1].cltv_expiry_delta = last_delta;
	let out_cltv = nodes[0].best_block_info().1 + 1 + last_delta;
	nodes[0].node.send_payment_with_route(route, hash, RecipientOnionFields::secret_only(secret, 100_000), PaymentId(hash.0)).map_err(|e| format!("send {:?}", e))?;
	check_added_monitors(&nodes[0], 1);
	let upd = get_htlc_update_msgs(&nodes[0], &ids[1]);
	let in_cltv = upd.update_add_htlcs[0].cltv_expiry;
	nodes[1].node.handle_update_add_htlc(ids[0], &upd.update_add_htlcs[0]);
	do_commitment_signed_dance(&nodes[1], &nodes[0], &upd.commitment_signed, false, false);
	expect_and_process_pending_htlcs(&nodes[1], false);
	check_added_monitors(&nodes[1], 1);
	// B's update_add_htlc + commitment_signed for C are dropped: C never sees them
	let fwd = nodes[1].node.get_and_clear_pending_msg_events();
	if fwd.len() != 1 { std::mem::forget(nodes); return Err(format!("B produced {} messages instead of the one forward", fwd.len())); }
	let seen0 = nodes[1].tx_broadcaster.txn_broadcasted.lock().unwrap().len();
	*nodes[1].connect_style.borrow_mut() = if step > 1 { ConnectStyle::BestBlockFirstSkippingBlocks } else { ConnectStyle::BestBlockFirst };
	let mut deliv = vec![]; let mut close_h = None;
	for _ in 0..(last_delta + 12) {
		connect_blocks(&nodes[1], step);
		let h = nodes[1].best_block_info().1; deliv.push(h);
		if nodes[1].tx_broadcaster.txn_broadcasted.lock().unwrap().len() > seen0 { close_h = Some(h); break; }
	}
	// (round 5b) B's commitment is never mined: the HTLC (only ever in the counterparty's commitment) must be failed back upstream
	// by the monitor's pre-emptive loop once the inbound expiry is within the grace period
	let is_fail = |evs: &Vec<lightning::events::Event>| evs.iter().any(|e| matches!(e, lightning::events::Event::HTLCHandlingFailed { failure_type: lightning::events::HTLCHandlingFailureType::Forward { .. }, .. }));
	let mut post = vec![]; let mut fail_h = None;
	let mut evs = nodes[1].node.get_and_clear_pending_events(); evs.extend(nodes[1].node.get_and_clear_pending_events());
	if is_fail(&evs) { fail_h = close_h; }
	*nodes[1].connect_style.borrow_mut() = ConnectStyle::BestBlockFirst;
	if close_h.is_some() && fail_h.is_none() {
		for _ in 0..(in_cltv.saturating_sub(nodes[1].best_block_info().1) + 3) {
			connect_blocks(&nodes[1], 1);
			let h = nodes[1].best_block_info().1; post.push(h);
			let mut evs = nodes[1].node.get_and_clear_pending_events(); evs.extend(nodes[1].node.get_and_clear_pending_events());
			if is_fail(&evs) { fail_h = Some(h); break; }
		}
	}
	let _ = nodes[1].node.get_and_clear_pending_msg_events();
	nodes[1].chain_monitor.added_monitors.lock().unwrap().clear();
	std::mem::forget(nodes);
	Ok((out_cltv, deliv, close_h, in_cltv, post, fail_h))
}

/// (round 5) A -> B -> C, C claims, B learns the preimage and claims upstream, but A never answers B's update_fulfill_htlc /
/// commitment_signed: the inbound HTLC stays in B's holder commitment with its preimage known to the A-B monitor. Blocks are
/// delivered to B `step` at a time from `lead` blocks before the monitor's trigger height. Returns (inCltv, heights
/// delivered to B, height at which a transaction spending the A-B funding output reached B's broadcaster).
fn silent_upstream(lead: u32, step: u32) -> Result<(u32, Vec<u32>, Option<u32>), String> {
	use ldk_verif_harness::sim::leak;
	use lightning::ln::functional_test_utils::*;
	use lightning::ln::msgs::{BaseMessageHandler, ChannelMessageHandler};
	let cfg = Some(test_legacy_channel_config());
	let chanmon_cfgs = leak(create_chanmon_cfgs(3));
	let node_cfgs = leak(create_node_cfgs(3, chanmon_cfgs));
	let node_chanmgrs = leak(create_node_chanmgrs(3, node_cfgs, &[cfg.clone(), cfg.clone(), cfg]));
	let nodes = create_network(3, node_cfgs, node_chanmgrs);
	let ids: Vec<PublicKey> = nodes.iter().map(|n| n.node.get_our_node_id()).collect();
	let (_, _, chan_ab, funding_ab) = create_announced_chan_between_nodes(&nodes, 0, 1);
	create_announced_chan_between_nodes(&nodes, 1, 2);
	let maxh = nodes.iter().map(|n| n.best_block_info().1).max().unwrap();
	for n in &nodes { let dd = maxh - n.best_block_info().1; if dd > 0 { connect_blocks(n, dd); } }
	let (preimage, _hash, _, _) = route_payment(&nodes[0], &[&nodes[1], &nodes[2]], 1_000_000);
	let in_cltv = nodes[1].node.list_channels().iter().find(|c| c.channel_id == chan_ab).and_then(|c| c.pending_inbound_htlcs.first().map(|h| h.cltv_expiry)).ok_or("no inbound HTLC on A-B")?;
	nodes[2].node.claim_funds(preimage);
	let _ = nodes[2].node.get_and_clear_pending_events();
	check_added_monitors(&nodes[2], 1);
	let updates = get_htlc_update_msgs(&nodes[2], &ids[1]);
	nodes[1].node.handle_update_fulfill_htlc(ids[2], updates.update_fulfill_htlcs[0].clone());
	let _ = nodes[1].node.get_and_clear_pending_events();
	check_added_monitors(&nodes[1], 1);
	// B's update_fulfill_htlc + commitment_signed for A are taken off the queue and dropped: A never sees them
	let to_a = get_htlc_update_msgs(&nodes[1], &ids[0]);
	if to_a.update_fulfill_htlcs.len() != 1 { std::mem::forget(nodes); return Err("B did not claim upstream".into()); }
	do_commitment_signed_dance(&nodes[1], &nodes[2], &updates.commitment_signed, false, false);
	let _ = nodes[1].node.get_and_clear_pending_events(); let _ = nodes[1].node.get_and_clear_pending_msg_events();
	let ccb = vh::consts::CLTV_CLAIM_BUFFER;
	let best = nodes[1].best_block_info().1;
	let target = in_cltv - ccb; // first height at which the trigger can fire
	if target <= best + lead { std::mem::forget(nodes); return Err("trigger height already passed".into()); }
	*nodes[1].connect_style.borrow_mut() = ConnectStyle::BestBlockFirst;
	connect_blocks(&nodes[1], target - lead - best);
	let spent_ab = |nodes: &Vec<Node>| nodes[1].tx_broadcaster.txn_broadcasted.lock().unwrap().iter().any(|tx| tx.input.iter().any(|i| i.previous_output.txid == funding_ab.compute_txid()));
	if spent_ab(&nodes) { std::mem::forget(nodes); return Err("A-B commitment broadcast before the sweep started".into()); }
	*nodes[1].connect_style.borrow_mut() = if step > 1 { ConnectStyle::BestBlockFirstSkippingBlocks } else { ConnectStyle::BestBlockFirst };
	let mut deliv = vec![]; let mut close_h = None;
	for _ in 0..(lead + 6) {
		connect_blocks(&nodes[1], step);
		let h = nodes[1].best_block_info().1; deliv.push(h);
		if spent_ab(&nodes) { close_h = Some(h); break; }
	}
	let _ = nodes[1].node.get_and_clear_pending_events(); let _ = nodes[1].node.get_and_clear_pending_msg_events();
	nodes[1].chain_monitor.added_monitors.lock().unwrap().clear();
	std::mem::forget(nodes);
	Ok((in_cltv, deliv, close_h))
}

/// (round 5) A -> B -> C, C fails the HTLC (update_fail_htlc + commitment_signed), B answers with revoke_and_ack + its own
/// commitment_signed, and C never revokes: the outbound HTLC is gone from B's holder commitment and from C's CURRENT
/// commitment but C's PREVIOUS commitment (still unrevoked, still broadcastable) carries it. Returns (outCltv, heights
/// delivered to B, height at which a transaction spending the B-C funding output reached B's broadcaster).
fn prev_counterparty_only(lead: u32, step: u32) -> Result<(u32, Vec<u32>, Option<u32>), String> {
	use ldk_verif_harness::sim::leak;
	use lightning::ln::functional_test_utils::*;
	use lightning::ln::msgs::{BaseMessageHandler, ChannelMessageHandler};
	let cfg = Some(test_legacy_channel_config());
	let chanmon_cfgs = leak(create_chanmon_cfgs(3));
	let node_cfgs = leak(create_node_cfgs(3, chanmon_cfgs));
	let node_chanmgrs = leak(create_node_chanmgrs(3, node_cfgs, &[cfg.clone(), cfg.clone(), cfg]));
	let nodes = create_network(3, node_cfgs, node_chanmgrs);
	let ids: Vec<PublicKey> = nodes.iter().map(|n| n.node.get_our_node_id()).collect();
	create_announced_chan_between_nodes(&nodes, 0, 1);
	let (_, _, chan_bc, funding_bc) = create_announced_chan_between_nodes(&nodes, 1, 2);
	let maxh = nodes.iter().map(|n| n.best_block_info().1).max().unwrap();
	for n in &nodes { let dd = maxh - n.best_block_info().1; if dd > 0 { connect_blocks(n, dd); } }
	let (_preimage, hash, _, _) = route_payment(&nodes[0], &[&nodes[1], &nodes[2]], 1_000_000);
	let out_cltv = nodes[1].node.list_channels().iter().find(|c| c.channel_id == chan_bc).and_then(|c| c.pending_outbound_htlcs.first().map(|h| h.cltv_expiry)).ok_or("no outbound HTLC on B-C")?;
	nodes[2].node.fail_htlc_backwards(&hash);
	let _ = nodes[2].node.get_and_clear_pending_events();
	nodes[2].node.process_pending_htlc_forwards();
	check_added_monitors(&nodes[2], 1);
	let updates = get_htlc_update_msgs(&nodes[2], &ids[1]);
	if updates.update_fail_htlcs.len() != 1 { std::mem::forget(nodes); return Err("C did not fail the HTLC".into()); }
	nodes[1].node.handle_update_fail_htlc(ids[2], &updates.update_fail_htlcs[0]);
	nodes[1].node.handle_commitment_signed_batch_test(ids[2], &updates.commitment_signed);
	check_added_monitors(&nodes[1], 1);
	// B's revoke_and_ack + commitment_signed reach C (so that C's new commitment exists), C's revoke_and_ack is dropped
	let (b_raa, b_cs) = get_revoke_commit_msgs(&nodes[1], &ids[2]);
	nodes[2].node.handle_revoke_and_ack(ids[1], &b_raa);
	check_added_monitors(&nodes[2], 1);
	nodes[2].node.handle_commitment_signed_batch_test(ids[1], &b_cs);
	check_added_monitors(&nodes[2], 1);
	let _ = nodes[2].node.get_and_clear_pending_msg_events();
	let _ = nodes[1].node.get_and_clear_pending_events(); let _ = nodes[1].node.get_and_clear_pending_msg_events();
	let grace = vh::consts::LATENCY_GRACE_PERIOD_BLOCKS as u32;
	let best = nodes[1].best_block_info().1;
	let target = out_cltv + grace;
	if target <= best + lead { std::mem::forget(nodes); return Err("trigger height already passed".into()); }
	*nodes[1].connect_style.borrow_mut() = ConnectStyle::BestBlockFirst;
	connect_blocks(&nodes[1], target - lead - best);
	let spent_bc = |nodes: &Vec<Node>| nodes[1].tx_broadcaster.txn_broadcasted.lock().unwrap().iter().any(|tx| tx.input.iter().any(|i| i.previous_output.txid == funding_bc.compute_txid()));
	if spent_bc(&nodes) { std::mem::forget(nodes); return Err("B-C commitment broadcast before the sweep started".into()); }
	*nodes[1].connect_style.borrow_mut() = if step > 1 { ConnectStyle::BestBlockFirstSkippingBlocks } else { ConnectStyle::BestBlockFirst };
	let mut deliv = vec![]; let mut close_h = None;
	for _ in 0..(lead + 6) {
		connect_blocks(&nodes[1], step);
		let h = nodes[1].best_block_info().1; deliv.push(h);
		if spent_bc(&nodes) { close_h = Some(h); break; }
	}
	let _ = nodes[1].node.get_and_clear_pending_events(); let _ = nodes[1].node.get_and_clear_pending_msg_events();
	nodes[1].chain_monitor.added_monitors.lock().unwrap().clear();
	std::mem::forget(nodes);
	Ok((out_cltv, deliv, close_h))
}

fn main() {
	let args = &parse_args("c08");
	let mut rec = Rec::new(&args.out, "c08");
	let mut rng = Rng::new(args.seed);
	let secp = Secp256k1::new();
	let km = KeysManager::new(&[42; 32], 1, 1, true);
	let me = km.get_node_id(Recipient::Node).unwrap();
	let next = PublicKey::from_secret_key(&secp, &SecretKey::from_slice(&[5; 32]).unwrap());
	let ctx = Ctx { secp, km, me, next, session: SecretKey::from_slice(&[6; 32]).unwrap() };
	let fbb = lightning::chain::channelmonitor::HTLC_FAIL_BACK_BUFFER as u64;
	let grace = vh::consts::LATENCY_GRACE_PERIOD_BLOCKS as u64;
	let far = vh::consts::CLTV_FAR_FAR_AWAY as u64;
	let max_conf = vh::consts::MAX_BLOCKS_FOR_CONF as u64;
	let min_delta = MIN_CLTV_EXPIRY_DELTA as u64;
	let w: u64 = if args.thorough { 60 } else { 8 };
	let bases: Vec<u64> = if args.thorough { vec![0, 1, 100, 700_000, 1 << 24, (1u64 << 31) - 5000] } else { vec![100, 800_000] };

	// (1) hook sweep around every boundary of check_incoming_htlc_cltv, for several deltas
	let deltas: Vec<u64> = vec![0, 1, min_delta - 1, min_delta, min_delta + 1, 144, 65535];
	for &h in &bases {
		for &delta in &deltas {
			// centres: out around h+grace ; in around h+fbb, h+far, out+delta
			let outs: Vec<u64> = (0..=2 * w).map(|i| (h + grace + i).saturating_sub(w)).chain([h + far - 10, h + 500].into_iter()).collect();
			for &out in &outs {
				let mut ins: Vec<u64> = vec![];
				for c in [h + fbb, h + far, out + delta] { for i in 0..=(2 * w).min(12) { ins.push((c + i).saturating_sub(w.min(6))); } }
				ins.sort(); ins.dedup();
				for &inc in &ins {
					if inc > u32::MAX as u64 || out > u32::MAX as u64 { continue; }
					let r = vh::check_incoming_htlc_cltv(h as u32, out as u32, inc as u32, delta as u16);
					let (res, class) = match &r { Ok(()) => ("ok".to_string(), "cltv:ok".to_string()), Err(e) => (format!("err {}", reason_name(e)), format!("cltv:{}", reason_name(e))) };
					// implementation-side property oracle (does not use the model): an accepted forward
					// leaves room to claim on chain upstream and to fail back downstream.
					if r.is_ok() {
						let safe = inc >= out + delta && inc > h + 2 * max_conf + grace && out > h + grace;
						if !safe { rec.oracle_fail(format!("check_incoming_htlc_cltv accepted unsafe forward h={} out={} in={} delta={}", h, out, inc, delta)); }
					}
					rec.case(&format!("cltv {} {} {} {}", h, out, inc, delta), &res, &class, true);
				}
			}
		}
	}
	// (2) public API: forward through peel_payment_onion (delta is the library's MIN_CLTV_EXPIRY_DELTA)
	let n_peel = if args.thorough { 3000 } else { 250 } * args.scale;
	for _ in 0..n_peel {
		let h = *rng.pick(&bases) + rng.below(1000);
		let out = match rng.below(3) { 0 => rng.near(h + grace + 1), 1 => h + 50 + rng.below(200), _ => rng.near(h + far - min_delta) };
		let inc = match rng.below(4) { 0 => rng.near(out + min_delta), 1 => rng.near(h + fbb + 1), 2 => rng.near(h + far), _ => out + min_delta + rng.below(100) };
		if out < 1 || inc > u32::MAX as u64 { continue; }
		// base_height + delta_last = out
		let delta_last = rng.below(40.min(out));
		let r = guarded(std::panic::AssertUnwindSafe(|| peel(&ctx, true, (out - delta_last) as u32, delta_last as u32, inc as u32, h as u32)));
		let (res, class) = match r { Ok(Ok(())) => ("ok".into(), "peelfwd:ok".to_string()), Ok(Err(e)) => (format!("err {}", e), format!("peelfwd:{}", e)), Err(p) => (format!("panic {}", p), "peelfwd:panic".to_string()) };
		if res == "ok" && !(inc >= out + min_delta && inc > h + 2 * max_conf + grace && out > h + grace) {
			rec.oracle_fail(format!("peel_payment_onion forwarded unsafe HTLC h={} out={} in={}", h, out, inc));
		}
		// the test onion itself could not be built (heights next to 2^31: the route's CLTV total overflows in the
		// harness's own onion construction): not a verdict of the code under test, the case is not compared
		if res.starts_with("err build") { continue; }
		rec.case(&format!("peelfwd {} {} {}", h, out, inc), &res, &class, true);
	}
	// (3) public API: final hop
	let n_final = if args.thorough { 4000 } else { 300 } * args.scale;
	for _ in 0..n_final {
		let h = *rng.pick(&bases) + rng.below(1000);
		let htlc_cltv = match rng.below(3) { 0 => rng.near(h + fbb + 2), 1 => h + fbb + 2 + rng.below(300), _ => h + rng.below(60) };
		let onion_cltv = match rng.below(4) { 0 => htlc_cltv + 1, 1 => htlc_cltv.saturating_sub(rng.below(3)), _ => htlc_cltv };
		if onion_cltv > u32::MAX as u64 { continue; }
		let delta_last = rng.below(40.min(onion_cltv + 1));
		let r = guarded(std::panic::AssertUnwindSafe(|| peel(&ctx, false, (onion_cltv - delta_last) as u32, delta_last as u32, htlc_cltv as u32, h as u32)));
		let (res, class) = match r { Ok(Ok(())) => ("ok".into(), "peelfinal:ok".to_string()), Ok(Err(e)) => (format!("err {}", e), format!("peelfinal:{}", e)), Err(p) => (format!("panic {}", p), "peelfinal:panic".to_string()) };
		// oracle: an accepted final HTLC can still be claimed for more than one block and leaves 2 confirmation windows + grace
		if res == "ok" && !(htlc_cltv > h + 1 + 2 * max_conf + grace) {
			rec.oracle_fail(format!("final hop accepted HTLC expiring too soon h={} cltv={}", h, htlc_cltv));
		}
		if res.starts_with("err build") { continue; } // the test onion itself could not be built (heights next to 2^31)
		rec.case(&format!("peelfinal {} {} {}", h, onion_cltv, htlc_cltv), &res, &class, true);
	}
	// (4) end to end: a forwarded HTLC whose downstream peer goes silent. B must go on chain downstream exactly at
	// outCltv + grace, and must fail the upstream HTLC back neither before the downstream timeout is buried under the
	// library's bounds nor later than one grace period before the upstream expiry. Ops for the model:
	//   e2e_close <outCltv> -> height of B's commitment broadcast ; e2e_failback <inCltv> -> height of the upstream fail-back
	ldk_verif_harness::sim::silence_stdout();
	let n_e2e = if args.thorough { 12 } else { 3 };
	for k in 0..n_e2e {
		let mine_timeout_after: u32 = match k % 3 { 0 => 200, 1 => 1, _ => 12 }; // never / at once / late
		let r = guarded(std::panic::AssertUnwindSafe(|| dead_downstream(mine_timeout_after)));
		match r {
			Ok(Some((out_cltv, in_cltv, close_h, fail_h, timeout_conf_h))) => {
				rec.case(&format!("e2e_close {}", out_cltv), &close_h.map(|h| h.to_string()).unwrap_or("none".into()), "e2e:close", true);
				// impl-side oracle, independent of the model
				let grace32 = grace as u32; let ard = lightning::chain::channelmonitor::ANTI_REORG_DELAY;
				match fail_h {
					None => rec.oracle_fail(format!("dead downstream: upstream HTLC (expiry {}) was never failed back", in_cltv)),
					Some(fh) => {
						if fh + grace32 > in_cltv { rec.oracle_fail(format!("dead downstream: upstream HTLC failed back at height {} — later than one grace period before its expiry {}", fh, in_cltv)); }
						let buried = timeout_conf_h.map(|c| fh + 1 >= c + ard).unwrap_or(false);
						let bound = out_cltv + grace32 + 2 * max_conf as u32 + ard - 1; // by then the timeout is buried under the stated bounds
						if !buried && fh < bound { rec.oracle_fail(format!("dead downstream: upstream HTLC (expiry {}) failed back at height {} although the downstream timeout (expiry {}, HTLC-timeout confirmed at {:?}) was not buried and the stated bounds only guarantee burial by {}", in_cltv, fh, out_cltv, timeout_conf_h, bound)); }
						if timeout_conf_h.is_none() { rec.case(&format!("e2e_failback {}", in_cltv), &fh.to_string(), "e2e:failback-unconfirmed-timeout", true); }
					},
				}
			},
			Ok(None) => rec.discarded += 1,
			Err(p) => rec.oracle_fail(format!("dead-downstream scenario panicked: {}", p.chars().take(200).collect::<String>())),
		}
	}

	// (5) seeded C08-r4: holding-cell timeout carried through EVERY exit of do_best_block_updated. The splice-lock block
	// coincides with (d = 0), or precedes by 1 or 2 blocks (d = 1, 2) the first block in which the parked HTLC is within the
	// grace period. Model op: `node <in> <out> <best> 1 0 1 b:<h>:<exit>:0:0 …` -> log of cell-timeout / fail-back heights.
	{
		use lightning::ln::functional_test_utils::ConnectStyle;
		let styles = [None, Some(ConnectStyle::BestBlockFirst), Some(ConnectStyle::TransactionsFirst), Some(ConnectStyle::FullBlockViaListen)];
		let n_styles = if args.thorough { 4 } else { 2 };
		for (si, st) in styles.iter().take(n_styles).enumerate() {
			for d in [0i32, 1, 2] {
				let st2 = st.clone();
				match guarded(std::panic::AssertUnwindSafe(move || splice_cell(d, st2))) {
					Ok(Ok((in_cltv, out_cltv, best0, blocks))) => {
						let mut op = format!("node {} {} {} 1 0 1", in_cltv, out_cltv, best0);
						let mut log: Vec<String> = vec![];
						for (h, locked, left, failed) in &blocks {
							op += &format!(" b:{}:{}:0:0", h, if *locked { "splice" } else { "plain" });
							if *left { log.push(format!("{}:cell", h)); }
							if *failed { log.push(format!("{}:fail", h)); }
							// impl oracle (independent of the model): whatever leaves the holding cell by timeout is failed backwards in the same block
							if *left && !*failed { rec.oracle_fail(format!("holding-cell HTLC (outbound expiry {}) left the holding cell at height {} ({}) without HTLCHandlingFailed / update_fail_htlc upstream (inbound expiry {}) [d={} style#{}]", out_cltv, h, if *locked { "splice_locked block" } else { "plain block" }, in_cltv, d, si)); }
						}
						rec.case("swept holdingCell", if blocks.iter().any(|b| b.2 && b.3) { "true" } else { "false" }, "e2e:swept", true);
						if !blocks.iter().any(|b| b.2) { rec.oracle_fail(format!("holding-cell HTLC (outbound expiry {}) never timed out of the holding cell within {:?}", out_cltv, blocks)); }
						if d == 0 && !blocks.iter().any(|b| b.1 && b.2) { rec.discarded += 1; } // the coincidence was not produced
						let ans = if log.is_empty() { "-".to_string() } else { log.join(" ") };
						rec.case(&op, &ans, &format!("e2e:splice-cell d={} locked-coincides={}", d, blocks.iter().any(|b| b.1 && b.2)), true);
					},
					Ok(Err(e)) => { rec.discarded += 1; rec.notes.insert(format!("splice_cell d={} style#{}", d, si), e); },
					Err(p) => rec.oracle_fail(format!("splice holding-cell scenario d={} panicked: {}", d, p.chars().take(300).collect::<String>())),
				}
			}
		}
	}

	// (6) the same dead-downstream world against `NodeStep.run`: every height delivered to B (single blocks, or jumps of
	// `step` blocks of which B only sees the last) with what the block contained, compared with the model's whole action log
	// (commitment broadcast, HTLC-timeout broadcast, upstream fail-back heights).
	{
		let plans: Vec<(u32, u32)> = if args.thorough { vec![(1, 1), (1, 200), (12, 1), (1, 2), (1, 3), (12, 2), (200, 3), (1, 5), (12, 5), (200, 7), (3, 4), (30, 2)] } else { vec![(1, 1), (1, 3), (200, 2), (12, 5)] };
		for (mine_after, step) in plans {
			match guarded(std::panic::AssertUnwindSafe(|| dead_downstream_ex(mine_after, step))) {
				Ok(Some((out_cltv, in_cltv, close_h, _fail_h, _tc, best0, deliv, log))) => {
					let mut op = format!("node {} {} {} 0 1 1", in_cltv, out_cltv, best0);
					for (h, c, t) in &deliv { op += &format!(" b:{}:plain:{}:{}", h, *c as u8, *t as u8); }
					// impl oracle: the commitment goes out at the first delivered height >= expiry + grace, not before
					let first = deliv.iter().map(|d| d.0).find(|h| *h >= out_cltv + grace as u32);
					rec.case("swept commitment:holderCurrent", if close_h.is_some() && log.iter().any(|e| e.ends_with(":fail")) { "true" } else { "false" }, "e2e:swept", true);
					if close_h != first { rec.oracle_fail(format!("dead downstream (step {}): B's commitment broadcast at {:?}, first delivered height >= expiry {} + grace is {:?}", step, close_h, out_cltv, first)); }
					rec.case(&op, &if log.is_empty() { "-".to_string() } else { log.join(" ") }, &format!("e2e:node-run step={} mine_after={}", step, mine_after.min(99)), true);
				},
				Ok(None) => rec.discarded += 1,
				Err(p) => rec.oracle_fail(format!("dead-downstream node-run scenario panicked: {}", p.chars().take(200).collect::<String>())),
			}
		}
	}
	// (7) round 5: an intercepted HTLC held by B while new heights arrive (do_chain_event's intercepted-HTLC timeout).
	// Model op: `icpt <outCltv> <h1> <h2> …` -> first delivered height at which the HTLC is failed back | none.
	{
		let fbb32 = fbb as u32;
		let plans: Vec<(i32, u32, u32)> = if args.thorough {
			let mut v = vec![]; for d in -2i32..=7 { for step in [1u32, 2, 3] { v.push((d, (MIN_CLTV_EXPIRY_DELTA as u32) + (d.rem_euclid(3) as u32) * 30, step)); } } v
		} else { vec![(0, 48, 1), (1, 48, 1), (2, 72, 1), (4, 48, 1), (3, 48, 2), (5, 144, 3), (-1, 48, 1), (7, 48, 1)] };
		for (d, hop_delta, step) in plans {
			match guarded(std::panic::AssertUnwindSafe(move || intercept_hold(d, hop_delta, step, if d >= 7 { 3 } else { 9 }))) {
				Ok(Ok((in_cltv, out_cltv, deliv, fail_h))) => {
					// impl oracle (independent of the model): held below out - HTLC_FAIL_BACK_BUFFER, failed back by the node itself
					// at the first delivered height from there on, and by then the upstream HTLC is still far from its own deadline
					let first = deliv.iter().copied().find(|h| *h + fbb32 >= out_cltv);
					if fail_h != first && !(fail_h.is_none() && first.is_none()) { rec.oracle_fail(format!("intercepted HTLC (outgoing expiry {}, inbound expiry {}) failed back at {:?}; first delivered height within HTLC_FAIL_BACK_BUFFER of the outgoing expiry is {:?} (delivered {:?}) [d={} step={}]", out_cltv, in_cltv, fail_h, first, deliv, d, step)); }
					if let Some(fh) = fail_h { if fh + grace as u32 + 2 * max_conf as u32 >= in_cltv { rec.oracle_fail(format!("intercepted HTLC failed back at {} with the inbound expiry {} less than grace + claim buffer away", fh, in_cltv)); } }
					let op = format!("icpt {} {}", out_cltv, deliv.iter().map(|h| h.to_string()).collect::<Vec<_>>().join(" "));
					rec.case(&op, &fail_h.map(|h| h.to_string()).unwrap_or("none".into()), &format!("e2e:intercept-hold step={} {}", step, if fail_h.is_some() { "timed-out" } else { "held" }), true);
					if first.is_some() { rec.case("swept intercepted", if fail_h.is_some() { "true" } else { "false" }, "e2e:swept", true); }
				},
				Ok(Err(e)) => { rec.discarded += 1; rec.notes.insert(format!("intercept_hold d={} step={}", d, step), e); },
				Err(p) => rec.oracle_fail(format!("intercept-hold scenario d={} step={} panicked: {}", d, step, p.chars().take(300).collect::<String>())),
			}
		}
	}
	// (7b) round 6: RELEASE of a held intercepted HTLC (forward_intercepted_htlc has no height test of its own: the safety of a late
	// release rests on the intercepted-HTLC timeout having run first). Released at the LAST held height (margin 1), earlier, by a
	// jump, and after the node gave the HTLC up (must be refused). Model op: `noderel <in> <out> <best> b:… r d b:…` -> whole action log
	// of NodeStep.run (mgrIntercept / .released / .downCommitted / monScan / monClaims).
	{
		// (d, step while held, deliveries while held, step after the release); margin at the release = d - step*n_hold
		let plans: Vec<(i32, u32, u32, u32)> = if args.thorough {
			vec![(2, 1, 1, 1), (3, 1, 2, 1), (1, 1, 1, 1), (2, 1, 2, 1), (4, 2, 1, 3), (6, 5, 1, 2), (2, 1, 0, 1), (5, 1, 4, 7), (3, 3, 1, 1), (7, 3, 2, 5), (4, 1, 3, 43), (9, 4, 2, 1)]
		} else { vec![(2, 1, 1, 1), (1, 1, 1, 1), (6, 5, 1, 3), (3, 1, 2, 4), (2, 1, 2, 1)] };
		for (d, step, n_hold, step_after) in plans {
			match guarded(std::panic::AssertUnwindSafe(move || intercept_release(d, step, n_hold, step_after))) {
				Ok(Ok((in_cltv, out_cltv, best0, toks, log, released, after))) => {
					let margin = d - (step * n_hold) as i32;
					// impl oracles (independent of the model)
					let gave_up = log.iter().any(|e| e.ends_with(":icpt"));
					if released == gave_up { rec.oracle_fail(format!("intercepted HTLC (outgoing expiry {}, margin at release {}): forward_intercepted_htlc accepted={} although the node {} given the HTLC up before [d={} step={} n_hold={}]", out_cltv, margin, released, if gave_up { "had" } else { "had not" }, d, step, n_hold)); }
					if (margin >= 1) != released { rec.oracle_fail(format!("intercepted HTLC (outgoing expiry {}): release at best height {} (margin {} to out - HTLC_FAIL_BACK_BUFFER) accepted={} [d={} step={} n_hold={}]", out_cltv, best0 + step * n_hold, margin, released, d, step, n_hold)); }
					if released {
						let first = after.iter().copied().find(|h| *h >= out_cltv + grace as u32);
						let down = log.iter().find(|e| e.ends_with(":down")).map(|e| e.split(':').next().unwrap().parse::<u32>().unwrap());
						if down != first { rec.oracle_fail(format!("HTLC released from interception at height {} (outgoing expiry {}, margin {}): B went on chain downstream at {:?}, first delivered height >= expiry + grace is {:?} (delivered {:?})", best0 + step * n_hold, out_cltv, margin, down, first, after)); }
						if let Some(f) = log.iter().find(|e| e.ends_with(":fail")) { rec.oracle_fail(format!("HTLC released from interception at height {} (outgoing expiry {}, inbound expiry {}, margin {}) was failed back upstream ({}) although the downstream HTLC-timeout was never mined", best0 + step * n_hold, out_cltv, in_cltv, margin, f)); }
						if out_cltv + (MIN_CLTV_EXPIRY_DELTA as u32) > in_cltv { rec.oracle_fail(format!("released intercepted HTLC: outgoing expiry {} + MIN_CLTV_EXPIRY_DELTA exceeds the inbound expiry {}", out_cltv, in_cltv)); }
					}
					let op = format!("noderel {} {} {} {}", in_cltv, out_cltv, best0, toks.join(" "));
					let class = format!("e2e:intercept-release {} margin={}", if released { "released" } else { "refused" }, margin.max(-1).min(3));
					rec.case(&op, &if log.is_empty() { "-".to_string() } else { log.join(" ") }, &class, true);
				},
				Ok(Err(e)) => { rec.discarded += 1; rec.notes.insert(format!("intercept_release d={} step={} n_hold={}", d, step, n_hold), e); },
				Err(p) => rec.oracle_fail(format!("intercept-release scenario d={} step={} n_hold={} panicked: {}", d, step, n_hold, p.chars().take(300).collect::<String>())),
			}
		}
	}
	// (8) round 5: the forwarded HTLC exists only in the COUNTERPARTY's current commitment (C never answered). The monitor's
	// trigger must still fire at the first delivered height >= expiry + grace. Model op (whole should_broadcast_holder_commitment_txn:
	// gate + translated scan list + direction): `monscan <spendConfirmed> <spendAwaiting> <h> <set>:<weOffered>:<cltv>:<pre>…`
	{
		let plans: Vec<(u32, u32)> = if args.thorough { vec![(5, 1), (8, 2), (6, 3), (12, 1), (9, 5)] } else { vec![(5, 1), (7, 2)] };
		for (last_delta, step) in plans {
			match guarded(std::panic::AssertUnwindSafe(move || unrevoked_downstream(last_delta, step))) {
				Ok(Ok((out_cltv, deliv, close_h, in_cltv, post, fail_h))) => {
					let first = deliv.iter().copied().find(|h| *h >= out_cltv + grace as u32);
					if close_h != first { rec.oracle_fail(format!("HTLC only in the counterparty's commitment (expiry {}): B went on chain at {:?}, first delivered height >= expiry + grace is {:?} (delivered {:?}, step {})", out_cltv, close_h, first, deliv, step)); }
					// pre-emptive upstream fail-back of an HTLC that sits only in the counterparty's commitment: at the first height with
					// inbound expiry <= h + grace, not before, never later
					let first_fb = post.iter().copied().find(|h| in_cltv <= *h + grace as u32);
					if close_h.is_some() && fail_h != first_fb { rec.oracle_fail(format!("HTLC only in the counterparty's commitment, downstream commitment unconfirmed: upstream HTLC (expiry {}) failed back at {:?}, first delivered height h with expiry <= h + grace is {:?} (delivered after the close {:?})", in_cltv, fail_h, first_fb, post)); }
					for h in &post { rec.case(&format!("preempt {} {}", in_cltv, h), if fail_h == Some(*h) { "true" } else { "false" }, &format!("e2e:preemptive counterparty-only fired={}", fail_h == Some(*h)), true); }
					rec.case("swept commitment:counterpartyCurrent", if close_h.is_some() && fail_h.is_some() { "true" } else { "false" }, "e2e:swept", true);
					for h in &deliv {
						let fired = close_h == Some(*h);
						rec.case(&format!("monscan 0 0 {} counterpartyCurrent:1:{}:0", h, out_cltv), if fired { "true" } else { "false" }, &format!("e2e:monscan counterparty-only fired={}", fired), true);
					}
				},
				Ok(Err(e)) => { rec.discarded += 1; rec.notes.insert(format!("unrevoked_downstream delta={} step={}", last_delta, step), e); },
				Err(p) => rec.oracle_fail(format!("unrevoked-downstream scenario panicked: {}", p.chars().take(300).collect::<String>())),
			}
		}
	}
	// (9) round 5: the inbound-with-preimage side of the trigger on real nodes: B knows the preimage, the upstream peer A is
	// silent. B must go on chain upstream at the first delivered height h with inCltv <= h + CLTV_CLAIM_BUFFER, not before.
	{
		let plans: Vec<(u32, u32)> = if args.thorough { vec![(3, 1), (4, 2), (5, 3), (2, 1), (7, 5), (1, 1)] } else { vec![(3, 1), (4, 3)] };
		let ccb = vh::consts::CLTV_CLAIM_BUFFER;
		for (lead, step) in plans {
			match guarded(std::panic::AssertUnwindSafe(move || silent_upstream(lead, step))) {
				Ok(Ok((in_cltv, deliv, close_h))) => {
					let first = deliv.iter().copied().find(|h| in_cltv <= *h + ccb);
					if close_h != first { rec.oracle_fail(format!("silent upstream, preimage known (inbound expiry {}): B went on chain upstream at {:?}, first delivered height h with expiry <= h + CLTV_CLAIM_BUFFER is {:?} (delivered {:?}, step {})", in_cltv, close_h, first, deliv, step)); }
					for h in &deliv {
						let fired = close_h == Some(*h);
						rec.case(&format!("monscan 0 0 {} holderCurrent:0:{}:1 counterpartyPrev:0:{}:1", h, in_cltv, in_cltv), if fired { "true" } else { "false" }, &format!("e2e:monscan inbound-preimage fired={}", fired), true);
					}
				},
				Ok(Err(e)) => { rec.discarded += 1; rec.notes.insert(format!("silent_upstream lead={} step={}", lead, step), e); },
				Err(p) => rec.oracle_fail(format!("silent-upstream scenario panicked: {}", p.chars().take(300).collect::<String>())),
			}
		}
	}
	// (10) round 5: the outbound HTLC survives ONLY in the counterparty's PREVIOUS (unrevoked) commitment: the trigger must still
	// fire at the first delivered height >= expiry + grace (the peer can still broadcast that commitment).
	{
		let plans: Vec<(u32, u32)> = if args.thorough { vec![(3, 1), (4, 3), (2, 1), (5, 2)] } else { vec![(3, 1), (4, 3)] };
		for (lead, step) in plans {
			match guarded(std::panic::AssertUnwindSafe(move || prev_counterparty_only(lead, step))) {
				Ok(Ok((out_cltv, deliv, close_h))) => {
					let first = deliv.iter().copied().find(|h| *h >= out_cltv + grace as u32);
					rec.case("swept commitment:counterpartyPrev", if close_h.is_some() { "true" } else { "false" }, "e2e:swept", true);
					if close_h != first { rec.oracle_fail(format!("HTLC only in the counterparty's PREVIOUS unrevoked commitment (expiry {}): B went on chain at {:?}, first delivered height >= expiry + grace is {:?} (delivered {:?}, step {})", out_cltv, close_h, first, deliv, step)); }
					for h in &deliv {
						let fired = close_h == Some(*h);
						rec.case(&format!("monscan 0 0 {} counterpartyPrev:1:{}:0", h, out_cltv), if fired { "true" } else { "false" }, &format!("e2e:monscan prev-counterparty-only fired={}", fired), true);
					}
				},
				Ok(Err(e)) => { rec.discarded += 1; rec.notes.insert(format!("prev_counterparty_only lead={} step={}", lead, step), e); },
				Err(p) => rec.oracle_fail(format!("prev-counterparty-only scenario panicked: {}", p.chars().take(300).collect::<String>())),
			}
		}
	}
	rec.notes.insert("rule".into(), "boundary sweep (±window) around every comparison of check_incoming_htlc_cltv for 7 deltas, plus PRNG-drawn real onions through the public peel_payment_onion; e2e families on real 3-node networks: dead downstream (single blocks / jumps), pending splice + holding cell, intercepted HTLC held across its timeout boundary (d=-1..7, steps 1-3), forwarded HTLC only in the counterparty's current / previous unrevoked commitment, inbound HTLC with known preimage and a silent upstream; every case is distinct by its op text".into());
	rec.finish();
}
