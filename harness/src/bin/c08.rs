//! C08 — timing decisions of the real code on boundary sweeps.
//! ops:  cltv <h> <out> <in> <delta>       (hook: check_incoming_htlc_cltv)
//!       peelfwd <h> <out> <in>            (public peel_payment_onion on a real 2-hop onion)
//!       peelfinal <h> <onion_cltv> <htlc_cltv>   (public peel_payment_onion, final hop)
use ldk_verif_harness::common::*;
use bitcoin::secp256k1::{PublicKey, Secp256k1, SecretKey};
use lightning::ln::channelmanager::MIN_CLTV_EXPIRY_DELTA;
use lightning::ln::msgs::UpdateAddHTLC;
use lightning::ln::onion_payment::peel_payment_onion;
use lightning::ln::onion_utils::create_payment_onion;
use lightning::ln::outbound_payment::RecipientOnionFields;
use lightning::ln::types::ChannelId;
use lightning::ln::verif_hooks as vh;
use lightning::routing::router::{Path, RouteHop};
use lightning::sign::{KeysManager, NodeSigner, Recipient};
use lightning::types::features::{ChannelFeatures, NodeFeatures};
use lightning::types::payment::{PaymentHash, PaymentSecret};

fn reason_name<T: std::fmt::Debug>(r: &T) -> String { let s = format!("{:?}", r); s.split(|c: char| !c.is_alphanumeric()).next().unwrap().to_string() }

struct Ctx { secp: Secp256k1<bitcoin::secp256k1::All>, km: KeysManager, me: PublicKey, next: PublicKey, session: SecretKey }

fn peel(ctx: &Ctx, two_hop: bool, base_height: u32, delta_last: u32, htlc_cltv: u32, cur_height: u32) -> Result<(), String> {
	let amt = 100_000u64;
	let mut hops = vec![];
	if two_hop {
		hops.push(RouteHop { pubkey: ctx.me, node_features: NodeFeatures::empty(), short_channel_id: 1, channel_features: ChannelFeatures::empty(), fee_msat: 1000, cltv_expiry_delta: 0, maybe_announced_channel: true });
		hops.push(RouteHop { pubkey: ctx.next, node_features: NodeFeatures::empty(), short_channel_id: 2, channel_features: ChannelFeatures::empty(), fee_msat: amt, cltv_expiry_delta: delta_last, maybe_announced_channel: true });
	} else {
		hops.push(RouteHop { pubkey: ctx.me, node_features: NodeFeatures::empty(), short_channel_id: 1, channel_features: ChannelFeatures::empty(), fee_msat: amt, cltv_expiry_delta: delta_last, maybe_announced_channel: true });
	}
	let path = Path { hops, blinded_tail: None };
	let hash = PaymentHash([7; 32]);
	let rof = RecipientOnionFields::secret_only(PaymentSecret([9; 32]), amt);
	let (onion, first_amt, _first_cltv) = create_payment_onion(&ctx.secp, &path, &ctx.session, &rof, base_height, &hash, &None, None, [3; 32]).map_err(|e| format!("build {:?}", e))?;
	let msg = UpdateAddHTLC { channel_id: ChannelId([0; 32]), htlc_id: 0, amount_msat: first_amt, payment_hash: hash, cltv_expiry: htlc_cltv, skimmed_fee_msat: None, onion_routing_packet: onion, blinding_point: None, hold_htlc: None, accountable: None };
	match peel_payment_onion(&msg, &ctx.km, &NullLogger, &ctx.secp, cur_height, false) {
		Ok(_) => Ok(()),
		Err(e) => Err(reason_name(&e.reason)),
	}
}

/// A -> B -> C payment, C never answers. Blocks are connected one at a time to all nodes. B's commitment is mined as
/// soon as it is broadcast; B's HTLC-timeout is mined `mine_timeout_after` blocks after it is first broadcast.
/// Returns (outCltv, inCltv, height of B's commitment broadcast, height at which B fails back upstream, height at which
/// the HTLC-timeout confirmed).
fn dead_downstream(mine_timeout_after: u32) -> Option<(u32, u32, Option<u32>, Option<u32>, Option<u32>)> {
	use ldk_verif_harness::sim::*;
	use lightning::ln::functional_test_utils::{connect_blocks, mine_transaction};
	// legacy (non-anchor) channels: the commitment is broadcast directly, no BumpTransaction event handling needed
	let cfg = Some(lightning::ln::functional_test_utils::test_legacy_channel_config());
	let mut net = Net::new(3, vec![cfg.clone(), cfg.clone(), cfg]);
	let c0 = net.open(0, 1, 1_000_000, 400_000_000);
	let c1 = net.open(1, 2, 1_000_000, 400_000_000);
	let _p = net.send(&[0, 1, 2], &[c0, c1], 5_000_000, 70).ok()?;
	net.settle(6); // C now holds the HTLC (claimable) and stays silent
	let mut in_cltv = 0; let mut out_cltv = 0;
	for o in &net.trace { if let Obs::Msg { from, to, kind: "add", detail, .. } = o {
		let cltv: u32 = detail.split("cltv=").nth(1)?.trim().parse().ok()?;
		if (*from, *to) == (0, 1) { in_cltv = cltv; } if (*from, *to) == (1, 2) { out_cltv = cltv; }
	} }
	if in_cltv == 0 || out_cltv == 0 { return None; }
	let mut close_h = None; let mut fail_h = None; let mut timeout_conf = None; let mut timeout_seen: Option<(u32, bitcoin::Transaction)> = None;
	let mut mined: Vec<bitcoin::Txid> = vec![];
	let mut seen_b = net.nodes[1].tx_broadcaster.txn_broadcasted.lock().unwrap().len();
	for _ in 0..(in_cltv + 20) {
		for i in 0..3 { connect_blocks(&net.nodes[i], 1); }
		let h = net.nodes[1].best_block_info().1;
		let txs: Vec<bitcoin::Transaction> = { let b = net.nodes[1].tx_broadcaster.txn_broadcasted.lock().unwrap(); let v = b[seen_b.min(b.len())..].to_vec(); seen_b = b.len(); v };
		for tx in txs {
			if mined.contains(&tx.compute_txid()) { continue; }
			if tx.lock_time.to_consensus_u32() == out_cltv && timeout_seen.is_none() { timeout_seen = Some((h, tx)); continue; } // B's HTLC-timeout
			if close_h.is_none() && tx.input.len() == 1 && tx.output.len() >= 2 { close_h = Some(h); mined.push(tx.compute_txid()); for i in 0..3 { mine_transaction(&net.nodes[i], &tx); } }
		}
		if let Some((seen_at, tx)) = &timeout_seen { if timeout_conf.is_none() && h >= seen_at + mine_timeout_after { for i in 0..3 { mine_transaction(&net.nodes[i], tx); } timeout_conf = Some(net.nodes[1].best_block_info().1); mined.push(tx.compute_txid()); } }
		net.pump_all(); net.process_events(1); net.pump_all();
		let h2 = net.nodes[1].best_block_info().1;
		if fail_h.is_none() && net.trace.iter().any(|o| matches!(o, Obs::Msg { from: 1, to: 0, kind: "fail", .. })) { fail_h = Some(h2); break; }
		if fail_h.is_none() && net.trace.iter().any(|o| matches!(o, Obs::Event { node: 1, text } if text.starts_with("HTLCHandlingFailed"))) { fail_h = Some(h2); break; }
	}
	std::mem::forget(net);
	Some((out_cltv, in_cltv, close_h, fail_h, timeout_conf))
}

fn main() {
	let args = &parse_args("c08");
	let mut rec = Rec::new(&args.out, "c08");
	let mut rng = Rng::new(args.seed);
	let secp = Secp256k1::new();
	let km = KeysManager::new(&[42; 32], 1, 1, true);
	let me = km.get_node_id(Recipient::Node).unwrap();
	let next = PublicKey::from_secret_key(&secp, &SecretKey::from_slice(&[5; 32]).unwrap());
	let ctx = Ctx { secp, km, me, next, session: SecretKey::from_slice(&[6; 32]).unwrap() };
	let fbb = lightning::chain::channelmonitor::HTLC_FAIL_BACK_BUFFER as u64;
	let grace = vh::consts::LATENCY_GRACE_PERIOD_BLOCKS as u64;
	let far = vh::consts::CLTV_FAR_FAR_AWAY as u64;
	let max_conf = vh::consts::MAX_BLOCKS_FOR_CONF as u64;
	let min_delta = MIN_CLTV_EXPIRY_DELTA as u64;
	let w: u64 = if args.thorough { 60 } else { 8 };
	let bases: Vec<u64> = if args.thorough { vec![0, 1, 100, 700_000, 1 << 24, (1u64 << 31) - 5000] } else { vec![100, 800_000] };

	// (1) hook sweep around every boundary of check_incoming_htlc_cltv, for several deltas
	let deltas: Vec<u64> = vec![0, 1, min_delta - 1, min_delta, min_delta + 1, 144, 65535];
	for &h in &bases {
		for &delta in &deltas {
			// centres: out around h+grace ; in around h+fbb, h+far, out+delta
			let outs: Vec<u64> = (0..=2 * w).map(|i| (h + grace + i).saturating_sub(w)).chain([h + far - 10, h + 500].into_iter()).collect();
			for &out in &outs {
				let mut ins: Vec<u64> = vec![];
				for c in [h + fbb, h + far, out + delta] { for i in 0..=(2 * w).min(12) { ins.push((c + i).saturating_sub(w.min(6))); } }
				ins.sort(); ins.dedup();
				for &inc in &ins {
					if inc > u32::MAX as u64 || out > u32::MAX as u64 { continue; }
					let r = vh::check_incoming_htlc_cltv(h as u32, out as u32, inc as u32, delta as u16);
					let (res, class) = match &r { Ok(()) => ("ok".to_string(), "cltv:ok".to_string()), Err(e) => (format!("err {}", reason_name(e)), format!("cltv:{}", reason_name(e))) };
					// implementation-side property oracle (does not use the model): an accepted forward
					// leaves room to claim on chain upstream and to fail back downstream.
					if r.is_ok() {
						let safe = inc >= out + delta && inc > h + 2 * max_conf + grace && out > h + grace;
						if !safe { rec.oracle_fail(format!("check_incoming_htlc_cltv accepted unsafe forward h={} out={} in={} delta={}", h, out, inc, delta)); }
					}
					rec.case(&format!("cltv {} {} {} {}", h, out, inc, delta), &res, &class, true);
				}
			}
		}
	}
	// (2) public API: forward through peel_payment_onion (delta is the library's MIN_CLTV_EXPIRY_DELTA)
	let n_peel = if args.thorough { 3000 } else { 250 } * args.scale;
	for _ in 0..n_peel {
		let h = *rng.pick(&bases) + rng.below(1000);
		let out = match rng.below(3) { 0 => rng.near(h + grace + 1), 1 => h + 50 + rng.below(200), _ => rng.near(h + far - min_delta) };
		let inc = match rng.below(4) { 0 => rng.near(out + min_delta), 1 => rng.near(h + fbb + 1), 2 => rng.near(h + far), _ => out + min_delta + rng.below(100) };
		if out < 1 || inc > u32::MAX as u64 { continue; }
		// base_height + delta_last = out
		let delta_last = rng.below(40.min(out));
		let r = guarded(std::panic::AssertUnwindSafe(|| peel(&ctx, true, (out - delta_last) as u32, delta_last as u32, inc as u32, h as u32)));
		let (res, class) = match r { Ok(Ok(())) => ("ok".into(), "peelfwd:ok".to_string()), Ok(Err(e)) => (format!("err {}", e), format!("peelfwd:{}", e)), Err(p) => (format!("panic {}", p), "peelfwd:panic".to_string()) };
		if res == "ok" && !(inc >= out + min_delta && inc > h + 2 * max_conf + grace && out > h + grace) {
			rec.oracle_fail(format!("peel_payment_onion forwarded unsafe HTLC h={} out={} in={}", h, out, inc));
		}
		// the test onion itself could not be built (heights next to 2^31: the route's CLTV total overflows in the
		// harness's own onion construction): not a verdict of the code under test, the case is not compared
		if res.starts_with("err build") { continue; }
		rec.case(&format!("peelfwd {} {} {}", h, out, inc), &res, &class, true);
	}
	// (3) public API: final hop
	let n_final = if args.thorough { 4000 } else { 300 } * args.scale;
	for _ in 0..n_final {
		let h = *rng.pick(&bases) + rng.below(1000);
		let htlc_cltv = match rng.below(3) { 0 => rng.near(h + fbb + 2), 1 => h + fbb + 2 + rng.below(300), _ => h + rng.below(60) };
		let onion_cltv = match rng.below(4) { 0 => htlc_cltv + 1, 1 => htlc_cltv.saturating_sub(rng.below(3)), _ => htlc_cltv };
		if onion_cltv > u32::MAX as u64 { continue; }
		let delta_last = rng.below(40.min(onion_cltv + 1));
		let r = guarded(std::panic::AssertUnwindSafe(|| peel(&ctx, false, (onion_cltv - delta_last) as u32, delta_last as u32, htlc_cltv as u32, h as u32)));
		let (res, class) = match r { Ok(Ok(())) => ("ok".into(), "peelfinal:ok".to_string()), Ok(Err(e)) => (format!("err {}", e), format!("peelfinal:{}", e)), Err(p) => (format!("panic {}", p), "peelfinal:panic".to_string()) };
		// oracle: an accepted final HTLC can still be claimed for more than one block and leaves 2 confirmation windows + grace
		if res == "ok" && !(htlc_cltv > h + 1 + 2 * max_conf + grace) {
			rec.oracle_fail(format!("final hop accepted HTLC expiring too soon h={} cltv={}", h, htlc_cltv));
		}
		if res.starts_with("err build") { continue; } // the test onion itself could not be built (heights next to 2^31)
		rec.case(&format!("peelfinal {} {} {}", h, onion_cltv, htlc_cltv), &res, &class, true);
	}
	// (4) end to end: a forwarded HTLC whose downstream peer goes silent. B must go on chain downstream exactly at
	// outCltv + grace, and must fail the upstream HTLC back neither before the downstream timeout is buried under the
	// library's bounds nor later than one grace period before the upstream expiry. Ops for the model:
	//   e2e_close <outCltv> -> height of B's commitment broadcast ; e2e_failback <inCltv> -> height of the upstream fail-back
	ldk_verif_harness::sim::silence_stdout();
	let n_e2e = if args.thorough { 12 } else { 3 };
	for k in 0..n_e2e {
		let mine_timeout_after: u32 = match k % 3 { 0 => 200, 1 => 1, _ => 12 }; // never / at once / late
		let r = guarded(std::panic::AssertUnwindSafe(|| dead_downstream(mine_timeout_after)));
		match r {
			Ok(Some((out_cltv, in_cltv, close_h, fail_h, timeout_conf_h))) => {
				rec.case(&format!("e2e_close {}", out_cltv), &close_h.map(|h| h.to_string()).unwrap_or("none".into()), "e2e:close", true);
				// impl-side oracle, independent of the model
				let grace32 = grace as u32; let ard = lightning::chain::channelmonitor::ANTI_REORG_DELAY;
				match fail_h {
					None => rec.oracle_fail(format!("dead downstream: upstream HTLC (expiry {}) was never failed back", in_cltv)),
					Some(fh) => {
						if fh + grace32 > in_cltv { rec.oracle_fail(format!("dead downstream: upstream HTLC failed back at height {} — later than one grace period before its expiry {}", fh, in_cltv)); }
						let buried = timeout_conf_h.map(|c| fh + 1 >= c + ard).unwrap_or(false);
						let bound = out_cltv + grace32 + 2 * max_conf as u32 + ard - 1; // by then the timeout is buried under the stated bounds
						if !buried && fh < bound { rec.oracle_fail(format!("dead downstream: upstream HTLC (expiry {}) failed back at height {} although the downstream timeout (expiry {}, HTLC-timeout confirmed at {:?}) was not buried and the stated bounds only guarantee burial by {}", in_cltv, fh, out_cltv, timeout_conf_h, bound)); }
						if timeout_conf_h.is_none() { rec.case(&format!("e2e_failback {}", in_cltv), &fh.to_string(), "e2e:failback-unconfirmed-timeout", true); }
					},
				}
			},
			Ok(None) => rec.discarded += 1,
			Err(p) => rec.oracle_fail(format!("dead-downstream scenario panicked: {}", p.chars().take(200).collect::<String>())),
		}
	}
	rec.notes.insert("rule".into(), "boundary sweep (±window) around every comparison of check_incoming_htlc_cltv for 7 deltas, plus PRNG-drawn real onions through the public peel_payment_onion; every case is distinct by its op text".into());
	rec.finish();
}
