//! C06 — any revoked commitment the counterparty confirms is fully punished.
//! models:
//!   c06bump    — differential of the real feerate_bump / get_height_timer / package_locktime (see c06/bump.rs)
//!   c06justice — a real 2-node channel (functional_test_utils through sim::Net), random history of payments both
//!                ways incl. dust, the cheater's fully signed commitment captured at a random OLD state
//!                (`unsafe_get_latest_holder_commitment_txn`, harness feature `unsafe_revoked_tx_signing`) with its
//!                second-stage HTLC transactions, 5–30 more updates, then the captured transaction is confirmed on
//!                the victim.  Model ops (driver `c06justice`):
//!                  commit <n> <htlc,…|->   secret <n>      (replayed from the victim's REAL ChannelMonitorUpdates)
//!                  confirm <n> <out,…> <v+v,…|->   → the outpoints the victim's broadcasts spend (sorted)
//!                Implementation oracles (no model): every broadcast verifies under libbitcoinconsensus against the
//!                outputs it spends; every output of the revoked transaction except the victim's own to_remote and
//!                anchors is spent by a broadcast (or its confirmed second-stage child is); re-issued claims never
//!                lower their fee; after burial SpendableOutputs appear, their value + fees = value claimed, and
//!                get_claimable_balances drains.
#[path = "c06/bump.rs"]
mod bump;
use bitcoin::{OutPoint, Transaction, TxOut, Txid};
use ldk_verif_harness::common::*;
use ldk_verif_harness::sim::{silence_stdout, Net};
use lightning::chain::channelmonitor::{Balance, ANTI_REORG_DELAY};
use lightning::events::Event;
use lightning::ln::chan_utils::CommitmentTransaction;
use lightning::ln::functional_test_utils::*;
use lightning::ln::msgs::BaseMessageHandler;
use lightning::ln::verif_hooks as vh;
use lightning::sign::SpendableOutputDescriptor;
use std::collections::{BTreeMap, BTreeSet, HashMap};
use std::panic::AssertUnwindSafe;

/// what the harness knows about one counterparty commitment, from the victim's monitor updates
#[derive(Clone)]
struct Cmt { n: u64, txid: Txid, htlcs: Vec<(u64, bool, u32, Option<u32>)>, outs: Vec<(u64, char)> }

fn describe(ct: &CommitmentTransaction, anchors: bool) -> Result<Cmt, String> {
	let t = ct.trust();
	let tx = &t.built_transaction().transaction;
	let mut kinds: Vec<Option<char>> = vec![None; tx.output.len()];
	if let Some(i) = t.revokeable_output_index() { kinds[i] = Some('L'); }
	let mut htlcs = vec![];
	for h in ct.nondust_htlcs() {
		let idx = h.transaction_output_index;
		if let Some(i) = idx {
			// well-formedness the theorem revoked_fully_claimed assumes (Body.WF): the index points at an output of the HTLC's value
			if i as usize >= tx.output.len() || tx.output[i as usize].value.to_sat() != h.amount_msat / 1000 || kinds[i as usize].is_some() {
				return Err(format!("commitment {} HTLC index {} does not point at its own output", ct.commitment_number(), i));
			}
			kinds[i as usize] = Some('H');
		}
		htlcs.push((h.amount_msat, h.offered, h.cltv_expiry, idx));
	}
	let outs = tx.output.iter().enumerate().map(|(i, o)| (o.value.to_sat(), kinds[i].unwrap_or(if anchors && o.value.to_sat() == 330 { 'A' } else { 'R' }))).collect();
	Ok(Cmt { n: ct.commitment_number(), txid: t.txid(), htlcs, outs })
}

fn htlc_tok(h: &(u64, bool, u32, Option<u32>)) -> String { format!("{}:{}:{}:{}", h.0, h.1 as u8, h.2, h.3.map(|i| i.to_string()).unwrap_or("-".into())) }
fn list_or_dash(v: Vec<String>, sep: &str) -> String { if v.is_empty() { "-".into() } else { v.join(sep) } }

fn fee_of(tx: &Transaction, prevouts: &HashMap<OutPoint, TxOut>) -> Option<u64> {
	let mut inp = 0u64;
	for i in &tx.input { inp += prevouts.get(&i.previous_output)?.value.to_sat(); }
	Some(inp - tx.output.iter().map(|o| o.value.to_sat()).sum::<u64>())
}

struct Outcome { ops: Vec<(String, String)>, directives: Vec<String>, class: String, oracle: Vec<String> }

fn justice_scenario(seed: u64, thorough: bool) -> Result<Outcome, String> {
	let mut rng = Rng::new(seed);
	let mut out = Outcome { ops: vec![], directives: vec![], class: String::new(), oracle: vec![] };
	let anchors = rng.chance(1, 3);
	let cfg = if anchors { test_default_channel_config() } else { test_legacy_channel_config() };
	let reload = rng.below(4);   // 1: monitor + manager serialised and reloaded before the confirmation, 2: after it
	let mut net = std::mem::ManuallyDrop::new(Net::new(2, vec![Some(cfg.clone()), Some(cfg)]));   // never dropped: skips Node::drop's end-of-test assertions (half-finished scenario by design)
	{	// block-delivery style from the scenario seed (create_network draws it from a per-process RandomState otherwise)
		use ConnectStyle::*;
		let styles = [BestBlockFirst, BestBlockFirstSkippingBlocks, BestBlockFirstReorgsOnlyTip, TransactionsFirst, TransactionsFirstSkippingBlocks,
			TransactionsDuplicativelyFirstSkippingBlocks, HighlyRedundantTransactionsFirstSkippingBlocks, TransactionsFirstReorgsOnlyTip, FullBlockViaListen,
			ReplayedFullBlockViaListen, FullBlockDisconnectionsSkippingViaListen];
		*net.nodes[0].connect_style.borrow_mut() = styles[rng.below(styles.len() as u64) as usize];
	}
	let c = net.open(0, 1, 1_000_000, 400_000_000);
	let chan_id = net.chans[c].2;
	let victim = 0usize; let cheater = 1usize;
	// ---- history ---------------------------------------------------------------------------------
	let n_before = rng.range(1, if thorough { 40 } else { 10 });
	let n_after = rng.range(5, if thorough { 60 } else { 14 });
	let mut pending: Vec<usize> = vec![];
	let mut captured: Option<Vec<Transaction>> = None;
	let mut n_updates = 0;
	let mut do_update = |net: &mut Net, rng: &mut Rng, pending: &mut Vec<usize>| {
		let act = rng.below(10);
		if act < 6 || pending.is_empty() {
			let (a, b) = if rng.chance(1, 2) { (0, 1) } else { (1, 0) };
			let amt = match rng.below(4) { 0 => rng.range(1_000, 500_000), 1 => rng.range(500_000, 600_000), _ => rng.range(1_000_000, 30_000_000) };
			if let Ok(p) = net.send(&[a, b], &[c], amt, 42 + rng.below(30) as u32) { pending.push(p); }
		} else if act < 9 {
			let k = rng.below(pending.len() as u64) as usize; let p = pending.remove(k); net.claim(p);
		} else {
			let k = rng.below(pending.len() as u64) as usize; let p = pending.remove(k); net.fail_back(p);
		}
		net.settle(40);
	};
	for _ in 0..n_before { do_update(&mut net, &mut rng, &mut pending); n_updates += 1; }
	// the cheater's fully signed current commitment + its HTLC transactions, BEFORE it is revoked
	{
		let mon = net.nodes[cheater].chain_monitor.chain_monitor.get_monitor(chan_id).map_err(|_| "no cheater monitor")?;
		captured = Some(mon.unsafe_get_latest_holder_commitment_txn(&net.nodes[cheater].logger));
	}
	for _ in 0..n_after { do_update(&mut net, &mut rng, &mut pending); n_updates += 1; }
	let captured = captured.unwrap();
	let revoked_tx = captured[0].clone();
	let revoked_txid = revoked_tx.compute_txid();
	// ---- replay the victim's REAL monitor updates as model ops --------------------------------------
	let mon = net.nodes[victim].chain_monitor.chain_monitor.get_monitor(chan_id).map_err(|_| "no victim monitor")?;
	let mut cmts: Vec<Cmt> = vec![];
	let init = mon.initial_counterparty_commitment_tx().ok_or("no initial counterparty commitment")?;
	let d = describe(&init, anchors)?;
	out.directives.push("reset".into());
	out.directives.push(format!("commit {} {}", d.n, list_or_dash(d.htlcs.iter().map(htlc_tok).collect(), ",")));
	let mut next_secret = d.n;
	cmts.push(d);
	let updates = net.nodes[victim].chain_monitor.monitor_updates.lock().unwrap().get(&chan_id).cloned().unwrap_or_default();
	for u in updates.iter() {
		let kinds = vh::monitor_update_step_kinds(u);
		let txs = mon.counterparty_commitment_txs_from_update(u);
		let mut ti = 0;
		for k in kinds {
			match k {
				"CounterpartyCommitmentTXInfo" | "CounterpartyCommitment" => {
					if ti >= txs.len() { return Err("counterparty commitment step without a rebuilt transaction".into()); }
					let d = describe(&txs[ti], anchors)?; ti += 1;
					out.directives.push(format!("commit {} {}", d.n, list_or_dash(d.htlcs.iter().map(htlc_tok).collect(), ",")));
					cmts.push(d);
				},
				"CommitmentSecret" => { out.ops.push((format!("secret {}", next_secret), "ok".into())); next_secret -= 1; },
				_ => {},
			}
		}
	}
	let me = cmts.iter().find(|c| c.txid == revoked_txid).cloned().ok_or("captured commitment unknown to the victim's monitor")?;
	let revoked = me.n > next_secret;
	if !revoked { return Err("captured commitment was not revoked by the later updates".into()); }
	// the retained data, straight from the model after all secrets
	out.ops.push((format!("data {}", me.n), list_or_dash(me.htlcs.iter().map(htlc_tok).collect(), ",")));
	drop(mon);   // the LockedChannelMonitor holds the ChainMonitor's read lock
	// ---- confirm the revoked commitment on the victim ---------------------------------------------------
	if rng.chance(1, 3) { *net.nodes[victim].fee_estimator.sat_per_kw.lock().unwrap() = 253 + rng.below(3000) as u32; }
	if reload == 1 { net.restart(victim).map_err(|e| format!("reload failed: {}", e))?; }
	let node = &net.nodes[victim];
	node.tx_broadcaster.txn_broadcasted.lock().unwrap().clear();
	let mut prevouts: HashMap<OutPoint, TxOut> = HashMap::new();
	for (i, o) in revoked_tx.output.iter().enumerate() { prevouts.insert(OutPoint { txid: revoked_txid, vout: i as u32 }, o.clone()); }
	mine_transaction(node, &revoked_tx);
	let close_height = node.best_block_info().1;
	let mut all_bcast: Vec<Transaction> = vec![];
	let mut take = |node: &Node, all: &mut Vec<Transaction>| -> Vec<Transaction> { let v: Vec<Transaction> = node.tx_broadcaster.txn_broadcasted.lock().unwrap().drain(..).collect();
		if std::env::var("C06_DEBUG").is_ok() { for t in &v { eprintln!("h={} bcast {} in={:?} out={:?}", node.best_block_info().1, t.compute_txid(), t.input.iter().map(|i| format!("{}:{}", &i.previous_output.txid.to_string()[..6], i.previous_output.vout)).collect::<Vec<_>>(), t.output.iter().map(|o| o.value.to_sat()).collect::<Vec<_>>()); } }
		all.extend(v.iter().cloned()); v };
	let first = take(node, &mut all_bcast);
	let tag = |op: &OutPoint, second: &Vec<Transaction>| -> Option<(u8, u32, u32)> {
		if op.txid == revoked_txid { return Some((0, 0, op.vout)); }
		second.iter().position(|t| t.compute_txid() == op.txid).map(|k| (1, k as u32, op.vout))
	};
	let show = |set: &BTreeSet<(u8, u32, u32)>| list_or_dash(set.iter().map(|t| if t.0 == 0 { format!("c{}", t.2) } else { format!("s{}:{}", t.1, t.2) }).collect(), " ");
	let outs_tok = list_or_dash(me.outs.iter().map(|(v, k)| format!("{}:{}", v, k)).collect(), ",");
	let none: Vec<Transaction> = vec![];
	let mut set_a = BTreeSet::new();
	for t in &first { for i in &t.input { match tag(&i.previous_output, &none) { Some(x) => { set_a.insert(x); }, None => out.oracle.push(format!("victim broadcast {} spends an unrelated outpoint {}", t.compute_txid(), i.previous_output)) } } }
	out.ops.push((format!("confirm {} {} -", me.n, outs_tok), show(&set_a)));
	if reload == 2 { net.restart(victim).map_err(|e| format!("reload failed: {}", e))?; }
	let node = &net.nodes[victim];
	// ---- a random subset of the cheater's second-stage transactions confirms ------------------------------
	let mut second: Vec<Transaction> = vec![];
	for t in captured.iter().skip(1) { if rng.chance(1, 2) { second.push(t.clone()); } }
	let mut set_b = set_a.clone();
	if !second.is_empty() {
		for t in &second {
			let id = t.compute_txid();
			for (i, o) in t.output.iter().enumerate() { prevouts.insert(OutPoint { txid: id, vout: i as u32 }, o.clone()); }
		}
		let refs: Vec<&Transaction> = second.iter().collect();
		if std::env::var("C06_DEBUG").is_ok() { for t in &second { eprintln!("second {} in={:?} out={:?} locktime {}", t.compute_txid(), t.input.iter().map(|i| i.previous_output.vout).collect::<Vec<_>>(), t.output.iter().map(|o| o.value.to_sat()).collect::<Vec<_>>(), t.lock_time); } }
		mine_transactions(node, &refs);
		let mut after = take(node, &mut all_bcast);
		// every pending package that can still be bumped is re-issued within LOW_FREQUENCY_BUMP_INTERVAL blocks
		connect_blocks(node, 15);
		after.extend(take(node, &mut all_bcast));
		// what the victim claims now: everything it ever tried to claim that the cheater's confirmed second-stage
		// transactions have not spent (a chain fact, not model logic), plus whatever it claims on top of those
		let gone: BTreeSet<OutPoint> = second.iter().flat_map(|t| t.input.iter().map(|i| i.previous_output)).collect();
		set_b = set_a.iter().filter(|x| !gone.contains(&OutPoint { txid: revoked_txid, vout: x.2 })).cloned().collect();
		for t in &after { for i in &t.input {
			if gone.contains(&i.previous_output) { out.oracle.push(format!("victim re-claims {} after the cheater's second-stage spend of it was confirmed", i.previous_output)); continue; }
			match tag(&i.previous_output, &second) { Some(x) => { set_b.insert(x); }, None => out.oracle.push(format!("victim broadcast {} spends an unrelated outpoint {}", t.compute_txid(), i.previous_output)) } } }
		let sec_tok = second.iter().map(|t| t.input.iter().filter(|i| i.previous_output.txid == revoked_txid).map(|i| i.previous_output.vout.to_string()).collect::<Vec<_>>().join("+")).collect::<Vec<_>>().join(",");
		out.ops.push((format!("confirm {} {} {}", me.n, outs_tok, sec_tok), show(&set_b)));
	} else if rng.chance(1, 2) {
		// fee-bump path: let timers fire with a rising estimator
		for _ in 0..rng.range(1, 3) { *node.fee_estimator.sat_per_kw.lock().unwrap() += rng.below(2000) as u32; connect_blocks(node, rng.range(1, 16) as u32); take(node, &mut all_bcast); }
	}
	// ---- implementation oracles -----------------------------------------------------------------------------
	// (1) consensus validity of every broadcast against the outputs it spends
	for t in &all_bcast {
		if let Err(e) = t.verify(|op| prevouts.get(op).cloned()) { out.oracle.push(format!("justice tx {} fails consensus verification: {:?}", t.compute_txid(), e)); }
	}
	// (2) coverage: every non-victim, non-anchor output is claimed, directly or through its confirmed second-stage child
	for (i, (_, k)) in me.outs.iter().enumerate() {
		if *k == 'L' || *k == 'H' {
			let direct = set_b.contains(&(0, 0, i as u32));
			let via = second.iter().enumerate().any(|(kk, t)| t.input.iter().enumerate().any(|(pos, inp)| inp.previous_output == OutPoint { txid: revoked_txid, vout: i as u32 } && set_b.contains(&(1, kk as u32, pos as u32))));
			if !(direct || via) { out.oracle.push(format!("output {} ({}) of revoked commitment {} is not claimed by any broadcast", i, k, me.n)); }
		} else if set_b.contains(&(0, 0, i as u32)) || set_a.contains(&(0, 0, i as u32)) { out.oracle.push(format!("victim claims its own/anchor output {}", i)); }
	}
	// (3) re-issued claims never lower the fee (same input set, later broadcast)
	let mut last_fee: BTreeMap<Vec<OutPoint>, u64> = BTreeMap::new();
	for t in &all_bcast {
		let mut key: Vec<OutPoint> = t.input.iter().map(|i| i.previous_output).collect(); key.sort();
		if let Some(f) = fee_of(t, &prevouts) {
			if let Some(prev) = last_fee.get(&key) { if f < *prev { out.oracle.push(format!("re-issued claim {} lowers its fee {} -> {}", t.compute_txid(), prev, f)); } }
			last_fee.insert(key, f);
		}
	}
	// (4) bury the latest non-conflicting claims; SpendableOutputs + fees = claimed value; balances drain
	let mut spent: BTreeSet<OutPoint> = BTreeSet::new();
	for t in &second { for i in &t.input { spent.insert(i.previous_output); } }
	let mut chosen: Vec<Transaction> = vec![];
	for t in all_bcast.iter().rev() {
		if t.input.iter().all(|i| !spent.contains(&i.previous_output)) { for i in &t.input { spent.insert(i.previous_output); } chosen.push(t.clone()); }
	}
	let claimed_value: u64 = chosen.iter().map(|t| t.input.iter().map(|i| prevouts[&i.previous_output].value.to_sat()).sum::<u64>()).sum();
	let fees: u64 = chosen.iter().map(|t| fee_of(t, &prevouts).unwrap_or(0)).sum();
	if !chosen.is_empty() { let refs: Vec<&Transaction> = chosen.iter().collect(); mine_transactions(node, &refs); }
	connect_blocks(node, ANTI_REORG_DELAY - 1);
	let mut swept = 0u64; let mut to_remote_swept = 0u64;
	let evs = node.chain_monitor.chain_monitor.get_and_clear_pending_events();
	for e in evs { if let Event::SpendableOutputs { outputs, .. } = e { for o in outputs { match o {
		SpendableOutputDescriptor::StaticOutput { output, .. } => swept += output.value.to_sat(),
		SpendableOutputDescriptor::StaticPaymentOutput(d) => to_remote_swept += d.output.value.to_sat(),
		SpendableOutputDescriptor::DelayedPaymentOutput(d) => swept += d.output.value.to_sat(),
	} } } }
	if node.best_block_info().1 < close_height + ANTI_REORG_DELAY - 1 { connect_blocks(node, ANTI_REORG_DELAY); }
	for e in node.chain_monitor.chain_monitor.get_and_clear_pending_events() { if let Event::SpendableOutputs { outputs, .. } = e { for o in outputs { if let SpendableOutputDescriptor::StaticPaymentOutput(d) = o { to_remote_swept += d.output.value.to_sat(); } } } }
	if swept + fees != claimed_value { out.oracle.push(format!("after burial SpendableOutputs {} + fees {} != claimed value {}", swept, fees, claimed_value)); }
	let my_to_remote: u64 = me.outs.iter().filter(|o| o.1 == 'R').map(|o| o.0).sum();
	if to_remote_swept != my_to_remote { out.oracle.push(format!("victim's own to_remote {} not reported spendable (got {})", my_to_remote, to_remote_swept)); }
	let mon = node.chain_monitor.chain_monitor.get_monitor(chan_id).map_err(|_| "no victim monitor")?;
	let bals = mon.get_claimable_balances();
	drop(mon);
	let left: Vec<&Balance> = bals.iter().filter(|b| !matches!(b, Balance::MaybePreimageClaimableHTLC { .. })).collect();
	if !left.is_empty() { out.oracle.push(format!("claimable balances do not drain after burial: {:?}", left)); }
	let n_htlc = me.outs.iter().filter(|o| o.1 == 'H').count();
	out.class = format!("justice:htlcs{}:second{}:toLocal{}:anchors{}:reload{}", n_htlc.min(4), second.len().min(3), me.outs.iter().any(|o| o.1 == 'L') as u8, anchors as u8, if reload < 3 { reload } else { 0 });
	let _ = n_updates;
	let _ = net.nodes[victim].node.get_and_clear_pending_events();
	let _ = net.nodes[victim].node.get_and_clear_pending_msg_events();
	Ok(out)
}

fn main() {
	let args = &parse_args("c06bump");
	let mut rec = Rec::new(&args.out, &args.model);
	let mut rng = Rng::new(args.seed);
	match args.model.as_str() {
		"c06bump" => bump::run_bump(&mut rec, &mut rng, args.thorough, args.scale),
		"c06justice" => {
			silence_stdout();
			let n = if args.thorough { 1200 } else { 120 } * args.scale;
			for k in 0..n {
				let s = rng.next();
				match guarded(AssertUnwindSafe(|| justice_scenario(s, args.thorough))) {
					Ok(Ok(o)) => {
						for d in &o.directives { rec.directive(d); }
						for (op, res) in &o.ops { let cl = if op.starts_with("confirm") { o.class.clone() } else { op.split(' ').next().unwrap().to_string() }; rec.case(op, res, &cl, op.starts_with("confirm")); }
						for f in o.oracle { rec.oracle_fail(format!("scenario {} (seed {}): {}", k, s, f)); }
					},
					Ok(Err(e)) => { rec.discarded += 1; *rec.classes.entry(format!("discarded:{}", e.chars().take(40).collect::<String>())).or_insert(0) += 1; },
					Err(p) => rec.oracle_fail(format!("scenario {} (seed {}) panicked: {}", k, s, p.replace('\n', " ").chars().take(300).collect::<String>())),
				}
			}
			rec.notes.insert("rule".into(), "one scenario = one real 2-node channel with a PRNG-drawn payment history (dust / near-dust / non-dust, both directions, claims and failures), the cheater's commitment captured at a random old state, a random subset of its HTLC transactions; distinct = distinct `confirm` op lines (commitment number + output layout + second-stage subset)".into());
		},
		m => { eprintln!("unknown model {}", m); std::process::exit(2); },
	}
	rec.finish();
}
