//! C06 — any revoked commitment the counterparty confirms is fully punished.
//! models:
//!   c06bump    — differential of the real feerate_bump / get_height_timer / package_locktime (see c06/bump.rs)
//!   c06justice — a real 2-node channel (functional_test_utils through sim::Net), random history of payments both
//!                ways incl. dust, the cheater's fully signed commitment captured at a random OLD state
//!                (`unsafe_get_latest_holder_commitment_txn`, harness feature `unsafe_revoked_tx_signing`) with its
//!                second-stage HTLC transactions, 5–30 more updates, then the captured transaction is confirmed on
//!                the victim.  Model ops (driver `c06justice`):
//!                  commit <n> <htlc,…|->   secret <n>      (replayed from the victim's REAL ChannelMonitorUpdates)
//!                  confirm <n> <out,…> <v+v,…|->   → the outpoints the victim's broadcasts spend (sorted)
//!                  chain <tip> <n> <out,…> <v+v,…|->  start of the chain model (Model/JusticeChain.lean): EVERY second-stage tx the cheater holds
//!                  conn <C|S<k>|J<outpoint>+…,…|->     a block is connected          → `claimable_outpoints` as `outpoint@creation_height …`
//!                  disc <newTip>                        blocks are disconnected       → the same        (hook `monitor_claims_view`)
//!                  rebc | reload                        rebroadcast_pending_claims / monitor + manager written and read back
//!                Second-stage transactions: legacy ones as signed by the cheater's monitor; anchor HTLC-timeout / -success (and legacy
//!                HTLC-success) built from the cheater's HTLC descriptors with 1–3 HTLC inputs and a fee input BEFORE / BETWEEN / AFTER them or
//!                none (`build_second_stage`).  They confirm in the SAME block as the revoked commitment (a third of the scenarios; every order
//!                the chain allows, unrelated transactions in between) or in later blocks — the block layout is part of every oracle message.
//!                After the revoked commitment (and a subset of the second-stage txs) confirmed: 0–3 REORGS with the fork point above every
//!                tracked tx / below the victim's confirmed justice tx / below the second-stage txs / below the commitment (never below a tx
//!                that has had ANTI_REORG_DELAY confirmations), the other branch re-including the cheater's / the victim's transactions or not
//!                (at the same, a later or an EARLIER height), every ConnectStyle in turn (the Listen-based `blocks_disconnected`, per-block and
//!                skipping `best_block_updated`, `transaction_unconfirmed`-only), reloads between the steps, the commitment confirming 20–45
//!                blocks late in a quarter of the scenarios.  Before the final drain the mempool FORGETS every earlier victim broadcast, so
//!                the outputs are recovered only if the claims are re-issued (height timers / rebroadcast_pending_claims).
//!                Implementation oracles (no model): after every step, every revoked output that exists unspent on the best chain has a
//!                registered claim with a pending request (or is parked in locktimed_packages), recorded with its parent's confirmation
//!                height, broadcast at least once, and re-issued within LOW_FREQUENCY_BUMP_INTERVAL of the last timer-setting issue; after
//!                the eviction every such output is spent by what rebroadcast_pending_claims / the timers emit; after the drain and CSV + 1
//!                more blocks no revoked output is left for the cheater; SpendableOutputs + fees = claimed value; balances drain;
//!                every broadcast verifies under libbitcoinconsensus against the
//!                outputs it spends; every output of the revoked transaction except the victim's own to_remote and
//!                anchors is spent by a broadcast (or its confirmed second-stage child is); re-issued claims never
//!                lower their fee; after burial SpendableOutputs appear, their value + fees = value claimed, and
//!                get_claimable_balances drains.
//!   c06scope   — pending splice: the per-FundingScope HTLC data and the punishment of a commitment signed while the splice was pending (c06/splice.rs)
#[path = "c06/bump.rs"]
mod bump;
#[path = "c06/pkgtrace.rs"]
mod pkgtrace;
#[path = "c06/splice.rs"]
mod splice;
use bitcoin::{OutPoint, Transaction, TxOut, Txid};
use ldk_verif_harness::common::*;
use ldk_verif_harness::sim::{silence_stdout, Net};
use lightning::chain::channelmonitor::{Balance, ANTI_REORG_DELAY};
use lightning::events::Event;
use lightning::ln::chan_utils::CommitmentTransaction;
use lightning::ln::functional_test_utils::*;
use lightning::ln::msgs::BaseMessageHandler;
use lightning::ln::verif_hooks as vh;
use lightning::sign::SpendableOutputDescriptor;
use std::collections::{BTreeMap, BTreeSet, HashMap};
use std::panic::AssertUnwindSafe;

/// what the harness knows about one counterparty commitment, from the victim's monitor updates
#[derive(Clone)]
struct Cmt { n: u64, txid: Txid, htlcs: Vec<(u64, bool, u32, Option<u32>)>, outs: Vec<(u64, char)> }

fn describe(ct: &CommitmentTransaction, anchors: bool) -> Result<Cmt, String> {
	let t = ct.trust();
	let tx = &t.built_transaction().transaction;
	let mut kinds: Vec<Option<char>> = vec![None; tx.output.len()];
	if let Some(i) = t.revokeable_output_index() { kinds[i] = Some('L'); }
	let mut htlcs = vec![];
	for h in ct.nondust_htlcs() {
		let idx = h.transaction_output_index;
		if let Some(i) = idx {
			// well-formedness the theorem revoked_fully_claimed assumes (Body.WF): the index points at an output of the HTLC's value
			if i as usize >= tx.output.len() || tx.output[i as usize].value.to_sat() != h.amount_msat / 1000 || kinds[i as usize].is_some() {
				return Err(format!("commitment {} HTLC index {} does not point at its own output", ct.commitment_number(), i));
			}
			kinds[i as usize] = Some('H');
		}
		htlcs.push((h.amount_msat, h.offered, h.cltv_expiry, idx));
	}
	let outs = tx.output.iter().enumerate().map(|(i, o)| (o.value.to_sat(), kinds[i].unwrap_or(if anchors && o.value.to_sat() == 330 { 'A' } else { 'R' }))).collect();
	Ok(Cmt { n: ct.commitment_number(), txid: t.txid(), htlcs, outs })
}

fn htlc_tok(h: &(u64, bool, u32, Option<u32>)) -> String { format!("{}:{}:{}:{}", h.0, h.1 as u8, h.2, h.3.map(|i| i.to_string()).unwrap_or("-".into())) }
fn list_or_dash(v: Vec<String>, sep: &str) -> String { if v.is_empty() { "-".into() } else { v.join(sep) } }

fn fee_of(tx: &Transaction, prevouts: &HashMap<OutPoint, TxOut>) -> Option<u64> {
	let mut inp = 0u64;
	for i in &tx.input { inp += prevouts.get(&i.previous_output)?.value.to_sat(); }
	Some(inp - tx.output.iter().map(|o| o.value.to_sat()).sum::<u64>())
}

/// `ops`: (op line, implementation answer — `None` = a directive whose answer is not compared, class)
struct Outcome { ops: Vec<(String, Option<String>, String)>, directives: Vec<String>, class: String, oracle: Vec<String>, extra_classes: Vec<String> }

/// the op / directive stream of one scenario, in file order (`None` answer = directive)
#[derive(Default)]
struct Stream { lines: Vec<(String, Option<String>, String)> }

thread_local! { static HIST: std::cell::RefCell<Vec<String>> = std::cell::RefCell::new(vec![]); }
fn hist_push(s: String) { HIST.with(|h| h.borrow_mut().push(s)); }
fn hist_show() -> String { HIST.with(|h| h.borrow().join("; ")) }

const LOW_FREQUENCY_BUMP_INTERVAL: u32 = 15;
/// candidate finding (see tools/cfg/C06.py `findings`): every oracle message of a scenario that ran into it carries this text
/// Only the symptoms of that defect are tagged (claim lost / nothing rebroadcast / cheater can spend / balance left, for outputs of a
/// transaction re-confirmed lower under TransactionsFirstReorgsOnlyTip); every other failure of the same scenario stays untagged.
const KF1: &str = "KF-C06-1 justice claim lost after its parent transaction was re-confirmed at a LOWER height through the Confirm interface (transaction_unconfirmed, then transactions_confirmed before best_block_updated): the re-confirmation is ignored as already registered, claimable_outpoints keeps the old higher creation height, and the next best_block_updated below it drops the claim although the parent is confirmed";
/// `on_counterparty_tx_csv` of the test channel configs (`our_to_self_delay` = BREAKDOWN_TIMEOUT)
const CSV: u32 = lightning::ln::channelmanager::BREAKDOWN_TIMEOUT as u32;

/// best chain of the node as the harness (the "miner") knows it: tip, confirmation height of every transaction, spender of every outpoint
fn chain_view(node: &Node) -> (u32, HashMap<Txid, u32>, HashMap<OutPoint, (Txid, u32)>) {
	let blocks = node.blocks.lock().unwrap();
	let mut conf = HashMap::new(); let mut spent = HashMap::new();
	for (b, h) in blocks.iter() { for t in b.txdata.iter() { if t.input.is_empty() { continue; } let id = t.compute_txid(); conf.insert(id, *h); for i in &t.input { spent.insert(i.previous_output, (id, *h)); } } }
	(blocks.last().unwrap().1, conf, spent)
}

/// TestChainMonitor asserts `monitor == its write/read round trip` inside update_channel: which fields differ (diagnostic for such a panic)
fn roundtrip_detail(node: &Node, chan_id: lightning::ln::types::ChannelId) -> String {
	guarded(AssertUnwindSafe(|| { match node.chain_monitor.chain_monitor.get_monitor(chan_id) { Ok(mon) => {
		use lightning::util::ser::{ReadableArgs, Writeable};
		let bytes = mon.encode(); let mut cur = lightning::io::Cursor::new(&bytes[..]);
		match <(lightning::chain::BlockLocator, lightning::chain::channelmonitor::ChannelMonitor<lightning::util::test_channel_signer::TestChannelSigner>)>::read(&mut cur, (node.keys_manager, node.keys_manager)) {
			Ok((_, m2)) => format!("monitor vs its round trip now: fields {:?} {:?} differ", mon.verif_unequal_fields(&m2), mon.verif_unequal_onchain_fields(&m2)), Err(e) => format!("unreadable: {:?}", e) } }, Err(_) => "no monitor".to_string() } })).unwrap_or_else(|e| format!("(diagnostic panicked: {})", e.chars().take(80).collect::<String>()))
}

/// everything the reorg part of a scenario tracks
struct Ctx {
	seed: u64, style: String, chan_id: lightning::ln::types::ChannelId,
	/// ConnectStyle that does not tell the monitor which blocks went away at disconnection time (`*ReorgsOnlyTip`: only
	/// `transaction_unconfirmed`): claims of an unconfirmed parent may linger, so after the first disconnection the chain ops
	/// are not compared with the model (the implementation oracles still apply)
	lax: bool, disconnected_once: bool,
	funding: OutPoint, revoked_txid: Txid, me: Cmt,
	/// every second-stage transaction the cheater holds for the revoked commitment (model index = position)
	cand: Vec<Transaction>, cand_ids: Vec<Txid>,
	/// unrelated transactions mined between the interesting ones (they must not confuse the block filter); not part of the model ops
	noise: BTreeSet<Txid>,
	/// the victim's own commitment transaction(s) (they spend the funding output): broadcast, with the HTLC claims on top of them, when its
	/// own HTLCs time out before the cheater moves, or when a reload finds the channel closed while a reorg has un-confirmed the revoked one
	own_commitments: BTreeSet<Txid>,
	prevouts: HashMap<OutPoint, TxOut>,
	/// every victim broadcast with the height at which it was seen; `[..evicted]` have left the mempool
	bcast: Vec<(u32, Transaction)>, evicted: usize,
	last_issue: BTreeMap<OutPoint, u32>, last_fee: BTreeMap<Vec<OutPoint>, u64>,
	spendable: BTreeMap<OutPoint, u64>, to_remote: BTreeMap<OutPoint, u64>,
	/// transactions that have had ANTI_REORG_DELAY confirmations at some point: final (the library's re-org assumption), never disconnected again
	final_txs: BTreeSet<Txid>,
	/// highest height at which each of the cheater's transactions was ever confirmed / those now confirmed lower than that
	max_conf: BTreeMap<Txid, u32>,
	/// outputs matching the delivery pattern of KF-C06-1: `transaction_unconfirmed(parent)`, then `transactions_confirmed` of the parent at a
	/// LOWER height before `best_block_updated` (style TransactionsFirstReorgsOnlyTip), after which their claim is gone
	kf1: BTreeSet<OutPoint>, kf1_style: bool,
	/// while a multi-block disconnection is delivered block by block the handler may re-issue a resurrected claim at any intermediate
	/// height (its timer counts from there): issues seen during a disconnection are dated at the old tip
	issue_height_override: Option<u32>,
	fork_id: u32, stream: Stream, oracle: Vec<String>, soft: Vec<String>, soft_kinds: BTreeSet<(&'static str, bool)>, classes: Vec<String>, stale_seen: u32,
}

impl Ctx {
	fn tag(&self, op: &OutPoint) -> Option<(u8, u32, u32)> {
		if op.txid == self.revoked_txid { return Some((0, 0, op.vout)); }
		self.cand_ids.iter().position(|t| *t == op.txid).map(|k| (1, k as u32, op.vout))
	}
	fn show_tag(t: &(u8, u32, u32)) -> String { if t.0 == 0 { format!("c{}", t.2) } else { format!("s{}:{}", t.1, t.2) } }
	fn name(&self, op: &OutPoint) -> String { self.tag(op).map(|t| Self::show_tag(&t)).unwrap_or_else(|| format!("{}", op)) }
	fn is_victim_tx(&self, id: &Txid) -> bool { self.bcast.iter().any(|(_, t)| t.compute_txid() == *id) }
	/// recorded once per kind; the scenario goes on (what finally matters is whether the output is recovered)
	fn fail_soft(&mut self, kind: &'static str, what: String) { self.fail_soft_for(kind, None, what) }
	/// `about`: the outpoint the message is about; tagged as KF-C06-1 only if that outpoint matches the finding's delivery pattern
	fn fail_soft_for(&mut self, kind: &'static str, about: Option<&OutPoint>, what: String) {
		let tagged = about.map(|x| self.kf1.contains(x)).unwrap_or(false);
		let what = if tagged { format!("{}: {}", KF1, what) } else { what };
		if self.soft_kinds.insert((kind, tagged)) { let m = format!("{} — history (seed {}, {}): {}", what, self.seed, self.style, hist_show()); self.soft.push(m); } }
	fn fail_for(&mut self, about: &OutPoint, what: String) { let what = if self.kf1.contains(about) { format!("{}: {}", KF1, what) } else { what }; self.fail(what) }
	fn fail(&mut self, what: String) { let m = format!("{} — history (seed {}, {}): {}", what, self.seed, self.style, hist_show()); if self.oracle.len() < 6 { self.oracle.push(m); } }
	/// input by input: the commitment output it spends (with the 5-element witness of an HTLC transaction), `x` for anything else
	fn inputs_tok(&self, t: &Transaction) -> String { t.input.iter().map(|i| if i.previous_output.txid == self.revoked_txid && i.witness.len() == 5 { i.previous_output.vout.to_string() } else { "x".to_string() }).collect::<Vec<_>>().join("+") }
	fn layout_class(&self, t: &Transaction, same_block: bool) -> String {
		let toks: Vec<bool> = t.input.iter().map(|i| i.previous_output.txid == self.revoked_txid && i.witness.len() == 5).collect();
		let n = toks.iter().filter(|b| **b).count();
		let fee = match toks.iter().position(|b| !*b) { None => "none", Some(0) => "first", Some(p) if p + 1 == toks.len() => "last", Some(_) => "middle" };
		format!("second-stage:{}:htlc-inputs{}:fee-input-{}", if same_block { "same-block-as-commitment" } else { "later-block" }, n.min(3), fee)
	}
	fn noise_tx(&mut self, rng: &mut Rng) -> Transaction {
		use bitcoin::{absolute::LockTime, transaction::Version, Amount, ScriptBuf, Sequence, TxIn, Witness};
		let mut id = [0u8; 32]; id[0] = 0xaa; id[2..10].copy_from_slice(&rng.next().to_le_bytes());
		let t = Transaction { version: Version::TWO, lock_time: LockTime::ZERO,
			input: vec![TxIn { previous_output: OutPoint { txid: Txid::from_raw_hash(bitcoin::hashes::Hash::from_byte_array(id)), vout: 1 }, script_sig: ScriptBuf::new(), sequence: Sequence::MAX, witness: Witness::new() }],
			output: vec![TxOut { value: Amount::from_sat(1234), script_pubkey: ScriptBuf::new_op_return(&[]) }] };
		self.noise.insert(t.compute_txid());
		t
	}
	/// model token of a transaction in a block: `C`, `S<k>`, `J<op>+<op>…`
	fn tx_tok(&self, t: &Transaction) -> String {
		let id = t.compute_txid();
		if id == self.revoked_txid { return "C".into(); }
		if let Some(k) = self.cand_ids.iter().position(|x| *x == id) { return format!("S{}", k); }
		format!("J{}", t.input.iter().map(|i| self.name(&i.previous_output)).collect::<Vec<_>>().join("+"))
	}
	/// the revoked outputs that exist on the best chain: to_local / HTLC outputs of the confirmed revoked commitment and, for every
	/// confirmed second-stage transaction, the output at the index of each input that spends the commitment with a 5-element witness
	fn revocable(&self, conf: &HashMap<Txid, u32>) -> Vec<(OutPoint, u32)> {
		let mut v = vec![];
		if let Some(h) = conf.get(&self.revoked_txid) { for (i, (_, k)) in self.me.outs.iter().enumerate() { if *k == 'L' || *k == 'H' { v.push((OutPoint { txid: self.revoked_txid, vout: i as u32 }, *h)); } } }
		for (k, t) in self.cand.iter().enumerate() { if let Some(h) = conf.get(&self.cand_ids[k]) {
			for (idx, inp) in t.input.iter().enumerate() { if inp.previous_output.txid == self.revoked_txid && inp.witness.len() == 5 && idx < t.output.len() { v.push((OutPoint { txid: self.cand_ids[k], vout: idx as u32 }, *h)); } }
		} }
		v
	}
	/// a claim whose next 25 % bump (or a fee at the half-of-inputs cap) would leave less than the dust limit is not re-issued by the
	/// height timer (feerate_bump answers None): exempt from the window oracle, still subject to the rebroadcast / drain oracles
	fn unbumpable(&self, x: &OutPoint) -> bool {
		if self.prevouts.get(x).map(|o| o.value.to_sat()).unwrap_or(0) < 1300 { return true; }   // alone in its package after a split
		for (_, t) in self.bcast.iter().rev() { if t.input.iter().any(|i| i.previous_output == *x) {
			let inp: u64 = t.input.iter().map(|i| self.prevouts.get(&i.previous_output).map(|o| o.value.to_sat()).unwrap_or(0)).sum();
			let fee = inp.saturating_sub(t.output.iter().map(|o| o.value.to_sat()).sum::<u64>());
			return inp < 1300 || inp < fee + fee / 4 + 20 + 650;
		} }
		false
	}

	/// collect what the victim did during the last step, compare the claim bookkeeping with the model, run the per-step oracles
	fn after(&mut self, net: &Net, op: Option<String>, class: &str) {
		let node = &net.nodes[0];
		let v: Vec<Transaction> = node.tx_broadcaster.txn_broadcasted.lock().unwrap().drain(..).collect();
		let (tip, conf, spent) = chain_view(node);
		for (id, h) in conf.iter() { if *h + ANTI_REORG_DELAY - 1 <= tip { self.final_txs.insert(*id); } let e = self.max_conf.entry(*id).or_insert(*h); if *h > *e { *e = *h; } }
		for t in v {
			if std::env::var("C06_DEBUG").is_ok() { eprintln!("h={} bcast {} in={:?} out={:?}", tip, t.compute_txid(), t.input.iter().map(|i| self.name(&i.previous_output)).collect::<Vec<_>>(), t.output.iter().map(|o| o.value.to_sat()).collect::<Vec<_>>()); }
			// the victim's OWN latest commitment: broadcast (legitimately) when a reload finds the channel closed while the reorg has
			// left the funding output unspent; it never confirms here (the cheater's transaction is re-mined first)
			if !t.input.is_empty() && t.input.iter().all(|i| self.own_commitments.contains(&i.previous_output.txid)) { self.classes.push("own-htlc-claim-broadcast".into()); continue; }
			if t.input.len() == 1 && t.input[0].previous_output == self.funding { self.own_commitments.insert(t.compute_txid()); self.classes.push("own-commitment-broadcast-while-revoked-one-unconfirmed".into()); if conf.get(&self.revoked_txid).map(|h| *h < tip).unwrap_or(false) { self.fail("victim broadcasts its own commitment although the revoked one is confirmed below the tip".into()); } continue; }
			let mut unrelated = false;
			// `rebroadcast_pending_claims` re-issues without touching the request's height timer: the timer deadline below counts from the
			// last issue that SET the timer (registration, a bump at timer expiry, a split, a resurrection in blocks_disconnected)
			let sets_timer = op.as_deref() != Some("rebc");
			for i in &t.input { if self.tag(&i.previous_output).is_none() { unrelated = true; } if sets_timer || !self.last_issue.contains_key(&i.previous_output) { self.last_issue.insert(i.previous_output, self.issue_height_override.unwrap_or(tip)); } }
			if unrelated { self.fail(format!("victim broadcast {} spends an unrelated outpoint", t.compute_txid())); continue; }
			if let Err(e) = t.verify(|op| self.prevouts.get(op).cloned()) { self.fail(format!("justice tx {} (inputs {}) fails consensus verification: {:?}", t.compute_txid(), self.tx_tok(&t), e)); }
			let mut key: Vec<OutPoint> = t.input.iter().map(|i| i.previous_output).collect(); key.sort();
			if let Some(f) = fee_of(&t, &self.prevouts) {
				// a plain rebroadcast recomputes its fee from the stored feerate (`previous_feerate * weight / 1000`, Generated/Package.lean
				// feerateBump, arms retryPrevious / highestOfPreviousOrNew): it may fall short of the last fee by the rounding of fee -> rate -> fee
				let slack = t.weight().to_wu() / 1000 + 2;
				if let Some(prev) = self.last_fee.get(&key) { if f + slack < *prev { self.fail(format!("re-issued claim {} lowers its fee {} -> {}", self.tx_tok(&t), prev, f)); } }
				self.last_fee.insert(key, f);
			}
			self.bcast.push((tip, t));
		}
		// the ChannelManager polls the monitor's events after every step, as a running node does (left unpolled across a reorg, a pending
		// MonitorEvent::HTLCEvent suppresses the re-queued HTLC resolution when a second-stage transaction re-confirms: KF-C11-1, recorded under C11)
		if let Err(p) = guarded(AssertUnwindSafe(|| { let _ = node.node.get_and_clear_pending_msg_events(); let _ = node.node.get_and_clear_pending_events(); })) { panic!("{} [{}]", p, roundtrip_detail(node, self.chan_id)); }
		for e in node.chain_monitor.chain_monitor.get_and_clear_pending_events() { if let Event::SpendableOutputs { outputs, .. } = e { for o in outputs { match o {
			SpendableOutputDescriptor::StaticOutput { outpoint, output, .. } => { self.spendable.insert(outpoint.into_bitcoin_outpoint(), output.value.to_sat()); },
			SpendableOutputDescriptor::StaticPaymentOutput(d) => { self.to_remote.insert(d.outpoint.into_bitcoin_outpoint(), d.output.value.to_sat()); },
			SpendableOutputDescriptor::DelayedPaymentOutput(d) => { self.spendable.insert(d.outpoint.into_bitcoin_outpoint(), d.output.value.to_sat()); },
		} } } }
		let (claimable, locktimed) = match node.chain_monitor.chain_monitor.get_monitor(self.chan_id) { Ok(mon) => {
			// the monitor as it would come back from disk must be the monitor (a reload can happen at any point)
			use lightning::util::ser::{ReadableArgs, Writeable};
			let bytes = mon.encode();
			let mut cur = lightning::io::Cursor::new(&bytes[..]);
			match <(lightning::chain::BlockLocator, lightning::chain::channelmonitor::ChannelMonitor<lightning::util::test_channel_signer::TestChannelSigner>)>::read(&mut cur, (node.keys_manager, node.keys_manager)) {
				Ok((_, m2)) => if !mon.verif_eq_modulo_unserialized(&m2) {
					let (f1, f2) = (mon.verif_unequal_fields(&m2), mon.verif_unequal_onchain_fields(&m2));
					// PackageTemplate::read zeroes `counterparty_spendable_height` of a package holding a non-offered RevokedHTLCOutput whose
					// cltv_expiry EQUALS it (a pre-0.1 compatibility fix-up; happens when the revoked commitment confirms exactly at that height):
					// the value only feeds merge decisions that treat every height below the tip alike — a C12 (round-trip equality) matter, counted
					if f1 == vec!["onchain_tx_handler"] && f2.iter().all(|d| d.ends_with(":[\"counterparty_spendable_height\"]")) { self.classes.push("round-trip:counterparty_spendable_height-zeroed-on-read".into()); }
					else { let what = format!("the victim's monitor != its write/read round trip: fields {:?} {:?} differ", f1, f2); self.fail_soft("round-trip", what); } },
				Err(e) => self.fail_soft("round-trip", format!("the victim's monitor does not read back: {:?}", e)),
			}
			let (c, l, _, _) = vh::monitor_claims_view(&mon); (c, l) }, Err(_) => { self.fail("victim monitor disappeared".into()); return; } };
		if !locktimed.is_empty() && !self.classes.iter().any(|c| c.starts_with("resurrected-claim-parked")) { self.classes.push(format!("resurrected-claim-parked-in-locktimed_packages:{}", if self.lax { "txonly" } else { "full" })); }
		// ---- the claim bookkeeping as the model sees it: `outpoint@creation_height` of every entry whose parent is on the best chain
		let mut line: BTreeSet<((u8, u32, u32), u32)> = BTreeSet::new();
		for (o, created, _) in claimable.iter() { match self.tag(o) {
			Some(t) => { if conf.contains_key(&o.txid) { line.insert((t, *created)); } else { self.stale_seen += 1; } },
			None => if *o != self.funding { self.fail(format!("claim registered for an unrelated outpoint {}", o)) },
		} }
		let answer = list_or_dash(line.iter().map(|(t, c)| format!("{}@{}", Self::show_tag(t), c)).collect(), " ");
		if let Some(op) = op {
			if self.lax && self.disconnected_once { self.stream.lines.push((op, None, String::new())); } else { self.stream.lines.push((op, Some(answer.clone()), class.to_string())); }
		}
		if std::env::var("C06_DEBUG").is_ok() { eprintln!("h={} claims {} locktimed {:?} stale {}", tip, answer, locktimed.iter().map(|l| self.name(&l.0)).collect::<Vec<_>>(), self.stale_seen); }
		// ---- oracle: every revoked output that exists unspent on the best chain has a pending claim, created at its parent's height, and is re-issued in time
		for (x, ph) in self.revocable(&conf) {
			if spent.contains_key(&x) { continue; }
			let parked = locktimed.iter().any(|l| l.0 == x);
			// the signature of KF-C06-1: txonly style, the parent is now confirmed below an earlier confirmation, the claim is gone
			if self.kf1_style && !parked && claimable.iter().find(|c| c.0 == x).map(|c| !c.2).unwrap_or(true) && self.max_conf.get(&x.txid).map(|m| *m > ph).unwrap_or(false) { self.kf1.insert(x); }
			match claimable.iter().find(|c| c.0 == x) {
				None => { if !parked { self.fail_soft_for("no-claim", Some(&x), format!("revoked output {} of confirmed tx {} (height {}) is unspent on the best chain (tip {}) but no claim for it is pending", self.name(&x), x.txid, ph, tip)); continue; } },
				Some((_, created, pending)) => {
					if !*pending && !parked { self.fail_soft_for("no-request", Some(&x), format!("revoked output {} (parent confirmed at {}) is unspent on the best chain (tip {}) and still registered, but its claim request is gone: nothing will be rebroadcast for it", self.name(&x), ph, tip)); continue; }
					if !self.lax && *created != ph { self.fail_soft("creation-height", format!("claim on revoked output {} records creation height {} but its parent transaction is confirmed at height {} (tip {})", self.name(&x), created, ph, tip)); }
				},
			}
			match self.last_issue.get(&x) {
				None => { self.fail_soft("never-broadcast", format!("claim on revoked output {} (parent confirmed at {}) was never broadcast (tip {})", self.name(&x), ph, tip)); },
				Some(li) => if tip > li + LOW_FREQUENCY_BUMP_INTERVAL { if self.unbumpable(&x) { self.classes.push("window:exempt-unbumpable".into()); } else {
					self.fail_soft("window", format!("claim on revoked output {} last had its height timer set at height {} and was not re-issued by height {} (> LOW_FREQUENCY_BUMP_INTERVAL later)", self.name(&x), li, tip)); } },
			}
		}
	}

	fn connect(&mut self, net: &Net, txs: Vec<Transaction>, class: &str) {
		let node = &net.nodes[0];
		let h = node.best_block_info().1 + 1;
		let toks = list_or_dash(txs.iter().filter(|t| !self.noise.contains(&t.compute_txid())).map(|t| self.tx_tok(t)).collect(), ",");
		// the block layout as mined: every transaction in order, second-stage transactions with their input list
		hist_push(format!("connect@{}[{}]", h, list_or_dash(txs.iter().map(|t| { let id = t.compute_txid(); if self.noise.contains(&id) { "noise".to_string() } else if let Some(k) = self.cand_ids.iter().position(|x| *x == id) { format!("S{}(inputs {})", k, self.inputs_tok(t)) } else { self.tx_tok(t) } }).collect(), ",")));
		// a claim regenerated after its parent re-confirms starts from a fresh feerate
		if txs.iter().any(|t| { let id = t.compute_txid(); id == self.revoked_txid || self.cand_ids.contains(&id) }) { self.last_fee.clear(); }
		let block = create_dummy_block(node.best_block_hash(), h + self.fork_id * 100_000, txs);
		if let Err(p) = guarded(AssertUnwindSafe(|| connect_block(node, &block))) { panic!("{} [{}]", p, roundtrip_detail(node, self.chan_id)); }
		self.after(net, Some(format!("conn {}", toks)), class);
	}
	/// `n` empty blocks through `connect_blocks` (the `*SkippingBlocks` styles deliver only the last one)
	fn connect_empty(&mut self, net: &Net, n: u32) {
		if n == 0 { return; }
		hist_push(format!("connect {} empty", n));
		connect_blocks(&net.nodes[0], n);
		for _ in 1..n { self.stream.lines.push(("conn -".into(), None, String::new())); }
		self.after(net, Some("conn -".into()), "chain:empty");
	}
	fn disconnect(&mut self, net: &Net, depth: u32, class: &str) {
		let node = &net.nodes[0];
		let new_tip = node.best_block_info().1 - depth;
		hist_push(format!("disconnect {} -> tip {}", depth, new_tip));
		disconnect_blocks(node, depth);
		self.fork_id += 1; self.disconnected_once = true;
		self.last_fee.clear();   // a claim regenerated after its parent re-confirms starts from a fresh feerate
		self.issue_height_override = Some(new_tip + depth);
		self.after(net, Some(format!("disc {}", new_tip)), class);
		self.issue_height_override = None;
	}
	fn rebroadcast(&mut self, net: &Net) {
		hist_push("rebroadcast_pending_claims".into());
		net.nodes[0].chain_monitor.chain_monitor.rebroadcast_pending_claims();
		self.after(net, Some("rebc".into()), "chain:rebroadcast");
	}
	fn reload(&mut self, net: &mut Net) -> Result<(), String> {
		hist_push("reload".into());
		net.restart(0).map_err(|e| format!("reload failed: {}", e))?;
		self.after(net, Some("reload".into()), "chain:reload");
		Ok(())
	}
	/// the victim's latest non-conflicting transactions still in the mempool that are valid on the best chain
	fn pick_mempool(&self, net: &Net) -> Vec<Transaction> {
		let (_, conf, spent) = chain_view(&net.nodes[0]);
		let mut used: BTreeSet<OutPoint> = BTreeSet::new(); let mut chosen = vec![];
		for (_, t) in self.bcast[self.evicted..].iter().rev() {
			if conf.contains_key(&t.compute_txid()) { continue; }
			if t.input.iter().all(|i| conf.contains_key(&i.previous_output.txid) && !spent.contains_key(&i.previous_output) && !used.contains(&i.previous_output)) {
				for i in &t.input { used.insert(i.previous_output); }
				chosen.push(t.clone());
			}
		}
		chosen
	}

	/// one reorg: disconnect down to a fork point chosen relative to the tracked transactions, then connect a different branch
	fn reorg_round(&mut self, net: &mut Net, rng: &mut Rng) -> Result<bool, String> {
		let (tip, conf, _) = chain_view(&net.nodes[0]);
		let h_c = match conf.get(&self.revoked_txid) { Some(h) => *h, None => return Ok(false) };
		let s_heights: Vec<u32> = self.cand_ids.iter().filter_map(|i| conf.get(i).cloned()).collect();
		let j_heights: Vec<u32> = conf.iter().filter(|(id, _)| self.is_victim_tx(id)).map(|(_, h)| *h).collect();
		let tracked: Vec<u32> = std::iter::once(h_c).chain(s_heights.iter().cloned()).chain(j_heights.iter().cloned()).collect();
		// a transaction with ANTI_REORG_DELAY confirmations is final (the library's assumption): never disconnect one
		let floor = conf.iter().filter(|(id, _)| self.final_txs.contains(*id)).map(|(_, h)| *h).max().unwrap_or(0).max(h_c.saturating_sub(3));
		let top = *tracked.iter().max().unwrap();
		let mut cats: Vec<(&str, u32, u32)> = vec![("above", top, tip - 1)];
		let base = s_heights.iter().max().cloned().unwrap_or(h_c).max(h_c);
		if let Some(mj) = j_heights.iter().max() { if *mj > base { cats.push(("belowJ", base, mj - 1)); } }
		if let Some(ms) = s_heights.iter().max() { if *ms > h_c { cats.push(("belowS", h_c, ms - 1)); } }
		cats.push(("belowC", h_c.saturating_sub(3), h_c - 1));
		let cats: Vec<(&str, u32, u32)> = cats.into_iter().filter_map(|(n, lo, hi)| { let lo = lo.max(floor); let hi = hi.min(tip - 1); if lo <= hi && tip >= 1 { Some((n, lo, hi)) } else { None } }).collect();
		if cats.is_empty() { return Ok(false); }
		let (cat, lo, hi) = cats[rng.below(cats.len() as u64) as usize];
		let new_tip = match rng.below(3) { 0 => lo, 1 => hi, _ => rng.range(lo as u64, hi as u64) as u32 };
		let depth = tip - new_tip;
		// what goes away, in chain order
		let gone: Vec<Transaction> = { let blocks = net.nodes[0].blocks.lock().unwrap(); blocks.iter().filter(|(_, h)| *h > new_tip).flat_map(|(b, _)| b.txdata.iter().filter(|t| !t.input.is_empty()).cloned().collect::<Vec<_>>()).collect() };
		let mempool_now = self.pick_mempool(net);
		self.disconnect(net, depth, &format!("reorg:{}:depth{}", cat, depth.min(4)));
		self.classes.push(format!("reorg:{}:{}", cat, if self.lax { "txonly" } else { "full" }));
		if !self.oracle.is_empty() { return Ok(true); }
		if rng.chance(1, 6) { self.reload(net)?; }
		if !self.lax && rng.chance(1, 6) { self.rebroadcast(net); }
		// ---- the other branch
		let n_new = if rng.chance(1, 6) { depth.saturating_sub(1).max(1) } else { depth + rng.below(3) as u32 };
		let mut slots: Vec<Vec<Transaction>> = vec![vec![]; n_new as usize];
		let c_gone = gone.iter().any(|t| t.compute_txid() == self.revoked_txid);
		let p_c = if c_gone { rng.below(n_new.min(3) as u64) as usize } else { 0 };
		for t in gone.iter() {
			let id = t.compute_txid();
			if self.noise.contains(&id) { continue; }
			if id == self.revoked_txid { slots[p_c].push(t.clone()); }
			else if self.cand_ids.contains(&id) { if rng.chance(3, 4) { slots[rng.range(p_c as u64, n_new as u64 - 1) as usize].push(t.clone()); } else { self.classes.push("reorg:second-stage-dropped".into()); } }
			else if rng.chance(1, 3) { slots[rng.range(p_c as u64, n_new as u64 - 1) as usize].push(t.clone()); self.classes.push("reorg:justice-reincluded".into()); }
			else { self.classes.push("reorg:justice-withheld".into()); }
		}
		for (k, t) in self.cand.iter().enumerate() { if !conf.contains_key(&self.cand_ids[k]) && rng.chance(1, 6) { slots[rng.range(p_c as u64, n_new as u64 - 1) as usize].push(t.clone()); } }
		for t in mempool_now { if rng.chance(1, 5) { slots[rng.below(n_new as u64) as usize].push(t); } }
		for (bi, slot) in slots.into_iter().enumerate() {
			// block order: commitment, second stage, victim; anything not valid on this branch is left out (the miner's view)
			let (_, conf2, spent2) = chain_view(&net.nodes[0]);
			let mut txs: Vec<Transaction> = vec![]; let mut here: BTreeSet<Txid> = BTreeSet::new(); let mut used: BTreeSet<OutPoint> = BTreeSet::new();
			let rank = |s: &Ctx, t: &Transaction| { let id = t.compute_txid(); if id == s.revoked_txid { 0 } else if s.cand_ids.contains(&id) { 1 } else { 2 } };
			// every order the chain allows: parents first, otherwise shuffled
			let mut slot = slot;
			for i in (1..slot.len()).rev() { let j = rng.below(i as u64 + 1) as usize; slot.swap(i, j); }
			slot.sort_by_key(|t| rank(self, t));
			for t in slot {
				let id = t.compute_txid();
				if conf2.contains_key(&id) || here.contains(&id) { continue; }
				let ok = if id == self.revoked_txid { true } else { t.input.iter().filter(|i| i.previous_output.txid == self.revoked_txid || self.cand_ids.contains(&i.previous_output.txid)).all(|i| (conf2.contains_key(&i.previous_output.txid) || here.contains(&i.previous_output.txid)) && !spent2.contains_key(&i.previous_output) && !used.contains(&i.previous_output)) };
				if ok { for i in &t.input { used.insert(i.previous_output); }
					if self.cand_ids.contains(&id) { let c = self.layout_class(&t, here.contains(&self.revoked_txid)); self.classes.push(c); }
					here.insert(id); txs.push(t); }
			}
			self.connect(net, txs, &format!("reorg:{}:branch", cat));
			if !self.oracle.is_empty() { return Ok(true); }
			if bi == 0 && rng.chance(1, 8) { self.reload(net)?; }
		}
		Ok(true)
	}

	/// the mempool forgets every earlier victim broadcast (evicted / never relayed): success now REQUIRES the claims to be re-issued
	fn drain(&mut self, net: &mut Net, rng: &mut Rng) -> Result<(), String> {
		hist_push("mempool evicts every earlier victim broadcast".into());
		self.evicted = self.bcast.len();
		if rng.chance(1, 4) { self.reload(net)?; }
		let by_timer = rng.chance(1, 2);
		for round in 0..4 {
			if round == 0 && by_timer { for _ in 0..(LOW_FREQUENCY_BUMP_INTERVAL + 1) { self.connect(net, vec![], "drain:timer"); if !self.oracle.is_empty() { return Ok(()); } } }
			self.rebroadcast(net);
			if !self.oracle.is_empty() { return Ok(()); }
			let (tip, conf, spent) = chain_view(&net.nodes[0]);
			for (x, ph) in self.revocable(&conf) { if !spent.contains_key(&x) && !self.bcast[self.evicted..].iter().any(|(_, t)| t.input.iter().any(|i| i.previous_output == x)) {
				if self.unbumpable(&x) { self.classes.push("rebroadcast:exempt-unbumpable".into()); continue; }
				self.fail_soft_for("no-rebroadcast", Some(&x), format!("revoked output {} of confirmed tx {} (height {}) is unspent on the best chain (tip {}) but nothing is rebroadcast for it (rebroadcast_pending_claims{})", self.name(&x), x.txid, ph, tip, if by_timer { " and 16 blocks of height timers" } else { "" })); } }
			let chosen = self.pick_mempool(net);
			if chosen.is_empty() { break; }
			self.connect(net, chosen, "drain:mine");
			if !self.oracle.is_empty() { return Ok(()); }
		}
		self.connect_empty(net, ANTI_REORG_DELAY);
		if !self.oracle.is_empty() { return Ok(()); }
		// past every CSV delay: whatever is still unclaimed is the cheater's
		self.connect_empty(net, CSV + 1);
		if !self.oracle.is_empty() { return Ok(()); }
		let node = &net.nodes[0];
		let (tip, conf, spent) = chain_view(node);
		let mut left_unbumpable = false;
		for (x, ph) in self.revocable(&conf) { match spent.get(&x) {
			None => { if self.unbumpable(&x) { self.classes.push("undrained:exempt-unbumpable".into()); left_unbumpable = true; continue; }
				self.fail_for(&x, format!("after draining, the cheater can spend revoked output {} ({} sat) of tx confirmed at {}: CSV {} matured at {}, tip {}, never claimed", self.name(&x), self.prevouts.get(&x).map(|o| o.value.to_sat()).unwrap_or(0), ph, CSV, ph + CSV, tip)); return Ok(()); },
			Some((id, _)) => if !self.is_victim_tx(id) && !self.cand_ids.contains(id) { self.fail(format!("revoked output {} was spent by a transaction that is neither the victim's nor a known second-stage transaction", self.name(&x))); },
		} }
		let mine: Vec<Transaction> = { let mut seen = BTreeSet::new(); self.bcast.iter().map(|(_, t)| t).filter(|t| conf.contains_key(&t.compute_txid()) && seen.insert(t.compute_txid())).cloned().collect() };
		let claimed_value: u64 = mine.iter().map(|t| t.input.iter().map(|i| self.prevouts[&i.previous_output].value.to_sat()).sum::<u64>()).sum();
		let fees: u64 = mine.iter().map(|t| fee_of(t, &self.prevouts).unwrap_or(0)).sum();
		let swept: u64 = self.spendable.iter().filter(|(o, _)| conf.contains_key(&o.txid)).map(|(_, v)| *v).sum();
		let orphan: Vec<String> = self.spendable.keys().filter(|o| !conf.contains_key(&o.txid)).map(|o| o.to_string()).collect();
		if !orphan.is_empty() { self.fail(format!("SpendableOutputs reported for transactions that are not on the best chain: {:?}", orphan)); }
		if swept + fees != claimed_value { self.fail(format!("after burial SpendableOutputs {} + fees {} != claimed value {} ({} justice transactions confirmed)", swept, fees, claimed_value, mine.len())); }
		let my_to_remote: u64 = self.me.outs.iter().filter(|o| o.1 == 'R').map(|o| o.0).sum();
		let to_remote_swept: u64 = self.to_remote.iter().filter(|(o, _)| conf.contains_key(&o.txid)).map(|(_, v)| *v).sum();
		if to_remote_swept != my_to_remote { self.fail(format!("victim's own to_remote {} not reported spendable (got {})", my_to_remote, to_remote_swept)); }
		let bals = match node.chain_monitor.chain_monitor.get_monitor(self.chan_id) { Ok(mon) => mon.get_claimable_balances(), Err(_) => vec![] };
		let left: Vec<&Balance> = bals.iter().filter(|b| !matches!(b, Balance::MaybePreimageClaimableHTLC { .. })).collect();
		if !left.is_empty() && !left_unbumpable {
			// a balance left for an output whose claim was lost to KF-C06-1 is that finding's symptom (only if every unclaimed output is such an output)
			let unclaimed: Vec<OutPoint> = self.revocable(&conf).into_iter().map(|(x, _)| x).filter(|x| !spent.contains_key(x)).collect();
			let what = format!("claimable balances do not drain after burial: {:?}", left);
			if !unclaimed.is_empty() && unclaimed.iter().all(|x| self.kf1.contains(x)) { self.fail(format!("{}: {}", KF1, what)); } else { self.fail(what); }
		}
		Ok(())
	}
}

/// The cheater's second-stage transactions that `unsafe_get_latest_holder_commitment_txn` does not give: built from the HTLC descriptors of
/// its CURRENT commitment (hook `verif_holder_htlc_descriptors`, preimages of every payment of the run supplied) and signed by its own signer
/// while that commitment is still unrevoked.  Anchor channels: HTLC-timeout / HTLC-success transactions with one HTLC or several aggregated
/// (same nLockTime), with an extra fee input placed BEFORE, BETWEEN or AFTER the HTLC inputs or without one (input i <-> output i as
/// SIGHASH_SINGLE requires).  Legacy channels: the HTLC-success transactions of received HTLCs whose preimage the monitor did not know.
/// The fee input spends a made-up outpoint (nobody verifies the cheater's transactions; the victim's spends of their outputs ARE verified).
fn build_second_stage(net: &Net, cheater: usize, chan_id: lightning::ln::types::ChannelId, anchors: bool, rng: &mut Rng, have: &[Transaction]) -> Result<Vec<Transaction>, String> {
	use bitcoin::{absolute::LockTime, transaction::Version, Amount, ScriptBuf, Sequence, TxIn, Witness};
	use lightning::sign::ecdsa::EcdsaChannelSigner;
	use lightning::sign::SignerProvider;
	let secp = bitcoin::secp256k1::Secp256k1::new();
	let extra: Vec<_> = net.pays.iter().map(|p| (p.hash, p.preimage)).collect();
	let mut descs = {
		let mon = net.nodes[cheater].chain_monitor.chain_monitor.get_monitor(chan_id).map_err(|_| "no cheater monitor")?;
		mon.verif_holder_htlc_descriptors(&extra)
	};
	let taken: BTreeSet<OutPoint> = have.iter().flat_map(|t| t.input.iter().map(|i| i.previous_output)).collect();
	descs.retain(|d| !taken.contains(&d.outpoint()));
	if !anchors { descs.retain(|d| !d.htlc.offered); }
	// shuffle, then cut into groups of equal nLockTime
	for i in (1..descs.len()).rev() { let j = rng.below(i as u64 + 1) as usize; descs.swap(i, j); }
	let lock = |d: &lightning::sign::HTLCDescriptor| if d.htlc.offered { d.htlc.cltv_expiry } else { 0 };
	let mut groups: Vec<Vec<lightning::sign::HTLCDescriptor>> = vec![];
	for d in descs {
		let join = anchors && rng.chance(1, 2) && groups.last().map(|g| g.len() < 3 && lock(&g[0]) == lock(&d)).unwrap_or(false);
		if join { groups.last_mut().unwrap().push(d); } else { groups.push(vec![d]); }
	}
	let mut out = vec![];
	for (gi, g) in groups.into_iter().enumerate() {
		// position of the fee input among the HTLC inputs (None: no fee input)
		let fee_pos: Option<usize> = if !anchors { None } else { match rng.below(4) { 0 => None, 1 => Some(0), 2 => Some(g.len()), _ => Some(rng.below(g.len() as u64 + 1) as usize) } };
		let mut tx = Transaction { version: Version::TWO, lock_time: LockTime::from_consensus(lock(&g[0])), input: vec![], output: vec![] };
		let mut where_: Vec<usize> = vec![];
		for (i, d) in g.iter().enumerate() {
			if fee_pos == Some(i) {
				let mut id = [0u8; 32]; id[0] = 0xfe; id[1] = gi as u8; id[2..10].copy_from_slice(&rng.next().to_le_bytes());
				tx.input.push(TxIn { previous_output: OutPoint { txid: Txid::from_raw_hash(bitcoin::hashes::Hash::from_byte_array(id)), vout: 0 }, script_sig: ScriptBuf::new(), sequence: Sequence::ENABLE_RBF_NO_LOCKTIME, witness: Witness::new() });
				tx.output.push(TxOut { value: Amount::from_sat(50_000), script_pubkey: ScriptBuf::new_op_return(&[]) });
			}
			where_.push(tx.input.len());
			tx.input.push(d.unsigned_tx_input());
			tx.output.push(d.tx_output(&secp));
		}
		if fee_pos == Some(g.len()) {
			let mut id = [0u8; 32]; id[0] = 0xfe; id[1] = gi as u8; id[2..10].copy_from_slice(&rng.next().to_le_bytes());
			tx.input.push(TxIn { previous_output: OutPoint { txid: Txid::from_raw_hash(bitcoin::hashes::Hash::from_byte_array(id)), vout: 0 }, script_sig: ScriptBuf::new(), sequence: Sequence::ENABLE_RBF_NO_LOCKTIME, witness: Witness::new() });
			tx.output.push(TxOut { value: Amount::from_sat(50_000), script_pubkey: ScriptBuf::new_op_return(&[]) });
		}
		for (i, d) in g.iter().enumerate() {
			let signer = net.nodes[cheater].keys_manager.derive_channel_signer(d.channel_derivation_parameters.keys_id);
			let sig = signer.sign_holder_htlc_transaction(&tx, where_[i], d, &secp).map_err(|_| "cheater's signer refused an HTLC transaction")?;
			let ws = d.witness_script(&secp);
			tx.input[where_[i]].witness = d.tx_input_witness(&sig, &ws);
		}
		out.push(tx);
	}
	Ok(out)
}

fn justice_scenario(seed: u64, thorough: bool, index: u64) -> Result<Outcome, String> {
	let mut rng = Rng::new(seed);
	HIST.with(|h| h.borrow_mut().clear());
	pkgtrace::enable();      // package-layer differential: every update_claims_view_from_matched_txn call / aggregation of BOTH monitors is recorded
	let mut out = Outcome { ops: vec![], directives: vec![], class: String::new(), oracle: vec![], extra_classes: vec![] };
	let anchors = rng.chance(1, 3);
	let cfg = if anchors { test_default_channel_config() } else { test_legacy_channel_config() };
	let reload = rng.below(4);   // 1: monitor + manager serialised and reloaded before the confirmation, 2: after it
	let mut net = std::mem::ManuallyDrop::new(Net::new(2, vec![Some(cfg.clone()), Some(cfg)]));   // never dropped: skips Node::drop's end-of-test assertions (half-finished scenario by design)
	let style = {	// block-delivery style: every style in turn (create_network draws it from a per-process RandomState otherwise)
		use ConnectStyle::*;
		let styles = [BestBlockFirst, BestBlockFirstSkippingBlocks, BestBlockFirstReorgsOnlyTip, TransactionsFirst, TransactionsFirstSkippingBlocks,
			TransactionsDuplicativelyFirstSkippingBlocks, HighlyRedundantTransactionsFirstSkippingBlocks, TransactionsFirstReorgsOnlyTip, FullBlockViaListen,
			ReplayedFullBlockViaListen, FullBlockDisconnectionsSkippingViaListen];
		let s = styles[((index + seed) % styles.len() as u64) as usize];
		*net.nodes[0].connect_style.borrow_mut() = s;
		s
	};
	let lax = matches!(style, ConnectStyle::BestBlockFirstReorgsOnlyTip | ConnectStyle::TransactionsFirstReorgsOnlyTip);
	let c = net.open(0, 1, 1_000_000, 400_000_000);
	let chan_id = net.chans[c].2;
	let victim = 0usize; let cheater = 1usize;
	// ---- history ---------------------------------------------------------------------------------
	let n_before = rng.range(1, if thorough { 40 } else { 10 });
	let n_after = rng.range(5, if thorough { 60 } else { 14 });
	let mut pending: Vec<usize> = vec![];
	let do_update = |net: &mut Net, rng: &mut Rng, pending: &mut Vec<usize>| {
		let act = rng.below(10);
		if act < 6 || pending.is_empty() {
			let (a, b) = if rng.chance(1, 2) { (0, 1) } else { (1, 0) };
			let amt = match rng.below(4) { 0 => rng.range(1_000, 500_000), 1 => rng.range(500_000, 600_000), _ => rng.range(1_000_000, 30_000_000) };
			if let Ok(p) = net.send(&[a, b], &[c], amt, 42 + rng.below(30) as u32) { pending.push(p); }
		} else if act < 9 {
			let k = rng.below(pending.len() as u64) as usize; let p = pending.remove(k); net.claim(p);
		} else {
			let k = rng.below(pending.len() as u64) as usize; let p = pending.remove(k); net.fail_back(p);
		}
		net.settle(40);
	};
	for _ in 0..n_before { do_update(&mut net, &mut rng, &mut pending); }
	// the cheater's fully signed current commitment + its HTLC transactions, BEFORE it is revoked
	let captured: Vec<Transaction> = {
		let mon = net.nodes[cheater].chain_monitor.chain_monitor.get_monitor(chan_id).map_err(|_| "no cheater monitor")?;
		mon.unsafe_get_latest_holder_commitment_txn(&net.nodes[cheater].logger)
	};
	let built = build_second_stage(&net, cheater, chan_id, anchors, &mut rng, &captured[1..])?;
	for _ in 0..n_after { do_update(&mut net, &mut rng, &mut pending); }
	let revoked_tx = captured[0].clone();
	let revoked_txid = revoked_tx.compute_txid();
	// ---- replay the victim's REAL monitor updates as model ops --------------------------------------
	let mon = net.nodes[victim].chain_monitor.chain_monitor.get_monitor(chan_id).map_err(|_| "no victim monitor")?;
	let mut cmts: Vec<Cmt> = vec![];
	let init = mon.initial_counterparty_commitment_tx().ok_or("no initial counterparty commitment")?;
	let d = describe(&init, anchors)?;
	out.directives.push("reset".into());
	out.directives.push(format!("commit {} {}", d.n, list_or_dash(d.htlcs.iter().map(htlc_tok).collect(), ",")));
	let mut next_secret = d.n;
	cmts.push(d);
	let updates = net.nodes[victim].chain_monitor.monitor_updates.lock().unwrap().get(&chan_id).cloned().unwrap_or_default();
	for u in updates.iter() {
		let kinds = vh::monitor_update_step_kinds(u);
		let txs = mon.counterparty_commitment_txs_from_update(u);
		let mut ti = 0;
		for k in kinds {
			match k {
				"CounterpartyCommitmentTXInfo" | "CounterpartyCommitment" => {
					if ti >= txs.len() { return Err("counterparty commitment step without a rebuilt transaction".into()); }
					let d = describe(&txs[ti], anchors)?; ti += 1;
					out.directives.push(format!("commit {} {}", d.n, list_or_dash(d.htlcs.iter().map(htlc_tok).collect(), ",")));
					cmts.push(d);
				},
				"CommitmentSecret" => { out.ops.push((format!("secret {}", next_secret), Some("ok".into()), "secret".into())); next_secret -= 1; },
				_ => {},
			}
		}
	}
	let me = cmts.iter().find(|c| c.txid == revoked_txid).cloned().ok_or("captured commitment unknown to the victim's monitor")?;
	let revoked = me.n > next_secret;
	if !revoked { return Err("captured commitment was not revoked by the later updates".into()); }
	// the retained data, straight from the model after all secrets
	out.ops.push((format!("data {}", me.n), Some(list_or_dash(me.htlcs.iter().map(htlc_tok).collect(), ",")), "data".into()));
	drop(mon);   // the LockedChannelMonitor holds the ChainMonitor's read lock
	// ---- confirm the revoked commitment on the victim ---------------------------------------------------
	if rng.chance(1, 3) { *net.nodes[victim].fee_estimator.sat_per_kw.lock().unwrap() = 253 + rng.below(3000) as u32; }
	if reload == 1 { net.restart(victim).map_err(|e| format!("reload failed: {}", e))?; }
	// delay: the cheater may wait until the HTLCs of the revoked state are close to (or past) their expiry — the victim's claims on
	// offered HTLC outputs then fall into the "pinnable" aggregation cluster (cltv_expiry <= height + 12), apart from the to_local claim
	let pre_gap = if rng.chance(1, 4) { rng.range(20, 45) as u32 } else { 0 };
	if pre_gap > 0 { connect_blocks(&net.nodes[victim], pre_gap); }
	let own_commitments: BTreeSet<Txid> = { let funding = captured[0].input[0].previous_output; net.nodes[victim].tx_broadcaster.txn_broadcasted.lock().unwrap().iter().filter(|t| t.input.len() == 1 && t.input[0].previous_output == funding).map(|t| t.compute_txid()).collect() };
	net.nodes[victim].tx_broadcaster.txn_broadcasted.lock().unwrap().clear();
	let _ = net.nodes[victim].chain_monitor.chain_monitor.get_and_clear_pending_events();
	let mut prevouts: HashMap<OutPoint, TxOut> = HashMap::new();
	for (i, o) in revoked_tx.output.iter().enumerate() { prevouts.insert(OutPoint { txid: revoked_txid, vout: i as u32 }, o.clone()); }
	let cand: Vec<Transaction> = captured.iter().skip(1).cloned().chain(built.into_iter()).collect();
	for t in &cand { let id = t.compute_txid(); for (i, o) in t.output.iter().enumerate() { prevouts.insert(OutPoint { txid: id, vout: i as u32 }, o.clone()); } }
	let cand_ids: Vec<Txid> = cand.iter().map(|t| t.compute_txid()).collect();
	let outs_tok = list_or_dash(me.outs.iter().map(|(v, k)| format!("{}:{}", v, k)).collect(), ",");
	// input by input: the commitment output it spends (with the 5-element witness of an HTLC transaction), `x` for anything else
	let spends_of = |t: &Transaction| t.input.iter().map(|i| if i.previous_output.txid == revoked_txid && i.witness.len() == 5 { i.previous_output.vout.to_string() } else { "x".to_string() }).collect::<Vec<_>>().join("+");
	let plain = |t: &Transaction| t.input.iter().all(|i| i.previous_output.txid == revoked_txid && i.witness.len() == 5);
	let mut cx = Ctx { seed, style: format!("{:?}", style), chan_id, lax, disconnected_once: false, funding: revoked_tx.input[0].previous_output, revoked_txid, me: me.clone(), cand: cand.clone(), cand_ids, noise: BTreeSet::new(), own_commitments: own_commitments.clone(),
		prevouts, bcast: vec![], evicted: 0, last_issue: BTreeMap::new(), last_fee: BTreeMap::new(), spendable: BTreeMap::new(), to_remote: BTreeMap::new(), final_txs: BTreeSet::new(), max_conf: BTreeMap::new(), kf1: BTreeSet::new(), kf1_style: matches!(style, ConnectStyle::TransactionsFirstReorgsOnlyTip), issue_height_override: None, fork_id: 0,
		stream: Stream::default(), oracle: vec![], soft: vec![], soft_kinds: BTreeSet::new(), classes: vec![], stale_seen: 0 };
	hist_push(format!("{:?}: {} channel, revoked commitment {} ({} outputs: {}), {} second-stage txs held by the cheater, tip {}", style, if anchors { "anchor" } else { "legacy" }, me.n, me.outs.len(), outs_tok, cand.len(), net.nodes[victim].best_block_info().1));
	// the chain model starts here: `chain <tip> <n> <outs> <every second-stage tx: the commitment outputs it spends>`
	cx.stream.lines.push((format!("chain {} {} {} {}", net.nodes[victim].best_block_info().1, me.n, outs_tok, list_or_dash(cand.iter().map(|t| spends_of(t)).collect(), ",")), None, String::new()));
	let with_second_in_same_block = !cand.is_empty() && rng.chance(1, 3);
	// a random subset of the cheater's second-stage transactions confirms
	let mut second: Vec<Transaction> = vec![];
	for t in cand.iter() { if rng.chance(1, 2) { second.push(t.clone()); } }
	let rounds = rng.below(4);
	let old_flow = rounds == 0 && !with_second_in_same_block;
	// the order among the second-stage transactions is drawn too (parents first is all the chain requires)
	for i in (1..second.len()).rev() { let j = rng.below(i as u64 + 1) as usize; second.swap(i, j); }
	let mut first_block = vec![revoked_tx.clone()];
	if with_second_in_same_block {
		for t in second.iter() { if rng.chance(1, 4) { let n = cx.noise_tx(&mut rng); first_block.push(n); } first_block.push(t.clone()); let c = cx.layout_class(t, true); cx.classes.push(c); }
	}
	if rng.chance(1, 6) { let n = cx.noise_tx(&mut rng); first_block.insert(0, n); }
	cx.connect(&net, first_block, "chain:commitment");
	let close_height = net.nodes[victim].best_block_info().1;
	let show = |set: &BTreeSet<(u8, u32, u32)>| list_or_dash(set.iter().map(|t| if t.0 == 0 { format!("c{}", t.2) } else { format!("s{}:{}", t.1, t.2) }).collect(), " ");
	let n_htlc = me.outs.iter().filter(|o| o.1 == 'H').count();
	out.class = format!("justice:htlcs{}:second{}:toLocal{}:anchors{}:reload{}", n_htlc.min(4), second.len().min(3), me.outs.iter().any(|o| o.1 == 'L') as u8, anchors as u8, if reload < 3 { reload } else { 0 });
	// the claim set right after the confirmation (old comparison: the outpoints the victim's first broadcasts spend)
	let mut set_a = BTreeSet::new();
	if !with_second_in_same_block {
		for (_, t) in cx.bcast.iter() { for i in &t.input { if i.previous_output.txid == revoked_txid { set_a.insert((0u8, 0u32, i.previous_output.vout)); } } }
		cx.stream.lines.push((format!("confirm {} {} -", me.n, outs_tok), Some(show(&set_a)), out.class.clone()));
	}
	if reload == 2 { cx.reload(&mut net)?; }
	if cx.oracle.is_empty() {
		if !with_second_in_same_block {
			cx.connect_empty(&net, rng.below(3) as u32);
			if !second.is_empty() {
				for t in second.iter() { let c = cx.layout_class(t, false); cx.classes.push(c); }
				if second.len() > 1 && rng.chance(1, 3) { let (a, b) = second.split_at(1); cx.connect(&net, a.to_vec(), "chain:second"); cx.connect(&net, b.to_vec(), "chain:second"); }
				else { cx.connect(&net, second.clone(), "chain:second"); }
			}
		}
		if old_flow {
			// every pending package that can still be bumped is re-issued within LOW_FREQUENCY_BUMP_INTERVAL blocks
			if !second.is_empty() { cx.connect_empty(&net, 15); }
			else if rng.chance(1, 2) { for _ in 0..rng.range(1, 3) { *net.nodes[victim].fee_estimator.sat_per_kw.lock().unwrap() += rng.below(2000) as u32; cx.connect_empty(&net, rng.range(1, 16) as u32); } }
			if !second.is_empty() {
				// what the victim claims now: everything it ever tried to claim that the cheater's confirmed second-stage
				// transactions have not spent (a chain fact, not model logic), plus whatever it claims on top of those
				let gone: BTreeSet<OutPoint> = second.iter().flat_map(|t| t.input.iter().map(|i| i.previous_output)).collect();
				let second_ids: Vec<Txid> = second.iter().map(|t| t.compute_txid()).collect();
				let mut set_b: BTreeSet<(u8, u32, u32)> = set_a.iter().filter(|x| !gone.contains(&OutPoint { txid: revoked_txid, vout: x.2 })).cloned().collect();
				let (first_second, last_second) = { let (_, conf, _) = chain_view(&net.nodes[victim]); let hs: Vec<u32> = second_ids.iter().filter_map(|i| conf.get(i).cloned()).collect();
					(hs.iter().min().cloned().unwrap_or(close_height + 1), hs.iter().max().cloned().unwrap_or(close_height + 1)) };
				let since: Vec<(u32, Transaction)> = cx.bcast.iter().filter(|(h, _)| *h >= first_second).cloned().collect();
				for (h, t) in &since { for i in &t.input {
					if gone.contains(&i.previous_output) { if *h > last_second { cx.fail(format!("victim re-claims {} after the cheater's second-stage spend of it was confirmed", i.previous_output)); } continue; }
					if i.previous_output.txid == revoked_txid { set_b.insert((0, 0, i.previous_output.vout)); }
					else if let Some(k) = second_ids.iter().position(|x| *x == i.previous_output.txid) { set_b.insert((1, k as u32, i.previous_output.vout)); } } }
				let sec_tok = second.iter().map(|t| spends_of(t)).collect::<Vec<_>>().join(",");
				// the claim-set op of Model/Punish.lean numbers the claims on a second-stage transaction by input position: compared when
				// every input is an HTLC input (the chain ops above cover the layouts with fee inputs)
				if second.iter().all(|t| plain(t)) { cx.stream.lines.push((format!("confirm {} {} {}", me.n, outs_tok, sec_tok), Some(show(&set_b)), out.class.clone())); }
				// coverage: every non-victim, non-anchor output is claimed, directly or through its confirmed second-stage child
				for (i, (_, k)) in me.outs.iter().enumerate() {
					if *k == 'L' || *k == 'H' {
						let direct = set_b.contains(&(0, 0, i as u32));
						let via = second.iter().enumerate().any(|(kk, t)| t.input.iter().enumerate().any(|(pos, inp)| inp.previous_output == OutPoint { txid: revoked_txid, vout: i as u32 } && set_b.contains(&(1, kk as u32, pos as u32))));
						if !(direct || via) { cx.fail(format!("output {} ({}) of revoked commitment {} is not claimed by any broadcast", i, k, me.n)); }
					} else if set_b.contains(&(0, 0, i as u32)) || set_a.contains(&(0, 0, i as u32)) { cx.fail(format!("victim claims its own/anchor output {}", i)); }
				}
			}
		} else {
			cx.connect_empty(&net, rng.below(4) as u32);
			if rng.chance(1, 3) { let j = cx.pick_mempool(&net); if !j.is_empty() { cx.connect(&net, j, "chain:justice-confirmed"); cx.connect_empty(&net, rng.below(3) as u32); } }
			for _ in 0..rounds {
				if !cx.oracle.is_empty() { break; }
				if rng.chance(1, 2) { cx.connect_empty(&net, rng.range(1, 3) as u32); }
				cx.reorg_round(&mut net, &mut rng)?;
				if !cx.oracle.is_empty() { break; }
				if rng.chance(1, 8) { *net.nodes[victim].fee_estimator.sat_per_kw.lock().unwrap() += rng.below(1000) as u32; }
				if rng.chance(1, 3) { let j = cx.pick_mempool(&net); if !j.is_empty() { cx.connect(&net, j, "chain:justice-confirmed"); cx.connect_empty(&net, rng.below(3) as u32); } }
			}
		}
	}
	if cx.oracle.is_empty() { cx.drain(&mut net, &mut rng)?; }
	let _ = close_height;
	out.extra_classes = cx.classes.clone();
	out.extra_classes.push(format!("style:{}", cx.style));
	if pre_gap > 0 { out.extra_classes.push("delay:commitment-confirms-20-45-blocks-late".into()); }
	if cx.stale_seen > 0 { out.extra_classes.push(format!("claims-of-unconfirmed-parent-seen:{}", cx.style)); }
	out.oracle = cx.oracle.clone();
	out.oracle.extend(cx.soft.iter().rev().cloned());
	let _ = net.nodes[victim].node.get_and_clear_pending_events();
	let _ = net.nodes[victim].node.get_and_clear_pending_msg_events();
	// hand the chain stream over in file order
	out.ops.extend(cx.stream.lines.drain(..));
	// the package layer (Model/Packages.lean): real handler state before each call -> model -> real state after it
	for (op, res, cl) in pkgtrace::cases() { out.ops.push((op, Some(res), cl)); }
	// … and the translated package_weight against the real weight of every justice transaction the victim broadcast
	{ let mut seen = BTreeSet::new(); for (_, t) in cx.bcast.iter() { if seen.insert(t.compute_txid()) { if let Some((op, res, cl)) = pkgtrace::weight_case(t, anchors) { out.ops.push((op, Some(res), cl)); } } } }
	Ok(out)
}

fn main() {
	let args = &parse_args("c06bump");
	let mut rec = Rec::new(&args.out, &args.model);
	let mut rng = Rng::new(args.seed);
	match args.model.as_str() {
		"c06bump" => bump::run_bump(&mut rec, &mut rng, args.thorough, args.scale),
		"c06justice" => {
			if std::env::var("C06_LOG").is_err() { silence_stdout(); }
			let n = if args.thorough { 1210 } else { 330 } * args.scale;
			let only: Option<u64> = std::env::var("C06_ONLY").ok().and_then(|s| s.parse().ok());
			for k in 0..n {
				let s = rng.next();
				if let Some(o) = only { if o != k { continue; } }
				match guarded(AssertUnwindSafe(|| justice_scenario(s, args.thorough, k))) {
					Ok(Ok(o)) => {
						for d in &o.directives { rec.directive(d); }
						for (op, res, cl) in &o.ops { match res {
							Some(r) => rec.case(op, r, cl, op.starts_with("confirm") || op.starts_with("conn") || op.starts_with("disc") || op.starts_with("pkg")),
							None => rec.directive(op),
						} }
						for c in &o.extra_classes { *rec.classes.entry(c.clone()).or_insert(0) += 1; }
						for f in o.oracle { rec.oracle_fail(format!("scenario {} (seed {}): {}", k, s, f)); }
					},
					Ok(Err(e)) => { rec.discarded += 1; *rec.classes.entry(format!("discarded:{}", e.chars().take(40).collect::<String>())).or_insert(0) += 1; },
					// `*ReorgsOnlyTip` styles never tell the monitor that the tip went DOWN (only `transaction_unconfirmed`), so until the next
					// best_block_updated it may sign a claim with nLockTime = its stale, higher tip: TestBroadcaster (a test utility, which
					// knows the true tip) panics on that.  Not a property verdict: the scenario is discarded and counted.
					Err(p) if p.contains("We should never broadcast a transaction before its locktime") && hist_show().contains("ReorgsOnlyTip") && hist_show().contains("disconnect ") => {
						rec.discarded += 1; *rec.classes.entry("discarded:txonly-style broadcast with a stale tip (TestBroadcaster locktime assertion)".into()).or_insert(0) += 1; },
					// TestChainMonitor (a test utility) asserts monitor == its round trip inside update_channel; the one benign difference above
					// (counterparty_spendable_height zeroed by PackageTemplate::read) makes it panic: discarded and counted, anything else is reported
					Err(p) if p.contains("new_monitor == *monitor") && p.contains("fields [\"onchain_tx_handler\"] [") && { let d = p.split("fields [\"onchain_tx_handler\"] [").nth(1).unwrap_or("").split("] differ").next().unwrap_or("x").to_string(); !d.is_empty() && d.split(", ").all(|e| e.ends_with(":[\\\"counterparty_spendable_height\\\"]\"")) } => {
						rec.discarded += 1; *rec.classes.entry("discarded:TestChainMonitor round-trip assertion on counterparty_spendable_height zeroed by PackageTemplate::read".into()).or_insert(0) += 1; },
					Err(p) => rec.oracle_fail(format!("scenario {} (seed {}) panicked: {} — history: {}", k, s, p.replace('\n', " ").chars().take(300).collect::<String>(), hist_show())),
				}
			}
			rec.notes.insert("rule".into(), "one scenario = one real 2-node channel with a PRNG-drawn payment history (dust / near-dust / non-dust, both directions, claims and failures), the cheater's commitment captured at a random old state, a random subset of its HTLC transactions, then 0-3 reorgs (fork point above everything / below the victim's confirmed justice tx / below the second-stage txs / below the commitment; other branch with or without the cheater's and the victim's transactions), every ConnectStyle in turn, reloads, mempool eviction before the final drain; distinct = distinct `confirm` / `conn` / `disc` op lines".into());
		},
		// per-FundingScope commitment data while a splice is pending, revoked commitment signed during the pending splice (see c06/splice.rs)
		"c06scope" => { if std::env::var("C06_LOG").is_err() { silence_stdout(); } splice::run(&mut rec, &mut rng, args.thorough, args.scale) },
		m => { eprintln!("unknown model {}", m); std::process::exit(2); },
	}
	rec.finish();
}
