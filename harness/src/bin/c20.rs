//! C20 — the real lightning-block-sync (SpvClient::poll_best_tip, init::synchronize_listeners,
//! ChainPoller validation, HeaderCache) over random regtest block trees built from REAL headers
//! (valid PoW at regtest-style targets, real prev_blockhash links, real chainwork).
//! ops (block hashes are mapped to small ids, genesis parent = 0):
//!   tree                               new case
//!   block <id> <parent> <height> <chainwork> <header.bits> <header.work()> <full 0|1>
//!   net <0|1>                          ChainPoller network: 0 = Regtest, 1 = Bitcoin (check_builds_on enforces the difficulty rules)
//!   client <tip id>                    SpvClient::new(tip, ChainPoller(source, Regtest), HeaderCache::new(), &listener)
//!   clientinit                         SpvClient::new(best, .., cache) from the last successful `init`
//!   best <id>                          what get_best_block answers from now on
//!   hidden <ids…>                      blocks the source does not know (header/block not found)
//!   sched <k:kind…>                    what the source answered to request k (counted from 0 within the next poll/init):
//!                                      t|p = Err, hash:<id> = another block's data, pow = a header failing PoW, height|work = claimed
//!                                      height / chainwork off by one, merkle = full block with a wrong merkle root. The model gets the RAW
//!                                      answer and must itself refuse it (translated Validate layer + check_builds_on).
//!   poll <fingerprint>                 => "<common|better|worse> <tip|-> <0|1> r<requests the source saw> | D <id> <h> C <id> <h> … | cache <ids in the SpvClient's header cache afterwards>"
//!                                      (the listener is the TUPLE adapter over two recording components; oracle: both see the same chain, 0 before 1)
//!                                      or "err <t|p> r<requests>" with the BlockSourceErrorKind (transient / persistent) of the returned error
//!   init <id:height:p1,p2,-,…>…        => "ok <best> r<requests> cache <ids…> | <listener 0 notifs> | …"  or "err <t|p> r<requests> | …" (t|p = BlockSourceErrorKind of the returned error)
use ldk_verif_harness::common::*;
use bitcoin::absolute::LockTime;
use bitcoin::block::{Block, Header, Version};
use bitcoin::hashes::Hash;
use bitcoin::pow::{CompactTarget, Work};
use bitcoin::transaction::{self, Transaction, TxIn, TxOut};
use bitcoin::{Amount, BlockHash, Network, OutPoint, ScriptBuf, Sequence, TxMerkleNode, Witness};
use lightning::chain::{self, BlockLocator};
use lightning_block_sync::poll::{ChainPoller, ChainTip, Validate, ValidatedBlockHeader};
use lightning_block_sync::{
	init, BlockData, BlockHeaderData, BlockSource, BlockSourceError, BlockSourceErrorKind, BlockSourceResult, HeaderCache, SpvClient,
	HEADER_CACHE_LIMIT,
};
use std::collections::{BTreeMap, BTreeSet, HashMap};
use std::future::Future;
use std::panic::AssertUnwindSafe;
use std::sync::Mutex;
use std::task::{Context, Poll as TaskPoll, Waker};

/// the futures of this harness never pend: poll once with a no-op waker
fn block_on<F: Future>(f: F) -> F::Output {
	let mut f = std::pin::pin!(f);
	let mut cx = Context::from_waker(Waker::noop());
	match f.as_mut().poll(&mut cx) {
		TaskPoll::Ready(v) => v,
		TaskPoll::Pending => panic!("future pended"),
	}
}

#[derive(Clone)]
struct Blk { id: usize, parent: usize, height: u32, work: u128, header: Header, hash: BlockHash, block: Block, full: bool }

struct Tree { blocks: Vec<Blk>, by_hash: HashMap<BlockHash, usize>, salt: u64 }

fn work_u128(w: Work) -> u128 { let b = w.to_be_bytes(); let mut lo = [0u8; 16]; lo.copy_from_slice(&b[16..]); assert!(b[..16].iter().all(|x| *x == 0)); u128::from_be_bytes(lo) }
fn work_of(x: u128) -> Work { let mut b = [0u8; 32]; b[16..].copy_from_slice(&x.to_be_bytes()); Work::from_be_bytes(b) }

impl Tree {
	fn new() -> Tree { Tree { blocks: vec![], by_hash: HashMap::new(), salt: 0 } }
	fn get(&self, id: usize) -> &Blk { &self.blocks[id - 1] }
	/// mine a real block on top of `parent` (0 = genesis) at compact target `bits`
	fn mine(&mut self, parent: usize, bits: u32, full: bool) -> usize {
		self.salt += 1;
		let (prev_hash, height, prev_work) = if parent == 0 { (BlockHash::all_zeros(), 0, 0u128) } else { let p = self.get(parent); (p.hash, p.height + 1, p.work) };
		let mut script = vec![8u8]; script.extend_from_slice(&self.salt.to_le_bytes());
		let coinbase = Transaction {
			version: transaction::Version::TWO, lock_time: LockTime::ZERO,
			input: vec![TxIn { previous_output: OutPoint::null(), script_sig: ScriptBuf::from_bytes(script), sequence: Sequence::MAX, witness: Witness::new() }],
			output: vec![TxOut { value: Amount::ZERO, script_pubkey: ScriptBuf::new() }],
		};
		let merkle_root = TxMerkleNode::from_byte_array(coinbase.compute_txid().to_byte_array());
		let mut header = Header { version: Version::ONE, prev_blockhash: prev_hash, merkle_root, time: 1_600_000_000 + height, bits: CompactTarget::from_consensus(bits), nonce: 0 };
		while header.validate_pow(header.target()).is_err() { header.nonce += 1; }
		let hash = header.block_hash();
		let id = self.blocks.len() + 1;
		let work = prev_work + work_u128(header.work());
		let block = Block { header, txdata: vec![coinbase] };
		debug_assert!(block.check_merkle_root() && block.check_witness_commitment());
		self.blocks.push(Blk { id, parent, height, work, header, hash, block, full });
		self.by_hash.insert(hash, id);
		id
	}
	fn data(&self, id: usize) -> BlockHeaderData { let b = self.get(id); BlockHeaderData { header: b.header, height: b.height, chainwork: work_of(b.work) } }
	fn validated(&self, id: usize) -> ValidatedBlockHeader { self.data(id).validate(self.get(id).hash).expect("mined header validates") }
	/// ids from genesis to `id`
	fn path(&self, id: usize) -> Vec<usize> { let mut v = vec![]; let mut c = id; while c != 0 { v.push(c); c = self.get(c).parent; } v.reverse(); v }
	fn lca(&self, a: usize, b: usize) -> usize { let (pa, pb) = (self.path(a), self.path(b)); let mut l = 0; for (x, y) in pa.iter().zip(pb.iter()) { if x == y { l = *x } else { break } } l }
	fn tips(&self) -> Vec<usize> { let mut has_child = BTreeSet::new(); for b in &self.blocks { has_child.insert(b.parent); } self.blocks.iter().map(|b| b.id).filter(|i| !has_child.contains(i)).collect() }
}

#[derive(Clone, Copy, Debug, PartialEq)]
enum Fail { Transient, Persistent, BadHash, BadPow, BadHeight, BadWork, BadMerkle }

struct SrcState { req: usize, sched: BTreeMap<usize, Fail>, hidden: BTreeSet<usize>, best: usize, last_was_best: bool, init_mode: bool, triggered: Vec<(usize, String, String)>, tip_claim: Option<(u32, u128)> }

struct Source<'a> { tree: &'a Tree, st: Mutex<SrcState> }

impl<'a> Source<'a> {
	fn new(tree: &'a Tree) -> Self { Source { tree, st: Mutex::new(SrcState { req: 0, sched: BTreeMap::new(), hidden: BTreeSet::new(), best: 1, last_was_best: false, init_mode: false, triggered: vec![], tip_claim: None }) } }
	/// next request index and the failure (if any) scheduled for it
	fn next(&self, st: &mut SrcState) -> Option<Fail> { let k = st.req; st.req += 1; st.sched.get(&k).copied() }
	fn some_other(&self, id: usize) -> usize { if id > 1 { id - 1 } else if self.tree.blocks.len() > 1 { 2 } else { 1 } }
}

fn terr(s: &str) -> BlockSourceError { BlockSourceError::transient(s.to_string()) }
fn perr(s: &str) -> BlockSourceError { BlockSourceError::persistent(s.to_string()) }

impl<'a> BlockSource for Source<'a> {
	fn get_header<'b>(&'b self, header_hash: &'b BlockHash, _height_hint: Option<u32>) -> impl Future<Output = BlockSourceResult<BlockHeaderData>> + Send + 'b {
		async move {
			let mut st = self.st.lock().unwrap();
			let after_best = st.last_was_best; st.last_was_best = false;
			let fail = self.next(&mut st);
			let k = st.req - 1;
			let id = match self.tree.by_hash.get(header_hash) { Some(i) => *i, None => { return Err(perr("header not found")); } };
			if let Some(f) = fail {
				// a lie about height/chainwork is only *defined* to be refused where check_builds_on runs
				// (previous-header look-ups of the polling client); elsewhere serve another block instead.
				let f = match f { Fail::BadHeight | Fail::BadWork | Fail::BadMerkle if after_best || st.init_mode => Fail::BadHash, Fail::BadMerkle => Fail::BadHash, x => x };
				let tok = match f { Fail::Transient => "t".to_string(), Fail::Persistent => "p".to_string(), Fail::BadHash => format!("hash:{}", self.some_other(id)), Fail::BadPow => "pow".into(), Fail::BadHeight => "height".into(), Fail::BadWork => "work".into(), Fail::BadMerkle => "merkle".into() };
				st.triggered.push((k, format!("{:?}", f), tok));
				let mut d = self.tree.data(id);
				match f {
					Fail::Transient => return Err(terr("unresponsive")),
					Fail::Persistent => return Err(perr("refused")),
					Fail::BadHash => return Ok(self.tree.data(self.some_other(id))),
					Fail::BadPow => { d.header.nonce = d.header.nonce.wrapping_add(1); return Ok(d); },
					Fail::BadHeight => { d.height += 1; return Ok(d); },
					Fail::BadWork => { d.chainwork = d.chainwork + work_of(1); return Ok(d); },
					Fail::BadMerkle => unreachable!(),
				}
			}
			if st.hidden.contains(&id) { return Err(perr("header not found")); }
			if after_best { if let Some((dh, dw)) = st.tip_claim { let mut d = self.tree.data(id); d.height += dh; d.chainwork = d.chainwork + work_of(dw); return Ok(d); } }
			Ok(self.tree.data(id))
		}
	}
	fn get_block<'b>(&'b self, header_hash: &'b BlockHash) -> impl Future<Output = BlockSourceResult<BlockData>> + Send + 'b {
		async move {
			let mut st = self.st.lock().unwrap();
			st.last_was_best = false;
			let fail = self.next(&mut st);
			let k = st.req - 1;
			let id = match self.tree.by_hash.get(header_hash) { Some(i) => *i, None => { return Err(perr("block not found")); } };
			let b = self.tree.get(id);
			if let Some(f) = fail {
				let f = match f { Fail::BadHeight | Fail::BadWork => Fail::BadHash, Fail::BadMerkle if !b.full => Fail::BadPow, x => x };
				let tok = match f { Fail::Transient => "t".to_string(), Fail::Persistent => "p".to_string(), Fail::BadHash => format!("hash:{}", self.some_other(id)), Fail::BadPow => "pow".into(), Fail::BadMerkle => "merkle".into(), _ => unreachable!() };
				st.triggered.push((k, format!("{:?}", f), tok));
				match f {
					Fail::Transient => return Err(terr("unresponsive")),
					Fail::Persistent => return Err(perr("refused")),
					Fail::BadHash => { let o = self.tree.get(self.some_other(id)); return Ok(if o.full { BlockData::FullBlock(o.block.clone()) } else { BlockData::HeaderOnly(o.header) }); },
					Fail::BadPow => { let mut h = b.header; h.nonce = h.nonce.wrapping_add(1); return Ok(BlockData::HeaderOnly(h)); },
					Fail::BadMerkle => { let mut blk = b.block.clone(); blk.txdata[0].lock_time = LockTime::from_consensus(7); return Ok(BlockData::FullBlock(blk)); },
					_ => unreachable!(),
				}
			}
			if st.hidden.contains(&id) { return Err(perr("block not found")); }
			Ok(if b.full { BlockData::FullBlock(b.block.clone()) } else { BlockData::HeaderOnly(b.header) })
		}
	}
	fn get_best_block<'b>(&'b self) -> impl Future<Output = BlockSourceResult<(BlockHash, Option<u32>)>> + Send + 'b {
		async move {
			let mut st = self.st.lock().unwrap();
			let fail = self.next(&mut st);
			let k = st.req - 1;
			st.last_was_best = true;
			if let Some(f) = fail {
				st.triggered.push((k, format!("{:?}", f), if f == Fail::Transient { "t".into() } else { "p".into() }));
				return Err(if f == Fail::Transient { terr("unresponsive") } else { perr("refused") });
			}
			let b = self.tree.get(st.best);
			Ok((b.hash, if k % 2 == 0 { Some(b.height) } else { None }))
		}
	}
}

#[derive(Clone, Copy, Debug)]
enum Ev { Conn(usize, u32, bool), Disc(usize, u32) }

/// global delivery counter: the order in which notifications reach the components of a tuple listener
static SEQ: std::sync::atomic::AtomicU64 = std::sync::atomic::AtomicU64::new(0);
fn next_seq() -> u64 { SEQ.fetch_add(1, std::sync::atomic::Ordering::SeqCst) }

struct RecListener<'a> { tree: &'a Tree, evs: Mutex<Vec<(u64, Ev)>> }
impl<'a> RecListener<'a> {
	fn new(tree: &'a Tree) -> Self { RecListener { tree, evs: Mutex::new(vec![]) } }
	fn take_seq(&self) -> Vec<(u64, Ev)> { std::mem::take(&mut *self.evs.lock().unwrap()) }
	fn take(&self) -> Vec<Ev> { self.take_seq().into_iter().map(|x| x.1).collect() }
	fn id(&self, h: &BlockHash) -> usize { self.tree.by_hash.get(h).copied().unwrap_or(999_999) }
}
impl<'a> chain::Listen for RecListener<'a> {
	fn filtered_block_connected(&self, header: &Header, _txdata: &chain::transaction::TransactionData, height: u32) {
		self.evs.lock().unwrap().push((next_seq(), Ev::Conn(self.id(&header.block_hash()), height, false)));
	}
	fn block_connected(&self, block: &Block, height: u32) {
		self.evs.lock().unwrap().push((next_seq(), Ev::Conn(self.id(&block.header.block_hash()), height, true)));
	}
	fn blocks_disconnected(&self, fork_point: BlockLocator) {
		self.evs.lock().unwrap().push((next_seq(), Ev::Disc(self.id(&fork_point.block_hash), fork_point.height)));
	}
}
/// the listener the SpvClient of this harness notifies: the TUPLE adapter `impl Listen for (T, U)` of lightning/src/chain/mod.rs
/// over two recording components (as the block-sync docs recommend for ChainMonitor + ChannelManager)
type Pair<'s, 't> = (&'s RecListener<'t>, &'s RecListener<'t>);

/// header cache as the answer line shows it: sorted ids (a count and checksum when there are many)
fn show_cache(t: &Tree, cache: &HeaderCache) -> String {
	let ids: Vec<usize> = t.blocks.iter().filter(|b| cache.look_up(&b.hash).is_some()).map(|b| b.id).collect();
	if ids.len() <= 48 { ids.iter().map(|i| i.to_string()).collect::<Vec<_>>().join(" ") } else { format!("n{} s{}", ids.len(), ids.iter().sum::<usize>()) }
}

fn show_evs(evs: &[Ev]) -> String {
	evs.iter().map(|e| match e { Ev::Conn(i, h, _) => format!("C {} {}", i, h), Ev::Disc(i, h) => format!("D {} {}", i, h) }).collect::<Vec<_>>().join(" ")
}

/// implementation-side oracle (independent of the Lean model): fold the notifications over the
/// listener's chain (ids genesis→tip); every step must be a valid move in the tree.
fn fold_chain(tree: &Tree, chain: &mut Vec<usize>, evs: &[Ev]) -> Result<(), String> {
	for e in evs {
		match *e {
			Ev::Disc(id, h) => {
				let pos = chain.iter().position(|x| *x == id).ok_or(format!("disconnect target {} is not on the listener's chain", id))?;
				if pos + 1 == chain.len() { return Err(format!("disconnected to the current tip {}", id)); }
				if tree.get(id).height != h { return Err(format!("disconnect target {} reported at height {}", id, h)); }
				chain.truncate(pos + 1);
			},
			Ev::Conn(id, h, _) => {
				if id == 999_999 { return Err("connected an unknown block".into()); }
				let b = tree.get(id);
				let tip = *chain.last().ok_or("empty chain".to_string())?;
				if b.parent != tip { return Err(format!("connected block {} (parent {}) on top of {} — skipped or repeated a block", id, b.parent, tip)); }
				if b.height != h || h != tree.get(tip).height + 1 { return Err(format!("connected block {} at height {} on tip of height {}", id, h, tree.get(tip).height)); }
				chain.push(id);
			},
		}
	}
	Ok(())
}

struct Gen<'r> { rng: &'r mut Rng }
const BITS: [u32; 3] = [0x207fffff, 0x203fffff, 0x201fffff];
impl<'r> Gen<'r> {
	fn bits(&mut self, uniform: bool) -> u32 { if uniform { BITS[0] } else { match self.rng.below(10) { 0..=6 => BITS[0], 7 | 8 => BITS[1], _ => BITS[2] } } }
	fn extend(&mut self, t: &mut Tree, from: usize, n: u64, uniform: bool) -> usize { let mut c = from; for _ in 0..n { let bits = self.bits(uniform); let full = self.rng.chance(1, 2); c = t.mine(c, bits, full); } c }
	/// a random forked tree: a main chain, then forks branching `depth` blocks below some tip
	fn tree(&mut self, main_len: u64, forks: u64, max_depth: u64, uniform: bool) -> Tree {
		let mut t = Tree::new();
		let g = t.mine(0, BITS[0], self.rng.chance(1, 2));
		self.extend(&mut t, g, main_len, uniform);
		for _ in 0..forks {
			let tips = t.tips();
			let tip = *self.rng.pick(&tips);
			let path = t.path(tip);
			let depth = self.rng.below(max_depth + 1).min(path.len() as u64 - 1);
			let from = path[path.len() - 1 - depth as usize];
			// lengths around the depth: shorter, equal (ties) and longer forks
			let len = match self.rng.below(4) { 0 => depth, 1 => depth + 1, 2 => self.rng.range(1, depth + 3), _ => self.rng.range(1, 3) }.max(1);
			self.extend(&mut t, from, len, uniform);
		}
		t
	}
	fn fail_kind(&mut self) -> Fail { *self.rng.pick(&[Fail::Transient, Fail::Transient, Fail::Persistent, Fail::BadHash, Fail::BadPow, Fail::BadHeight, Fail::BadWork, Fail::BadMerkle]) }
}

struct Case<'a> { rec: &'a mut Rec, log: Vec<String>, fp: u64 }
impl<'a> Case<'a> {
	fn dir(&mut self, s: String) { self.fp = self.fp.wrapping_mul(0x100000001b3) ^ fnv64(&s); self.rec.directive(&s); if self.log.len() < 400 { self.log.push(s); } }
	fn ctx(&self) -> String { let n = self.log.len(); if n > 80 { format!("{} … {}", self.log[..40].join("; "), self.log[n - 40..].join("; ")) } else { self.log.join("; ") } }
}
fn fnv64(s: &str) -> u64 { let mut h = 0xcbf29ce484222325u64; for b in s.bytes() { h ^= b as u64; h = h.wrapping_mul(0x100000001b3); } h }

fn emit_tree(c: &mut Case, t: &Tree) {
	c.dir("tree".into());
	for b in &t.blocks { c.dir(format!("block {} {} {} {} {} {} {}", b.id, b.parent, b.height, b.work, b.header.bits.to_consensus(), work_u128(b.header.work()), b.full as u8)); }
}

fn depth_bucket(d: usize) -> &'static str { match d { 0 => "0", 1 => "1", 2..=3 => "2-3", 4..=12 => "4-12", 13..=100 => "13-100", 101..=1008 => "101-1008", _ => ">1008" } }

/// choose failing request indices for an operation expected to issue about `span` requests
fn make_sched(g: &mut Gen, span: u64, p_num: u64) -> BTreeMap<usize, Fail> {
	let mut m = BTreeMap::new();
	if g.rng.chance(p_num, 10) {
		let n = if g.rng.chance(1, 4) { 2 } else { 1 };
		for _ in 0..n { let k = g.rng.below(span + 2) as usize; let f = g.fail_kind(); m.insert(k, f); }
	}
	m
}

/// the `sched` directive: what the source ANSWERED at each scheduled request (effective kind as recorded by the source)
fn sched_line(sched: &BTreeMap<usize, Fail>, triggered: &[(usize, String, String)]) -> String {
	format!("sched{}", sched.keys().map(|k| match triggered.iter().find(|t| t.0 == *k) { Some(t) => format!(" {}:{}", k, t.2), None => format!(" {}:t", k) }).collect::<String>())
}

struct Stats { lower_work_after_interrupt: u64, lower_work_example: Option<String>, max_fork_depth: usize, cache_miss_walks: u64, tuple_c: Option<String>, tuple_d: Option<String> }

/// a sequence of polls of one SpvClient against a tree whose best tip moves between polls
fn run_polls<'s, 't>(c: &mut Case, g: &mut Gen, t: &'t Tree, client: &mut SpvClient<ChainPoller<&'s Source<'t>, Source<'t>>, &'s Pair<'s, 't>>, src: &'s Source<'t>, pair: &'s Pair<'s, 't>, chain: &mut Vec<usize>, n_polls: u64, stats: &mut Stats, fail_p: u64, bitcoin: bool) {
	let all: Vec<usize> = t.blocks.iter().map(|b| b.id).collect();
	let tips = t.tips();
	for _ in 0..n_polls {
		let cur = *chain.last().unwrap();
		// new best tip: mostly a tip of the tree, sometimes any block (shorter chain, ancestor, sibling)
		let best = if g.rng.chance(3, 4) { *g.rng.pick(&tips) } else { *g.rng.pick(&all) };
		let l = t.lca(cur, best);
		let (down, up) = ((t.get(cur).height - t.get(l).height) as u64, (t.get(best).height - t.get(l).height) as u64);
		let sched = make_sched(g, 2 + down.min(up + 1) + 2 * up, fail_p);
		let hidden: BTreeSet<usize> = if g.rng.chance(1, 12) {
			// the source has forgotten the listener's fork (or a random block)
			if g.rng.chance(2, 3) { t.path(cur).into_iter().filter(|x| t.get(*x).height > t.get(l).height).collect() } else { [*g.rng.pick(&all)].into_iter().collect() }
		} else { BTreeSet::new() };
		c.dir(format!("best {}", best));
		c.dir(format!("hidden{}", hidden.iter().map(|x| format!(" {}", x)).collect::<String>()));
		{ let mut st = src.st.lock().unwrap(); st.req = 0; st.sched = sched.clone(); st.hidden = hidden.clone(); st.best = best; st.triggered.clear(); st.init_mode = false; st.last_was_best = false; }
		let r = guarded(AssertUnwindSafe(|| block_on(client.poll_best_tip())));
		let (sq0, sq1) = (pair.0.take_seq(), pair.1.take_seq());
		let evs: Vec<Ev> = sq0.iter().map(|x| x.1).collect();
		let (triggered3, nreq) = { let st = src.st.lock().unwrap(); (st.triggered.clone(), st.req) };
		c.dir(sched_line(&sched, &triggered3));
		let triggered: Vec<(usize, String)> = triggered3.iter().map(|t| (t.0, t.1.clone())).collect();
		let before = cur;
		let op = format!("poll {:x}", c.fp);
		let (head, kind) = match &r {
			Err(p) => (format!("panic {}", p), "panic".to_string()),
			Ok(Err(e)) => (format!("err {}", if e.kind() == BlockSourceErrorKind::Transient { "t" } else { "p" }), "err".to_string()),
			Ok(Ok((ChainTip::Common, b))) => (format!("common - {}", *b as u8), "common".to_string()),
			Ok(Ok((ChainTip::Better(h), b))) => (format!("better {} {}", t.by_hash[&h.header.block_hash()], *b as u8), "better".to_string()),
			Ok(Ok((ChainTip::Worse(h), b))) => (format!("worse {} {}", t.by_hash[&h.header.block_hash()], *b as u8), "worse".to_string()),
		};
		// ---- oracle -------------------------------------------------------------------------
		let describe = |what: &str, c: &Case| format!("{} :: best={} hidden={:?} sched={:?} triggered={:?} events=[{}] result={} :: {}", what, best, hidden, sched, triggered, show_evs(&evs), head, c.ctx());
		if let Err(p) = &r { c.rec.oracle_fail(describe(&format!("poll_best_tip panicked: {}", p), c)); }
		if let Err(e) = fold_chain(t, chain, &evs) { c.rec.oracle_fail(describe(&format!("notifications do not describe one chain: {}", e), c)); }
		let after = *chain.last().unwrap();
		match &r {
			Ok(Ok((ChainTip::Better(h), true))) => {
				let bid = t.by_hash[&h.header.block_hash()];
				if t.get(bid).work <= t.get(before).work { c.rec.oracle_fail(describe("Better tip without strictly more work", c)); }
				if !t.path(bid).contains(&after) { c.rec.oracle_fail(describe("listener left off the better chain", c)); }
				if triggered.is_empty() && hidden.is_empty() && !bitcoin && after != bid { c.rec.oracle_fail(describe("no source failure but the listener is not at the reported better tip", c)); }
				if evs.is_empty() { c.rec.oracle_fail(describe("reported blocks connected/disconnected but the listener saw nothing", c)); }
			},
			Ok(Ok((_, true))) => c.rec.oracle_fail(describe("Common/Worse tip reported as connected", c)),
			_ => { if !evs.is_empty() { c.rec.oracle_fail(describe("listener notified although the poll reported no change", c)); } },
		}
		if t.get(after).work < t.get(before).work {
			if triggered.is_empty() && hidden.is_empty() { c.rec.oracle_fail(describe("listener moved to a tip with less work without any source failure", c)); }
			else { stats.lower_work_after_interrupt += 1;
				// known finding KF-C20-1 (see /verif/known_findings.txt): reported once per run with a concrete input
				if stats.lower_work_example.is_none() { c.rec.oracle_fail(describe("KF-C20-1 interrupted reorg: a source error after blocks_disconnected leaves the listener and chain_tip at the fork point, a tip with LESS work than before the poll", c)); }
				if stats.lower_work_example.is_none() { stats.lower_work_example = Some(describe("interrupted reorg left the listener at the fork point (less work than before)", c)); } }
		}
		// ---- record -------------------------------------------------------------------------
		let fork_depth = down as usize;
		stats.max_fork_depth = stats.max_fork_depth.max(if kind == "better" { fork_depth } else { 0 });
		if nreq as u64 > 2 + up + 1 && kind == "better" { stats.cache_miss_walks += 1; }
		let class = format!("poll:{}{}{}", kind,
			if kind == "better" { format!(":reorg-depth-{}", depth_bucket(fork_depth)) } else { String::new() },
			if kind == "worse" && t.get(best).work == t.get(before).work { ":equal-work" } else { "" });
		// the tip rule is by CHAINWORK, not height: branches carry different per-block work, so these two classes must be populated
		if kind == "worse" && t.get(best).height > t.get(before).height { *c.rec.classes.entry("poll+worse-although-longer(lighter fork)".to_string()).or_insert(0) += 1; }
		if kind == "better" && t.get(best).height <= t.get(before).height { *c.rec.classes.entry("poll+better-although-not-longer(heavier fork)".to_string()).or_insert(0) += 1; }
		if let Some((_, f)) = triggered.first() { *c.rec.classes.entry(format!("poll+source-failure:{}", f)).or_insert(0) += 1; }
		if !hidden.is_empty() { *c.rec.classes.entry("poll+hidden-blocks".to_string()).or_insert(0) += 1; }
		if evs.iter().any(|e| matches!(e, Ev::Conn(_, _, true))) { *c.rec.classes.entry("poll+full-block-connected".to_string()).or_insert(0) += 1; }
		if evs.iter().any(|e| matches!(e, Ev::Conn(_, _, false))) { *c.rec.classes.entry("poll+header-only-connected".to_string()).or_insert(0) += 1; }
		// tuple adapter: both components must see the same single chain, every notification reaching component 0 and then
		// component 1 before the next one is delivered (on connect and on disconnect)
		{
			let evs1: Vec<Ev> = sq1.iter().map(|x| x.1).collect();
			if show_evs(&evs) != show_evs(&evs1) { c.rec.oracle_fail(describe(&format!("tuple listener: the two components saw different notifications: [{}] vs [{}]", show_evs(&evs), show_evs(&evs1)), c)); }
			else {
				for i in 0..sq0.len() {
					let ok = sq0[i].0 < sq1[i].0 && (i + 1 >= sq0.len() || sq1[i].0 < sq0[i + 1].0);
					if !ok { c.rec.oracle_fail(describe(&format!("tuple listener: notification {} was not delivered to component 0 then component 1 before the next one", i), c)); break; }
				}
				// observed component order of the first connect / disconnect (compared with the translated order by the `tuple` op)
				for i in 0..sq0.len() {
					let ord = if sq0[i].0 < sq1[i].0 { "0 1" } else { "1 0" }.to_string();
					match sq0[i].1 { Ev::Conn(..) => { if stats.tuple_c.is_none() { stats.tuple_c = Some(ord); } }, Ev::Disc(..) => { if stats.tuple_d.is_none() { stats.tuple_d = Some(ord); } } }
				}
				if evs.iter().any(|e| matches!(e, Ev::Disc(..))) { *c.rec.classes.entry("poll+tuple-listener-disconnect-both".to_string()).or_insert(0) += 1; }
				if evs.iter().any(|e| matches!(e, Ev::Conn(..))) { *c.rec.classes.entry("poll+tuple-listener-connect-both".to_string()).or_insert(0) += 1; }
			}
		}
		let (cache_now, tip_now) = client.verif_cache_and_tip();
		// the cache is what the next poll's look_up_previous_header trusts without check_builds_on: every entry must be a real header under its own hash
		for b in &t.blocks { if let Some(h) = cache_now.look_up(&b.hash) { if h.height != b.height || work_u128(h.chainwork) != b.work || h.header.block_hash() != b.hash { c.rec.oracle_fail(describe(&format!("header cache holds a wrong header for block {}", b.id), c)); } } }
		if t.by_hash.get(&tip_now.header.block_hash()).copied() != Some(*chain.last().unwrap()) { c.rec.oracle_fail(describe("chain_tip is not where the listener is", c)); }
		let ans = format!("{} r{} | {} | cache {}", head, nreq, show_evs(&evs), show_cache(t, cache_now));
		c.rec.case(&op, ans.trim_end(), &class, !evs.is_empty() || !triggered.is_empty());
		c.fp = c.fp.wrapping_mul(0x100000001b3) ^ fnv64(&ans);
	}
}

fn locator_for(g: &mut Gen, t: &Tree, id: usize, bogus: bool) -> (BlockLocator, String) {
	let b = t.get(id);
	let mut loc = BlockLocator::new(b.hash, b.height);
	let mut toks = vec![];
	if g.rng.chance(1, 2) {
		let path = t.path(id);
		let k = g.rng.below(13).min(path.len() as u64 - 1) as usize;
		for i in 0..k {
			if g.rng.chance(1, 8) { toks.push("-".to_string()); continue; }
			let a = path[path.len() - 2 - i];
			loc.previous_blocks[i] = Some(t.get(a).hash);
			toks.push(a.to_string());
		}
		if bogus {
			// out-of-contract locator: unknown ancestors beyond the block's height
			for i in k..12 { loc.previous_blocks[i] = Some(BlockHash::from_byte_array([i as u8 + 1; 32])); toks.push((900_000 + i).to_string()); }
		}
	}
	(loc, format!("{}:{}:{}", id, b.height, toks.join(",")))
}

/// init::synchronize_listeners for several listeners at different (stale) blocks
fn run_init<'t>(c: &mut Case, g: &mut Gen, t: &'t Tree, src: &Source, stats: &mut Stats, fail_p: u64, network: Network) -> Option<(HeaderCache, ValidatedBlockHeader, usize)> {
	let all: Vec<usize> = t.blocks.iter().map(|b| b.id).collect();
	let tips = t.tips();
	let best = if g.rng.chance(4, 5) { *g.rng.pick(&tips) } else { *g.rng.pick(&all) };
	let n = g.rng.range(1, 4) as usize;
	let starts: Vec<usize> = (0..n).map(|_| if g.rng.chance(1, 2) { *g.rng.pick(&tips) } else { *g.rng.pick(&all) }).collect();
	let bogus = g.rng.chance(1, 25);
	let locs: Vec<(BlockLocator, String)> = starts.iter().map(|s| locator_for(g, t, *s, bogus)).collect();
	let mut span = 2u64;
	for s in &starts { let l = t.lca(*s, best); span += 1 + (t.get(*s).height - t.get(l).height) as u64 + 2 * (t.get(best).height - t.get(l).height) as u64; }
	let sched = make_sched(g, span, fail_p);
	let hidden: BTreeSet<usize> = if g.rng.chance(1, 5) {
		// the source never saw a listener's stale tip (and maybe a few of its ancestors)
		let s = *g.rng.pick(&starts); let l = t.lca(s, best);
		let stale: Vec<usize> = t.path(s).into_iter().filter(|x| t.get(*x).height > t.get(l).height).collect();
		let k = g.rng.range(1, 3) as usize;
		stale.into_iter().rev().take(k).collect()
	} else { BTreeSet::new() };
	c.dir(format!("best {}", best));
	c.dir(format!("hidden{}", hidden.iter().map(|x| format!(" {}", x)).collect::<String>()));
	{ let mut st = src.st.lock().unwrap(); st.req = 0; st.sched = sched.clone(); st.hidden = hidden.clone(); st.best = best; st.triggered.clear(); st.init_mode = true; st.last_was_best = false; }
	let listeners: Vec<RecListener> = (0..n).map(|_| RecListener::new(t)).collect();
	let r = guarded(AssertUnwindSafe(|| {
		let pairs: Vec<(BlockLocator, &RecListener)> = locs.iter().zip(listeners.iter()).map(|(l, r)| (l.0, r)).collect();
		block_on(init::synchronize_listeners(src, network, pairs))
	}));
	let (triggered3, nreq) = { let st = src.st.lock().unwrap(); (st.triggered.clone(), st.req) };
	c.dir(sched_line(&sched, &triggered3));
	let triggered: Vec<(usize, String)> = triggered3.iter().map(|t| (t.0, t.1.clone())).collect();
	let evs: Vec<Vec<Ev>> = listeners.iter().map(|l| l.take()).collect();
	let op = format!("init {}", locs.iter().map(|l| l.1.clone()).collect::<Vec<_>>().join(" "));
	let mut segs = vec![];
	let mut ret = None;
	let kind;
	let mut init_err_transient: Option<bool> = None;
	match r {
		Err(p) => { segs.push(format!("panic {}", p)); kind = "panic"; },
		Ok(Err(e)) => {
			// r6: the BlockSourceErrorKind of a failed start-up sync is part of the answer (before: only Ok / Err)
			let transient = e.kind() == BlockSourceErrorKind::Transient;
			segs.push(format!("err {} r{}", if transient { "t" } else { "p" }, nreq)); kind = "err";
			init_err_transient = Some(transient);
		},
		Ok(Ok((cache, hdr))) => {
			let bid = t.by_hash[&hdr.header.block_hash()];
			let cached: Vec<String> = t.blocks.iter().filter(|b| cache.look_up(&b.hash).is_some()).map(|b| b.id.to_string()).collect();
			segs.push(format!("ok {} r{} cache {}", bid, nreq, cached.join(" ")).trim_end().to_string());
			ret = Some((cache, hdr, bid)); kind = "ok";
		},
	}
	for e in &evs { segs.push(show_evs(e)); }
	let ans = segs.join(" | ");
	// ---- oracle -----------------------------------------------------------------------------
	let describe = |what: &str, c: &Case| format!("{} :: {} best={} hidden={:?} sched={:?} triggered={:?} answer={} :: {}", what, op, best, hidden, sched, triggered, ans, c.ctx());
	if kind == "panic" { c.rec.oracle_fail(describe("synchronize_listeners panicked", c)); }
	if let Some(tr) = init_err_transient {
		// a Transient error invites the caller to simply retry: it may only be returned when the block source itself answered a
		// transient error to some request of this sync — everything the library refuses (Validate, check_builds_on, "header not
		// found", an unresolvable locator) is Persistent  (theorem init_transient_error_needs_transient_answer)
		let source_was_transient = triggered3.iter().any(|t| t.2 == "t");
		if tr && !source_was_transient { c.rec.oracle_fail(describe("synchronize_listeners returned a TRANSIENT error although the block source never answered a transient error", c)); }
		let first = triggered3.first().map(|t| if t.2 == "t" { "first-failure-transient" } else { "first-failure-not-transient" }).unwrap_or("no-scheduled-failure");
		*c.rec.classes.entry(format!("init+err-kind-{}:{}", if tr { "transient" } else { "persistent" }, first)).or_insert(0) += 1;
	}
	let mut depth = 0usize;
	for (i, e) in evs.iter().enumerate() {
		let mut chain = t.path(starts[i]);
		depth = depth.max((t.get(starts[i]).height - t.get(t.lca(starts[i], best)).height) as usize);
		if let Err(x) = fold_chain(t, &mut chain, e) { c.rec.oracle_fail(describe(&format!("listener {} notifications do not describe one chain: {}", i, x), c)); }
		if let Some((_, _, bid)) = &ret {
			if *chain.last().unwrap() != *bid { c.rec.oracle_fail(describe(&format!("listener {} not at the returned tip after a successful start-up sync", i), c)); }
			if *bid != best { c.rec.oracle_fail(describe("returned tip is not the source's best block", c)); }
		}
	}
	let blocks_up = starts.iter().map(|s| (t.get(best).height - t.get(t.lca(*s, best)).height) as usize).max().unwrap_or(0);
	let class = format!("init:{}:stale-depth-{}{}", kind, depth_bucket(depth), if blocks_up > 36 { ":multi-batch" } else { "" });
	*c.rec.classes.entry(format!("init+listeners-{}", n)).or_insert(0) += 1;
	if let Some((_, f)) = triggered.first() { *c.rec.classes.entry(format!("init+source-failure:{}", f)).or_insert(0) += 1; }
	if !hidden.is_empty() { *c.rec.classes.entry("init+hidden-blocks".to_string()).or_insert(0) += 1; }
	if bogus { *c.rec.classes.entry("init+overlong-locator".to_string()).or_insert(0) += 1; }
	if locs.iter().any(|l| !l.1.ends_with(':')) { *c.rec.classes.entry("init+locator-with-ancestors".to_string()).or_insert(0) += 1; }
	// position of each listener relative to the source's best block (the four shapes of `startup_step_brings_listener_to_tip`)
	for s in &starts {
		let l = t.lca(*s, best);
		let pos = if *s == best { "at-source-tip" } else if l == *s { "behind-source-tip" } else if l == best { "ahead-of-source-tip(same branch)" } else { "on-a-fork" };
		*c.rec.classes.entry(format!("init+listener-{}{}", pos, if ret.is_some() { "" } else { ":err" })).or_insert(0) += 1;
	}
	stats.max_fork_depth = stats.max_fork_depth.max(depth);
	c.rec.case(&op, ans.trim_end(), &class, true);
	c.fp = c.fp.wrapping_mul(0x100000001b3) ^ fnv64(&ans) ^ fnv64(&op);
	ret
}

/// PROBE (implementation only, not part of the correspondence; reported in the notes): the source serves the REAL header of the
/// new tip but CLAIMS a wrong height / chainwork for it (`BlockHeaderData.{height, chainwork}` are not covered by the hash).
/// `poll_chain_tip` validates PoW + hash only; when the tip's parent is in the header cache `ChainNotifier::look_up_previous_header`
/// answers from the cache without `check_builds_on`, so nothing ever compares the claim with the predecessor.
fn probe_tip_claims(g: &mut Gen) -> String {
	let mut t = Tree::new();
	let gen = t.mine(0, BITS[0], false);
	let c3 = g.extend(&mut t, gen, 3, true);
	let (c1, c2) = (t.get(t.get(c3).parent).parent, t.get(c3).parent);
	let src = Source::new(&t);
	let listener = RecListener::new(&t);
	let mut client = SpvClient::new(t.validated(c1), ChainPoller::new(&src, Network::Regtest), HeaderCache::new(), &listener);
	{ let mut st = src.st.lock().unwrap(); st.best = c2; }
	let r1 = guarded(AssertUnwindSafe(|| block_on(client.poll_best_tip()).map(|x| x.1)));
	let e1 = listener.take();
	{ let mut st = src.st.lock().unwrap(); st.req = 0; st.best = c3; st.tip_claim = Some((5, 1000)); }
	let r2 = guarded(AssertUnwindSafe(|| block_on(client.poll_best_tip()).map(|(tip, c)| (match tip { ChainTip::Better(h) => format!("Better(height {} chainwork {})", h.height, work_u128(h.chainwork)), ChainTip::Worse(_) => "Worse".into(), ChainTip::Common => "Common".into() }, c))));
	let e2 = listener.take();
	{ let mut st = src.st.lock().unwrap(); st.req = 0; st.tip_claim = None; }
	format!("chain 1<-2<-3<-4 (heights 0..3, chainwork 2,4,6,8); client at 2; poll(best=3, honest) -> {:?} [{}]; poll(best=4, source claims height 3+5 and chainwork 8+1000 for the real header 4) -> {:?} [{}]  (true height of block 4 is 3)",
		r1.map(|x| x.map_err(|_| "err")), show_evs(&e1), r2.map(|x| x.map_err(|_| "err")), show_evs(&e2))
}

fn one_case(rec: &mut Rec, g: &mut Gen, t: &Tree, stats: &mut Stats, polls: u64, fail_p: u64, force_start: Option<usize>, bitcoin: bool) {
	let mut c = Case { rec, log: vec![], fp: 0 };
	emit_tree(&mut c, t);
	let network = if bitcoin { Network::Bitcoin } else { Network::Regtest };
	c.dir(format!("net {}", bitcoin as u8));
	if bitcoin { *c.rec.classes.entry("case+network-bitcoin".to_string()).or_insert(0) += 1; }
	let src = Source::new(t);
	let all: Vec<usize> = t.blocks.iter().map(|b| b.id).collect();
	let mode = if force_start.is_some() { 0 } else { g.rng.below(3) };
	if mode < 2 {
		// SpvClient from a given tip with an empty cache (fresh start / restart)
		let start = force_start.unwrap_or_else(|| if g.rng.chance(1, 2) { *g.rng.pick(&t.tips()) } else { *g.rng.pick(&all) });
		c.dir(format!("client {}", start));
		let (listener, listener2) = (RecListener::new(t), RecListener::new(t));
		let pair: Pair = (&listener, &listener2);
		let mut client = SpvClient::new(t.validated(start), ChainPoller::new(&src, network), HeaderCache::new(), &pair);
		let mut chain = t.path(start);
		run_polls(&mut c, g, t, &mut client, &src, &pair, &mut chain, polls, stats, fail_p, bitcoin);
	} else {
		let n_init = g.rng.range(1, 2);
		let mut last = None;
		for _ in 0..n_init { last = run_init(&mut c, g, t, &src, stats, fail_p, network); }
		if let Some((cache, hdr, bid)) = last {
			c.dir("clientinit".into());
			let (listener, listener2) = (RecListener::new(t), RecListener::new(t));
			let pair: Pair = (&listener, &listener2);
			let mut client = SpvClient::new(hdr, ChainPoller::new(&src, network), cache, &pair);
			let mut chain = t.path(bid);
			run_polls(&mut c, g, t, &mut client, &src, &pair, &mut chain, polls.min(4), stats, fail_p, bitcoin);
		}
	}
}

fn main() {
	let args = &parse_args("c20");
	let mut rec = Rec::new(&args.out, "c20");
	let mut rng = Rng::new(args.seed);
	let mut g = Gen { rng: &mut rng };
	let mut stats = Stats { lower_work_after_interrupt: 0, lower_work_example: None, max_fork_depth: 0, cache_miss_walks: 0, tuple_c: None, tuple_d: None };
	let limit = HEADER_CACHE_LIMIT as u64;
	let (n_small, n_medium, n_deep) = if args.thorough { (400_000 * args.scale, 8_000 * args.scale, 300 * args.scale) } else { (24_000 * args.scale, 1_000 * args.scale, 30 * args.scale) };
	let max_depth = if args.thorough { 40 } else { 12 };
	// (1) small random trees: fork depths 0..max_depth, equal-work ties, heavier-but-shorter forks
	for _ in 0..n_small {
		let uniform = g.rng.chance(1, 2);
		let (main_len, forks) = (g.rng.range(1, 24), g.rng.below(5));
		let t = g.tree(main_len, forks, max_depth, uniform);
		let bitcoin = g.rng.chance(1, 5);
		one_case(&mut rec, &mut g, &t, &mut stats, 6, 4, None, bitcoin);
	}
	// (2) medium trees: start-up syncs longer than one fetch batch (36), long stale forks
	for _ in 0..n_medium {
		let (main_len, forks) = (g.rng.range(40, 130), g.rng.below(4));
		let uni = g.rng.chance(1, 2);
		let t = g.tree(main_len, forks, 90, uni);
		let bitcoin = g.rng.chance(1, 6);
		one_case(&mut rec, &mut g, &t, &mut stats, 4, 6, None, bitcoin);
	}
	// (3) deep trees: reorgs deeper than the header cache (HEADER_CACHE_LIMIT): the client connects
	//     more than LIMIT blocks on one branch (cache evicts the fork point), then the other branch wins
	for i in 0..n_deep {
		let mut t = Tree::new();
		let gen = t.mine(0, BITS[0], false);
		let stem_len = g.rng.range(1, 30);
		let stem = g.extend(&mut t, gen, stem_len, true);
		let over = if i % 3 == 2 { g.rng.range(0, 6) } else { g.rng.range(1, 80) };
		let a_len = if i % 3 == 2 { limit - 3 + over } else { limit + over };
		let a_tip = g.extend(&mut t, stem, a_len, true);
		let b_extra = g.rng.range(1, 5);
		let _b_tip = g.extend(&mut t, stem, a_len + b_extra, true);
		// start at the stem, poll up branch A first (tips[0] is A's tip), later polls move to B
		let mut c = Case { rec: &mut rec, log: vec![], fp: i };
		emit_tree(&mut c, &t);
		let src = Source::new(&t);
		c.dir("net 0".into());
		c.dir(format!("client {}", stem));
		let (listener, listener2) = (RecListener::new(&t), RecListener::new(&t));
		let pair: Pair = (&listener, &listener2);
		let mut client = SpvClient::new(t.validated(stem), ChainPoller::new(&src, Network::Regtest), HeaderCache::new(), &pair);
		let mut chain = t.path(stem);
		// deterministic first poll to A without failures, then random polls (B is a tip, A is a tip)
		{
			c.dir(format!("best {}", a_tip)); c.dir("hidden".into()); c.dir("sched".into());
			let mut st = src.st.lock().unwrap(); st.req = 0; st.sched.clear(); st.hidden.clear(); st.best = a_tip; st.triggered.clear(); drop(st);
			let r = block_on(client.poll_best_tip());
			let evs = listener.take(); let _ = listener2.take();
			let head = match &r { Ok((ChainTip::Better(h), b)) => format!("better {} {}", t.by_hash[&h.header.block_hash()], *b as u8), _ => "unexpected".to_string() };
			if let Err(e) = fold_chain(&t, &mut chain, &evs) { c.rec.oracle_fail(format!("deep case: {}", e)); }
			let ans = format!("{} r{} | {} | cache {}", head, src.st.lock().unwrap().req, show_evs(&evs), show_cache(&t, client.verif_cache_and_tip().0));
			let op = format!("poll {:x}", c.fp);
			c.rec.case(&op, ans.trim_end(), "poll:better:long-extension", true);
		}
		run_polls(&mut c, &mut g, &t, &mut client, &src, &pair, &mut chain, 4, &mut stats, 5, false);
	}
	// (4) Network::Bitcoin across a retarget height: check_builds_on's difficulty rules (equal bits except at multiples
	//     of 2016, there only within the 4x window) decide which branches the poller accepts
	let n_ret = if args.thorough { 150 * args.scale } else { 14 * args.scale };
	const RBITS: [u32; 7] = [0x207fffff, 0x203fffff, 0x201fffff, 0x200fffff, 0x2100ffff, 0x2007ffff, 0x207ffffe];
	for _ in 0..n_ret {
		let mut t = Tree::new();
		let gen = t.mine(0, BITS[0], false);
		let stem_len = 2011 + g.rng.below(3);
		let stem = g.extend(&mut t, gen, stem_len, true);
		let branches = g.rng.range(2, 3);
		for _ in 0..branches {
			let change_at = *g.rng.pick(&[2015u32, 2016, 2016, 2016, 2016, 2017]);
			let newbits = *g.rng.pick(&RBITS);
			let top = 2017 + g.rng.below(3) as u32;
			let mut cur = stem;
			while t.get(cur).height < top {
				let h = t.get(cur).height + 1;
				let full = g.rng.chance(1, 2);
				cur = t.mine(cur, if h >= change_at { newbits } else { BITS[0] }, full);
			}
		}
		*rec.classes.entry("case+retarget-tree".to_string()).or_insert(0) += 1;
		one_case(&mut rec, &mut g, &t, &mut stats, 5, 3, Some(stem), true);
	}
	let probe = probe_tip_claims(&mut g);
	if let (Some(tc), Some(td)) = (&stats.tuple_c, &stats.tuple_d) {
		rec.directive("tree");
		rec.case("tuple", &format!("C {} D {}", tc, td), "tuple:component-order", true);
	}
	rec.notes.insert("probe_tip_claims_not_checked".into(), probe);
	rec.notes.insert("rule".into(), "every poll/init op is distinct by the fingerprint of its whole case history (tree, tips, schedules, earlier answers); non-trivial = the listener was notified or a scheduled source failure was hit".into());
	rec.notes.insert("max_fork_depth".into(), format!("{} (HEADER_CACHE_LIMIT = {})", stats.max_fork_depth, HEADER_CACHE_LIMIT));
	rec.notes.insert("polls_walking_the_source_past_the_cache".into(), stats.cache_miss_walks.to_string());
	rec.notes.insert("interrupted_reorgs_leaving_lower_work".into(), format!("{} (chain_tip and listener at the fork point after a failed block fetch; consistent chain, resumes on the next poll){}", stats.lower_work_after_interrupt, stats.lower_work_example.as_ref().map(|s| format!(" e.g. {}", &s[..s.len().min(600)])).unwrap_or_default()));
	rec.finish();
}
