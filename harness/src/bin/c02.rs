//! C02 — a forwarding node never loses money on an HTLC it forwards.  Three REAL nodes A–B–C (sim engine).
//!
//! model `c02admit`: the real admission decision, END-TO-END (no hook: `internal_htlc_satisfies_config` is private):
//!   B's forwarding fee / cltv delta come from `UserConfig.channel_config`, A sends hand-built routes whose
//!   first-hop fee and cltv deltas sit on / next to every comparison, B's height may be ahead of A's; observed:
//!   B forwards (an `add` appears on B→C) or fails back (HTLCHandlingFailed with a local reason).
//!   op:  admit <height> <inAmt> <inCltv> <outAmt> <outCltv> <feeBase> <feeProp> <delta>  →  ok | err <class> [<Reason>]
//!
//! model `c02fwd`: ONE forwarded HTLC, B with Completed or InProgress persistence, random schedules (every
//!   message delivered separately, completions in any order, C claims or fails, B crashes and restarts — with the
//!   in-flight monitor updates lost or kept — and reconnects).  The observed trace is turned into FwdProto op
//!   lines; compared per op: which of {upstream PaymentPreimage update, downstream holder-commitment update,
//!   downstream revoke_and_ack (CommitmentSecret) update} are not-yet / blocked / with chain::Watch / durable;
//!   B's upstream `update_fulfill_htlc` / `update_fail_htlc` are validated against the model's guards; the
//!   terminal state and B's balance change are compared at the end.
//! Impl-side oracles (independent of the Lean model) are listed at `oracle_*` below.
use ldk_verif_harness::common::*;
use ldk_verif_harness::sim::*;
use lightning::events::{Event, HTLCHandlingFailureReason};
use lightning::ln::channelmanager::PaymentId;
use lightning::ln::functional_test_utils::*;
use lightning::ln::outbound_payment::RecipientOnionFields;
use lightning::routing::router::{Path, PaymentParameters, Route, RouteHop, RouteParameters};
use lightning::types::features::{ChannelFeatures, NodeFeatures};
use lightning::util::config::UserConfig;
use lightning::util::ser::Writeable;
use std::collections::BTreeMap;

const A: usize = 0;
const B: usize = 1;
const C: usize = 2;

fn b_config(base: u32, prop: u32, delta: u16) -> UserConfig {
	let mut cfg = test_default_channel_config();
	cfg.channel_config.forwarding_fee_base_msat = base;
	cfg.channel_config.forwarding_fee_proportional_millionths = prop;
	cfg.channel_config.cltv_expiry_delta = delta;
	cfg
}

/// A -> B -> C with a hand-built route: `fee_b` is what A pays B, `delta_b` the cltv delta A grants B.
fn send_custom(net: &mut Net, c0: usize, c1: usize, amt: u64, fee_b: u64, delta_b: u32, final_delta: u32) -> Result<usize, String> {
	// (functional_test_utils::get_payment_preimage_hash counts payments in a u8)
	static COUNTER: std::sync::atomic::AtomicU64 = std::sync::atomic::AtomicU64::new(1);
	let n = COUNTER.fetch_add(1, std::sync::atomic::Ordering::Relaxed);
	let mut pre = [0x5au8; 32]; pre[..8].copy_from_slice(&n.to_be_bytes());
	let preimage = lightning::types::payment::PaymentPreimage(pre);
	let hash = lightning::types::payment::PaymentHash({ use bitcoin::hashes::{sha256, Hash}; sha256::Hash::hash(&pre).to_byte_array() });
	let secret = net.nodes[C].node.create_inbound_payment_for_hash(hash, Some(amt), 7200, None, None).map_err(|_| "create_inbound_payment_for_hash".to_string())?.0;
	let hops = vec![
		RouteHop { pubkey: net.ids[B], node_features: NodeFeatures::empty(), short_channel_id: net.chans[c0].3, channel_features: ChannelFeatures::empty(), fee_msat: fee_b, cltv_expiry_delta: delta_b, maybe_announced_channel: true },
		RouteHop { pubkey: net.ids[C], node_features: NodeFeatures::empty(), short_channel_id: net.chans[c1].3, channel_features: ChannelFeatures::empty(), fee_msat: amt, cltv_expiry_delta: final_delta, maybe_announced_channel: true },
	];
	// the sender's own sanity limits (total cltv, total fee) must not pre-empt the forwarding node's decision
	let params = PaymentParameters::from_node_id(net.ids[C], final_delta).with_max_total_cltv_expiry_delta(u32::MAX / 2);
	let mut route_params = RouteParameters::from_payment_params_and_value(params, amt);
	route_params.max_total_routing_fee_msat = None;
	let route = Route { paths: vec![Path { hops, blinded_tail: None }], route_params };
	let id = PaymentId(hash.0);
	let r = net.nodes[A].node.send_payment_with_route(route, hash, RecipientOnionFields::secret_only(secret, amt), id);
	net.pump(A);
	match r {
		Ok(()) => { net.pays.push(PendingPay { hash, preimage, secret, amt, id, from: A, to: C }); Ok(net.pays.len() - 1) },
		Err(e) => Err(format!("{:?}", e).chars().take(80).collect()),
	}
}

fn reason_class(name: &str) -> &'static str {
	match name { "FeeInsufficient" => "fee", "IncorrectCLTVExpiry" | "CLTVExpiryTooSoon" | "CLTVExpiryTooFar" | "OutgoingCLTVTooSoon" => "cltv", _ => "other" }
}

fn parse_kv(detail: &str, key: &str) -> Option<u64> {
	detail.split(' ').find_map(|t| t.strip_prefix(key).and_then(|v| v.strip_prefix('=')).and_then(|v| v.parse().ok()))
}

// =================================================================================================
// c02admit
// =================================================================================================
fn admit_scenario(rng: &mut Rng, rec: &mut Rec, sc: usize, n_cases: usize) {
	let base = *rng.pick(&[0u32, 1, 1000, 12_345, 1_000_000]);
	let prop = *rng.pick(&[0u32, 1, 100, 2500, 999_999, 1_000_000, 3_000_001]);
	let delta = *rng.pick(&[48u16, 49, 72, 144]);
	let k = *rng.pick(&[0u32, 0, 11, 25, 40, 120]);
	let mut net = Net::new(3, vec![None, Some(b_config(base, prop, delta)), None]);
	let c0 = net.open(A, B, 10_000_000, 4_000_000_000);
	let c1 = net.open(B, C, 10_000_000, 4_000_000_000);
	if k > 0 { connect_blocks(&net.nodes[B], k); net.pump(B); }
	let lim_a = net.nodes[A].node.list_channels()[0].next_outbound_htlc_limit_msat;
	let lim_b = net.nodes[B].node.list_channels().iter().find(|c| c.channel_id == net.chans[c1].2).map(|c| c.next_outbound_htlc_limit_msat).unwrap_or(0);
	rec.notes.insert(format!("limits_s{}", sc), format!("A->B {} B->C {}", lim_a, lim_b));
	for case in 0..n_cases {
		let amt = match rng.below(7) { 0 => 10_000, 1 => 100_000, 2 => 1_000_000, 3 => 999_999, 4 => 3_333_333, 5 => rng.range(1000, 50_000), _ => rng.range(2000, 40_000_000) }.min(lim_b.saturating_sub(1000).max(1000));
		let req: u128 = amt as u128 * prop as u128 / 1_000_000 + base as u128;
		let req = req as u64;
		let hb = net.nodes[B].best_block_info().1 as u64 + 1; // cur_height as can_forward_htlc_should_intercept computes it
		let ha = net.nodes[A].best_block_info().1 as u64 + 1;
		let kk = hb - ha;
		let d = delta as u64;
		let target = rng.below(8);
		// defaults: everything satisfied with room
		let mut fee_b = req + rng.below(3) * rng.below(500);
		let mut delta_b = d + rng.below(3) * rng.below(30);
		let mut final_delta = kk + 4 + rng.below(80);
		match target {
			0 | 1 => { fee_b = match rng.below(5) { 0 => req, 1 => req.saturating_sub(1), 2 => req + 1, 3 => 0, _ => req.saturating_sub(rng.below(req.min(1000) + 1)) }; },
			2 | 3 => { delta_b = match rng.below(6) { 0 => d, 1 => d - 1, 2 => d + 1, 3 => 47, 4 => 48, _ => d.saturating_sub(rng.below(10)) }; },
			4 => { final_delta = kk + 2 + rng.below(4); }, // outCltv around hB + LATENCY_GRACE_PERIOD_BLOCKS
			5 => { let x = rng.below(4); let t = kk + 38 + x; if t >= delta_b { final_delta = t - delta_b; } }, // inCltv around hB + HTLC_FAIL_BACK_BUFFER
			6 => { let x = rng.below(4); final_delta = (kk + 2015 + x).saturating_sub(delta_b); }, // inCltv around hB + CLTV_FAR_FAR_AWAY
			_ => {},
		}
		if amt + fee_b > lim_a { continue; }
		let pos = net.trace.len();
		let evpos = net.events[B].len();
		let p = match send_custom(&mut net, c0, c1, amt, fee_b, delta_b as u32, final_delta as u32) { Ok(p) => p, Err(_) => { rec.discarded += 1; continue; } };
		net.settle(12);
		let seg: Vec<Obs> = net.trace[pos..].to_vec();
		let add_in = seg.iter().find_map(|o| if let Obs::Msg { from: A, to: B, kind: "add", amt, detail, .. } = o { Some((*amt, parse_kv(detail, "cltv").unwrap_or(0))) } else { None });
		let add_out = seg.iter().find_map(|o| if let Obs::Msg { from: B, to: C, kind: "add", amt, detail, .. } = o { Some((*amt, parse_kv(detail, "cltv").unwrap_or(0))) } else { None });
		let (in_amt, in_cltv) = match add_in { Some(x) => x, None => { rec.discarded += 1; continue; } };
		let out_amt = amt;
		let out_cltv = ha + final_delta;
		let local_reason = net.events[B][evpos..].iter().find_map(|e| if let Event::HTLCHandlingFailed { failure_reason, .. } = e {
			Some(match failure_reason { Some(HTLCHandlingFailureReason::Local { reason }) => { let s = format!("{:?}", reason); s.split(|c: char| !c.is_alphanumeric()).next().unwrap().to_string() }, Some(HTLCHandlingFailureReason::Downstream) => "Downstream".to_string(), None => "None".to_string() })
		} else { None });
		let (res, class) = if let Some((oa, oc)) = add_out {
			// ---- oracle_admit: what B put on the downstream link is what the onion asked for, and it is covered
			if oa != out_amt || oc != out_cltv { rec.oracle_fail(format!("admit s{} case {}: B forwarded amt={} cltv={} but the onion asked for amt={} cltv={}", sc, case, oa, oc, out_amt, out_cltv)); }
			if !(in_amt >= oa && (in_amt - oa) as u128 >= req as u128 && in_cltv >= oc + d && oc > hb + 3 && in_cltv > hb + 39) {
				rec.oracle_fail(format!("admit s{} case {}: B forwarded at a loss / without margin: height={} in=({},{}) out=({},{}) cfg=({},{},{})", sc, case, hb, in_amt, in_cltv, oa, oc, base, prop, delta));
			}
			("ok".to_string(), "admit:ok".to_string())
		} else if let Some(r) = local_reason {
			let cl = reason_class(&r);
			if cl == "other" { (format!("err other"), format!("admit:other:{}", r)) } else { (format!("err {} {}", cl, r), format!("admit:{}", r)) }
		} else { rec.discarded += 1; continue; };
		rec.case(&format!("admit {} {} {} {} {} {} {} {}", hb, in_amt, in_cltv, out_amt, out_cltv, base, prop, delta), &res, &class, true);
		// clean up: the recipient fails the payment back if it got it
		if net.claimable[C].iter().any(|c| c.0 == net.pays[p].hash) {
			let h = net.pays[p].hash; net.claimable[C].retain(|c| c.0 != h);
			net.fail_back(p); net.forward(C); net.settle(12);
		}
		let busy = net.nodes[B].node.list_channels().iter().any(|c| !c.pending_inbound_htlcs.is_empty() || !c.pending_outbound_htlcs.is_empty());
		if busy { rec.notes.insert(format!("stuck_s{}", sc), format!("case {}", case)); break; }
	}
	std::mem::forget(net);
}

// =================================================================================================
// c02fwd
// =================================================================================================
struct FwdOut { lines: Vec<(String, String, String, bool)>, oracle: Vec<String>, classes: Vec<String> }

fn mark(net: &mut Net, text: &str) { net.trace.push(Obs::Event { node: B, text: text.to_string() }); }

/// durable copies of B's monitors: (chan, update id) -> serialized monitor as it was when that id was its latest
fn snap_monitors(net: &Net, snaps: &mut BTreeMap<(usize, u64), Vec<u8>>) {
	for ci in 0..net.chans.len() {
		let (a, b, cid, _) = net.chans[ci];
		if a != B && b != B { continue; }
		if let Ok(m) = net.nodes[B].chain_monitor.chain_monitor.get_monitor(cid) {
			let id = m.get_latest_update_id();
			snaps.entry((ci, id)).or_insert_with(|| m.encode());
		}
	}
}

/// crash B now and restart it from the current manager and monitors that either contain the in-flight
/// updates (their writes had reached the disk) or only what was reported complete (in-flight writes lost)
fn crash_restart(net: &mut Net, rng: &mut Rng, snaps: &mut BTreeMap<(usize, u64), Vec<u8>>) -> Result<(), String> {
	snap_monitors(net, snaps);
	let lost = rng.chance(2, 3);
	let (mgr, cur) = net.snapshot(B);
	let mut mons = cur.clone();
	let mut really_lost = false;
	if lost {
		// monitors in snapshot() are sorted by channel id; rebuild the same order
		let mut ids = net.nodes[B].chain_monitor.chain_monitor.list_monitors(); ids.sort();
		let mut alt = vec![]; let mut ok = true;
		for (k, cid) in ids.iter().enumerate() {
			let ci = net.chan_idx(cid);
			let pend = net.pending_updates(B, ci);
			if let Some(minp) = pend.first() {
				match snaps.get(&(ci, minp - 1)) { Some(bytes) => { alt.push(bytes.clone()); really_lost = true; }, None => { ok = false; break; } }
			} else { alt.push(cur[k].clone()); }
		}
		if ok { mons = alt; } else { really_lost = false; }
	}
	mark(net, if really_lost { "CRASH 1" } else { "CRASH 0" });
	net.restart_from(B, &mgr, &mons).map_err(|e| format!("restart failed: {}", e))?;
	snaps.clear();
	snap_monitors(net, snaps);
	Ok(())
}

fn fwd_scenario(rng: &mut Rng, sc: usize, thorough: bool) -> Result<FwdOut, String> {
	let base = *rng.pick(&[0u32, 1000, 2500]);
	let prop = *rng.pick(&[0u32, 100, 5000, 100_000]);
	let delta = *rng.pick(&[48u16, 72, 144]);
	let mut net = Net::new(3, vec![None, Some(b_config(base, prop, delta)), None]);
	let r = guarded(std::panic::AssertUnwindSafe(|| fwd_scenario_inner(&mut net, rng, sc, thorough, base, prop, delta)));
	if !matches!(r, Ok(Ok(_))) && std::env::var("VERIF_TRACE").map(|v| v == "all" || v == sc.to_string()).unwrap_or(false) {
		eprintln!("=== scenario {} ended with {:?}; trace tail:", sc, r.as_ref().map(|x| x.as_ref().err()));
		let n = net.trace.len();
		for o in &net.trace[n.saturating_sub(70)..] { if !matches!(o, Obs::Balance { .. }) { eprintln!("  {}", fmt_obs(o)); } }
	}
	std::mem::forget(net); // Node::drop's own assertions are not an oracle here
	match r { Ok(x) => x, Err(p) => Err(format!("PANIC {}", p)) }
}

fn fwd_scenario_inner(net: &mut Net, rng: &mut Rng, sc: usize, thorough: bool, base: u32, prop: u32, delta: u16) -> Result<FwdOut, String> {
	let mut out = FwdOut { lines: vec![], oracle: vec![], classes: vec![] };
	let c0 = net.open(A, B, 1_000_000, 400_000_000);
	let c1 = net.open(B, C, 1_000_000, 400_000_000);
	let amt = match rng.below(4) { 0 => 1_000_000, 1 => 5_000_000, 2 => 400_000 + rng.below(1000), _ => rng.range(400_000, 50_000_000) }; // above the dust limits: the HTLC has an output
	let fee = (amt as u128 * prop as u128 / 1_000_000 + base as u128) as u64;
	let bal_before: u64 = { net.sample_balances(c0); net.sample_balances(c1); b_balance(net, c0) + b_balance(net, c1) };
	let p = send_custom(net, c0, c1, amt, fee, delta as u32, 50 + rng.below(40) as u32)?;
	net.settle(12);
	if !net.claimable[C].iter().any(|c| c.0 == net.pays[p].hash) { return Err("forward did not reach C".into()); }
	let in_amt = amt + fee;
	let p0 = net.trace.len();
	let mut snaps: BTreeMap<(usize, u64), Vec<u8>> = BTreeMap::new();
	snap_monitors(net, &mut snaps);
	let claim = rng.chance(7, 10);
	// directed part of the schedule: keep the upstream preimage update in flight until the downstream revocation
	// has arrived (so that it has to be parked), and crash right there some of the time
	let hold_up = claim && rng.chance(1, 2);
	let mut async_b = hold_up || rng.chance(2, 3);
	if async_b { net.set_mode(B, true); mark(net, "MODE 0"); }
	if claim { net.claim(p); } else { net.fail_back(p); net.forward(C); }
	let steps = if thorough { 40 + rng.below(60) } else { 25 + rng.below(40) } as usize;
	let mut restarts = 0;
	let max_restarts = rng.below(3);
	let mut down_links: Vec<(usize, usize)> = vec![];
	let mut scanned = net.trace.len();
	for _ in 0..steps {
		snap_monitors(net, &mut snaps);
		let mut parked = false;
		for o in &net.trace[scanned..] { match o {
			Obs::Generated { node: B, chan, .. } if *chan == c1 => parked = true,
			Obs::Update { node: B, chan, kinds, .. } if *chan == c1 && kinds.contains(&"CommitmentSecret") => parked = false,
			_ => {} } }
		scanned = net.trace.len();
		if parked && restarts < 2 && rng.chance(1, 2) {
			restarts += 1;
			crash_restart(net, rng, &mut snaps)?;
			async_b = false;
			down_links = vec![(A, B), (B, C)];
			if rng.chance(1, 2) { async_b = true; net.set_mode(B, true); mark(net, "MODE 0"); }
			continue;
		}
		let roll = if hold_up && rng.chance(2, 3) {
			if net.queued(C, B) + net.queued(B, C) > 0 { 0 } else { mark(net, "TICK"); net.process_events(C); 9 }
		} else { rng.below(20) };
		match roll {
			0..=8 => {
				let mut q: Vec<(usize, usize)> = net.q.iter().filter(|(_, v)| !v.is_empty()).map(|(k, _)| *k).collect();
				if hold_up { let dq: Vec<(usize, usize)> = q.iter().cloned().filter(|l| *l == (C, B) || *l == (B, C)).collect(); if !dq.is_empty() { q = dq; } }
				if !q.is_empty() { let (i, j) = *rng.pick(&q); net.deliver(i, j); }
			},
			9..=12 => {
				let mut cands: Vec<(usize, u64)> = vec![];
				for c in [c0, c1] { for id in net.pending_updates(B, c) { if hold_up && c == c0 && !rng.chance(1, 15) { continue; } cands.push((c, id)); } }
				if !cands.is_empty() { let (c, id) = *rng.pick(&cands); net.complete(B, c, id); }
			},
			13 | 14 => { let i = rng.below(3) as usize; mark(net, "TICK"); net.forward(i); net.process_events(i); },
			15 => {
				// switch B's persistence mode (only when nothing is in flight: a Completed after an InProgress is a contract violation)
				if !hold_up && net.pending_updates(B, c0).is_empty() && net.pending_updates(B, c1).is_empty() {
					async_b = !async_b; net.set_mode(B, async_b); mark(net, if async_b { "MODE 0" } else { "MODE 1" });
				}
			},
			16 | 17 => {
				if restarts < max_restarts {
					restarts += 1;
					crash_restart(net, rng, &mut snaps)?;
					async_b = false;
					down_links = vec![(A, B), (B, C)];
					if rng.chance(1, 2) { async_b = true; net.set_mode(B, true); mark(net, "MODE 0"); }
				}
			},
			_ => { if !down_links.is_empty() { let k = rng.below(down_links.len() as u64) as usize; let (x, y) = down_links.remove(k); net.reconnect(x, y); } },
		}
	}
	// ---- drain ------------------------------------------------------------------------------------
	for (x, y) in down_links.drain(..) { net.reconnect(x, y); }
	for _ in 0..60 {
		let mut any = false;
		for c in [c0, c1] { for id in net.pending_updates(B, c) { net.complete(B, c, id); any = true; } }
		if !any && async_b { async_b = false; net.set_mode(B, false); mark(net, "MODE 1"); }
		if let Some((i, j)) = net.any_queued() { net.deliver(i, j); any = true; }
		for i in 0..3 { if net.nodes[i].node.needs_pending_htlc_processing() { mark(net, "TICK"); net.forward(i); any = true; } let before = net.trace.len(); mark(net, "TICK"); net.process_events(i); if net.trace.len() > before + 1 { any = true; } }
		if !any { break; }
	}
	net.sample_balances(c0); net.sample_balances(c1);
	let bal_after = b_balance(net, c0) + b_balance(net, c1);
	let busy = net.nodes[B].node.list_channels().iter().any(|c| !c.pending_inbound_htlcs.is_empty() || !c.pending_outbound_htlcs.is_empty());

	if std::env::var("VERIF_TRACE").map(|v| v == "all" || v == sc.to_string()).unwrap_or(false) { eprintln!("=== scenario {} claim={} hold_up={} amt={} fee={}", sc, claim, hold_up, amt, fee); for o in &net.trace[p0..] { if !matches!(o, Obs::Balance { .. }) { eprintln!("  {}", fmt_obs(o)); } } }

	// ---- trace -> op lines + impl-side oracles -----------------------------------------------------------
	let tr: Vec<Obs> = net.trace[p0..].to_vec();
	for o in &tr { if let Obs::ProtoError { node, text } = o { out.oracle.push(format!("scenario {}: honest operation produced a protocol error at node {}: {}", sc, node, text)); } }
	for (n, r) in &net.closed { out.oracle.push(format!("scenario {}: channel closed at node {} ({})", sc, n, r)); }
	out.lines.push((format!("init {} {}", in_amt, amt), "-".into(), "init".into(), false));
	// observed state (impl side)
	let mut pre = 'n'; let mut cs = 'n'; let mut raa = 'n'; let mut up = 'p';
	let mut u1: Option<u64> = None; let mut d1: Option<u64> = None; let mut d2: Option<u64> = None;
	let mut seen_resolution = false; // C's update_fulfill / update_fail reached B
	let mut c_fulfilled_delivered = false;
	let mut crash_lost = false;
	let mut other_inflight: std::collections::BTreeSet<u64> = Default::default(); // unrelated upstream updates that are InProgress
	let line = |pre: char, cs: char, raa: char, up: char| format!("pre={} cs={} raa={} up={}", pre, cs, raa, up);
	// segment the trace: an op-starting record followed by its effects
	let is_start = |o: &Obs| match o { Obs::Delivered { .. } | Obs::Completed { .. } => true, Obs::Event { node: B, text } => text.starts_with("MODE") || text == "TICK" || text.starts_with("CRASH") || text == "RESTARTED", _ => false };
	let mut i = 0;
	// effects before the first op-starting record (C's claim itself) belong to no op of B
	while i < tr.len() && !is_start(&tr[i]) { i += 1; }
	while i < tr.len() {
		let start = tr[i].clone();
		let mut j = i + 1;
		while j < tr.len() && !is_start(&tr[j]) { j += 1; }
		let effects = &tr[i + 1..j];
		// the op
		let (op, class, nontrivial, directive): (String, String, bool, bool) = match &start {
			Obs::Delivered { from: C, to: B, kind, errors, .. } if *errors == 0 => match *kind {
				"fulfill" => { seen_resolution = true; c_fulfilled_delivered = true; ("recvFulfilDown".into(), "recvFulfilDown".into(), true, false) },
				"fail" | "malformed" => { seen_resolution = true; ("recvFailDown".into(), "recvFailDown".into(), true, false) },
				"cs" => ("recvCsDown".into(), "recvCsDown".into(), true, false),
				"raa" => ("recvRaaDown".into(), "recvRaaDown".into(), true, false),
				_ => ("other".into(), format!("other:dlv-{}", kind), false, false),
			},
			Obs::Delivered { kind, to, .. } => ("other".into(), format!("other:dlv{}-{}", to, kind), false, false),
			Obs::Completed { node: B, chan, id } => {
				if *chan == c0 && Some(*id) == u1 { pre = 'd'; ("complete up".into(), "complete:up".into(), true, false) }
				else if *chan == c1 && Some(*id) == d1 { cs = 'd'; ("complete downCs".into(), "complete:downCs".into(), true, false) }
				else if *chan == c1 && Some(*id) == d2 { raa = 'd'; ("complete downRaa".into(), "complete:downRaa".into(), true, false) }
				else if *chan == c0 && other_inflight.remove(id) { ("complete upOther".into(), "complete:upOther".into(), true, false) }
				else { ("other".into(), "other:complete".into(), false, false) }
			},
			Obs::Completed { .. } => ("other".into(), "other:complete-elsewhere".into(), false, false),
			Obs::Event { text, .. } if text.starts_with("MODE") => (format!("sync {}", &text[5..]), "sync".into(), true, false),
			Obs::Event { text, .. } if text.starts_with("CRASH") => { crash_lost = &text[6..] == "1"; (format!("crash {}", &text[6..]), format!("crash:lost={}", &text[6..]), true, true) },
			Obs::Event { text, .. } if text == "RESTARTED" => {
				// in-flight writes that had reached the disk are durable by construction of the monitors we restarted from
				if !crash_lost { if pre == 'h' { pre = 'd'; } if cs == 'h' { cs = 'd'; } if raa == 'h' { raa = 'd'; } }
				other_inflight.clear(); // replayed (or already applied) and complete under the synchronous persister of the restarted node
				("restart 1".into(), format!("restart:lost={}", crash_lost as u8), true, false)
			},
			_ => ("other".into(), "other:tick".into(), false, false),
		};
		// effects at B
		let mut sends: Vec<&'static str> = vec![];
		let mut others_handed = 0;
		let is_restart_seg = matches!(&start, Obs::Event { text, .. } if text == "RESTARTED");
		let seg_has_preimage_upd = effects.iter().any(|o| matches!(o, Obs::Update { node: B, chan, kinds, .. } if *chan == c0 && kinds.contains(&"PaymentPreimage")));
		for o in effects {
			match o {
				Obs::Update { node: B, chan, id, kinds, in_progress, .. } => {
					let st = if *in_progress { 'h' } else { 'd' };
					// the FIRST update carrying the preimage is the one that matters (a claim parked in the holding cell is
					// committed later by a second update that repeats the PaymentPreimage step)
					if *chan == c0 && kinds.contains(&"PaymentPreimage") && (u1.is_none() || u1 == Some(*id)) { u1 = Some(*id); pre = st; }
					else if *chan == c0 && *in_progress && other_inflight.insert(*id) { others_handed += 1; }
					if *chan == c1 && kinds.contains(&"HolderCommitmentTXInfo") && seen_resolution && (d1.is_none() || d1 == Some(*id)) { d1 = Some(*id); cs = st; }
					if *chan == c1 && kinds.contains(&"CommitmentSecret") && seen_resolution && (d2.is_none() || d2 == Some(*id)) {
						d2 = Some(*id); raa = st;
						// ---- oracle_gating (ii): the downstream revocation that removes a FULFILLED HTLC reaches chain::Watch
						// only after the upstream PaymentPreimage update is durable (in a restart segment the engine cannot
						// order updates across channels: there the preimage update must at least be present / durable)
						if claim && c_fulfilled_delivered && !(pre == 'd' || (is_restart_seg && seg_has_preimage_upd)) {
							out.oracle.push(format!("scenario {}: B handed the downstream CommitmentSecret update (id {}) to chain::Watch while the upstream PaymentPreimage update was {}", sc, id, if pre == 'n' { "not even generated" } else { "still in flight" }));
						}
					}
				},
				Obs::Generated { node: B, chan, .. } if *chan == c1 && matches!(&start, Obs::Delivered { from: C, to: B, kind: "raa", .. }) => { if raa == 'n' { raa = 'b'; } },
				Obs::Msg { from: B, to: A, kind, .. } if *kind == "fulfill" => sends.push("fulfil"),
				Obs::Msg { from: B, to: A, kind, .. } if *kind == "fail" || *kind == "malformed" => sends.push("fail"),
				_ => {},
			}
		}
		if directive { out.lines.push((op.clone(), "-".into(), class, false)); out.classes.push(format!("state-at-crash:{}", line(pre, cs, raa, up))); }
		else { out.lines.push((op.clone(), line(pre, cs, raa, up), class, nontrivial)); if nontrivial { out.classes.push(format!("state:{}", line(pre, cs, raa, up))); } }
		for _ in 0..others_handed { out.lines.push(("handUpOther".into(), line(pre, cs, raa, up), "handUpOther".into(), true)); }
		for s in sends {
			// ---- oracle (i): B never fails upstream an HTLC that C fulfilled
			if s == "fail" && claim { out.oracle.push(format!("scenario {}: B sent update_fail_htlc upstream for an HTLC the next hop fulfilled", sc)); }
			if s == "fulfil" && !claim { out.oracle.push(format!("scenario {}: B sent update_fulfill_htlc upstream for an HTLC the next hop failed", sc)); }
			// ---- oracle (v): the upstream message is released only after the update it rests on is durable: the
			// fulfil after the upstream PaymentPreimage update, the fail after the downstream revocation update
			if s == "fulfil" && up == 'p' && pre != 'd' { out.oracle.push(format!("scenario {}: B released update_fulfill_htlc upstream while the upstream PaymentPreimage update was not durable (pre={})", sc, pre)); }
			if s == "fail" && up == 'p' && raa != 'd' { out.oracle.push(format!("scenario {}: B released update_fail_htlc upstream while the downstream revocation update was not durable (raa={})", sc, raa)); }
			let c = if s == "fulfil" { 'f' } else { 'x' };
			if up == 'p' { up = c; out.lines.push((format!("sendUp {}", s), format!("ok {}", line(pre, cs, raa, up)), format!("sendUp:{}", s), true)); }
			else if up == c { out.lines.push((format!("resendUp {}", s), "ok".into(), format!("resendUp:{}", s), false)); }
			else { out.oracle.push(format!("scenario {}: B sent both update_fulfill_htlc and update_fail_htlc upstream", sc)); }
		}
		i = j;
	}
	// ---- terminal state, balances (iii), PaymentForwarded (iv) ---------------------------------------------
	let delta: i128 = bal_after as i128 - bal_before as i128;
	let settled = !busy && raa == 'd' && up != 'p';
	out.lines.push(("final".into(), format!("final up={} settled={} delta={}", up, settled as u8, delta), format!("final:{}", if claim { "claimed" } else { "failed" }), true));
	if busy { out.oracle.push(format!("scenario {}: HTLC still pending at B after the drain (claim={})", sc, claim)); }
	if delta < 0 { out.oracle.push(format!("scenario {}: B's total balance fell by {} msat (claim={})", sc, -delta, claim)); }
	if !busy && claim && delta != fee as i128 { out.oracle.push(format!("scenario {}: B's balance changed by {} msat on a successful forward, the configured fee is {}", sc, delta, fee)); }
	if !busy && !claim && delta != 0 { out.oracle.push(format!("scenario {}: B's balance changed by {} msat on a failed forward", sc, delta)); }
	let mut n_fwd = 0;
	for e in &net.events[B] { if let Event::PaymentForwarded { total_fee_earned_msat, claim_from_onchain_tx, .. } = e {
		n_fwd += 1;
		if *claim_from_onchain_tx || *total_fee_earned_msat != Some(fee) { out.oracle.push(format!("scenario {}: PaymentForwarded total_fee_earned_msat={:?} onchain={} but the configured fee is {}", sc, total_fee_earned_msat, claim_from_onchain_tx, fee)); }
	} }
	if claim && !busy && n_fwd == 0 { out.oracle.push(format!("scenario {}: successful forward without a PaymentForwarded event", sc)); }
	if !claim && n_fwd != 0 { out.oracle.push(format!("scenario {}: PaymentForwarded for a failed forward", sc)); }
	out.classes.push(format!("scenario:{}{}:{}:restarts{}", if claim { "claim" } else { "fail" }, if hold_up { "-holdup" } else { "" }, if tr.iter().any(|o| matches!(o, Obs::Event { text, .. } if text == "MODE 0")) { "async" } else { "sync" }, restarts));
	Ok(out)
}

fn b_balance(net: &Net, c: usize) -> u64 {
	net.trace.iter().rev().find_map(|o| if let Obs::Balance { node: B, chan, value_to_self_msat } = o { if *chan == c { Some(*value_to_self_msat) } else { None } } else { None }).unwrap_or(0)
}

fn main() {
	let args = &parse_args("c02admit");
	silence_stdout();
	let mut rec = Rec::new(&args.out, &args.model);
	let mut rng = Rng::new(args.seed);
	if args.model == "c02admit" {
		let (n_scen, n_cases) = if args.thorough { (60, 400) } else { (16, 160) };
		for sc in 0..n_scen * args.scale as usize {
			let mut sub = Rng::new(rng.next());
			let r = guarded(std::panic::AssertUnwindSafe(|| admit_scenario(&mut sub, &mut rec, sc, n_cases)));
			if let Err(p) = r { rec.oracle_fail(format!("admit scenario {} (seed {}) panicked: {}", sc, args.seed, p.chars().take(200).collect::<String>())); }
		}
		rec.notes.insert("rule".into(), "3 real nodes A-B-C per scenario, B's forwarding_fee_base_msat / forwarding_fee_proportional_millionths / cltv_expiry_delta drawn per scenario, B's chain tip 0..120 blocks ahead of A's; per case a hand-built route with the first-hop fee at required / -1 / +1 / 0, the first-hop cltv delta at configured / -1 / +1 / 47 / 48, and the final delta placing outCltv around height+LATENCY_GRACE_PERIOD_BLOCKS, inCltv around height+HTLC_FAIL_BACK_BUFFER and height+CLTV_FAR_FAR_AWAY; observed end-to-end (B→C add vs HTLCHandlingFailed local reason); distinct by op text".into());
	} else {
		let n_scen = if args.thorough { 3000 } else { 450 } * args.scale as usize;
		let mut class_hist: BTreeMap<String, u64> = BTreeMap::new();
		let only: Option<usize> = std::env::var("VERIF_ONLY").ok().and_then(|v| v.parse().ok());
		for sc in 0..n_scen {
			let mut sub = Rng::new(rng.next());
			if only.map(|o| o != sc).unwrap_or(false) { continue; }
			match guarded(std::panic::AssertUnwindSafe(|| fwd_scenario(&mut sub, sc, args.thorough))) {
				Ok(Ok(out)) => {
					rec.directive(&format!("# scenario {}", sc));
					for (k, (op, res, class, nt)) in out.lines.into_iter().enumerate() { if res == "-" { rec.directive(&op); } else { rec.case(&format!("{} @s{}.{}", op, sc, k), &res, &class, nt); } }
					for o in out.oracle { rec.oracle_fail(o); }
					for c in out.classes { *class_hist.entry(c).or_insert(0) += 1; }
				},
				Ok(Err(e)) if e.starts_with("PANIC ") => rec.oracle_fail(format!("fwd scenario {} (seed {}) panicked: {}", sc, args.seed, e.chars().take(300).collect::<String>())),
				Ok(Err(e)) => {
					rec.discarded += 1;
					let kind = if e.contains("Non-event-generating channel freeing") { "discard:reload-hits-debug_assert(FreeDuplicateClaimImmediately persisted)" } else if e.starts_with("restart failed") { "discard:restart-failed" } else { "discard:setup" };
					*class_hist.entry(kind.to_string()).or_insert(0) += 1;
					rec.notes.insert(format!("discard_s{}", sc), e);
				},
				Err(p) => rec.oracle_fail(format!("fwd scenario {} (seed {}) panicked: {}", sc, args.seed, p.chars().take(300).collect::<String>())),
			}
		}
		for (k, v) in class_hist { rec.classes.insert(k, v); }
		rec.notes.insert("rule".into(), "3 real nodes A-B-C, ONE forwarded HTLC per scenario, B with Completed or InProgress persistence (switched at random quiescent points), every message delivered separately in random order over the four directed links, monitor-update completions in random order, C claims (70%) or fails, up to 2 crash/restarts of B per scenario from the current manager and monitors that either contain or lack the in-flight updates, reconnects at random later points; op lines are the observed events at B; a case is one op of one scenario (distinct by scenario and position)".into());
	}
	rec.finish();
}
