//! C02 — a forwarding node never loses money on an HTLC it forwards.  Three REAL nodes A–B–C (sim engine).
//!
//! model `c02admit`: the real admission decision, END-TO-END (no hook: `internal_htlc_satisfies_config` is private):
//!   B's forwarding fee / cltv delta come from `UserConfig.channel_config`, A sends hand-built routes whose
//!   first-hop fee and cltv deltas sit on / next to every comparison, B's height may be ahead of A's; observed:
//!   B forwards (an `add` appears on B→C) or fails back (HTLCHandlingFailed with a local reason).
//!   op:  admit <height> <inAmt> <inCltv> <outAmt> <outCltv> <feeBase> <feeProp> <delta>  →  ok | err <class> [<Reason>]
//!
//! model `c02hop`: the admission decision for EVERY next-hop kind, END-TO-END on 4 real nodes A–B–C(–D): a genuine
//!   `update_add_htlc` A→B (real commitment dance) whose onion is REPLACED by one built with the same session key and
//!   an arbitrary forward payload for B (`amt_to_forward` less / equal / one more / much more than the HTLC carries,
//!   `outgoing_cltv_value` around every comparison), towards a public channel, a private channel, a channel whose peer
//!   is offline (optionally disabled), B's phantom SCID, B's intercept SCID, and SCIDs in no namespace, under random
//!   `htlc_interception_flags` / `accept_forwards_to_priv_channels` / a changed channel config (`prev_config`).  B is
//!   driven through the real `process_pending_htlc_forwards`; an `HTLCIntercepted` is released with
//!   `forward_intercepted_htlc(.., expected_outbound_amount_msat)` (what LSPS2 does); the HTLC is then claimed or failed
//!   by the recipient.  Compared with the compiled `Forward.outcome`: reject + reason / forward / intercept + release /
//!   phantom receive.
//!   op:  hop <best> <flags> <acceptPriv> <prevPublic> <scid> <inAmt> <inCltv> <outAmt> <outCltv> (chan <announce> <live>
//!        <enabled> <connected> <scidPrivacy> <alias> <cpMin> <feeProp> <feeBase> <delta> <hasPrev> <pProp> <pBase> <pDelta>
//!        | phantom | intercept | unknown)
//!
//! model `c02close`: the forwarder FORCE-CLOSES the outbound channel in the middle of the downstream commitment dance.  4 real
//!   nodes A–B–C and E–B (legacy channels), several forwarded HTLCs in different states on B–C (holding cell, LocalAnnounced
//!   sent / only in a HELD commitment, Committed, fulfilled-not-yet-revoked), with or without an RAA blocker (the inbound
//!   edge's preimage update kept InProgress), random schedules, the close at a random point by
//!   force_close_broadcasting_latest_txn / an `error` message from C / an invalid `update_fulfill_htlc` from C.  Per forwarded
//!   HTLC on B–C at the instant of the close: the state `list_channels` reports, whether its update_add_htlc ever left B,
//!   whether C's latest commitment and the commitment B broadcasts contain it, and whether B failed it backwards upstream
//!   before anything confirmed — validated against the GENERATED selection of `force_shutdown` and the model's invariant.
//!   Then one of the two commitments is mined, C claims on chain with the preimages it has, and B's outcome is accounted.
//!   op:  fc <hc|la|committed|rm-ok|rm-fail> <heldExists> <sent> <cHas> <bHas> <drop|keep>  →  ok
//!
//! model `c02fwd`: ONE forwarded HTLC, B with Completed or InProgress persistence, random schedules (every
//!   message delivered separately, completions in any order, C claims or fails, B crashes and restarts — with the
//!   in-flight monitor updates lost or kept — and reconnects).  The observed trace is turned into FwdProto op
//!   lines; compared per op: which of {upstream PaymentPreimage update, downstream holder-commitment update,
//!   downstream revoke_and_ack (CommitmentSecret) update} are not-yet / blocked / with chain::Watch / durable;
//!   B's upstream `update_fulfill_htlc` / `update_fail_htlc` are validated against the model's guards; the
//!   terminal state and B's balance change are compared at the end.
//! Impl-side oracles (independent of the Lean model) are listed at `oracle_*` below.
use ldk_verif_harness::common::*;
use ldk_verif_harness::sim::*;
use lightning::events::{Event, HTLCHandlingFailureReason};
use lightning::ln::channelmanager::{PaymentId, MIN_CLTV_EXPIRY_DELTA};
use lightning::ln::onion_utils::create_payment_onion;
use lightning::ln::verif_hooks as vh;
use lightning::sign::{NodeSigner, Recipient};
use lightning::ln::channel_state::OutboundHTLCStateDetails;
use lightning::ln::msgs::{self, ChannelMessageHandler};
use bitcoin::Transaction;
use lightning::util::scid_utils::{block_from_scid, scid_from_parts, tx_index_from_scid, vout_from_scid};
use lightning::ln::functional_test_utils::*;
use lightning::ln::outbound_payment::RecipientOnionFields;
use lightning::routing::router::{Path, PaymentParameters, Route, RouteHop, RouteParameters};
use lightning::types::features::{ChannelFeatures, NodeFeatures};
use lightning::util::config::UserConfig;
use lightning::util::ser::Writeable;
use std::collections::BTreeMap;

const A: usize = 0;
const B: usize = 1;
const C: usize = 2;

fn b_config(base: u32, prop: u32, delta: u16) -> UserConfig {
	let mut cfg = test_default_channel_config();
	cfg.channel_config.forwarding_fee_base_msat = base;
	cfg.channel_config.forwarding_fee_proportional_millionths = prop;
	cfg.channel_config.cltv_expiry_delta = delta;
	cfg
}

/// A -> B -> C with a hand-built route: `fee_b` is what A pays B, `delta_b` the cltv delta A grants B.
fn send_custom(net: &mut Net, c0: usize, c1: usize, amt: u64, fee_b: u64, delta_b: u32, final_delta: u32) -> Result<usize, String> {
	// (functional_test_utils::get_payment_preimage_hash counts payments in a u8)
	static COUNTER: std::sync::atomic::AtomicU64 = std::sync::atomic::AtomicU64::new(1);
	let n = COUNTER.fetch_add(1, std::sync::atomic::Ordering::Relaxed);
	let mut pre = [0x5au8; 32]; pre[..8].copy_from_slice(&n.to_be_bytes());
	let preimage = lightning::types::payment::PaymentPreimage(pre);
	let hash = lightning::types::payment::PaymentHash({ use bitcoin::hashes::{sha256, Hash}; sha256::Hash::hash(&pre).to_byte_array() });
	let secret = net.nodes[C].node.create_inbound_payment_for_hash(hash, Some(amt), 7200, None, None).map_err(|_| "create_inbound_payment_for_hash".to_string())?.0;
	let hops = vec![
		RouteHop { pubkey: net.ids[B], node_features: NodeFeatures::empty(), short_channel_id: net.chans[c0].3, channel_features: ChannelFeatures::empty(), fee_msat: fee_b, cltv_expiry_delta: delta_b, maybe_announced_channel: true },
		RouteHop { pubkey: net.ids[C], node_features: NodeFeatures::empty(), short_channel_id: net.chans[c1].3, channel_features: ChannelFeatures::empty(), fee_msat: amt, cltv_expiry_delta: final_delta, maybe_announced_channel: true },
	];
	// the sender's own sanity limits (total cltv, total fee) must not pre-empt the forwarding node's decision
	let params = PaymentParameters::from_node_id(net.ids[C], final_delta).with_max_total_cltv_expiry_delta(u32::MAX / 2);
	let mut route_params = RouteParameters::from_payment_params_and_value(params, amt);
	route_params.max_total_routing_fee_msat = None;
	let route = Route { paths: vec![Path { hops, blinded_tail: None }], route_params };
	let id = PaymentId(hash.0);
	let r = net.nodes[A].node.send_payment_with_route(route, hash, RecipientOnionFields::secret_only(secret, amt), id);
	net.pump(A);
	match r {
		Ok(()) => { net.pays.push(PendingPay { hash, preimage, secret, amt, id, from: A, to: C }); Ok(net.pays.len() - 1) },
		Err(e) => Err(format!("{:?}", e).chars().take(80).collect()),
	}
}

fn reason_class(name: &str) -> &'static str {
	match name { "FeeInsufficient" => "fee", "IncorrectCLTVExpiry" | "CLTVExpiryTooSoon" | "CLTVExpiryTooFar" | "OutgoingCLTVTooSoon" => "cltv", _ => "other" }
}

fn parse_kv(detail: &str, key: &str) -> Option<u64> {
	detail.split(' ').find_map(|t| t.strip_prefix(key).and_then(|v| v.strip_prefix('=')).and_then(|v| v.parse().ok()))
}

// =================================================================================================
// c02admit
// =================================================================================================
fn admit_scenario(rng: &mut Rng, rec: &mut Rec, sc: usize, n_cases: usize) {
	let base = *rng.pick(&[0u32, 1, 1000, 12_345, 1_000_000]);
	let prop = *rng.pick(&[0u32, 1, 100, 2500, 999_999, 1_000_000, 3_000_001]);
	let delta = *rng.pick(&[48u16, 49, 72, 144]);
	let k = *rng.pick(&[0u32, 0, 11, 25, 40, 120]);
	let mut net = Net::new(3, vec![None, Some(b_config(base, prop, delta)), None]);
	let c0 = net.open(A, B, 10_000_000, 4_000_000_000);
	let c1 = net.open(B, C, 10_000_000, 4_000_000_000);
	if k > 0 { connect_blocks(&net.nodes[B], k); net.pump(B); }
	let lim_a = net.nodes[A].node.list_channels()[0].next_outbound_htlc_limit_msat;
	let lim_b = net.nodes[B].node.list_channels().iter().find(|c| c.channel_id == net.chans[c1].2).map(|c| c.next_outbound_htlc_limit_msat).unwrap_or(0);
	rec.notes.insert(format!("limits_s{}", sc), format!("A->B {} B->C {}", lim_a, lim_b));
	for case in 0..n_cases {
		let amt = match rng.below(7) { 0 => 10_000, 1 => 100_000, 2 => 1_000_000, 3 => 999_999, 4 => 3_333_333, 5 => rng.range(1000, 50_000), _ => rng.range(2000, 40_000_000) }.min(lim_b.saturating_sub(1000).max(1000));
		let req: u128 = amt as u128 * prop as u128 / 1_000_000 + base as u128;
		let req = req as u64;
		let hb = net.nodes[B].best_block_info().1 as u64 + 1; // cur_height as can_forward_htlc_should_intercept computes it
		let ha = net.nodes[A].best_block_info().1 as u64 + 1;
		let kk = hb - ha;
		let d = delta as u64;
		let target = rng.below(8);
		// defaults: everything satisfied with room
		let mut fee_b = req + rng.below(3) * rng.below(500);
		let mut delta_b = d + rng.below(3) * rng.below(30);
		let mut final_delta = kk + 4 + rng.below(80);
		match target {
			0 | 1 => { fee_b = match rng.below(5) { 0 => req, 1 => req.saturating_sub(1), 2 => req + 1, 3 => 0, _ => req.saturating_sub(rng.below(req.min(1000) + 1)) }; },
			2 | 3 => { delta_b = match rng.below(6) { 0 => d, 1 => d - 1, 2 => d + 1, 3 => 47, 4 => 48, _ => d.saturating_sub(rng.below(10)) }; },
			4 => { final_delta = kk + 2 + rng.below(4); }, // outCltv around hB + LATENCY_GRACE_PERIOD_BLOCKS
			5 => { let x = rng.below(4); let t = kk + 38 + x; if t >= delta_b { final_delta = t - delta_b; } }, // inCltv around hB + HTLC_FAIL_BACK_BUFFER
			6 => { let x = rng.below(4); final_delta = (kk + 2015 + x).saturating_sub(delta_b); }, // inCltv around hB + CLTV_FAR_FAR_AWAY
			_ => {},
		}
		if amt + fee_b > lim_a { continue; }
		let pos = net.trace.len();
		let evpos = net.events[B].len();
		let p = match send_custom(&mut net, c0, c1, amt, fee_b, delta_b as u32, final_delta as u32) { Ok(p) => p, Err(_) => { rec.discarded += 1; continue; } };
		net.settle(12);
		let seg: Vec<Obs> = net.trace[pos..].to_vec();
		let add_in = seg.iter().find_map(|o| if let Obs::Msg { from: A, to: B, kind: "add", amt, detail, .. } = o { Some((*amt, parse_kv(detail, "cltv").unwrap_or(0))) } else { None });
		let add_out = seg.iter().find_map(|o| if let Obs::Msg { from: B, to: C, kind: "add", amt, detail, .. } = o { Some((*amt, parse_kv(detail, "cltv").unwrap_or(0))) } else { None });
		let (in_amt, in_cltv) = match add_in { Some(x) => x, None => { rec.discarded += 1; continue; } };
		let out_amt = amt;
		let out_cltv = ha + final_delta;
		let local_reason = net.events[B][evpos..].iter().find_map(|e| if let Event::HTLCHandlingFailed { failure_reason, .. } = e {
			Some(match failure_reason { Some(HTLCHandlingFailureReason::Local { reason }) => { let s = format!("{:?}", reason); s.split(|c: char| !c.is_alphanumeric()).next().unwrap().to_string() }, Some(HTLCHandlingFailureReason::Downstream) => "Downstream".to_string(), None => "None".to_string() })
		} else { None });
		let (res, class) = if let Some((oa, oc)) = add_out {
			// ---- oracle_admit: what B put on the downstream link is what the onion asked for, and it is covered
			if oa != out_amt || oc != out_cltv { rec.oracle_fail(format!("admit s{} case {}: B forwarded amt={} cltv={} but the onion asked for amt={} cltv={}", sc, case, oa, oc, out_amt, out_cltv)); }
			if !(in_amt >= oa && (in_amt - oa) as u128 >= req as u128 && in_cltv >= oc + d && oc > hb + 3 && in_cltv > hb + 39) {
				rec.oracle_fail(format!("admit s{} case {}: B forwarded at a loss / without margin: height={} in=({},{}) out=({},{}) cfg=({},{},{})", sc, case, hb, in_amt, in_cltv, oa, oc, base, prop, delta));
			}
			("ok".to_string(), "admit:ok".to_string())
		} else if let Some(r) = local_reason {
			let cl = reason_class(&r);
			if cl == "other" { (format!("err other"), format!("admit:other:{}", r)) } else { (format!("err {} {}", cl, r), format!("admit:{}", r)) }
		} else { rec.discarded += 1; continue; };
		rec.case(&format!("admit {} {} {} {} {} {} {} {}", hb, in_amt, in_cltv, out_amt, out_cltv, base, prop, delta), &res, &class, true);
		// clean up: the recipient fails the payment back if it got it
		if net.claimable[C].iter().any(|c| c.0 == net.pays[p].hash) {
			let h = net.pays[p].hash; net.claimable[C].retain(|c| c.0 != h);
			net.fail_back(p); net.forward(C); net.settle(12);
		}
		let busy = net.nodes[B].node.list_channels().iter().any(|c| !c.pending_inbound_htlcs.is_empty() || !c.pending_outbound_htlcs.is_empty());
		if busy { rec.notes.insert(format!("stuck_s{}", sc), format!("case {}", case)); break; }
	}
	std::mem::forget(net);
}

// =================================================================================================
// c02hop
// =================================================================================================
const D: usize = 3;

#[derive(Clone, Copy, PartialEq, Debug)]
enum Kind { Pub, Priv, Dchan, Phantom, Intercept, Unknown, AliasNs }

#[derive(Clone, Copy)]
struct Cfg3 { prop: u32, base: u32, delta: u16 }
impl Cfg3 { fn fee(&self, amt: u64) -> Option<u64> { amt.checked_mul(self.prop as u64).and_then(|p| (p / 1_000_000).checked_add(self.base as u64)) } }

fn b_total_balance(net: &Net) -> u64 {
	let mut t = 0;
	for (a, b, cid, _) in net.chans.iter() {
		let peer = if *a == B { *b } else if *b == B { *a } else { continue };
		t += vh::channel_value_to_self_msat(net.nodes[B].node, &net.ids[peer], cid).unwrap_or(0);
	}
	t
}

fn local_reason(e: &Event) -> Option<String> {
	if let Event::HTLCHandlingFailed { failure_reason, .. } = e {
		Some(match failure_reason { Some(HTLCHandlingFailureReason::Local { reason }) => { let s = format!("{:?}", reason); s.split(|c: char| !c.is_alphanumeric()).next().unwrap().to_string() }, Some(HTLCHandlingFailureReason::Downstream) => "Downstream".to_string(), None => "None".to_string() })
	} else { None }
}

/// reasons `can_forward_htlc_should_intercept` (and the phantom receive / unknown-SCID stage behind it) can give
const ADMISSION_REASONS: &[&str] = &["PrivateChannelForward", "RealSCIDForward", "InvalidTrampolineForward", "ChannelDisabled", "PeerOffline", "ChannelNotReady",
	"AmountBelowMinimum", "FeeInsufficient", "IncorrectCLTVExpiry", "UnknownNextPeer", "CLTVExpiryTooSoon", "CLTVExpiryTooFar", "OutgoingCLTVTooSoon", "PaymentClaimBuffer"];

fn hop_scenario(rng: &mut Rng, rec: &mut Rec, sc: usize, n_cases: usize) {
	let cur = Cfg3 { base: *rng.pick(&[0u32, 1, 1000, 12_345]), prop: *rng.pick(&[0u32, 1, 100, 2500, 999_999, 1_000_000]), delta: *rng.pick(&[48u16, 49, 72, 144]) };
	let flags: u8 = match rng.below(20) { 0 | 1 => 0, 2 | 3 => 1, 4 | 5 => 128, 6..=8 => 129, 9 => 2, 10 => 4, 11 => 8, 12 => 16, 13 => 32, 14 => 64, 15 | 16 => 255, _ => rng.next() as u8 };
	let accept_priv = rng.chance(1, 2);
	let prev_public = rng.chance(2, 3);
	let d_public = rng.chance(1, 2);
	let d_online = rng.chance(1, 4);
	let d_disabled = !d_online && rng.chance(1, 2);
	let k = *rng.pick(&[0u32, 0, 11, 40]);
	let mut bcfg = b_config(cur.base, cur.prop, cur.delta);
	bcfg.htlc_interception_flags = flags;
	bcfg.accept_forwards_to_priv_channels = accept_priv;
	let mut ccfg = test_default_channel_config();
	ccfg.channel_handshake_config.our_htlc_minimum_msat = *rng.pick(&[1u64, 1000, 5000]);
	let mut dcfg = test_default_channel_config();
	dcfg.channel_handshake_config.our_htlc_minimum_msat = *rng.pick(&[1u64, 2000]);
	let mut net = Net::new(4, vec![None, Some(bcfg), Some(ccfg), Some(dcfg)]);
	let c0 = if prev_public { net.open(A, B, 10_000_000, 4_000_000_000) } else { net.open_private(A, B, 10_000_000, 4_000_000_000) };
	let c1 = net.open(B, C, 10_000_000, 4_000_000_000);
	let c2 = net.open_private(B, C, 10_000_000, 4_000_000_000);
	let c3 = if d_public { net.open(B, D, 10_000_000, 4_000_000_000) } else { net.open_private(B, D, 10_000_000, 4_000_000_000) };
	if !d_online { net.disconnect(B, D); }
	if d_disabled { for _ in 0..12 { net.nodes[B].node.timer_tick_occurred(); } net.pump(B); }
	if k > 0 { connect_blocks(&net.nodes[B], k); net.pump(B); }
	// a changed config on the public B-C channel: the old one stays acceptable as `prev_config`
	let mut prev_c1: Option<Cfg3> = None;
	let mut cur_c1 = cur;
	if rng.chance(1, 3) {
		let newc = Cfg3 { base: *rng.pick(&[0u32, 500, 2000, 50_000]), prop: *rng.pick(&[0u32, 10, 5000, 1_000_000]), delta: *rng.pick(&[48u16, 60, 100, 200]) };
		let mut cc = net.nodes[B].node.list_channels().iter().find(|c| c.channel_id == net.chans[c1].2).unwrap().config.unwrap();
		cc.forwarding_fee_base_msat = newc.base; cc.forwarding_fee_proportional_millionths = newc.prop; cc.cltv_expiry_delta = newc.delta;
		if net.nodes[B].node.update_channel_config(&net.ids[C], &[net.chans[c1].2], &cc).is_ok() && (newc.base != cur.base || newc.prop != cur.prop || newc.delta != cur.delta) {
			prev_c1 = Some(cur); cur_c1 = newc;
		}
		net.pump(B);
	}
	let secp = bitcoin::secp256k1::Secp256k1::new();
	let phantom_scid = net.nodes[B].node.get_phantom_scid();
	let intercept_scid = net.nodes[B].node.get_intercept_scid();
	let phantom_pk = net.nodes[B].keys_manager.get_node_id(Recipient::PhantomNode).unwrap();
	// the three namespaces of (block, tx) differ in the low vout bits by the namespace id (0 phantom, 1 alias, 2 intercept):
	// vout ^ 4 is in no namespace, vout ^ 1 is in the outbound-alias namespace (not a channel of ours)
	let (pb, pt, pv) = (block_from_scid(phantom_scid) as u64, tx_index_from_scid(phantom_scid) as u64, vout_from_scid(phantom_scid) as u64);
	let unknown_scid = scid_from_parts(pb, pt, pv ^ 4).unwrap();
	let aliasns_scid = scid_from_parts(pb, pt, pv ^ 1).unwrap();
	let lim_a = net.nodes[A].node.list_channels()[0].next_outbound_htlc_limit_msat;
	let min_a = net.nodes[A].node.list_channels()[0].next_outbound_htlc_minimum_msat.max(1);
	rec.notes.insert(format!("hop_s{}", sc), format!("flags={} accept_priv={} prev_public={} d_public={} d_online={} d_disabled={} k={} cur=({},{},{}) prev_c1={}", flags, accept_priv, prev_public, d_public, d_online, d_disabled, k, cur.base, cur.prop, cur.delta, prev_c1.is_some()));
	let min_delta = MIN_CLTV_EXPIRY_DELTA as u64;

	for case in 0..n_cases {
		let kind = match rng.below(16) { 0..=2 => Kind::Pub, 3 | 4 => Kind::Priv, 5 | 6 => Kind::Dchan, 7 | 8 => Kind::Phantom, 9..=11 => Kind::Intercept, 12..=14 => Kind::Unknown, _ => Kind::AliasNs };
		let (ci, scid) = match kind { Kind::Pub => (Some(c1), net.chans[c1].3), Kind::Priv => (Some(c2), net.chans[c2].3), Kind::Dchan => (Some(c3), net.chans[c3].3),
			Kind::Phantom => (None, phantom_scid), Kind::Intercept => (None, intercept_scid), Kind::Unknown => (None, unknown_scid), Kind::AliasNs => (None, aliasns_scid) };
		// ---- the channel as the admission code sees it
		let (ccur, cprev) = match kind { Kind::Pub => (cur_c1, prev_c1), _ => (cur, None) };
		let det = ci.map(|ci| net.nodes[B].node.list_channels().into_iter().find(|c| c.channel_id == net.chans[ci].2).unwrap());
		let cp_min = det.as_ref().map(|d| d.counterparty.outbound_htlc_minimum_msat.unwrap_or(0)).unwrap_or(0);
		let hb = net.nodes[B].best_block_info().1 as u64 + 1;
		let ha = net.nodes[A].best_block_info().1 as u64 + 1;
		let d = if ci.is_some() { ccur.delta as u64 } else { min_delta };
		// ---- amounts: what the onion asks B to forward vs what the HTLC carries
		let base_out: u64 = match rng.below(8) { 0 => 10_000, 1 => 100_000, 2 => 1_000_000, 3 => 999_999, 4 => cp_min.max(2), 5 => cp_min.max(2) - 1, 6 => rng.range(1000, 50_000), _ => rng.range(2000, 30_000_000) };
		let req = if ci.is_some() { ccur.fee(base_out).unwrap_or(0) } else { 0 };
		let preq = cprev.and_then(|p| p.fee(base_out)).unwrap_or(req);
		// focus: 0 = amounts on the edge with a comfortable expiry, 1 = expiries on the edge with a comfortable amount, 2 = both on the edge
		let focus = rng.below(5);
		let (mut in_amt, out_amt) = match if focus == 1 || focus == 3 { 13 } else { rng.below(13) } {
			0 => (base_out + req, base_out),                                   // exactly the fee
			1 => ((base_out + req).saturating_sub(1).max(1), base_out),          // one msat short of the fee
			2 => (base_out + req + 1, base_out),
			3 => (base_out + preq, base_out),                                  // exactly the previous config's fee
			4 => ((base_out + preq).saturating_sub(1).max(1), base_out),
			5 => (base_out, base_out),                                         // onion asks for exactly what the HTLC carries
			6 => (base_out.saturating_sub(1).max(1), base_out),                // ... one msat more than it carries
			7 => ((base_out / 2).max(1), base_out),                            // ... twice
			8 => ((base_out / 10).max(1), base_out),                           // ... ten times
			9 => (1, base_out),                                                // ... 1 msat in, everything out
			10 => (base_out + 1, base_out),                                    // one msat less than it carries
			11 => (base_out + req + rng.below(5000), base_out),
			12 => (base_out * 2, base_out),
			_ => (base_out + req.max(preq) + 1000, base_out),
		};
		if in_amt > lim_a { in_amt = lim_a; }
		if in_amt < min_a { in_amt = min_a; }
		// ---- expiries
		let mut in_cltv = match if focus == 0 || focus == 4 { 8 } else { rng.below(9) } { 0 => hb + 39, 1 => hb + 40, 2 => hb + 2016, 3 => hb + 2017, 4 => hb + d + 4, 5 => hb + d + 3, _ => hb + d + 45 + rng.below(200) };
		if in_cltv < ha { in_cltv = ha; }
		let pd = cprev.map(|p| p.delta as u64).unwrap_or(d);
		let out_cltv: u64 = match if focus == 0 || focus == 4 { 15 } else { rng.below(15) } {
			0 => in_cltv.saturating_sub(d), 1 => in_cltv.saturating_sub(d) + 1, 2 => in_cltv.saturating_sub(d + 1),
			3 => in_cltv.saturating_sub(min_delta), 4 => in_cltv.saturating_sub(min_delta) + 1,
			5 => in_cltv.saturating_sub(pd), 6 => in_cltv.saturating_sub(pd) + 1,
			7 => in_cltv, 8 => in_cltv + 1, 9 => in_cltv + 1000,
			10 => hb + 3, 11 => hb + 4, 12 => hb + 39, 13 => hb + 40,
			_ => in_cltv.saturating_sub(d + rng.below(30)),
		};
		// ---- the genuine payment: A -> B carries (in_amt, in_cltv); its onion names the target SCID
		static COUNTER: std::sync::atomic::AtomicU64 = std::sync::atomic::AtomicU64::new(1);
		let n = COUNTER.fetch_add(1, std::sync::atomic::Ordering::Relaxed);
		let mut pre = [0x6bu8; 32]; pre[..8].copy_from_slice(&n.to_be_bytes());
		let preimage = lightning::types::payment::PaymentPreimage(pre);
		let hash = lightning::types::payment::PaymentHash({ use bitcoin::hashes::{sha256, Hash}; sha256::Hash::hash(&pre).to_byte_array() });
		let to_d = kind == Kind::Dchan && d_online;
		let recv = if kind == Kind::Phantom { B } else if to_d { D } else { C };
		let secret = match net.nodes[recv].node.create_inbound_payment_for_hash(hash, None, 7200, None, None) { Ok(s) => s.0, Err(_) => { rec.discarded += 1; *rec.classes.entry("discard:setup-1".to_string()).or_insert(0) += 1; continue; } };
		let next_pk = if kind == Kind::Phantom { phantom_pk } else { net.ids[recv] };
		let hop0 = RouteHop { pubkey: net.ids[B], node_features: NodeFeatures::empty(), short_channel_id: net.chans[c0].3, channel_features: ChannelFeatures::empty(), fee_msat: 0, cltv_expiry_delta: 0, maybe_announced_channel: prev_public };
		let hop1 = RouteHop { pubkey: next_pk, node_features: NodeFeatures::empty(), short_channel_id: scid, channel_features: ChannelFeatures::empty(), fee_msat: in_amt, cltv_expiry_delta: (in_cltv - ha) as u32, maybe_announced_channel: true };
		let params = PaymentParameters::from_node_id(next_pk, 0).with_max_total_cltv_expiry_delta(u32::MAX / 2);
		let mut route_params = RouteParameters::from_payment_params_and_value(params, in_amt);
		route_params.max_total_routing_fee_msat = None;
		let route = Route { paths: vec![Path { hops: vec![hop0.clone(), hop1.clone()], blinded_tail: None }], route_params };
		let mut sk_bytes = rng.bytes32(); sk_bytes[0] = 0x01 | (sk_bytes[0] & 0x7f); // a valid secp256k1 scalar
		let session_priv = match bitcoin::secp256k1::SecretKey::from_slice(&sk_bytes) { Ok(k) => k, Err(_) => { rec.discarded += 1; *rec.classes.entry("discard:setup-2".to_string()).or_insert(0) += 1; continue; } };
		let bal_before = b_total_balance(&net);
		let pos = net.trace.len();
		let evpos = net.events[B].len();
		*net.nodes[A].keys_manager.override_random_bytes.lock().unwrap() = Some(sk_bytes);
		let id = PaymentId(hash.0);
		let r = net.nodes[A].node.send_payment_with_route(route, hash, RecipientOnionFields::secret_only(secret, in_amt), id);
		*net.nodes[A].keys_manager.override_random_bytes.lock().unwrap() = None;
		net.pump(A);
		if r.is_err() { rec.discarded += 1; *rec.classes.entry("discard:setup-3".to_string()).or_insert(0) += 1; continue; }
		net.pays.push(PendingPay { hash, preimage, secret, amt: out_amt, id, from: A, to: recv });
		let p = net.pays.len() - 1;
		// ---- swap the onion: same session key, the forward payload for B says (scid, out_amt, out_cltv); the
		// recipient's payload repeats (out_amt, out_cltv)
		let onion_path = Path { hops: vec![hop0, RouteHop { fee_msat: out_amt, cltv_expiry_delta: out_cltv as u32, ..hop1 }], blinded_tail: None };
		let pkt = match create_payment_onion(&secp, &onion_path, &session_priv, &RecipientOnionFields::secret_only(secret, out_amt), 0, &hash, &None, None, sk_bytes) { Ok((pkt, _, _)) => pkt, Err(_) => { rec.discarded += 1; *rec.classes.entry("discard:setup-4".to_string()).or_insert(0) += 1; continue; } };
		let mut swapped = false;
		if let Some(q) = net.q.get_mut(&(A, B)) { for w in q.iter_mut() { if let Wire::Add(m) = w { if m.payment_hash == hash && m.amount_msat == in_amt && m.cltv_expiry as u64 == in_cltv { m.onion_routing_packet = pkt.clone(); swapped = true; } } } }
		if !swapped { rec.discarded += 1; if std::env::var("VERIF_TRACE").is_ok() { eprintln!("not swapped: want amt={} cltv={} ha={} hb={} q={:?}", in_amt, in_cltv, ha, hb, net.q.get(&(A, B)).map(|q| q.iter().map(|w| match w { Wire::Add(m) => format!("add {} {}", m.amount_msat, m.cltv_expiry), o => o.kind().to_string() }).collect::<Vec<_>>())); } *rec.classes.entry("discard:not-swapped".to_string()).or_insert(0) += 1; net.settle(12); continue; }
		net.settle(12);
		// ---- B's reaction
		let mut intercepted: Option<(u64, u64, u64)> = None;
		let mut released: Option<u64> = None;
		let evs: Vec<Event> = net.events[B][evpos..].to_vec();
		for e in &evs { if let Event::HTLCIntercepted { intercept_id, inbound_amount_msat, expected_outbound_amount_msat, outgoing_htlc_expiry_block_height, requested_next_hop_scid, .. } = e {
			intercepted = Some((*inbound_amount_msat, *expected_outbound_amount_msat, outgoing_htlc_expiry_block_height.unwrap_or(0) as u64));
			if *requested_next_hop_scid != scid { rec.oracle_fail(format!("hop s{} case {}: HTLCIntercepted names scid {} but the onion asked for {}", sc, case, requested_next_hop_scid, scid)); }
			// what an LSP does: release at the expected amount over the channel to C (sometimes keeping a fee of its own)
			let skim = if *expected_outbound_amount_msat > 2000 && rng.chance(1, 6) { 1 + rng.below(1000) } else { 0 };
			released = Some(*expected_outbound_amount_msat - skim);
			let r = net.nodes[B].node.forward_intercepted_htlc(*intercept_id, &net.chans[c1].2, net.ids[C], *expected_outbound_amount_msat - skim);
			if r.is_err() { released = None; let _ = net.nodes[B].node.fail_intercepted_htlc(*intercept_id); }
			net.pump(B);
			net.settle(12);
		} }
		let seg: Vec<Obs> = net.trace[pos..].to_vec();
		let add_out = seg.iter().find_map(|o| if let Obs::Msg { from: B, to, kind: "add", amt, detail, .. } = o { if *to != A { Some((*amt, parse_kv(detail, "cltv").unwrap_or(0))) } else { None } } else { None });
		let reason = net.events[B][evpos..].iter().find_map(local_reason);
		let claimable_b = net.claimable[B].iter().find(|c| c.0 == hash).map(|c| c.1);
		// ---- implementation-side oracles on what B offered / credited (independent of the Lean model)
		let fee_ok = |oa: u64| -> bool {
			if ci.is_none() { return true; }
			let ok = |c: &Cfg3| c.fee(oa).map(|f| in_amt >= oa && in_amt - oa >= f).unwrap_or(false);
			ok(&ccur) || cprev.as_ref().map(|p| ok(p)).unwrap_or(false)
		};
		let delta_ok = |oc: u64| -> bool {
			if ci.is_none() { return in_cltv >= oc + min_delta; }
			in_cltv >= oc + ccur.delta as u64 || cprev.map(|p| in_cltv >= oc + p.delta as u64).unwrap_or(false)
		};
		if let Some((oa, oc)) = add_out {
			if oa > in_amt || !fee_ok(oa) {
				rec.oracle_fail(format!("hop s{} case {}: node offered {} msat downstream for an HTLC carrying {} < {} + fee (next hop {:?} scid {}, flags {}, intercepted {}, cfg ({},{},{}), height {}, in_cltv {}, out_cltv {})", sc, case, oa, in_amt, oa, kind, scid, flags, intercepted.is_some(), ccur.base, ccur.prop, ccur.delta, hb, in_cltv, oc));
			}
			if !delta_ok(oc) {
				rec.oracle_fail(format!("hop s{} case {}: outgoing cltv {} > incoming {} - delta {} (next hop {:?} scid {}, flags {}, intercepted {}, in {} msat, out {} msat, height {})", sc, case, oc, in_cltv, d, kind, scid, flags, intercepted.is_some(), in_amt, oa, hb));
			}
			if oa != released.unwrap_or(out_amt) || oc != out_cltv { rec.oracle_fail(format!("hop s{} case {}: B offered amt={} cltv={} downstream but the onion asked for amt={} cltv={}", sc, case, oa, oc, out_amt, out_cltv)); }
		}
		// time margins (C08's clauses for EVERY next-hop kind): an HTLC that is forwarded or offered for interception still leaves
		// room to fail back downstream (outgoing expiry beyond the grace period) and to claim upstream on chain
		if (add_out.is_some() || intercepted.is_some()) && !(out_cltv > hb + 3 && in_cltv > hb + 39) {
			rec.oracle_fail(format!("hop s{} case {}: HTLC forwarded / offered for interception without time margin: height {} in_cltv {} out_cltv {} (next hop {:?} scid {}, flags {}, intercepted {})", sc, case, hb, in_cltv, out_cltv, kind, scid, flags, intercepted.is_some()));
		}
		if let Some((ia, ea, _)) = intercepted {
			if ia != in_amt { rec.oracle_fail(format!("hop s{} case {}: HTLCIntercepted reports inbound_amount_msat {} for an HTLC carrying {}", sc, case, ia, in_amt)); }
			if ea > in_amt { rec.oracle_fail(format!("hop s{} case {}: HTLCIntercepted expected_outbound_amount_msat {} > inbound_amount_msat {} (next hop {:?} scid {}, flags {})", sc, case, ea, in_amt, kind, scid, flags)); }
		}
		if let Some(ca) = claimable_b { if ca > in_amt { rec.oracle_fail(format!("hop s{} case {}: phantom payment credited with {} msat for an HTLC carrying {}", sc, case, ca, in_amt)); } }
		// ---- resolution: the recipient claims (2/3) or fails; then B's settled balance must not have fallen
		let at_recv = net.claimable[recv].iter().any(|c| c.0 == hash);
		let claim = at_recv && rng.chance(2, 3);
		let mut panicked = false;
		if at_recv {
			net.claimable[recv].retain(|c| c.0 != hash);
			let r = guarded(std::panic::AssertUnwindSafe(|| { if claim { net.claim(p); } else { net.fail_back(p); net.forward(recv); } net.settle(14); }));
			if let Err(pn) = r { panicked = true; rec.oracle_fail(format!("hop s{} case {}: resolving the HTLC panicked: {} (in {} msat, offered downstream {:?}, next hop {:?})", sc, case, pn.chars().take(160).collect::<String>(), in_amt, add_out, kind)); }
		}
		if panicked { break; }
		let busy = net.nodes[B].node.list_channels().iter().any(|c| !c.pending_inbound_htlcs.is_empty() || !c.pending_outbound_htlcs.is_empty());
		if !busy {
			let bal_after = b_total_balance(&net);
			let dlt = bal_after as i128 - bal_before as i128;
			let expect: i128 = if claim { if kind == Kind::Phantom { in_amt as i128 } else { in_amt as i128 - add_out.map(|x| x.0).unwrap_or(0) as i128 } } else { 0 };
			if dlt < 0 { rec.oracle_fail(format!("hop s{} case {}: Σ value_to_self of the forwarder decreased by {} msat after resolution (received {} msat upstream, offered {:?} downstream, next hop {:?}, claimed {})", sc, case, -dlt, in_amt, add_out, kind, claim)); }
			else if dlt != expect { rec.oracle_fail(format!("hop s{} case {}: Σ value_to_self of the forwarder changed by {} msat, expected {} (in {} msat, offered {:?}, next hop {:?}, claimed {})", sc, case, dlt, expect, in_amt, add_out, kind, claim)); }
			if claim && kind != Kind::Phantom {
				if let Some(Event::PaymentForwarded { total_fee_earned_msat, .. }) = net.events[B][evpos..].iter().find(|e| matches!(e, Event::PaymentForwarded { .. })) {
					let want = in_amt.checked_sub(add_out.map(|x| x.0).unwrap_or(0));
					if *total_fee_earned_msat != want { rec.oracle_fail(format!("hop s{} case {}: PaymentForwarded total_fee_earned_msat={:?} but in-out is {:?}", sc, case, total_fee_earned_msat, want)); }
				} else { rec.oracle_fail(format!("hop s{} case {}: claimed forward without a PaymentForwarded event", sc, case)); }
			}
		}
		// ---- the observed outcome as a line
		let (res, class) = if let Some((ia, ea, xa)) = intercepted {
			(format!("intercept {} {} {}", ia, ea, xa), format!("{:?}:intercept", kind))
		} else if let Some((oa, oc)) = add_out { (format!("forward {} {}", oa, oc), format!("{:?}:forward", kind)) }
		else if let Some(ca) = claimable_b { (format!("phantom {} {}", ca, out_cltv), format!("{:?}:phantom-recv", kind)) }
		else if let Some(r) = reason.clone() {
			if !ADMISSION_REASONS.contains(&r.as_str()) { rec.discarded += 1; *rec.classes.entry(format!("discard:{:?}:{}", kind, r)).or_insert(0) += 1; if busy { break; } continue; }
			(format!("reject {}", r), format!("{:?}:reject:{}", kind, r))
		} else { rec.discarded += 1; *rec.classes.entry(format!("discard:{:?}:no-reaction", kind)).or_insert(0) += 1; if busy { break; } continue; };
		let kind_txt = match (kind, &det) {
			(Kind::Phantom, _) => "phantom".to_string(), (Kind::Intercept, _) => "intercept".to_string(), (Kind::Unknown, _) | (Kind::AliasNs, _) => "unknown".to_string(),
			(k, Some(dt)) => {
				let enabled = !(k == Kind::Dchan && d_disabled);
				let connected = !(k == Kind::Dchan && !d_online);
				format!("chan {} {} {} {} 0 {} {} {} {} {} {} {} {} {}", dt.is_announced as u8, dt.is_usable as u8, enabled as u8, connected as u8, dt.outbound_scid_alias.unwrap_or(0), cp_min,
					ccur.prop, ccur.base, ccur.delta, cprev.is_some() as u8, cprev.map(|p| p.prop).unwrap_or(0), cprev.map(|p| p.base).unwrap_or(0), cprev.map(|p| p.delta).unwrap_or(0))
			},
			_ => unreachable!(),
		};
		let rel = if out_amt > in_amt { "out>in" } else if out_amt == in_amt { "out=in" } else { "out<in" };
		rec.case(&format!("hop {} {} {} {} {} {} {} {} {} {}", hb - 1, flags, accept_priv as u8, prev_public as u8, scid, in_amt, in_cltv, out_amt, out_cltv, kind_txt), &res, &format!("{}:{}", class, rel), true);
		// the release of an intercepted HTLC: what B put on the wire for `forward_intercepted_htlc(.., amt)`
		if let (Some((ia, ea, xa)), Some(amt)) = (intercepted, released) {
			match add_out {
				Some((oa, oc)) => rec.case(&format!("release {} {} {} {}", ia, ea, xa, amt), &format!("offer {} {}", oa, oc), &format!("{:?}:release:{}", kind, if amt == ea { "expected" } else { "skimmed" }), true),
				None => { *rec.classes.entry(format!("note:{:?}:release-not-sent:{}", kind, reason.clone().unwrap_or_default())).or_insert(0) += 1; },
			}
		}
		if busy { rec.notes.insert(format!("hop_stuck_s{}", sc), format!("case {}", case)); break; }
	}
	std::mem::forget(net);
}

// =================================================================================================
// c02fwd
// =================================================================================================
struct FwdOut { lines: Vec<(String, String, String, bool)>, oracle: Vec<String>, classes: Vec<String> }

fn mark(net: &mut Net, text: &str) { net.trace.push(Obs::Event { node: B, text: text.to_string() }); }

/// durable copies of B's monitors: (chan, update id) -> serialized monitor as it was when that id was its latest
fn snap_monitors(net: &Net, snaps: &mut BTreeMap<(usize, u64), Vec<u8>>) {
	for ci in 0..net.chans.len() {
		let (a, b, cid, _) = net.chans[ci];
		if a != B && b != B { continue; }
		if let Ok(m) = net.nodes[B].chain_monitor.chain_monitor.get_monitor(cid) {
			let id = m.get_latest_update_id();
			snaps.entry((ci, id)).or_insert_with(|| m.encode());
		}
	}
}

/// crash B now and restart it from the current manager and monitors that either contain the in-flight
/// updates (their writes had reached the disk) or only what was reported complete (in-flight writes lost)
fn crash_restart(net: &mut Net, rng: &mut Rng, snaps: &mut BTreeMap<(usize, u64), Vec<u8>>) -> Result<(), String> {
	snap_monitors(net, snaps);
	let lost = rng.chance(2, 3);
	let (mgr, cur) = net.snapshot(B);
	let mut mons = cur.clone();
	let mut really_lost = false;
	if lost {
		// monitors in snapshot() are sorted by channel id; rebuild the same order
		let mut ids = net.nodes[B].chain_monitor.chain_monitor.list_monitors(); ids.sort();
		let mut alt = vec![]; let mut ok = true;
		for (k, cid) in ids.iter().enumerate() {
			let ci = net.chan_idx(cid);
			let pend = net.pending_updates(B, ci);
			if let Some(minp) = pend.first() {
				match snaps.get(&(ci, minp - 1)) { Some(bytes) => { alt.push(bytes.clone()); really_lost = true; }, None => { ok = false; break; } }
			} else { alt.push(cur[k].clone()); }
		}
		if ok { mons = alt; } else { really_lost = false; }
	}
	mark(net, if really_lost { "CRASH 1" } else { "CRASH 0" });
	net.restart_from(B, &mgr, &mons).map_err(|e| format!("restart failed: {}", e))?;
	snaps.clear();
	snap_monitors(net, snaps);
	Ok(())
}

fn fwd_scenario(rng: &mut Rng, sc: usize, thorough: bool) -> Result<FwdOut, String> {
	let base = *rng.pick(&[0u32, 1000, 2500]);
	let prop = *rng.pick(&[0u32, 100, 5000, 100_000]);
	let delta = *rng.pick(&[48u16, 72, 144]);
	let mut net = Net::new(3, vec![None, Some(b_config(base, prop, delta)), None]);
	let r = guarded(std::panic::AssertUnwindSafe(|| fwd_scenario_inner(&mut net, rng, sc, thorough, base, prop, delta)));
	if !matches!(r, Ok(Ok(_))) && std::env::var("VERIF_TRACE").map(|v| v == "all" || v == sc.to_string()).unwrap_or(false) {
		eprintln!("=== scenario {} ended with {:?}; trace tail:", sc, r.as_ref().map(|x| x.as_ref().err()));
		let n = net.trace.len();
		for o in &net.trace[n.saturating_sub(70)..] { if !matches!(o, Obs::Balance { .. }) { eprintln!("  {}", fmt_obs(o)); } }
	}
	std::mem::forget(net); // Node::drop's own assertions are not an oracle here
	match r { Ok(x) => x, Err(p) => Err(format!("PANIC {}", p)) }
}

fn fwd_scenario_inner(net: &mut Net, rng: &mut Rng, sc: usize, thorough: bool, base: u32, prop: u32, delta: u16) -> Result<FwdOut, String> {
	let mut out = FwdOut { lines: vec![], oracle: vec![], classes: vec![] };
	let c0 = net.open(A, B, 1_000_000, 400_000_000);
	let c1 = net.open(B, C, 1_000_000, 400_000_000);
	let amt = match rng.below(4) { 0 => 1_000_000, 1 => 5_000_000, 2 => 400_000 + rng.below(1000), _ => rng.range(400_000, 50_000_000) }; // above the dust limits: the HTLC has an output
	let fee = (amt as u128 * prop as u128 / 1_000_000 + base as u128) as u64;
	let bal_before: u64 = { net.sample_balances(c0); net.sample_balances(c1); b_balance(net, c0) + b_balance(net, c1) };
	let p = send_custom(net, c0, c1, amt, fee, delta as u32, 50 + rng.below(40) as u32)?;
	net.settle(12);
	if !net.claimable[C].iter().any(|c| c.0 == net.pays[p].hash) { return Err("forward did not reach C".into()); }
	let in_amt = amt + fee;
	let p0 = net.trace.len();
	let mut snaps: BTreeMap<(usize, u64), Vec<u8>> = BTreeMap::new();
	snap_monitors(net, &mut snaps);
	let claim = rng.chance(7, 10);
	// directed part of the schedule: keep the upstream preimage update in flight until the downstream revocation
	// has arrived (so that it has to be parked), and crash right there some of the time
	let hold_up = claim && rng.chance(1, 2);
	let mut async_b = hold_up || rng.chance(2, 3);
	if async_b { net.set_mode(B, true); mark(net, "MODE 0"); }
	if claim { net.claim(p); } else { net.fail_back(p); net.forward(C); }
	let steps = if thorough { 40 + rng.below(60) } else { 25 + rng.below(40) } as usize;
	let mut restarts = 0;
	let max_restarts = rng.below(3);
	let mut down_links: Vec<(usize, usize)> = vec![];
	let mut scanned = net.trace.len();
	for _ in 0..steps {
		snap_monitors(net, &mut snaps);
		let mut parked = false;
		for o in &net.trace[scanned..] { match o {
			Obs::Generated { node: B, chan, .. } if *chan == c1 => parked = true,
			Obs::Update { node: B, chan, kinds, .. } if *chan == c1 && kinds.contains(&"CommitmentSecret") => parked = false,
			_ => {} } }
		scanned = net.trace.len();
		if parked && restarts < 2 && rng.chance(1, 2) {
			restarts += 1;
			crash_restart(net, rng, &mut snaps)?;
			async_b = false;
			down_links = vec![(A, B), (B, C)];
			if rng.chance(1, 2) { async_b = true; net.set_mode(B, true); mark(net, "MODE 0"); }
			continue;
		}
		let roll = if hold_up && rng.chance(2, 3) {
			if net.queued(C, B) + net.queued(B, C) > 0 { 0 } else { mark(net, "TICK"); net.process_events(C); 9 }
		} else { rng.below(20) };
		match roll {
			0..=8 => {
				let mut q: Vec<(usize, usize)> = net.q.iter().filter(|(_, v)| !v.is_empty()).map(|(k, _)| *k).collect();
				if hold_up { let dq: Vec<(usize, usize)> = q.iter().cloned().filter(|l| *l == (C, B) || *l == (B, C)).collect(); if !dq.is_empty() { q = dq; } }
				if !q.is_empty() { let (i, j) = *rng.pick(&q); net.deliver(i, j); }
			},
			9..=12 => {
				let mut cands: Vec<(usize, u64)> = vec![];
				for c in [c0, c1] { for id in net.pending_updates(B, c) { if hold_up && c == c0 && !rng.chance(1, 15) { continue; } cands.push((c, id)); } }
				if !cands.is_empty() { let (c, id) = *rng.pick(&cands); net.complete(B, c, id); }
			},
			13 | 14 => { let i = rng.below(3) as usize; mark(net, "TICK"); net.forward(i); net.process_events(i); },
			15 => {
				// switch B's persistence mode (only when nothing is in flight: a Completed after an InProgress is a contract violation)
				if !hold_up && net.pending_updates(B, c0).is_empty() && net.pending_updates(B, c1).is_empty() {
					async_b = !async_b; net.set_mode(B, async_b); mark(net, if async_b { "MODE 0" } else { "MODE 1" });
				}
			},
			16 | 17 => {
				if restarts < max_restarts {
					restarts += 1;
					crash_restart(net, rng, &mut snaps)?;
					async_b = false;
					down_links = vec![(A, B), (B, C)];
					if rng.chance(1, 2) { async_b = true; net.set_mode(B, true); mark(net, "MODE 0"); }
				}
			},
			_ => { if !down_links.is_empty() { let k = rng.below(down_links.len() as u64) as usize; let (x, y) = down_links.remove(k); net.reconnect(x, y); } },
		}
	}
	// ---- drain ------------------------------------------------------------------------------------
	for (x, y) in down_links.drain(..) { net.reconnect(x, y); }
	for _ in 0..60 {
		let mut any = false;
		for c in [c0, c1] { for id in net.pending_updates(B, c) { net.complete(B, c, id); any = true; } }
		if !any && async_b { async_b = false; net.set_mode(B, false); mark(net, "MODE 1"); }
		if let Some((i, j)) = net.any_queued() { net.deliver(i, j); any = true; }
		for i in 0..3 { if net.nodes[i].node.needs_pending_htlc_processing() { mark(net, "TICK"); net.forward(i); any = true; } let before = net.trace.len(); mark(net, "TICK"); net.process_events(i); if net.trace.len() > before + 1 { any = true; } }
		if !any { break; }
	}
	net.sample_balances(c0); net.sample_balances(c1);
	let bal_after = b_balance(net, c0) + b_balance(net, c1);
	let busy = net.nodes[B].node.list_channels().iter().any(|c| !c.pending_inbound_htlcs.is_empty() || !c.pending_outbound_htlcs.is_empty());

	if std::env::var("VERIF_TRACE").map(|v| v == "all" || v == sc.to_string()).unwrap_or(false) { eprintln!("=== scenario {} claim={} hold_up={} amt={} fee={}", sc, claim, hold_up, amt, fee); for o in &net.trace[p0..] { if !matches!(o, Obs::Balance { .. }) { eprintln!("  {}", fmt_obs(o)); } } }

	// ---- trace -> op lines + impl-side oracles -----------------------------------------------------------
	let tr: Vec<Obs> = net.trace[p0..].to_vec();
	for o in &tr { if let Obs::ProtoError { node, text } = o { out.oracle.push(format!("scenario {}: honest operation produced a protocol error at node {}: {}", sc, node, text)); } }
	for (n, r) in &net.closed { out.oracle.push(format!("scenario {}: channel closed at node {} ({})", sc, n, r)); }
	out.lines.push((format!("init {} {}", in_amt, amt), "-".into(), "init".into(), false));
	// observed state (impl side)
	let mut pre = 'n'; let mut cs = 'n'; let mut raa = 'n'; let mut up = 'p';
	let mut u1: Option<u64> = None; let mut d1: Option<u64> = None; let mut d2: Option<u64> = None;
	let mut seen_resolution = false; // C's update_fulfill / update_fail reached B
	let mut c_fulfilled_delivered = false;
	let mut crash_lost = false;
	let mut other_inflight: std::collections::BTreeSet<u64> = Default::default(); // unrelated upstream updates that are InProgress
	let line = |pre: char, cs: char, raa: char, up: char| format!("pre={} cs={} raa={} up={}", pre, cs, raa, up);
	// segment the trace: an op-starting record followed by its effects
	let is_start = |o: &Obs| match o { Obs::Delivered { .. } | Obs::Completed { .. } => true, Obs::Event { node: B, text } => text.starts_with("MODE") || text == "TICK" || text.starts_with("CRASH") || text == "RESTARTED", _ => false };
	let mut i = 0;
	// effects before the first op-starting record (C's claim itself) belong to no op of B
	while i < tr.len() && !is_start(&tr[i]) { i += 1; }
	while i < tr.len() {
		let start = tr[i].clone();
		let mut j = i + 1;
		while j < tr.len() && !is_start(&tr[j]) { j += 1; }
		let effects = &tr[i + 1..j];
		// the op
		let (op, class, nontrivial, directive): (String, String, bool, bool) = match &start {
			Obs::Delivered { from: C, to: B, kind, errors, .. } if *errors == 0 => match *kind {
				"fulfill" => { seen_resolution = true; c_fulfilled_delivered = true; ("recvFulfilDown".into(), "recvFulfilDown".into(), true, false) },
				"fail" | "malformed" => { seen_resolution = true; ("recvFailDown".into(), "recvFailDown".into(), true, false) },
				"cs" => ("recvCsDown".into(), "recvCsDown".into(), true, false),
				"raa" => ("recvRaaDown".into(), "recvRaaDown".into(), true, false),
				_ => ("other".into(), format!("other:dlv-{}", kind), false, false),
			},
			Obs::Delivered { kind, to, .. } => ("other".into(), format!("other:dlv{}-{}", to, kind), false, false),
			Obs::Completed { node: B, chan, id } => {
				if *chan == c0 && Some(*id) == u1 { pre = 'd'; ("complete up".into(), "complete:up".into(), true, false) }
				else if *chan == c1 && Some(*id) == d1 { cs = 'd'; ("complete downCs".into(), "complete:downCs".into(), true, false) }
				else if *chan == c1 && Some(*id) == d2 { raa = 'd'; ("complete downRaa".into(), "complete:downRaa".into(), true, false) }
				else if *chan == c0 && other_inflight.remove(id) { ("complete upOther".into(), "complete:upOther".into(), true, false) }
				else { ("other".into(), "other:complete".into(), false, false) }
			},
			Obs::Completed { .. } => ("other".into(), "other:complete-elsewhere".into(), false, false),
			Obs::Event { text, .. } if text.starts_with("MODE") => (format!("sync {}", &text[5..]), "sync".into(), true, false),
			Obs::Event { text, .. } if text.starts_with("CRASH") => { crash_lost = &text[6..] == "1"; (format!("crash {}", &text[6..]), format!("crash:lost={}", &text[6..]), true, true) },
			Obs::Event { text, .. } if text == "RESTARTED" => {
				// in-flight writes that had reached the disk are durable by construction of the monitors we restarted from
				if !crash_lost { if pre == 'h' { pre = 'd'; } if cs == 'h' { cs = 'd'; } if raa == 'h' { raa = 'd'; } }
				other_inflight.clear(); // replayed (or already applied) and complete under the synchronous persister of the restarted node
				("restart 1".into(), format!("restart:lost={}", crash_lost as u8), true, false)
			},
			_ => ("other".into(), "other:tick".into(), false, false),
		};
		// effects at B
		let mut sends: Vec<&'static str> = vec![];
		let mut others_handed = 0;
		let is_restart_seg = matches!(&start, Obs::Event { text, .. } if text == "RESTARTED");
		let seg_has_preimage_upd = effects.iter().any(|o| matches!(o, Obs::Update { node: B, chan, kinds, .. } if *chan == c0 && kinds.contains(&"PaymentPreimage")));
		for o in effects {
			match o {
				Obs::Update { node: B, chan, id, kinds, in_progress, .. } => {
					let st = if *in_progress { 'h' } else { 'd' };
					// the FIRST update carrying the preimage is the one that matters (a claim parked in the holding cell is
					// committed later by a second update that repeats the PaymentPreimage step)
					if *chan == c0 && kinds.contains(&"PaymentPreimage") && (u1.is_none() || u1 == Some(*id)) { u1 = Some(*id); pre = st; }
					else if *chan == c0 && *in_progress && other_inflight.insert(*id) { others_handed += 1; }
					if *chan == c1 && kinds.contains(&"HolderCommitmentTXInfo") && seen_resolution && (d1.is_none() || d1 == Some(*id)) { d1 = Some(*id); cs = st; }
					if *chan == c1 && kinds.contains(&"CommitmentSecret") && seen_resolution && (d2.is_none() || d2 == Some(*id)) {
						d2 = Some(*id); raa = st;
						// ---- oracle_gating (ii): the downstream revocation that removes a FULFILLED HTLC reaches chain::Watch
						// only after the upstream PaymentPreimage update is durable (in a restart segment the engine cannot
						// order updates across channels: there the preimage update must at least be present / durable)
						if claim && c_fulfilled_delivered && !(pre == 'd' || (is_restart_seg && seg_has_preimage_upd)) {
							out.oracle.push(format!("scenario {}: B handed the downstream CommitmentSecret update (id {}) to chain::Watch while the upstream PaymentPreimage update was {}", sc, id, if pre == 'n' { "not even generated" } else { "still in flight" }));
						}
					}
				},
				Obs::Generated { node: B, chan, .. } if *chan == c1 && matches!(&start, Obs::Delivered { from: C, to: B, kind: "raa", .. }) => { if raa == 'n' { raa = 'b'; } },
				Obs::Msg { from: B, to: A, kind, .. } if *kind == "fulfill" => sends.push("fulfil"),
				Obs::Msg { from: B, to: A, kind, .. } if *kind == "fail" || *kind == "malformed" => sends.push("fail"),
				_ => {},
			}
		}
		if directive { out.lines.push((op.clone(), "-".into(), class, false)); out.classes.push(format!("state-at-crash:{}", line(pre, cs, raa, up))); }
		else { out.lines.push((op.clone(), line(pre, cs, raa, up), class, nontrivial)); if nontrivial { out.classes.push(format!("state:{}", line(pre, cs, raa, up))); } }
		for _ in 0..others_handed { out.lines.push(("handUpOther".into(), line(pre, cs, raa, up), "handUpOther".into(), true)); }
		for s in sends {
			// ---- oracle (i): B never fails upstream an HTLC that C fulfilled
			if s == "fail" && claim { out.oracle.push(format!("scenario {}: B sent update_fail_htlc upstream for an HTLC the next hop fulfilled", sc)); }
			if s == "fulfil" && !claim { out.oracle.push(format!("scenario {}: B sent update_fulfill_htlc upstream for an HTLC the next hop failed", sc)); }
			// ---- oracle (v): the upstream message is released only after the update it rests on is durable: the
			// fulfil after the upstream PaymentPreimage update, the fail after the downstream revocation update
			if s == "fulfil" && up == 'p' && pre != 'd' { out.oracle.push(format!("scenario {}: B released update_fulfill_htlc upstream while the upstream PaymentPreimage update was not durable (pre={})", sc, pre)); }
			if s == "fail" && up == 'p' && raa != 'd' { out.oracle.push(format!("scenario {}: B released update_fail_htlc upstream while the downstream revocation update was not durable (raa={})", sc, raa)); }
			let c = if s == "fulfil" { 'f' } else { 'x' };
			if up == 'p' { up = c; out.lines.push((format!("sendUp {}", s), format!("ok {}", line(pre, cs, raa, up)), format!("sendUp:{}", s), true)); }
			else if up == c { out.lines.push((format!("resendUp {}", s), "ok".into(), format!("resendUp:{}", s), false)); }
			else { out.oracle.push(format!("scenario {}: B sent both update_fulfill_htlc and update_fail_htlc upstream", sc)); }
		}
		i = j;
	}
	// ---- terminal state, balances (iii), PaymentForwarded (iv) ---------------------------------------------
	let delta: i128 = bal_after as i128 - bal_before as i128;
	let settled = !busy && raa == 'd' && up != 'p';
	out.lines.push(("final".into(), format!("final up={} settled={} delta={}", up, settled as u8, delta), format!("final:{}", if claim { "claimed" } else { "failed" }), true));
	if busy { out.oracle.push(format!("scenario {}: HTLC still pending at B after the drain (claim={})", sc, claim)); }
	if delta < 0 { out.oracle.push(format!("scenario {}: B's total balance fell by {} msat (claim={})", sc, -delta, claim)); }
	if !busy && claim && delta != fee as i128 { out.oracle.push(format!("scenario {}: B's balance changed by {} msat on a successful forward, the configured fee is {}", sc, delta, fee)); }
	if !busy && !claim && delta != 0 { out.oracle.push(format!("scenario {}: B's balance changed by {} msat on a failed forward", sc, delta)); }
	let mut n_fwd = 0;
	for e in &net.events[B] { if let Event::PaymentForwarded { total_fee_earned_msat, claim_from_onchain_tx, .. } = e {
		n_fwd += 1;
		if *claim_from_onchain_tx || *total_fee_earned_msat != Some(fee) { out.oracle.push(format!("scenario {}: PaymentForwarded total_fee_earned_msat={:?} onchain={} but the configured fee is {}", sc, total_fee_earned_msat, claim_from_onchain_tx, fee)); }
	} }
	if claim && !busy && n_fwd == 0 { out.oracle.push(format!("scenario {}: successful forward without a PaymentForwarded event", sc)); }
	if !claim && n_fwd != 0 { out.oracle.push(format!("scenario {}: PaymentForwarded for a failed forward", sc)); }
	out.classes.push(format!("scenario:{}{}:{}:restarts{}", if claim { "claim" } else { "fail" }, if hold_up { "-holdup" } else { "" }, if tr.iter().any(|o| matches!(o, Obs::Event { text, .. } if text == "MODE 0")) { "async" } else { "sync" }, restarts));
	Ok(out)
}

// =================================================================================================
// c02close
// =================================================================================================
const E: usize = 3;

struct Fwd { hash: lightning::types::payment::PaymentHash, preimage: lightning::types::payment::PaymentPreimage, src: usize, up_chan: usize, up_id: Option<u64>, in_amt: u64, out_amt: u64, pay: usize }

struct Snap { k: usize, seen: &'static str, sent: bool, c_has: bool, b_has: bool }

/// src -> B -> C with a hand-built route (as `send_custom`, any source)
fn send_from(net: &mut Net, src: usize, c_in: usize, c_out: usize, amt: u64, fee_b: u64, delta_b: u32, final_delta: u32, n: u64) -> Result<Fwd, String> {
	let mut pre = [0x7cu8; 32]; pre[..8].copy_from_slice(&n.to_be_bytes());
	let preimage = lightning::types::payment::PaymentPreimage(pre);
	let hash = lightning::types::payment::PaymentHash({ use bitcoin::hashes::{sha256, Hash}; sha256::Hash::hash(&pre).to_byte_array() });
	let secret = net.nodes[C].node.create_inbound_payment_for_hash(hash, Some(amt), 7200, None, None).map_err(|_| "create_inbound_payment_for_hash".to_string())?.0;
	let hops = vec![
		RouteHop { pubkey: net.ids[B], node_features: NodeFeatures::empty(), short_channel_id: net.chans[c_in].3, channel_features: ChannelFeatures::empty(), fee_msat: fee_b, cltv_expiry_delta: delta_b, maybe_announced_channel: true },
		RouteHop { pubkey: net.ids[C], node_features: NodeFeatures::empty(), short_channel_id: net.chans[c_out].3, channel_features: ChannelFeatures::empty(), fee_msat: amt, cltv_expiry_delta: final_delta, maybe_announced_channel: true },
	];
	let params = PaymentParameters::from_node_id(net.ids[C], final_delta).with_max_total_cltv_expiry_delta(u32::MAX / 2);
	let mut route_params = RouteParameters::from_payment_params_and_value(params, amt);
	route_params.max_total_routing_fee_msat = None;
	let route = Route { paths: vec![Path { hops, blinded_tail: None }], route_params };
	let id = PaymentId(hash.0);
	let pos = net.trace.len();
	let r = net.nodes[src].node.send_payment_with_route(route, hash, RecipientOnionFields::secret_only(secret, amt), id);
	net.pump(src);
	if let Err(e) = r { return Err(format!("{:?}", e).chars().take(80).collect()); }
	let up_id = net.trace[pos..].iter().find_map(|o| if let Obs::Msg { from, to: B, kind: "add", amt: a, htlc_id, .. } = o { if *from == src && *a == amt + fee_b { Some(*htlc_id) } else { None } } else { None });
	net.pays.push(PendingPay { hash, preimage, secret, amt, id, from: src, to: C });
	Ok(Fwd { hash, preimage, src, up_chan: c_in, up_id, in_amt: amt + fee_b, out_amt: amt, pay: net.pays.len() - 1 })
}

/// src -> B -> C twice: ONE payment (one payment hash) whose two parts both cross c_in and c_out (two forwarded HTLCs with the same
/// payment hash on the downstream channel)
fn send_mpp_from(net: &mut Net, src: usize, c_in: usize, c_out: usize, amts: [u64; 2], fees: [u64; 2], delta_b: u32, final_delta: u32, n: u64) -> Result<Vec<Fwd>, String> {
	let mut pre = [0x7du8; 32]; pre[..8].copy_from_slice(&n.to_be_bytes());
	let preimage = lightning::types::payment::PaymentPreimage(pre);
	let hash = lightning::types::payment::PaymentHash({ use bitcoin::hashes::{sha256, Hash}; sha256::Hash::hash(&pre).to_byte_array() });
	let total = amts[0] + amts[1];
	let secret = net.nodes[C].node.create_inbound_payment_for_hash(hash, Some(total), 7200, None, None).map_err(|_| "create_inbound_payment_for_hash".to_string())?.0;
	let path = |amt: u64, fee: u64| Path { hops: vec![
		RouteHop { pubkey: net.ids[B], node_features: NodeFeatures::empty(), short_channel_id: net.chans[c_in].3, channel_features: ChannelFeatures::empty(), fee_msat: fee, cltv_expiry_delta: delta_b, maybe_announced_channel: true },
		RouteHop { pubkey: net.ids[C], node_features: NodeFeatures::empty(), short_channel_id: net.chans[c_out].3, channel_features: ChannelFeatures::empty(), fee_msat: amt, cltv_expiry_delta: final_delta, maybe_announced_channel: true },
	], blinded_tail: None };
	let params = PaymentParameters::from_node_id(net.ids[C], final_delta).with_max_total_cltv_expiry_delta(u32::MAX / 2);
	let mut route_params = RouteParameters::from_payment_params_and_value(params, total);
	route_params.max_total_routing_fee_msat = None;
	let route = Route { paths: vec![path(amts[0], fees[0]), path(amts[1], fees[1])], route_params };
	let id = PaymentId(hash.0);
	let pos = net.trace.len();
	let r = net.nodes[src].node.send_payment_with_route(route, hash, RecipientOnionFields::secret_only(secret, total), id);
	net.pump(src);
	if let Err(e) = r { return Err(format!("{:?}", e).chars().take(80).collect()); }
	net.pays.push(PendingPay { hash, preimage, secret, amt: total, id, from: src, to: C });
	let pay = net.pays.len() - 1;
	Ok((0..2).map(|j| {
		let up_id = net.trace[pos..].iter().find_map(|o| if let Obs::Msg { from, to: B, kind: "add", amt: a, htlc_id, .. } = o { if *from == src && *a == amts[j] + fees[j] { Some(*htlc_id) } else { None } } else { None });
		Fwd { hash, preimage, src, up_chan: c_in, up_id, in_amt: amts[j] + fees[j], out_amt: amts[j], pay }
	}).collect())
}

fn commitment_has(tx: &Transaction, amt_msat: u64) -> bool { tx.output.iter().any(|o| o.value.to_sat() == amt_msat / 1000) }

fn latest_holder_commitment(net: &Net, node: usize, chan: usize) -> Option<Transaction> {
	let m = net.nodes[node].chain_monitor.chain_monitor.get_monitor(net.chans[chan].2).ok()?;
	m.unsafe_get_latest_holder_commitment_txn(&net.nodes[node].logger).into_iter().next()
}

fn close_scenario(rng: &mut Rng, sc: usize, thorough: bool) -> Result<FwdOut, String> {
	let base = *rng.pick(&[0u32, 1000, 2500]);
	let prop = *rng.pick(&[0u32, 100, 5000]);
	let delta = *rng.pick(&[48u16, 72, 144]);
	let mk = |b: bool| { let mut c = test_legacy_channel_config(); if b { c.channel_config.forwarding_fee_base_msat = base; c.channel_config.forwarding_fee_proportional_millionths = prop; c.channel_config.cltv_expiry_delta = delta; } Some(c) };
	let mut net = Net::new(4, vec![mk(false), mk(true), mk(false), mk(false)]);
	let r = guarded(std::panic::AssertUnwindSafe(|| close_scenario_inner(&mut net, rng, sc, thorough, base, prop, delta)));
	if !matches!(r, Ok(Ok(_))) && std::env::var("VERIF_TRACE").map(|v| v == "all" || v == sc.to_string()).unwrap_or(false) {
		eprintln!("=== close scenario {} ended with {:?}; trace tail:", sc, r.as_ref().map(|x| x.as_ref().err()));
		let n = net.trace.len();
		for o in &net.trace[n.saturating_sub(60)..] { if !matches!(o, Obs::Balance { .. }) { eprintln!("  {}", fmt_obs(o)); } }
	}
	std::mem::forget(net);
	match r { Ok(x) => x, Err(p) => Err(format!("PANIC {}", p)) }
}

fn close_scenario_inner(net: &mut Net, rng: &mut Rng, sc: usize, thorough: bool, base: u32, prop: u32, delta: u16) -> Result<FwdOut, String> {
	let mut out = FwdOut { lines: vec![], oracle: vec![], classes: vec![] };
	let c0 = net.open(A, B, 1_000_000, 400_000_000);
	let c1 = net.open(B, C, 1_000_000, 400_000_000);
	let c2 = net.open(E, B, 1_000_000, 400_000_000);
	static COUNTER: std::sync::atomic::AtomicU64 = std::sync::atomic::AtomicU64::new(1);
	let mut fwds: Vec<Fwd> = vec![];
	let mut next_amt = { let mut k = 0u64; move |rng: &mut Rng| { k += 1; 20_000_000 + k * 1_000_000 + rng.below(900) * 1000 } };
	let fee_of = |amt: u64| (amt as u128 * prop as u128 / 1_000_000 + base as u128) as u64;
	let up_bal = |net: &Net| -> u64 { [c0, c2].iter().map(|c| { let (a, b, cid, _) = net.chans[*c]; let peer = if a == B { b } else { a }; vh::channel_value_to_self_msat(net.nodes[B].node, &net.ids[peer], &cid).unwrap_or(0) }).sum() };
	let up_before = up_bal(net);
	// ---- base HTLCs: fully committed on both links, claimable at C --------------------------------------------------
	let same_hash = rng.chance(1, 3);
	let n_base = if same_hash { 2 } else { 1 + rng.below(2) as usize };
	if same_hash {
		let (a1, a2) = (next_amt(rng), next_amt(rng));
		let fs = send_mpp_from(net, A, c0, c1, [a1, a2], [fee_of(a1), fee_of(a2)], delta as u32, 60 + rng.below(30) as u32, COUNTER.fetch_add(1, std::sync::atomic::Ordering::Relaxed))?;
		net.settle(16);
		if !net.claimable[C].iter().any(|c| c.0 == fs[0].hash) { return Err("same-hash base forwards did not reach C".into()); }
		fwds.extend(fs);
	}
	for _ in 0..(if same_hash { 0 } else { n_base }) {
		let amt = next_amt(rng);
		let f = send_from(net, A, c0, c1, amt, fee_of(amt), delta as u32, 60 + rng.below(30) as u32, COUNTER.fetch_add(1, std::sync::atomic::Ordering::Relaxed))?;
		net.settle(12);
		if !net.claimable[C].iter().any(|c| c.0 == f.hash) { return Err("base forward did not reach C".into()); }
		fwds.push(f);
	}
	let p0 = net.trace.len();
	// ---- schedule ------------------------------------------------------------------------------------------------
	let hold = rng.chance(2, 3);            // RAA blocker: the inbound edge's preimage update (and everything behind it on A–B) stays InProgress
	let async_b = hold || rng.chance(1, 3);
	if async_b { net.set_mode(B, true); }
	let max_e = 1 + rng.below(2) as usize; let mut n_e = 0;
	let max_claims = 1 + rng.below(2) as usize; let mut claimed: Vec<usize> = vec![];      // indices into fwds C has claimed
	let t_close = rng.below(if thorough { 45 } else { 36 }) as usize;
	let mut did_claim_first = false;
	let mut injected_early = false;
	for step in 0..t_close {
		let _ = step;
		// the upstream links are not under test: their messages flow at once; B's monitor updates complete promptly except
		// (blocker mode) everything on the inbound edge A–B
		for _ in 0..4 {
			let mut any = false;
			if rng.chance(9, 10) { for c in [c0, c1, c2] { if hold && c == c0 { continue; } for id in net.pending_updates(B, c) { net.complete(B, c, id); any = true; } } }
			for l in [(A, B), (B, A), (E, B), (B, E)] { while net.queued(l.0, l.1) > 0 { net.deliver(l.0, l.1); any = true; } }
			for i in [A, E] { net.process_events(i); }
			if !any { break; }
		}
		// in blocker mode an early forward from E is queued at B (it reaches B–C whenever B next processes its forwards) and C
		// claims a base HTLC (otherwise there is nothing to block on)
		if hold && !injected_early { injected_early = true; if rng.chance(3, 4) && n_e < max_e { n_e += 1; let amt = next_amt(rng);
			if let Ok(f) = send_from(net, E, c2, c1, amt, fee_of(amt), delta as u32, 60 + rng.below(30) as u32, COUNTER.fetch_add(1, std::sync::atomic::Ordering::Relaxed)) { fwds.push(f); } continue; } }
		if hold && !did_claim_first { did_claim_first = true; let k = rng.below(n_base as u64) as usize; net.claimable[C].retain(|c| c.0 != fwds[k].hash); net.claim(fwds[k].pay); net.process_events(C); for j in 0..fwds.len() { if fwds[j].hash == fwds[k].hash && !claimed.contains(&j) { claimed.push(j); } } continue; }
		let b_waits = vh::channel_awaiting_remote_revoke(net.nodes[B].node, &net.ids[C], &net.chans[c1].2).unwrap_or(false);
		let roll = if net.nodes[B].node.needs_pending_htlc_processing() && (b_waits || hold) && rng.chance(1, 2) { 10 } else { rng.below(20) };
		match roll {
			0..=8 => {
				let q: Vec<(usize, usize)> = [(B, C), (C, B)].iter().cloned().filter(|l| net.queued(l.0, l.1) > 0).collect();
				if !q.is_empty() { let (i, j) = *rng.pick(&q); net.deliver(i, j); }
			},
			9..=11 => { net.forward(B); if rng.chance(1, 2) { net.process_events(B); } },
			12 | 13 => { net.process_events(C); net.forward(C); net.process_events(C); },
			14 | 15 => {
				if n_e < max_e {
					n_e += 1;
					let amt = next_amt(rng);
					let (src, cin) = if hold || rng.chance(2, 3) { (E, c2) } else { (A, c0) };
					if let Ok(f) = send_from(net, src, cin, c1, amt, fee_of(amt), delta as u32, 60 + rng.below(30) as u32, COUNTER.fetch_add(1, std::sync::atomic::Ordering::Relaxed)) { fwds.push(f); }
				}
			},
			16 | 17 => {
				if claimed.len() < max_claims {
					let cands: Vec<usize> = (0..fwds.len()).filter(|k| !claimed.contains(k) && net.claimable[C].iter().any(|c| c.0 == fwds[*k].hash)).collect();
					if !cands.is_empty() { let k = *rng.pick(&cands); net.claimable[C].retain(|c| c.0 != fwds[k].hash); net.claim(fwds[k].pay); net.process_events(C); for j in 0..fwds.len() { if fwds[j].hash == fwds[k].hash && !claimed.contains(&j) { claimed.push(j); } } }
				}
			},
			_ => { net.process_events(B); },
		}
	}
	// ---- the instant of the close: what can be read off the real nodes ------------------------------------------------
	let det = net.nodes[B].node.list_channels().into_iter().find(|c| c.channel_id == net.chans[c1].2).ok_or("outbound channel gone before the close")?;
	let b_commit = latest_holder_commitment(net, B, c1).ok_or("no holder commitment at B")?;
	let c_commit = latest_holder_commitment(net, C, c1).ok_or("no holder commitment at C")?;
	// "sent": B released the update_add_htlc, or at least handed a counterparty commitment listing the HTLC to chain::Watch (the
	// ChannelMonitor knows it; with an InProgress persist the messages are merely withheld).  Otherwise the only commitment
	// listing a LocalAnnounced HTLC is HELD in the channel's blocked_monitor_updates.
	let was_sent = |net: &Net, f: &Fwd| net.trace.iter().any(|o| match o {
		Obs::Msg { from: B, to: C, kind: "add", amt, .. } => *amt == f.out_amt,
		Obs::Update { node: B, chan, cp_commit: Some((_, _, _, htlcs)), .. } => *chan == c1 && htlcs.iter().any(|h| h.1 == f.out_amt),
		_ => false });
	let held_exists = det.pending_outbound_htlcs.iter().any(|h| h.htlc_id.is_some() && h.state == Some(OutboundHTLCStateDetails::AwaitingRemoteRevokeToAdd) && !fwds.iter().any(|f| f.hash == h.payment_hash && f.out_amt == h.amount_msat && was_sent(net, f)));
	let mut snaps: Vec<Snap> = vec![];
	for (k, f) in fwds.iter().enumerate() {
		if let Some(h) = det.pending_outbound_htlcs.iter().find(|h| h.payment_hash == f.hash && h.amount_msat == f.out_amt) {
			let seen = match (h.htlc_id, &h.state) { (None, _) => "hc", (_, Some(OutboundHTLCStateDetails::AwaitingRemoteRevokeToAdd)) => "la", (_, Some(OutboundHTLCStateDetails::Committed)) => "committed",
				(_, Some(OutboundHTLCStateDetails::AwaitingRemoteRevokeToRemoveSuccess)) => "rm-ok", (_, Some(OutboundHTLCStateDetails::AwaitingRemoteRevokeToRemoveFailure)) => "rm-fail", _ => continue };
			snaps.push(Snap { k, seen, sent: was_sent(net, f), c_has: commitment_has(&c_commit, f.out_amt), b_has: commitment_has(&b_commit, f.out_amt) });
		}
	}
	let variant = rng.below(3);
	let close_pos = net.trace.len();
	let bcast_before = net.nodes[B].tx_broadcaster.txn_broadcasted.lock().unwrap().len();
	match variant {
		0 => { net.nodes[B].node.force_close_broadcasting_latest_txn(&net.chans[c1].2, &net.ids[C], "verif".to_string()).map_err(|e| format!("force close: {:?}", e))?; },
		1 => { net.nodes[B].node.handle_error(net.ids[C], &msgs::ErrorMessage { channel_id: net.chans[c1].2, data: "internal error".to_string() }); },
		_ => { net.nodes[B].node.handle_update_fulfill_htlc(net.ids[C], msgs::UpdateFulfillHTLC { channel_id: net.chans[c1].2, htlc_id: 7_777, payment_preimage: lightning::types::payment::PaymentPreimage([9; 32]), attribution_data: None }); },
	}
	let vname = ["force_close_broadcasting_latest_txn", "error message from the next hop", "invalid update_fulfill_htlc from the next hop"][variant as usize];
	net.pump(B);
	if net.nodes[B].node.list_channels().iter().any(|c| c.channel_id == net.chans[c1].2) { return Err("outbound channel still open after the close".into()); }
	// B's own bookkeeping runs; every monitor update completes; the upstream links settle; NOTHING is mined and C hears nothing yet
	let c_learns = rng.chance(1, 2);
	let held_bc: Vec<Wire> = net.q.remove(&(B, C)).map(|q| q.into_iter().collect()).unwrap_or_default();
	net.q.remove(&(C, B));
	for _ in 0..30 {
		let mut any = false;
		for c in [c0, c1, c2] { for id in net.pending_updates(B, c) { net.complete(B, c, id); any = true; } }
		if !any && net.in_progress[B] { net.set_mode(B, false); }
		for l in [(A, B), (B, A), (E, B), (B, E)] { while net.queued(l.0, l.1) > 0 { net.deliver(l.0, l.1); any = true; } }
		for i in [A, B, E] { if net.nodes[i].node.needs_pending_htlc_processing() { net.forward(i); any = true; } let before = net.trace.len(); net.process_events(i); if net.trace.len() > before { any = true; } }
		net.q.remove(&(B, C)); net.q.remove(&(C, B));
		if !any { break; }
	}
	let up_msg = |net: &Net, f: &Fwd, from_pos: usize, kinds: &[&str]| -> bool {
		// the upstream htlc id: the add may have left the sender later than the send call (its own holding cell)
		let up_id = f.up_id.or_else(|| net.trace.iter().find_map(|o| if let Obs::Msg { from, to: B, kind: "add", amt, htlc_id, .. } = o { if *from == f.src && *amt == f.in_amt { Some(*htlc_id) } else { None } } else { None }));
		net.trace[from_pos..].iter().any(|o| matches!(o, Obs::Msg { from: B, to, kind, chan, htlc_id, .. } if *to == f.src && *chan == f.up_chan && Some(*htlc_id) == up_id && up_id.is_some() && kinds.contains(kind)))
	};
	for sn in &snaps {
		let f = &fwds[sn.k];
		let dropped = up_msg(net, f, close_pos, &["fail", "malformed"]);
		// ---- oracle (a): a forwarded HTLC is failed backwards only once the next hop can no longer claim it
		if dropped && (sn.c_has || sn.b_has) {
			out.oracle.push(format!("close scenario {}: forwarder failed HTLC of {} msat (state {}, update_add_htlc sent: {}) backwards upstream at the force-close ({}) although downstream's broadcastable commitment still contains it (C's latest commitment: {}, the commitment B broadcasts: {}); held counterparty-commitment update: {}, RAA blocker: {}, HTLCs on the channel: {:?}",
				sc, f.out_amt, sn.seen, sn.sent, vname, sn.c_has, sn.b_has, held_exists, hold, snaps.iter().map(|x| format!("{}:{}", fwds[x.k].out_amt, x.seen)).collect::<Vec<_>>()));
		}
		out.lines.push((format!("fc {} {} {} {} {} {}", sn.seen, held_exists as u8, sn.sent as u8, sn.c_has as u8, sn.b_has as u8, if dropped { "drop" } else { "keep" }), "ok".into(),
			format!("fc:{}:held={}:sent={}:{}", sn.seen, held_exists as u8, sn.sent as u8, if dropped { "drop" } else { "keep" }), true));
	}
	out.classes.push(format!("close:{}:blocker={}:htlcs={}", ["api", "peer-error", "bad-fulfill"][variant as usize], hold as u8, snaps.len()));
	// ---- the chain: C claims what it can; one of the two commitments confirms --------------------------------------------
	for k in 0..fwds.len() { if !claimed.contains(&k) && net.claimable[C].iter().any(|c| c.0 == fwds[k].hash) && rng.chance(4, 5) {
		net.claimable[C].retain(|c| c.0 != fwds[k].hash); net.claim(fwds[k].pay); net.process_events(C); for j in 0..fwds.len() { if fwds[j].hash == fwds[k].hash && !claimed.contains(&j) { claimed.push(j); } } } }
	net.q.remove(&(C, B));
	if c_learns { for w in held_bc { net.q.entry((B, C)).or_default().push_back(w); } while net.queued(B, C) > 0 { net.deliver(B, C); } net.process_events(C); net.q.remove(&(C, B)); }
	let b_tx = { let v = net.nodes[B].tx_broadcaster.txn_broadcasted.lock().unwrap(); v[bcast_before.min(v.len())..].iter().find(|t| t.input.len() == 1 && t.input[0].previous_output == b_commit.input[0].previous_output).cloned() };
	let c_tx = latest_holder_commitment(net, C, c1);
	let use_c = c_tx.is_some() && (b_tx.is_none() || rng.chance(1, 2));
	let confirmed = if use_c { c_tx.unwrap() } else { match b_tx { Some(t) => t, None => { out.classes.push("close:no-commitment-to-mine".into()); return Ok(out); } } };
	out.classes.push(format!("chain:{}-commitment-confirms", if use_c { "C" } else { "B" }));
	let mut mined: Vec<Transaction> = vec![];
	let mut spent: std::collections::BTreeSet<bitcoin::OutPoint> = Default::default();
	let mut seen_b = bcast_before; let mut seen_c = 0usize;
	let mine = |net: &mut Net, txs: Vec<Transaction>, mined: &mut Vec<Transaction>| {
		for i in [B, C] { if txs.is_empty() { connect_blocks(&net.nodes[i], 1); } else { let refs: Vec<&Transaction> = txs.iter().collect(); mine_transactions(&net.nodes[i], &refs); } }
		mined.extend(txs);
		for i in [B, C, A, E] { net.pump(i); net.process_events(i); }
		for _ in 0..6 {
			let mut any = false;
			net.q.remove(&(B, C)); net.q.remove(&(C, B));
			for l in [(A, B), (B, A), (E, B), (B, E)] { while net.queued(l.0, l.1) > 0 { net.deliver(l.0, l.1); any = true; } }
			for i in [A, B, E] { if net.nodes[i].node.needs_pending_htlc_processing() { net.forward(i); any = true; } net.process_events(i); }
			if !any { break; }
		}
	};
	for i in &confirmed.input { spent.insert(i.previous_output); }
	mine(net, vec![confirmed.clone()], &mut mined);
	let long = rng.chance(1, 3);
	let rounds = if long { 330 } else { 14 };
	for _ in 0..rounds {
		let mut block: Vec<Transaction> = vec![];
		let h = net.nodes[B].best_block_info().1;
		for (node, seen) in [(B, &mut seen_b), (C, &mut seen_c)] {
			let v: Vec<Transaction> = { let b = net.nodes[node].tx_broadcaster.txn_broadcasted.lock().unwrap(); let out = b[(*seen).min(b.len())..].to_vec(); *seen = b.len(); out };
			for t in v {
				if t.input.iter().any(|i| spent.contains(&i.previous_output)) { continue; }
				if !t.input.iter().all(|i| mined.iter().any(|m| m.compute_txid() == i.previous_output.txid)) { continue; }
				if t.lock_time.is_block_height() && t.lock_time.to_consensus_u32() > h + 1 { continue; }
				for i in &t.input { spent.insert(i.previous_output); }
				block.push(t);
			}
		}
		mine(net, block, &mut mined);
		let pending_up = net.nodes[B].node.list_channels().iter().any(|c| (c.channel_id == net.chans[c0].2 || c.channel_id == net.chans[c2].2) && !c.pending_inbound_htlcs.is_empty());
		if !pending_up && !long { break; }
		if !pending_up && mined.len() > 1 { break; }
	}
	// ---- accounting per forwarded HTLC: received upstream vs paid downstream ----------------------------------------------
	// everything B still owes upstream is flushed before the books are read
	for _ in 0..12 {
		let mut any = false;
		net.q.remove(&(B, C)); net.q.remove(&(C, B));
		for l in [(A, B), (B, A), (E, B), (B, E)] { while net.queued(l.0, l.1) > 0 { net.deliver(l.0, l.1); any = true; } }
		for i in [A, B, E] { if net.nodes[i].node.needs_pending_htlc_processing() { net.forward(i); any = true; } let before = net.trace.len(); net.process_events(i); if net.trace.len() > before { any = true; } }
		if !any { break; }
	}
	let mut net_gain: i128 = 0; let mut all_resolved = true; let mut detail: Vec<String> = vec![];
	let mut chain_claims: Vec<(usize, lightning::types::payment::PaymentHash, u64, bool)> = vec![];
	for (k, f) in fwds.iter().enumerate() {
		let up_ok = up_msg(net, f, 0, &["fulfill"]);
		let up_fail = up_msg(net, f, 0, &["fail", "malformed"]);
		if !up_ok && !up_fail { all_resolved = false; }
		// the preimage spend of THIS HTLC's output of the confirmed commitment (HTLCs sharing a payment hash are told apart by output)
		let onchain_out = confirmed.output.iter().position(|o| o.value.to_sat() == f.out_amt / 1000).map(|vout| mined.iter().any(|t| t.input.iter().any(|i|
			i.previous_output.txid == confirmed.compute_txid() && i.previous_output.vout == vout as u32 && i.witness.iter().any(|w| w == &f.preimage.0[..])))).unwrap_or(false);
		let shares_hash = fwds.iter().enumerate().any(|(j, g)| j != k && g.hash == f.hash);
		let onchain = mined.iter().any(|t| t.input.iter().any(|i| i.witness.iter().any(|w| w == &f.preimage.0[..]))) && (!shares_hash || onchain_out);
		if onchain_out { chain_claims.push((k, f.hash, f.out_amt, up_ok)); }
		let offchain = claimed.contains(&k) && !onchain && (snaps.iter().any(|sn| sn.k == k && sn.seen == "rm-ok") || !snaps.iter().any(|sn| sn.k == k)) && net.trace[..close_pos].iter().any(|o| matches!(o, Obs::Msg { from: B, to: C, kind: "add", amt, .. } if *amt == f.out_amt));
		let paid_down = onchain || offchain;
		if up_ok { net_gain += f.in_amt as i128; }
		if paid_down { net_gain -= f.out_amt as i128; }
		detail.push(format!("{}:{}{}", f.out_amt, if up_ok { "claimed-upstream" } else if up_fail { "failed-upstream" } else { "pending-upstream" }, if onchain { "+taken-on-chain-downstream" } else if offchain { "+fulfilled-downstream" } else { "" }));
		// ---- oracle (b), per HTLC: failed back upstream, paid out downstream
		if up_fail && paid_down { out.oracle.push(format!("close scenario {}: Σ value_to_self of the forwarder (incl. the on-chain outcome of the closed channel) decreased after resolution: HTLC of {} msat was failed backwards upstream and {} by the next hop (close by {}, {}'s commitment confirmed, RAA blocker: {}, held update: {})",
			sc, f.out_amt, if onchain { "claimed on chain with the preimage" } else { "fulfilled" }, vname, if use_c { "C" } else { "B" }, hold, held_exists)); }
		out.classes.push(format!("outcome:{}{}", if up_ok { "claimed-upstream" } else if up_fail { "failed-upstream" } else { "pending-upstream" }, if onchain { "+on-chain-downstream" } else if offchain { "+off-chain-downstream" } else { "" }));
	}
	// ---- oracle (c) + model line: every HTLC whose output the next hop spent on chain with the preimage is claimed upstream ------
	if !chain_claims.is_empty() {
		let mut hash_ids: Vec<lightning::types::payment::PaymentHash> = vec![];
		let mut toks: Vec<String> = vec![]; let mut got: Vec<String> = vec![];
		for (k, h, amt, up_ok) in &chain_claims {
			let hid = match hash_ids.iter().position(|x| x == h) { Some(p) => p, None => { hash_ids.push(*h); hash_ids.len() - 1 } };
			toks.push(format!("{}:{}:{}", k, hid, amt));
			if *up_ok { got.push(k.to_string()); }
			else {
				out.oracle.push(format!("close scenario {}: the next hop claimed the forwarded HTLC of {} msat (source #{}, one of {} HTLC(s) with this payment hash on the channel) on chain with the preimage from {}'s commitment, the forwarder's monitor saw the spend, but the forwarder never claimed the inbound HTLC of {} msat upstream (on-chain preimage claims in this run: {:?})",
					sc, amt, k, chain_claims.iter().filter(|c| c.1 == *h).count(), if use_c { "its own" } else { "the forwarder" }, fwds[*k].in_amt, chain_claims.iter().map(|c| format!("#{}:{}msat:claimed-upstream={}", c.0, c.2, c.3)).collect::<Vec<_>>()));
			}
		}
		let n_same = chain_claims.iter().filter(|c| chain_claims.iter().filter(|d| d.1 == c.1).count() > 1).count();
		out.lines.push((format!("onchain {} {} {}", fwds.len(), use_c as u8, toks.join(",")), format!("claimed {}", if got.is_empty() { "-".to_string() } else { got.join(",") }),
			format!("onchain:{}:claims={}:same-hash={}", if use_c { "accepted" } else { "offered" }, chain_claims.len(), n_same), true));
		if n_same > 0 { out.classes.push(format!("chain:same-hash-htlcs-claimed-on-chain-in-one-run={}", n_same)); }
	}
	let up_after = up_bal(net);
	if all_resolved {
		let real_up: i128 = up_after as i128 - up_before as i128;
		let paid: i128 = real_up - net_gain;   // what the per-HTLC view says was paid downstream is already inside net_gain
		let _ = paid;
		if net_gain < 0 { out.oracle.push(format!("close scenario {}: Σ value_to_self of the forwarder decreased by {} msat after resolution ({:?})", sc, -net_gain, detail)); }
		let want_up: i128 = fwds.iter().filter(|f| up_msg(net, f, 0, &["fulfill"])).map(|f| f.in_amt as i128).sum();
		if real_up != want_up { out.oracle.push(format!("close scenario {}: B's upstream value_to_self changed by {} msat but the upstream fulfils add up to {} ({:?})", sc, real_up, want_up, detail)); }
		out.classes.push("resolution:all-upstream-resolved".into());
	} else { out.classes.push("resolution:some-upstream-pending".into()); }
	if std::env::var("VERIF_TRACE").map(|v| v == "all" || v == sc.to_string()).unwrap_or(false) {
		eprintln!("=== close scenario {} hold={} variant={} close_pos={} detail={:?}", sc, hold, vname, close_pos - p0, detail);
		for (n, o) in net.trace[p0..].iter().enumerate() { if !matches!(o, Obs::Balance { .. }) { eprintln!("  {} {}", n, fmt_obs(o)); } }
	}
	Ok(out)
}

// =================================================================================================
// c02multi — TWO inbound edges (A–B, E–B), ONE outbound edge (B–C), 2–3 forwarded HTLCs fulfilled while B persists asynchronously
// =================================================================================================
/// op lines (Lean driver `c02multi`, state = the GENERATED blocker map of Generated/RaaBlock.lean + number of parked updates):
///   minit                      (directive) fresh map
///   fulfil <blocker>           (directive) C's update_fulfill_htlc for the HTLC whose inbound edge/id is <blocker> was processed
///   rel <blocker>              (directive) <blocker>'s PaymentPreimage update completed: the EARLIEST point its completion action can run
///   raa <handed|parked>        C's revoke_and_ack processed and its monitor update was handed to chain::Watch / parked  → `ok` unless
///                              the generated `held` says the map still holds a blocker and the update was handed
///   flush <flies|stays>        a completion on an inbound edge while updates are parked  → `ok` unless held and they fly
fn multi_scenario(rng: &mut Rng, sc: usize, thorough: bool) -> Result<FwdOut, String> {
	let base = *rng.pick(&[0u32, 1000, 2500]);
	let prop = *rng.pick(&[0u32, 100, 5000]);
	let delta = *rng.pick(&[48u16, 72, 144]);
	let mut net = Net::new(4, vec![None, Some(b_config(base, prop, delta)), None, None]);
	let r = guarded(std::panic::AssertUnwindSafe(|| multi_scenario_inner(&mut net, rng, sc, thorough, base, prop, delta)));
	std::mem::forget(net);
	match r { Ok(x) => x, Err(p) => Err(format!("PANIC {}", p)) }
}

fn multi_scenario_inner(net: &mut Net, rng: &mut Rng, sc: usize, thorough: bool, base: u32, prop: u32, delta: u16) -> Result<FwdOut, String> {
	let mut out = FwdOut { lines: vec![], oracle: vec![], classes: vec![] };
	let c0 = net.open(A, B, 1_000_000, 400_000_000);
	let c1 = net.open(B, C, 1_000_000, 400_000_000);
	let c2 = net.open(E, B, 1_000_000, 400_000_000);
	static COUNTER: std::sync::atomic::AtomicU64 = std::sync::atomic::AtomicU64::new(1 << 40);
	let fee_of = |amt: u64| (amt as u128 * prop as u128 / 1_000_000 + base as u128) as u64;
	let n_htlc = 2 + rng.below(2) as usize;
	let first_a = rng.chance(1, 2);
	let mut fwds: Vec<Fwd> = vec![];
	let mut down_ids: Vec<u64> = vec![];
	for k in 0..n_htlc {
		let from_a = match k { 0 => first_a, 1 => !first_a, _ => rng.chance(1, 2) };
		let (src, cin) = if from_a { (A, c0) } else { (E, c2) };
		let amt = 10_000_000 + (k as u64 + 1) * 1_000_000 + rng.below(900) * 1000;
		let pos = net.trace.len();
		let f = send_from(net, src, cin, c1, amt, fee_of(amt), delta as u32, 60 + rng.below(30) as u32, COUNTER.fetch_add(1, std::sync::atomic::Ordering::Relaxed))?;
		net.settle(14);
		if !net.claimable[C].iter().any(|c| c.0 == f.hash) { return Err("forward did not reach C".into()); }
		if f.up_id.is_none() { return Err("inbound htlc id not seen".into()); }
		let did = net.trace[pos..].iter().find_map(|o| if let Obs::Msg { from: B, to: C, kind: "add", amt: a, htlc_id, .. } = o { if *a == amt { Some(*htlc_id) } else { None } } else { None });
		match did { Some(d) => down_ids.push(d), None => return Err("downstream htlc id not seen".into()) }
		fwds.push(f);
	}
	for c in [c0, c1, c2] { net.sample_balances(c); }
	let bal_before: u64 = [c0, c1, c2].iter().map(|c| b_balance(net, *c)).sum();
	let p0 = net.trace.len();
	// crash variant: B will restart from THIS manager (written before the claims; the manager is persisted lazily) and from
	// its monitors as they are durable at the crash point (every update reported complete, no update still InProgress)
	let crash = rng.chance(1, 2);
	let stale_mgr = net.nodes[B].node.encode();
	let mut snaps: BTreeMap<(usize, u64), Vec<u8>> = BTreeMap::new();
	snap_monitors(net, &mut snaps);
	net.set_mode(B, true);
	// C claims everything (in a random order; a later claim may land in C's holding cell and go out with a later commitment)
	let mut order: Vec<usize> = (0..n_htlc).collect();
	for i in (1..order.len()).rev() { let j = rng.below(i as u64 + 1) as usize; order.swap(i, j); }
	let mut to_claim = order.clone();
	let k0 = to_claim.remove(0);
	net.claim(fwds[k0].pay); net.process_events(C);
	// the inbound edge whose monitor updates complete readily; the other one stays in flight (1/12 per roll)
	let fav = if rng.chance(1, 2) { c0 } else { c2 };
	let steps = if thorough { 60 + rng.below(40) } else { 40 + rng.below(30) } as usize;
	let crash_step = if crash { 30 + rng.below(steps as u64 - 30) as usize } else { usize::MAX };
	let mut crashed = false;
	let mut p_crash = usize::MAX; let mut ev0 = 0usize;
	let mut crash_minp: BTreeMap<usize, Option<u64>> = BTreeMap::new();
	let mut scanned = net.trace.len(); let mut fulfils_dlv = 0usize; let mut raa_ids: std::collections::BTreeSet<u64> = Default::default();
	for step in 0..steps {
		snap_monitors(net, &mut snaps);
		// crash variant, directed: first let C's claims reach B while every inbound edge's preimage update stays in flight (phase 1),
		// then crash — most of the time — right after a downstream revoke_and_ack update became durable while an inbound edge still
		// has updates in flight (the instant at which a missing blocker costs money), else at `crash_step`
		let mut raa_durable_now = false;
		for o in &net.trace[scanned..] { match o {
			Obs::Delivered { from: C, to: B, kind: "fulfill", .. } => fulfils_dlv += 1,
			Obs::Update { node: B, chan, id, kinds, .. } if *chan == c1 && kinds.contains(&"CommitmentSecret") => { raa_ids.insert(*id); },
			Obs::Completed { node: B, chan, id } if *chan == c1 && raa_ids.contains(id) => raa_durable_now = true,
			_ => {} } }
		scanned = net.trace.len();
		let phase1 = crash && fulfils_dlv < n_htlc && step < 30;
		let up_pending = !net.pending_updates(B, c0).is_empty() || !net.pending_updates(B, c2).is_empty();
		if step == crash_step || (crash && !phase1 && raa_durable_now && up_pending && fulfils_dlv >= 2 && rng.chance(2, 3)) || (crash && step + 1 == steps) {
			let (_, cur) = net.snapshot(B);
			let mut ids = net.nodes[B].chain_monitor.chain_monitor.list_monitors(); ids.sort();
			let mut mons = vec![];
			for (k, cid) in ids.iter().enumerate() {
				let ci = net.chan_idx(cid);
				match net.pending_updates(B, ci).first() {
					Some(minp) => match snaps.get(&(ci, minp - 1)) { Some(bytes) => mons.push(bytes.clone()), None => return Err("crash: durable copy of a monitor not snapshotted".into()) },
					None => mons.push(cur[k].clone()),
				}
			}
			p_crash = net.trace.len(); ev0 = net.events[B].len();
			for c in [c0, c2] { crash_minp.insert(c, net.pending_updates(B, c).first().cloned()); }
			net.restart_from(B, &stale_mgr, &mons).map_err(|e| format!("restart failed: {}", e))?;
			crashed = true;
			// startup work: replayed claims, regenerated updates (synchronous persister now), forwards / fail-backs
			for _ in 0..6 {
				net.process_events(B); net.forward(B);
				for c in [c0, c1, c2] { for id in net.pending_updates(B, c) { net.complete(B, c, id); } }
			}
			net.process_events(B);
			break;
		}
		if phase1 {
			match rng.below(10) {
				0..=5 => { let q: Vec<(usize, usize)> = [(B, C), (C, B)].iter().cloned().filter(|l| net.queued(l.0, l.1) > 0).collect(); if !q.is_empty() { let (i, j) = *rng.pick(&q); net.deliver(i, j); } },
				6 | 7 => { if !to_claim.is_empty() { let k = to_claim.remove(0); net.claim(fwds[k].pay); net.process_events(C); } },
				_ => { let pend = net.pending_updates(B, c1); if !pend.is_empty() { let id = *rng.pick(&pend); net.complete(B, c1, id); } },
			}
			continue;
		}
		match rng.below(20) {
			0..=8 => {
				let q: Vec<(usize, usize)> = [(B, C), (C, B)].iter().cloned().filter(|l| net.queued(l.0, l.1) > 0).collect();
				if !q.is_empty() { let (i, j) = *rng.pick(&q); net.deliver(i, j); }
			},
			9 | 10 => { if !to_claim.is_empty() { let k = to_claim.remove(0); net.claim(fwds[k].pay); net.process_events(C); } },
			11..=14 => {
				let mut cands: Vec<(usize, u64)> = vec![];
				for c in [c0, c1, c2] { for id in net.pending_updates(B, c) { if c != c1 && c != fav && (crash || !rng.chance(1, 12)) { continue; } cands.push((c, id)); } }
				if !cands.is_empty() { let (c, id) = *rng.pick(&cands); net.complete(B, c, id); }
			},
			15 => { mark(net, "TICK"); net.process_events(C); net.forward(C); },
			16 => { mark(net, "TICK"); net.process_events(B); },
			_ => {
				let q: Vec<(usize, usize)> = [(A, B), (B, A), (E, B), (B, E)].iter().cloned().filter(|l| net.queued(l.0, l.1) > 0).collect();
				if !q.is_empty() { let (i, j) = *rng.pick(&q); net.deliver(i, j); net.process_events(A); net.process_events(E); }
			},
		}
	}
	// ---- drain ------------------------------------------------------------------------------------
	if !crashed { for k in to_claim.drain(..) { net.claim(fwds[k].pay); net.process_events(C); } }
	for _ in 0..(if crashed { 0 } else { 80 }) {
		let mut any = false;
		for c in [c0, c1, c2] { for id in net.pending_updates(B, c) { net.complete(B, c, id); any = true; } }
		if let Some((i, j)) = net.any_queued() { net.deliver(i, j); any = true; }
		for i in 0..4 { if net.nodes[i].node.needs_pending_htlc_processing() { mark(net, "TICK"); net.forward(i); any = true; } let before = net.trace.len(); mark(net, "TICK"); net.process_events(i); if net.trace.len() > before + 1 { any = true; } }
		if !any { break; }
	}
	for c in [c0, c1, c2] { net.sample_balances(c); }
	let bal_after: u64 = [c0, c1, c2].iter().map(|c| b_balance(net, *c)).sum();
	let busy = net.nodes[B].node.list_channels().iter().any(|c| !c.pending_inbound_htlcs.is_empty() || !c.pending_outbound_htlcs.is_empty());
	let tracing = std::env::var("VERIF_TRACE").map(|v| v == "all" || v == sc.to_string()).unwrap_or(false);
	if tracing { eprintln!("=== multi scenario {} n={} fav=c{}", sc, n_htlc, fav); for o in &net.trace[p0..] { if !matches!(o, Obs::Balance { .. }) { eprintln!("  {}", fmt_obs(o)); } } }

	// ---- trace -> op lines + impl-side oracles -----------------------------------------------------------
	let tr: Vec<Obs> = net.trace[p0..p_crash.min(net.trace.len())].to_vec();
	if !crashed { for o in &tr { if let Obs::ProtoError { node, text } = o { out.oracle.push(format!("multi scenario {}: honest operation produced a protocol error at node {}: {}", sc, node, text)); } } }
	if !crashed { for (n, r) in &net.closed { out.oracle.push(format!("multi scenario {}: channel closed at node {} ({})", sc, n, r)); } }
	out.lines.push(("minit".into(), "-".into(), "minit".into(), false));
	let blocker_of = |k: usize| -> u64 { fwds[k].up_chan as u64 * 1000 + fwds[k].up_id.unwrap() };
	// C's fulfils in the order they were queued (FIFO link, no disconnects): the i-th delivery is the i-th queued
	let fulfil_queue: Vec<u64> = tr.iter().filter_map(|o| if let Obs::Msg { from: C, to: B, kind: "fulfill", htlc_id, .. } = o { Some(*htlc_id) } else { None }).collect();
	let mut n_fulfil_dlv = 0usize;
	let mut seen_fulfil = vec![false; n_htlc];       // C's update_fulfill_htlc for k was processed by B
	let mut u: Vec<Option<u64>> = vec![None; n_htlc]; // id of the inbound edge's update that carries k's preimage
	let mut pre: Vec<char> = vec!['n'; n_htlc];       // n / h / d
	let mut released = vec![false; n_htlc];
	let mut inflight: BTreeMap<usize, std::collections::BTreeSet<u64>> = BTreeMap::new();
	let mut parked = 0usize;
	let mut sched: Vec<String> = vec![];
	let is_start = |o: &Obs| match o { Obs::Delivered { .. } | Obs::Completed { .. } => true, Obs::Event { node: B, text } => text == "TICK", _ => false };
	let mut i = 0;
	while i < tr.len() && !is_start(&tr[i]) { i += 1; }
	while i < tr.len() {
		let start = tr[i].clone();
		let mut j = i + 1;
		while j < tr.len() && !is_start(&tr[j]) { j += 1; }
		let effects = &tr[i + 1..j];
		let mut this_fulfil: Option<usize> = None;
		match &start {
			Obs::Delivered { from: C, to: B, kind: "fulfill", errors: 0, .. } => {
				let did = fulfil_queue.get(n_fulfil_dlv).cloned(); n_fulfil_dlv += 1;
				if let Some(k) = did.and_then(|d| down_ids.iter().position(|x| *x == d)) {
					this_fulfil = Some(k);
					sched.push(format!("C>B fulfil(htlc{} from c{})", k, fwds[k].up_chan));
					if !seen_fulfil[k] { seen_fulfil[k] = true; out.lines.push((format!("fulfil {}", blocker_of(k)), "-".into(), "fulfil".into(), false)); }
				} else { return Err("fulfil for an unknown downstream htlc id".into()); }
			},
			Obs::Delivered { from, to, kind, .. } => sched.push(format!("{}>{} {}", ["A", "B", "C", "E"][*from], ["A", "B", "C", "E"][*to], kind)),
			Obs::Completed { node: B, chan, id } => {
				sched.push(format!("complete c{} id={}", chan, id));
				if let Some(s) = inflight.get_mut(chan) { s.remove(id); }
				// the completion action of k's preimage update (it removes k's blocker) cannot run before this point
				for k in 0..n_htlc { if fwds[k].up_chan == *chan && u[k] == Some(*id) { pre[k] = 'd'; if seen_fulfil[k] && !released[k] { released[k] = true; out.lines.push((format!("rel {}", blocker_of(k)), "-".into(), "rel".into(), false)); } } }
			},
			_ => {},
		}
		let mut handed_raa = 0usize; let mut generated_down = 0usize;
		for o in effects {
			match o {
				Obs::Update { node: B, chan, id, kinds, in_progress, .. } => {
					if *in_progress { inflight.entry(*chan).or_default().insert(*id); }
					if let Some(k) = this_fulfil { if *chan == fwds[k].up_chan && kinds.contains(&"PaymentPreimage") && u[k].is_none() { u[k] = Some(*id); pre[k] = if *in_progress { 'h' } else { 'd' }; } }
					if *chan == c1 && kinds.contains(&"CommitmentSecret") {
						handed_raa += 1;
						// ---- oracle: the downstream revocation update reaches chain::Watch only when the preimage of EVERY HTLC the
						// next hop has fulfilled on that channel is durable in ITS inbound edge's monitor
						for k in 0..n_htlc { if seen_fulfil[k] && pre[k] != 'd' {
							out.oracle.push(format!("multi scenario {}: B handed the downstream (c{}) CommitmentSecret update id {} to chain::Watch while the PaymentPreimage update of forwarded HTLC {} (inbound edge c{}, htlc id {}) was {}; HTLCs: {}; schedule since the first claim: {}", sc, c1, id, k, fwds[k].up_chan, fwds[k].up_id.unwrap(),
								if pre[k] == 'n' { "not even generated" } else { "still in flight (InProgress)" },
								(0..n_htlc).map(|x| format!("htlc{}=c{}/id{}/{}msat pre={}", x, fwds[x].up_chan, fwds[x].up_id.unwrap(), fwds[x].out_amt, pre[x])).collect::<Vec<_>>().join(" "),
								sched.join("; ")));
						} }
					}
				},
				Obs::Generated { node: B, chan, .. } if *chan == c1 => generated_down += 1,
				_ => {},
			}
		}
		if let Some(k) = this_fulfil { if u[k].is_none() { return Err("preimage update of the inbound edge not seen in the fulfil's segment".into()); } }
		match &start {
			Obs::Delivered { from: C, to: B, kind: "raa", errors: 0, .. } => {
				let ans = if handed_raa > 0 { "handed" } else if generated_down > 0 { parked += 1; "parked" } else { "nothing" };
				let nb = (0..n_htlc).filter(|k| seen_fulfil[*k] && !released[*k]).count();
				out.lines.push((format!("raa {}", ans), "ok".into(), format!("raa:{}:preimages-in-flight={}", ans, nb), nb > 0));
				if handed_raa > 0 { parked = 0; }
			},
			Obs::Completed { node: B, chan, .. } => {
				if *chan != c1 && parked > 0 {
					let ans = if handed_raa > 0 { "flies" } else { "stays" };
					let nb = (0..n_htlc).filter(|k| seen_fulfil[*k] && !released[*k]).count();
					out.lines.push((format!("flush {}", ans), "ok".into(), format!("flush:{}:preimages-in-flight={}", ans, nb), true));
					if handed_raa > 0 { parked = 0; }
				}
			},
			_ => {},
		}
		i = j;
	}
	// ---- crash variant: the LOSS oracle ------------------------------------------------------------------------
	if crashed {
		// every forwarded HTLC is claimed (or still claimable) by C and nothing was mined: after restart + replay from the stale
		// manager and the durable monitors B must not fail ANY of them backwards
		// a fail-back on inbound edge u is a LOSS when it hits an HTLC whose preimage is NOT durable in u's monitor (B cannot claim it
		// any more, the next hop can); a fail-back event for an HTLC whose preimage IS durable upstream is spurious (counted)
		let durable_pre = |k: usize| -> bool { pre[k] == 'd' && match (u[k], crash_minp.get(&fwds[k].up_chan).cloned().flatten()) { (Some(id), Some(minp)) => id < minp, (Some(_), None) => true, _ => false } };
		let mut failed = 0; let mut lost = 0;
		for uc in [c0, c2] {
			let cid_txt = format!("{}", net.chans[uc].2);
			let evs: Vec<String> = net.events[B][ev0.min(net.events[B].len())..].iter().filter(|e| matches!(e, Event::HTLCHandlingFailed { .. })).map(|e| format!("{:?}", e)).filter(|t| t.contains(&cid_txt)).collect();
			let n_durable = (0..n_htlc).filter(|k| fwds[*k].up_chan == uc && durable_pre(*k)).count();
			failed += evs.len();
			if evs.len() > n_durable {
				lost += evs.len() - n_durable;
				out.oracle.push(format!("multi scenario {}: after a crash and a restart from a ChannelManager written before the claims (monitors as durable at the crash) B FAILED BACKWARDS {} forwarded HTLC(s) of inbound edge c{} whose preimage is not durable in that edge's monitor, although the next hop holds the preimage and nothing timed out — B loses the amount: {}; HTLCs at the crash: {}; schedule before the crash: {}", sc, evs.len() - n_durable, uc,
					evs[0].chars().take(200).collect::<String>(),
					(0..n_htlc).map(|x| format!("htlc{}=c{}/id{}/{}msat fulfil-seen={} pre={} durable={}", x, fwds[x].up_chan, fwds[x].up_id.unwrap(), fwds[x].out_amt, seen_fulfil[x] as u8, pre[x], durable_pre(x) as u8)).collect::<Vec<_>>().join(" "),
					sched.join("; ")));
			}
		}
		out.classes.push(format!("crash:stale-manager:fulfils-seen={}:preimages-in-flight={}:failed-back-events={}:lost={}", seen_fulfil.iter().filter(|x| **x).count(), (0..n_htlc).filter(|k| seen_fulfil[*k] && !durable_pre(*k)).count(), failed, lost));
		out.lines.push(("crashed".into(), "ok".into(), "crashed".into(), true));
		out.classes.push(format!("scenario:n={}:crash", n_htlc));
		return Ok(out);
	}
	// ---- terminal ------------------------------------------------------------------------------------------
	let delta_b: i128 = bal_after as i128 - bal_before as i128;
	let fees: u64 = fwds.iter().map(|f| f.in_amt - f.out_amt).sum();
	if busy { out.oracle.push(format!("multi scenario {}: HTLCs still pending at B after the drain", sc)); }
	if delta_b < 0 { out.oracle.push(format!("multi scenario {}: B's total balance fell by {} msat", sc, -delta_b)); }
	if !busy && delta_b != fees as i128 { out.oracle.push(format!("multi scenario {}: B's balance changed by {} msat, the fees of the {} forwards are {}", sc, delta_b, n_htlc, fees)); }
	let n_fwd = net.events[B].iter().filter(|e| matches!(e, Event::PaymentForwarded { .. })).count();
	if !busy && n_fwd < n_htlc { out.oracle.push(format!("multi scenario {}: {} forwards claimed, {} PaymentForwarded events", sc, n_htlc, n_fwd)); }
	for e in &net.events[B] { if let Event::HTLCHandlingFailed { .. } = e { out.oracle.push(format!("multi scenario {}: B failed an HTLC backwards although the next hop claimed every forward", sc)); } }
	let two_edges_overlap = (0..n_htlc).any(|k| (0..n_htlc).any(|l| fwds[k].up_chan != fwds[l].up_chan));
	out.classes.push(format!("scenario:n={}:two-inbound-edges={}", n_htlc, two_edges_overlap as u8));
	Ok(out)
}

fn b_balance(net: &Net, c: usize) -> u64 {
	net.trace.iter().rev().find_map(|o| if let Obs::Balance { node: B, chan, value_to_self_msat } = o { if *chan == c { Some(*value_to_self_msat) } else { None } } else { None }).unwrap_or(0)
}

fn main() {
	let args = &parse_args("c02admit");
	silence_stdout();
	let mut rec = Rec::new(&args.out, &args.model);
	let mut rng = Rng::new(args.seed);
	if args.model == "c02admit" {
		let (n_scen, n_cases) = if args.thorough { (60, 400) } else { (16, 160) };
		for sc in 0..n_scen * args.scale as usize {
			let mut sub = Rng::new(rng.next());
			let r = guarded(std::panic::AssertUnwindSafe(|| admit_scenario(&mut sub, &mut rec, sc, n_cases)));
			if let Err(p) = r { rec.oracle_fail(format!("admit scenario {} (seed {}) panicked: {}", sc, args.seed, p.chars().take(200).collect::<String>())); }
		}
		rec.notes.insert("rule".into(), "3 real nodes A-B-C per scenario, B's forwarding_fee_base_msat / forwarding_fee_proportional_millionths / cltv_expiry_delta drawn per scenario, B's chain tip 0..120 blocks ahead of A's; per case a hand-built route with the first-hop fee at required / -1 / +1 / 0, the first-hop cltv delta at configured / -1 / +1 / 47 / 48, and the final delta placing outCltv around height+LATENCY_GRACE_PERIOD_BLOCKS, inCltv around height+HTLC_FAIL_BACK_BUFFER and height+CLTV_FAR_FAR_AWAY; observed end-to-end (B→C add vs HTLCHandlingFailed local reason); distinct by op text".into());
	} else if args.model == "c02close" {
		let n_scen = if args.thorough { 1500 } else { 170 } * args.scale as usize;
		let mut class_hist: BTreeMap<String, u64> = BTreeMap::new();
		let only: Option<usize> = std::env::var("VERIF_ONLY").ok().and_then(|v| v.parse().ok());
		for sc in 0..n_scen {
			let mut sub = Rng::new(rng.next());
			if only.map(|o| o != sc).unwrap_or(false) { continue; }
			match guarded(std::panic::AssertUnwindSafe(|| close_scenario(&mut sub, sc, args.thorough))) {
				Ok(Ok(out)) => {
					for (k, (op, res, class, nt)) in out.lines.into_iter().enumerate() { rec.case(&format!("{} @s{}.{}", op, sc, k), &res, &class, nt); }
					for o in out.oracle { rec.oracle_fail(o); }
					for c in out.classes { *class_hist.entry(c).or_insert(0) += 1; }
				},
				Ok(Err(e)) if e.starts_with("PANIC ") => rec.oracle_fail(format!("close scenario {} (seed {}) panicked: {}", sc, args.seed, e.chars().take(300).collect::<String>())),
				Ok(Err(e)) => { rec.discarded += 1; *class_hist.entry(format!("discard:{}", e.chars().take(50).collect::<String>())).or_insert(0) += 1; },
				Err(p) => rec.oracle_fail(format!("close scenario {} (seed {}) panicked: {}", sc, args.seed, p.chars().take(300).collect::<String>())),
			}
		}
		for (k, v) in class_hist { *rec.classes.entry(k).or_insert(0) += v; }
		rec.notes.insert("rule".into(), "4 real nodes A-B-C, E-B (legacy channels); 1-2 forwarded HTLCs committed on both links, then a random schedule (single message deliveries over all links, monitor-update completions with or without the inbound edge's preimage update held back as RAA blocker, C's claims, further forwards from E or A that land in the holding cell / a sent or a held commitment) cut at a random point by a force-close of B-C (API call, error message from C, invalid update_fulfill_htlc from C); per HTLC on B-C at that instant one case (distinct by scenario and HTLC); afterwards C's or B's commitment is mined, C claims on chain, 1/3 of the scenarios run until the timeouts; in 1/3 of the scenarios the base HTLCs are TWO forwards with the SAME payment hash (one MPP payment, both parts over A-B and B-C), so that both HTLC outputs are claimed with the same preimage in one block; one `onchain` case per scenario in which the next hop spent forwarded HTLC outputs with a preimage (sources told apart by commitment output)".into());
	} else if args.model == "c02multi" {
		let n_scen = if args.thorough { 2500 } else { 170 } * args.scale as usize;
		let mut class_hist: BTreeMap<String, u64> = BTreeMap::new();
		let only: Option<usize> = std::env::var("VERIF_ONLY").ok().and_then(|v| v.parse().ok());
		let mut buffered: Vec<String> = vec![]; // the LOSS reports (crash variant) are listed before the order violations
		for sc in 0..n_scen {
			let mut sub = Rng::new(rng.next());
			if only.map(|o| o != sc).unwrap_or(false) { continue; }
			match guarded(std::panic::AssertUnwindSafe(|| multi_scenario(&mut sub, sc, args.thorough))) {
				Ok(Ok(out)) => {
					for (k, (op, res, class, nt)) in out.lines.into_iter().enumerate() { if res == "-" { rec.directive(&op); } else { rec.case(&format!("{} @s{}.{}", op, sc, k), &res, &class, nt); } }
					for o in out.oracle { buffered.push(o); }
					for c in out.classes { *class_hist.entry(c).or_insert(0) += 1; }
				},
				Ok(Err(e)) if e.starts_with("PANIC ") => rec.oracle_fail(format!("multi scenario {} (seed {}) panicked: {}", sc, args.seed, e.chars().take(300).collect::<String>())),
				Ok(Err(e)) => { rec.discarded += 1; *class_hist.entry(format!("discard:{}", e.chars().take(60).collect::<String>())).or_insert(0) += 1; },
				Err(p) => rec.oracle_fail(format!("multi scenario {} (seed {}) panicked: {}", sc, args.seed, p.chars().take(300).collect::<String>())),
			}
		}
		buffered.sort_by_key(|o| !o.contains("FAILED BACKWARDS"));
		for o in buffered { rec.oracle_fail(o); }
		for (k, v) in class_hist { *rec.classes.entry(k).or_insert(0) += v; }
		rec.notes.insert("rule".into(), "4 real nodes A-B, E-B (two inbound edges) and B-C (one outbound edge); 2-3 forwarded HTLCs committed on all links, the first two over DIFFERENT inbound edges; B persists asynchronously (every update InProgress), C claims all of them at random points; every B-C message delivered separately, monitor-update completions at B in random order with one inbound edge completing readily and the other rarely, inbound-edge messages at random points; per revoke_and_ack of C one case (handed / parked), per inbound-edge completion that runs a completion action while updates are parked one case (flies / stays), compared with the GENERATED blocker-map functions; oracle: no downstream CommitmentSecret update at chain::Watch before the preimage of every fulfilled HTLC is durable in its own inbound edge's monitor".into());
	} else if args.model == "c02hop" {
		let (n_scen, n_cases) = if args.thorough { (60, 400) } else { (14, 150) };
		for sc in 0..n_scen * args.scale as usize {
			let mut sub = Rng::new(rng.next());
			let r = guarded(std::panic::AssertUnwindSafe(|| hop_scenario(&mut sub, &mut rec, sc, n_cases)));
			if let Err(p) = r { rec.oracle_fail(format!("hop scenario {} (seed {}) panicked: {}", sc, args.seed, p.chars().take(200).collect::<String>())); }
		}
		// ---- blinded forwards: the real check_blinded_forward (hook) on rounding boundaries vs the GENERATED translation ----------------
		let n_bl = if args.thorough { 60_000 } else { 6_000 } * args.scale as usize;
		let mut seen_bl: std::collections::HashSet<String> = Default::default();
		for _ in 0..n_bl {
			let base = *rng.pick(&[0u32, 0, 1, 999, 1000, 12_345, u32::MAX]);
			let prop = *rng.pick(&[0u32, 1, 100, 2500, 10_000, 333_333, 999_999, 1_000_000, 1_000_001, 1_500_000, 2_000_000, 3_000_000, u32::MAX]);
			let delta = *rng.pick(&[0u16, 1, 40, 72, 144, u16::MAX]);
			let fee = |a: u128| a * prop as u128 / 1_000_000 + base as u128;
			// an inbound amount around the point where forwarding `a` exactly pays the fee
			let a: u128 = match rng.below(6) { 0 => rng.below(4) as u128, 1 => 1 + rng.below(2000) as u128, 2 => 1_000_000 + rng.below(40) as u128, 3 => (rng.next() % 10_000_000_000) as u128, 4 => (u64::MAX as u128) / (1 + rng.below(5) as u128), _ => 1_000 * (1 + rng.below(1000) as u128) };
			let center = a + fee(a);
			let in_amt = (center as i128 + rng.below(7) as i128 - 3).clamp(0, u64::MAX as i128) as u64;
			let in_cltv: u32 = match rng.below(5) { 0 => delta as u32, 1 => (delta as u32).saturating_sub(1), 2 => delta as u32 + 1, 3 => 700_000 + rng.below(1000) as u32, _ => rng.below(200_000) as u32 };
			let max_cltv: u32 = match rng.below(4) { 0 => in_cltv, 1 => in_cltv.saturating_sub(1), 2 => in_cltv.saturating_add(1), _ => u32::MAX };
			let htlc_min: u64 = match rng.below(5) { 0 => in_amt, 1 => in_amt.saturating_add(1), 2 => in_amt.saturating_sub(1), 3 => 0, _ => 1 };
			let op = format!("blinded {} {} {} {} {} {} {} 0", in_amt, in_cltv, base, prop, delta, htlc_min, max_cltv);
			if !seen_bl.insert(op.clone()) { continue; }
			let r = guarded(std::panic::AssertUnwindSafe(|| vh::check_blinded_forward(in_amt, in_cltv, base, prop, delta, htlc_min, max_cltv)));
			let (ans, class) = match r {
				Ok(Some((amt, cltv))) => {
					if amt as u128 + fee(amt as u128) > in_amt as u128 || amt == 0 {
						rec.oracle_fail(format!("blinded forward rounds against the node: inbound {} msat, payment_relay base {} prop {} -> offers {} msat downstream, fee promised for that amount {} msat", in_amt, base, prop, amt, fee(amt as u128)));
					}
					if cltv as u64 + delta as u64 != in_cltv as u64 { rec.oracle_fail(format!("blinded forward: outgoing cltv {} != inbound {} - delta {}", cltv, in_cltv, delta)); }
					let more = (amt as u128 + 1) + fee(amt as u128 + 1) <= in_amt as u128;
					(format!("forward {} {}", amt, cltv), format!("blinded:forward:{}:one-more-would-fit={}", if prop > 1_000_000 { "prop>100%" } else if prop == 0 { "prop=0" } else { "prop<=100%" }, more as u8))
				},
				Ok(None) => ("reject blinded".to_string(), format!("blinded:reject:{}", if in_amt < htlc_min { "min" } else if in_cltv > max_cltv { "max-cltv" } else if (in_cltv as u64) < delta as u64 { "delta" } else { "amount" })),
				Err(p) => (format!("panic {}", p.chars().take(80).collect::<String>()), "blinded:panic".to_string()),
			};
			rec.case(&op, &ans, &class, true);
		}
		rec.notes.insert("rule".into(), "4 real nodes A-B-C(-D) per scenario; B's fee/delta config, htlc_interception_flags, accept_forwards_to_priv_channels, announced/unannounced inbound channel, D online/offline/disabled, optional config change on the public B-C channel (prev_config) and B's chain tip 0..40 blocks ahead drawn per scenario; per case a genuine update_add_htlc A->B whose onion is replaced (same session key) by one whose forward payload names a public / private / offline channel, B's phantom SCID, B's intercept SCID or an SCID in no namespace, with amt_to_forward at fee-exact / -1 / +1 / equal to / one more than / 2x / 10x the amount carried and outgoing_cltv_value at configured delta / -1 / +1 / MIN_CLTV_EXPIRY_DELTA / -1 / equal / greater than the inbound expiry and around the height margins; intercepted HTLCs are released at expected_outbound_amount_msat, recipients claim 2/3; plus `blinded` cases: the real check_blinded_forward (hook) on inbound amounts within +-3 msat of the point where forwarding a drawn amount exactly pays the payment_relay fee (base 0..u32::MAX, proportional 0..u32::MAX incl. above 100%), expiries around cltv_expiry_delta and max_cltv_expiry, htlc_minimum_msat around the amount, compared with the GENERATED translation; distinct by op text".into());
	} else {
		let n_scen = if args.thorough { 3000 } else { 450 } * args.scale as usize;
		let mut class_hist: BTreeMap<String, u64> = BTreeMap::new();
		let only: Option<usize> = std::env::var("VERIF_ONLY").ok().and_then(|v| v.parse().ok());
		for sc in 0..n_scen {
			let mut sub = Rng::new(rng.next());
			if only.map(|o| o != sc).unwrap_or(false) { continue; }
			match guarded(std::panic::AssertUnwindSafe(|| fwd_scenario(&mut sub, sc, args.thorough))) {
				Ok(Ok(out)) => {
					rec.directive(&format!("# scenario {}", sc));
					for (k, (op, res, class, nt)) in out.lines.into_iter().enumerate() { if res == "-" { rec.directive(&op); } else { rec.case(&format!("{} @s{}.{}", op, sc, k), &res, &class, nt); } }
					for o in out.oracle { rec.oracle_fail(o); }
					for c in out.classes { *class_hist.entry(c).or_insert(0) += 1; }
				},
				Ok(Err(e)) if e.starts_with("PANIC ") => rec.oracle_fail(format!("fwd scenario {} (seed {}) panicked: {}", sc, args.seed, e.chars().take(300).collect::<String>())),
				Ok(Err(e)) => {
					rec.discarded += 1;
					let kind = if e.contains("Non-event-generating channel freeing") { "discard:reload-hits-debug_assert(FreeDuplicateClaimImmediately persisted)" } else if e.starts_with("restart failed") { "discard:restart-failed" } else { "discard:setup" };
					*class_hist.entry(kind.to_string()).or_insert(0) += 1;
					rec.notes.insert(format!("discard_s{}", sc), e);
				},
				Err(p) => rec.oracle_fail(format!("fwd scenario {} (seed {}) panicked: {}", sc, args.seed, p.chars().take(300).collect::<String>())),
			}
		}
		for (k, v) in class_hist { rec.classes.insert(k, v); }
		rec.notes.insert("rule".into(), "3 real nodes A-B-C, ONE forwarded HTLC per scenario, B with Completed or InProgress persistence (switched at random quiescent points), every message delivered separately in random order over the four directed links, monitor-update completions in random order, C claims (70%) or fails, up to 2 crash/restarts of B per scenario from the current manager and monitors that either contain or lack the in-flight updates, reconnects at random later points; op lines are the observed events at B; a case is one op of one scenario (distinct by scenario and position)".into());
	}
	rec.finish();
}
