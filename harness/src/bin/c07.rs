//! C07 — after a unilateral close every entitled output is recovered, validly and in time.
//! models:
//!   c07bump  — differential of the real feerate_bump / get_height_timer / package_locktime (see c06/bump.rs)
//!   c07close — real 2-node channels (functional_test_utils through sim::Net): a PRNG-drawn mix of pending HTLCs
//!              (dust / non-dust, both directions, preimage known to the receiver or not), then node A's channel is
//!              closed by A's own latest commitment (`force_close_broadcasting_latest_txn`) or by the counterparty's;
//!              both nodes follow the same chain block by block, every broadcast of either node is mined after a
//!              random delay.  Model ops (driver `c07close`, the entitlement ledger of Model/OnchainClaims.lean):
//!                close <height> <item>…   claim <idx> <height> <net>   peer <idx> <height>   block <height>
//!              each answered with the sorted balance classes; the implementation answer is node A's REAL
//!              `get_claimable_balances` (class, height parameter, amount) after that block.
//!              Implementation oracles (no model): every broadcast of A verifies under libbitcoinconsensus against
//!              the outputs it spends and is final at its broadcast height (nLockTime ≤ height, CSV satisfied), a
//!              re-issued claim never pays less fee than the one it replaces, the balances drain, and
//!              SpendableOutputs + on-chain fees + value taken by the counterparty = A's entitlement at closure.
#[path = "c06/bump.rs"]
mod bump;
use bitcoin::{OutPoint, Transaction, TxOut, Txid};
use ldk_verif_harness::common::*;
use ldk_verif_harness::sim::{silence_stdout, Net};
use lightning::chain::channelmonitor::Balance;
use lightning::events::Event;
use lightning::ln::chan_utils::CommitmentTransaction;
use lightning::ln::functional_test_utils::*;
use lightning::ln::msgs::BaseMessageHandler;
use lightning::ln::types::ChannelId;
use lightning::sign::SpendableOutputDescriptor;
use std::collections::{BTreeMap, BTreeSet, HashMap};
use std::panic::AssertUnwindSafe;

fn fee_of(tx: &Transaction, prevouts: &HashMap<OutPoint, TxOut>) -> Option<u64> {
	let mut inp = 0u64;
	for i in &tx.input { inp += prevouts.get(&i.previous_output)?.value.to_sat(); }
	Some(inp - tx.output.iter().map(|o| o.value.to_sat()).sum::<u64>())
}

fn show_balances(bals: &[Balance]) -> String {
	let mut v: Vec<(u8, u32, u64)> = vec![];
	for b in bals {
		v.push(match b {
			Balance::ClaimableAwaitingConfirmations { amount_satoshis, confirmation_height, .. } => (0, *confirmation_height, *amount_satoshis),
			Balance::ContentiousClaimable { amount_satoshis, timeout_height, .. } => (1, *timeout_height, *amount_satoshis),
			Balance::MaybeTimeoutClaimableHTLC { amount_satoshis, claimable_height, .. } => (2, *claimable_height, *amount_satoshis),
			Balance::MaybePreimageClaimableHTLC { amount_satoshis, expiry_height, .. } => (3, *expiry_height, *amount_satoshis),
			Balance::ClaimableOnChannelClose { .. } => (4, 0, b.claimable_amount_satoshis()),
			Balance::CounterpartyRevokedOutputClaimable { amount_satoshis } => (5, 0, *amount_satoshis),
		});
	}
	v.sort();
	if v.is_empty() { return "-".into(); }
	v.iter().map(|t| format!("{}:{}:{}", ["A", "C", "T", "P", "O", "R"][t.0 as usize], t.1, t.2)).collect::<Vec<_>>().join(" ")
}

struct Outcome { ops: Vec<(String, String, String)>, class: String, oracle: Vec<String> }

#[derive(Clone, Copy, PartialEq, Debug)]
enum K { S, O, I, U }

struct Item { kind: K, sat: u64, vout: u32, cltv: u32 }

fn commitment_for(net: &Net, observer: usize, chan_id: ChannelId, txid: Txid) -> Option<CommitmentTransaction> {
	// the commitment transaction `txid` as the OTHER party's monitor knows it (counterparty commitments are public there)
	let mon = net.nodes[observer].chain_monitor.chain_monitor.get_monitor(chan_id).ok()?;
	let updates = net.nodes[observer].chain_monitor.monitor_updates.lock().unwrap().get(&chan_id).cloned().unwrap_or_default();
	for u in updates.iter().rev() {
		for ct in mon.counterparty_commitment_txs_from_update(u) { if ct.trust().txid() == txid { return Some(ct); } }
	}
	mon.initial_counterparty_commitment_tx().filter(|ct| ct.trust().txid() == txid)
}

fn close_scenario(seed: u64, thorough: bool) -> Result<Outcome, String> {
	let mut rng = Rng::new(seed);
	let mut out = Outcome { ops: vec![], class: String::new(), oracle: vec![] };
	// closure by the counterparty is also run on anchor channels (A's claims there need no external funding);
	// A's own close on an anchor channel needs a wallet-funded BumpTransaction handler: not exercised (cfg `partial`)
	let holder_close = rng.chance(1, 2);
	let anchors = !holder_close && rng.chance(1, 3);
	let cfg = if anchors { test_default_channel_config() } else { test_legacy_channel_config() };
	let mut net = std::mem::ManuallyDrop::new(Net::new(2, vec![Some(cfg.clone()), Some(cfg)]));   // never dropped: skips Node::drop's end-of-test assertions (half-finished scenario by design)
	{	// block-delivery style from the scenario seed (create_network draws it from a per-process RandomState otherwise)
		use ConnectStyle::*;
		let styles = [BestBlockFirst, BestBlockFirstSkippingBlocks, BestBlockFirstReorgsOnlyTip, TransactionsFirst, TransactionsFirstSkippingBlocks,
			TransactionsDuplicativelyFirstSkippingBlocks, HighlyRedundantTransactionsFirstSkippingBlocks, TransactionsFirstReorgsOnlyTip, FullBlockViaListen,
			ReplayedFullBlockViaListen, FullBlockDisconnectionsSkippingViaListen];
		*net.nodes[0].connect_style.borrow_mut() = styles[rng.below(styles.len() as u64) as usize];
	}
	let c = net.open(0, 1, 1_000_000, 400_000_000);
	let chan_id = net.chans[c].2;
	let a = 0usize; let b = 1usize;
	// ---- HTLC mix -----------------------------------------------------------------------------------
	for _ in 0..rng.below(4) {   // some settled history first
		let (x, y) = if rng.chance(1, 2) { (0, 1) } else { (1, 0) };
		if let Ok(p) = net.send(&[x, y], &[c], rng.range(1_000_000, 20_000_000), 42) { net.settle(40); net.claim(p); net.settle(40); }
	}
	let n_htlc = rng.below(if thorough { 9 } else { 6 });
	let mut pays: Vec<usize> = vec![];
	for _ in 0..n_htlc {
		let (x, y) = if rng.chance(1, 2) { (0, 1) } else { (1, 0) };
		let amt = match rng.below(4) { 0 => rng.range(1_000, 500_000), 1 => rng.range(500_000, 600_000), _ => rng.range(1_000_000, 30_000_000) };
		if let Ok(p) = net.send(&[x, y], &[c], amt, 42 + rng.below(40) as u32) { pays.push(p); }
		net.settle(40);
	}
	// receivers learn some preimages but their fulfil messages are NOT delivered: the HTLCs stay in the commitments
	let mut known: BTreeSet<[u8; 32]> = BTreeSet::new();
	for &p in &pays { if rng.chance(1, 2) { known.insert(net.pays[p].hash.0); net.claim(p); let to = net.pays[p].to; net.process_events(to); } }
	// ---- closure ----------------------------------------------------------------------------------------
	let closer = if holder_close { a } else { b };
	let peer_of = |i: usize| if i == a { b } else { a };
	for i in 0..2 { net.nodes[i].tx_broadcaster.txn_broadcasted.lock().unwrap().clear(); }
	net.nodes[closer].node.force_close_broadcasting_latest_txn(&chan_id, &net.ids[peer_of(closer)], "verif".to_string()).map_err(|e| format!("force close: {:?}", e))?;
	let mut commitment_tx = { let v = net.nodes[closer].tx_broadcaster.txn_broadcasted.lock().unwrap(); v.iter().find(|t| t.input.len() == 1 && t.input[0].previous_output.vout == 0 && t.output.len() >= 1).cloned() };
	if commitment_tx.is_none() {
		// anchor channel: the commitment is handed to the user for CPFP instead of being broadcast
		for e in net.nodes[closer].chain_monitor.chain_monitor.get_and_clear_pending_events() {
			if let Event::BumpTransaction(lightning::events::bump_transaction::BumpTransactionEvent::ChannelClose { commitment_tx: t, .. }) = e { commitment_tx = Some(t); }
		}
	}
	let commitment_tx = commitment_tx.ok_or("no commitment broadcast")?;
	let ctxid = commitment_tx.compute_txid();
	// the closing commitment as the non-broadcaster's monitor knows it
	let ct = commitment_for(&net, peer_of(closer), chan_id, ctxid).ok_or("closing commitment unknown to the other monitor")?;
	let trusted = ct.trust();
	if trusted.built_transaction().transaction.output.len() != commitment_tx.output.len() { return Err("commitment shape mismatch".into()); }
	let csv_a: Option<u32> = if holder_close { Some(lightning::ln::channelmanager::BREAKDOWN_TIMEOUT as u32) } else { None };
	let mut items: Vec<Item> = vec![];
	// A's balance output
	if holder_close {
		if let Some(i) = trusted.revokeable_output_index() { items.push(Item { kind: K::S, sat: commitment_tx.output[i].value.to_sat(), vout: i as u32, cltv: 0 }); }
	} else {
		let htlc_idx: BTreeSet<u32> = ct.nondust_htlcs().iter().filter_map(|h| h.transaction_output_index).collect();
		for (i, _o) in commitment_tx.output.iter().enumerate() {
			if anchors && _o.value.to_sat() == 330 { continue; }   // the two anchor outputs
			if Some(i) != trusted.revokeable_output_index() && !htlc_idx.contains(&(i as u32)) { items.push(Item { kind: K::S, sat: commitment_tx.output[i].value.to_sat(), vout: i as u32, cltv: 0 }); }
		}
	}
	for h in ct.nondust_htlcs() {
		let vout = h.transaction_output_index.ok_or("non-dust HTLC without index")?;
		let outbound_from_a = h.offered == holder_close;      // offered by the broadcaster
		let kind = if outbound_from_a { K::O } else if known.contains(&h.payment_hash.0) { K::I } else { K::U };
		items.push(Item { kind, sat: h.amount_msat / 1000, vout, cltv: h.cltv_expiry });
	}
	// (B may know preimages of A's outbound HTLCs: then B takes them on chain — a `peer` claim)
	let mut prevouts: HashMap<OutPoint, TxOut> = HashMap::new();
	let mut conf_height: HashMap<Txid, u32> = HashMap::new();
	let mut spent: BTreeSet<OutPoint> = BTreeSet::new();
	for (i, o) in commitment_tx.output.iter().enumerate() { prevouts.insert(OutPoint { txid: ctxid, vout: i as u32 }, o.clone()); }
	{	// the funding output (A may re-broadcast its commitment: it is verified like every other broadcast)
		let fop = commitment_tx.input[0].previous_output;
		let blocks = net.nodes[a].blocks.lock().unwrap();
		for (blk, _) in blocks.iter() { for t in &blk.txdata { if t.compute_txid() == fop.txid { prevouts.insert(fop, t.output[fop.vout as usize].clone()); } } }
		if !prevouts.contains_key(&fop) { return Err("funding transaction not found".into()); }
		if let Err(e) = commitment_tx.verify(|op| prevouts.get(op).cloned()) { out.oracle.push(format!("closing commitment {} fails consensus verification: {:?}", ctxid, e)); }
	}
	// ---- chain loop ---------------------------------------------------------------------------------------------
	let mine_both = |net: &Net, txs: &[Transaction]| {
		for i in 0..2 { let refs: Vec<&Transaction> = txs.iter().collect(); if refs.is_empty() { connect_blocks(&net.nodes[i], 1); } else { mine_transactions(&net.nodes[i], &refs); } }
	};
	let drain = |net: &Net| { for i in 0..2 { let _ = net.nodes[i].node.get_and_clear_pending_msg_events(); let _ = net.nodes[i].node.get_and_clear_pending_events(); net.nodes[i].chain_monitor.added_monitors.lock().unwrap().clear(); } };
	let balances_of_a = |net: &Net| -> Vec<Balance> { net.nodes[a].chain_monitor.chain_monitor.get_monitor(chan_id).map(|m| m.get_claimable_balances()).unwrap_or_default() };
	// pre-confirmation sanity (oracle only): the pre-close view reports a ClaimableOnChannelClose
	if !balances_of_a(&net).iter().any(|b| matches!(b, Balance::ClaimableOnChannelClose { .. })) { out.oracle.push("no ClaimableOnChannelClose before the closing transaction confirmed".into()); }
	for i in 0..2 { net.nodes[i].tx_broadcaster.txn_broadcasted.lock().unwrap().clear(); }
	mine_both(&net, &[commitment_tx.clone()]);
	drain(&net);
	let close_h = net.nodes[a].best_block_info().1;
	conf_height.insert(ctxid, close_h);
	spent.insert(commitment_tx.input[0].previous_output);
	let item_tok = |it: &Item| format!("{}:{}:{}:{}:{}", match it.kind { K::S => "S", K::O => "O", K::I => "I", K::U => "U" }, it.sat,
		if it.kind == K::O { it.cltv } else { 0 }, if it.kind == K::I || it.kind == K::U { it.cltv } else { 0 }, match (it.kind, csv_a) { (K::U, _) => "-".to_string(), (_, Some(d)) => d.to_string(), (_, None) => "-".to_string() });
	out.ops.push((format!("close {} {}", close_h, items.iter().map(item_tok).collect::<Vec<_>>().join(" ")).trim_end().to_string(), show_balances(&balances_of_a(&net)), "close".into()));
	let _ = seed;
	let mut pool: Vec<(Transaction, usize)> = vec![];       // (tx, broadcaster)
	let mut a_history: Vec<Transaction> = vec![];
	let mut last_fee: BTreeMap<Vec<OutPoint>, u64> = BTreeMap::new();
	let mut spendable = 0u64; let mut fees = 0u64; let mut lost = 0u64;
	let mut item_state: Vec<u8> = items.iter().map(|_| 0).collect();   // 0 open, 1 claimed by A, 2 taken by B
	let mut idle = 0;
	let lazy = rng.chance(1, 3);        // slow miners: claims sit unconfirmed long enough for the bump timers to fire
	let mut n_rebroadcast = 0u32;
	for _round in 0..420 {
		if rng.chance(1, 12) { let mut f = net.nodes[a].fee_estimator.sat_per_kw.lock().unwrap(); *f = (*f + rng.below(1500) as u32).min(20_000); }
		let h = net.nodes[a].best_block_info().1;
		// collect broadcasts; A's are checked for validity and finality at THIS height
		for i in 0..2 {
			let v: Vec<Transaction> = net.nodes[i].tx_broadcaster.txn_broadcasted.lock().unwrap().drain(..).collect();
			for t in v {
				if i == a {
					if t.input.iter().any(|inp| !prevouts.contains_key(&inp.previous_output)) { out.oracle.push(format!("A broadcast {} spends an unknown outpoint at height {} (close {}): inputs {:?} outputs {:?} holder_close={}", t.compute_txid(), h, close_h, t.input.iter().map(|i| format!("{}:{}", &i.previous_output.txid.to_string()[..8], i.previous_output.vout)).collect::<Vec<_>>(), t.output.iter().map(|o| o.value.to_sat()).collect::<Vec<_>>(), holder_close)); continue; }
					if let Err(e) = t.verify(|op| prevouts.get(op).cloned()) { out.oracle.push(format!("A's claim {} fails consensus verification: {:?}", t.compute_txid(), e)); }
					if t.lock_time.is_block_height() && t.lock_time.to_consensus_u32() > h { out.oracle.push(format!("A's claim {} has nLockTime {} > broadcast height {}", t.compute_txid(), t.lock_time, h)); }
					for inp in &t.input { if let Some(rel) = inp.sequence.to_relative_lock_time() { if let bitcoin::relative::LockTime::Blocks(n) = rel {
						let ph = conf_height.get(&inp.previous_output.txid).cloned().unwrap_or(h);
						if h + 1 < ph + n.value() as u32 { out.oracle.push(format!("A's claim {} is not CSV-final at broadcast height {}", t.compute_txid(), h)); } } } }
					let mut key: Vec<OutPoint> = t.input.iter().map(|x| x.previous_output).collect(); key.sort();
					if let Some(f) = fee_of(&t, &prevouts) { if let Some(prev) = last_fee.get(&key) { n_rebroadcast += 1; if f < *prev { out.oracle.push(format!("A's re-issued claim {} lowers its fee {} -> {}", t.compute_txid(), prev, f)); } } last_fee.insert(key, f); }
					a_history.push(t.clone());
				}
				pool.push((t, i));
			}
		}
		// choose what the next block contains: minable, non-conflicting, latest first, each with probability 2/3
		let mut block: Vec<Transaction> = vec![];
		let mut taken: BTreeSet<OutPoint> = BTreeSet::new();
		let mut claims: Vec<String> = vec![];
		for (t, who) in pool.iter().rev() {
			let ok_inputs = t.input.iter().all(|i| prevouts.contains_key(&i.previous_output) && !spent.contains(&i.previous_output) && !taken.contains(&i.previous_output));
			let fin = !t.lock_time.is_block_height() || t.lock_time.to_consensus_u32() <= h;
			let csv_ok = t.input.iter().all(|i| match i.sequence.to_relative_lock_time() { Some(bitcoin::relative::LockTime::Blocks(n)) => h + 1 >= conf_height.get(&i.previous_output.txid).cloned().unwrap_or(h + 1) + n.value() as u32, _ => true });
			if !(ok_inputs && fin && csv_ok) || block.iter().any(|x| x.compute_txid() == t.compute_txid()) || !(if lazy && *who == a { rng.chance(1, 8) } else { rng.chance(2, 3) }) { continue; }
			if t.verify(|op| prevouts.get(op).cloned()).is_err() { continue; }   // B's transactions are not under test
			for i in &t.input { taken.insert(i.previous_output); }
			// ledger ops: which items does this transaction resolve?
			let mut fee_left = fee_of(t, &prevouts).unwrap_or(0);
			for i in &t.input { if i.previous_output.txid == ctxid {
				if let Some(idx) = items.iter().position(|it| it.vout == i.previous_output.vout) {
					if *who == a {
						let f = fee_left.min(items[idx].sat); fee_left -= f;
						claims.push(format!("claim {} {} {}", idx, h + 1, items[idx].sat - f));
						item_state[idx] = 1; fees += f;
					} else { claims.push(format!("peer {} {}", idx, h + 1)); item_state[idx] = 2; if items[idx].kind != K::U { lost += items[idx].sat; } }
				}
			} }
			block.push(t.clone());
		}
		for t in &block { let id = t.compute_txid(); for i in &t.input { spent.insert(i.previous_output); } for (i, o) in t.output.iter().enumerate() { prevouts.insert(OutPoint { txid: id, vout: i as u32 }, o.clone()); } conf_height.insert(id, h + 1); }
		mine_both(&net, &block);
		drain(&net);
		for e in net.nodes[a].chain_monitor.chain_monitor.get_and_clear_pending_events() { if let Event::SpendableOutputs { outputs, .. } = e { for o in outputs { spendable += match o {
			SpendableOutputDescriptor::StaticOutput { output, .. } => output.value.to_sat(),
			SpendableOutputDescriptor::StaticPaymentOutput(d) => d.output.value.to_sat(),
			SpendableOutputDescriptor::DelayedPaymentOutput(d) => d.output.value.to_sat(),
		}; } } }
		let _ = net.nodes[b].chain_monitor.chain_monitor.get_and_clear_pending_events();
		let bals = balances_of_a(&net);
		let shown = show_balances(&bals);
		// the claim ops of this block are set-up lines; the block op carries the comparison
		for cl in claims { out.ops.push((cl, "-".into(), "claim".into())); }
		let changed = out.ops.last().map(|l| l.1 != shown).unwrap_or(true);
		out.ops.push((format!("block {} {:x}", h + 1, seed & 0xffffff), shown.clone(), if !block.is_empty() { "block:txs".into() } else if changed { "block:matured".into() } else { "block:quiet".into() }));
		if bals.is_empty() || (anchors && h > close_h + 160 && bals.iter().all(|b| matches!(b, Balance::MaybePreimageClaimableHTLC { .. }))) { idle += 1; if idle > 2 { break; } } else { idle = 0; }
	}
	// ---- end-state oracles ------------------------------------------------------------------------------------------
	let mut bals = balances_of_a(&net);
	// on an anchor channel the COUNTERPARTY's own HTLC-timeout transactions need a wallet-funded bump handler, which this
	// harness does not run: HTLCs A has no preimage for (not A's money) then stay `MaybePreimageClaimableHTLC` for ever
	if anchors { bals.retain(|b| !matches!(b, Balance::MaybePreimageClaimableHTLC { .. })); }
	if !bals.is_empty() { out.oracle.push(format!("A's balances did not drain: {}", show_balances(&bals))); }
	let entitlement: u64 = items.iter().filter(|it| it.kind != K::U).map(|it| it.sat).sum();
	if bals.is_empty() && spendable + fees + lost != entitlement { out.oracle.push(format!("SpendableOutputs {} + fees {} + taken by the counterparty {} != entitlement {} ({})", spendable, fees, lost, entitlement, if holder_close { "holder close" } else { "counterparty close" })); }
	out.ops.push(("totals".into(), format!("0 {} {} {} {}", spendable, fees, lost, entitlement), "totals".into()));
	let cnt = |k: K| items.iter().filter(|it| it.kind == k).count().min(3);
	if n_rebroadcast > 0 { out.ops.push(("totals".into(), format!("0 {} {} {} {}", spendable, fees, lost, entitlement), "rebroadcast-seen".into())); }
	out.class = format!("close:{}{}:O{}:I{}:U{}:S{}", if holder_close { "holder" } else { "counterparty" }, if anchors { "-anchors" } else { "" }, cnt(K::O), cnt(K::I), cnt(K::U), cnt(K::S));
	drain(&net);
	Ok(out)
}

fn main() {
	let args = &parse_args("c07bump");
	let mut rec = Rec::new(&args.out, &args.model);
	let mut rng = Rng::new(args.seed);
	match args.model.as_str() {
		"c07bump" => bump::run_bump(&mut rec, &mut rng, args.thorough, args.scale),
		"c07close" => {
			silence_stdout();
			let n = if args.thorough { 3000 } else { 200 } * args.scale;
			for k in 0..n {
				let s = rng.next();
				match guarded(AssertUnwindSafe(|| close_scenario(s, args.thorough))) {
					Ok(Ok(o)) => {
						*rec.classes.entry(o.class.clone()).or_insert(0) += 1;
						for (op, res, cl) in &o.ops { if res == "-" && cl == "claim" { rec.directive(op); } else { rec.case(&format!("{}", op), res, cl, cl != "block:quiet"); } }
						for f in o.oracle { rec.oracle_fail(format!("scenario {} (seed {}): {}", k, s, f)); }
					},
					Ok(Err(e)) => { rec.discarded += 1; *rec.classes.entry(format!("discarded:{}", e.chars().take(40).collect::<String>())).or_insert(0) += 1; },
					Err(p) => rec.oracle_fail(format!("scenario {} (seed {}) panicked: {}", k, s, p.replace('\n', " ").chars().take(300).collect::<String>())),
				}
			}
			rec.notes.insert("rule".into(), "one scenario = one real 2-node channel closed by A's or by the counterparty's latest commitment with a PRNG-drawn pending-HTLC mix; every block is one compared op (A's real get_claimable_balances vs the ledger); distinct non-trivial = close / totals lines and blocks that contain transactions".into());
		},
		m => { eprintln!("unknown model {}", m); std::process::exit(2); },
	}
	rec.finish();
}
