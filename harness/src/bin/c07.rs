//! C07 — after a unilateral close every entitled output is recovered, validly and in time.
//! models:
//!   c07bump  — differential of the real feerate_bump / get_height_timer / package_locktime (see c06/bump.rs)
//!   c07close — real 2-node channels (functional_test_utils through sim::Net): a PRNG-drawn mix of pending HTLCs
//!              (dust / non-dust, both directions, preimage known to the receiver or not), then node A's channel is
//!              closed by A's own latest commitment (`force_close_broadcasting_latest_txn`) or by the counterparty's;
//!              both nodes follow the same chain block by block, every broadcast of either node is mined after a
//!              random delay.  Model ops (driver `c07close`, the entitlement ledger of Model/OnchainClaims.lean):
//!                close <height> <item>…   claim <idx> <height> <net>   peer <idx> <height>   block <height>
//!              each answered with the sorted balance classes; the implementation answer is node A's REAL
//!              `get_claimable_balances` (class, height parameter, amount) after that block.
//!              Further compared ops (Model/ClaimTime.lean): `preclose` (holder closes: the pre-confirmation ClaimableOnChannelClose view),
//!              `goesany` (a sixth of the legacy scenarios are closed by the MONITORS THEMSELVES at an HTLC deadline: the height vs `firstOnchain`),
//!              `release` (height of A's first broadcast of a timeout claim vs `requestIssueHeight`), `reissue` (a re-issue never comes before the
//!              bump timer); `close <h> 2 ..` = the counterparty's commitment that confirmed is A's PREVIOUS unrevoked counterparty commitment.
//!              Implementation oracles (no model): every broadcast of A verifies under libbitcoinconsensus against
//!              the outputs it spends and is final at its broadcast height (nLockTime ≤ height, CSV satisfied), a
//!              re-issued claim never pays less fee than the one it replaces, the balances drain, and
//!              SpendableOutputs + on-chain fees + value taken by the counterparty = A's entitlement at closure.
#[path = "c06/bump.rs"]
mod bump;
#[path = "c06/pkgtrace.rs"]
mod pkgtrace;
use bitcoin::{OutPoint, Transaction, TxOut, Txid};
use ldk_verif_harness::common::*;
use ldk_verif_harness::sim::{silence_stdout, Net};
use lightning::chain::channelmonitor::Balance;
use lightning::events::Event;
use lightning::ln::chan_utils::CommitmentTransaction;
use lightning::ln::functional_test_utils::*;
use lightning::ln::msgs::BaseMessageHandler;
use lightning::ln::types::ChannelId;
use lightning::sign::SpendableOutputDescriptor;
use std::collections::{BTreeMap, BTreeSet, HashMap};
use std::panic::AssertUnwindSafe;

fn fee_of(tx: &Transaction, prevouts: &HashMap<OutPoint, TxOut>) -> Option<u64> {
	let mut inp = 0u64;
	for i in &tx.input { inp += prevouts.get(&i.previous_output)?.value.to_sat(); }
	Some(inp - tx.output.iter().map(|o| o.value.to_sat()).sum::<u64>())
}

fn show_balances(bals: &[Balance]) -> String {
	let mut v: Vec<(u8, u32, u64)> = vec![];
	for b in bals {
		v.push(match b {
			Balance::ClaimableAwaitingConfirmations { amount_satoshis, confirmation_height, .. } => (0, *confirmation_height, *amount_satoshis),
			Balance::ContentiousClaimable { amount_satoshis, timeout_height, .. } => (1, *timeout_height, *amount_satoshis),
			Balance::MaybeTimeoutClaimableHTLC { amount_satoshis, claimable_height, .. } => (2, *claimable_height, *amount_satoshis),
			Balance::MaybePreimageClaimableHTLC { amount_satoshis, expiry_height, .. } => (3, *expiry_height, *amount_satoshis),
			Balance::ClaimableOnChannelClose { .. } => (4, 0, b.claimable_amount_satoshis()),
			Balance::CounterpartyRevokedOutputClaimable { amount_satoshis } => (5, 0, *amount_satoshis),
		});
	}
	v.sort();
	if v.is_empty() { return "-".into(); }
	v.iter().map(|t| format!("{}:{}:{}", ["A", "C", "T", "P", "O", "R"][t.0 as usize], t.1, t.2)).collect::<Vec<_>>().join(" ")
}

struct Outcome { ops: Vec<(String, String, String)>, class: String, oracle: Vec<String>, est_kind: String }

#[derive(Clone, Copy, PartialEq, Debug)]
enum K { S, O, I, U }

struct Item { kind: K, sat: u64, vout: u32, cltv: u32, hash: [u8; 32], hid: usize }

fn commitment_for(net: &Net, observer: usize, chan_id: ChannelId, txid: Txid) -> Option<CommitmentTransaction> {
	// the commitment transaction `txid` as the OTHER party's monitor knows it (counterparty commitments are public there)
	let mon = net.nodes[observer].chain_monitor.chain_monitor.get_monitor(chan_id).ok()?;
	let updates = net.nodes[observer].chain_monitor.monitor_updates.lock().unwrap().get(&chan_id).cloned().unwrap_or_default();
	for u in updates.iter().rev() {
		for ct in mon.counterparty_commitment_txs_from_update(u) { if ct.trust().txid() == txid { return Some(ct); } }
	}
	mon.initial_counterparty_commitment_tx().filter(|ct| ct.trust().txid() == txid)
}

/// one payment of `parts.len()` parts, ALL over channel `c`: the commitments then carry several HTLC outputs with the SAME payment hash
fn send_mpp_one_channel(net: &mut Net, src: usize, dst: usize, c: usize, parts: &[u64], final_cltv_delta: u32) -> Result<usize, String> {
	use lightning::routing::router::{Path, PaymentParameters, Route, RouteHop, RouteParameters};
	use lightning::types::features::{ChannelFeatures, NodeFeatures};
	let total: u64 = parts.iter().sum();
	let (preimage, hash, secret) = get_payment_preimage_hash(&net.nodes[dst], Some(total), None);
	let scid = net.chans[c].3;
	let paths: Vec<Path> = parts.iter().map(|amt| Path { hops: vec![RouteHop { pubkey: net.ids[dst], node_features: NodeFeatures::empty(), short_channel_id: scid,
		channel_features: ChannelFeatures::empty(), fee_msat: *amt, cltv_expiry_delta: final_cltv_delta, maybe_announced_channel: true }], blinded_tail: None }).collect();
	let params = PaymentParameters::from_node_id(net.ids[dst], final_cltv_delta);
	let route = Route { paths, route_params: RouteParameters::from_payment_params_and_value(params, total) };
	let id = lightning::ln::channelmanager::PaymentId(hash.0);
	let r = net.nodes[src].node.send_payment_with_route(route, hash, lightning::ln::outbound_payment::RecipientOnionFields::secret_only(secret, total), id);
	net.pump(src);
	match r {
		Ok(()) => { net.pays.push(ldk_verif_harness::sim::PendingPay { hash, preimage, secret, amt: total, id, from: src, to: dst }); Ok(net.pays.len() - 1) },
		Err(e) => Err(format!("{:?}", e).chars().take(80).collect()),
	}
}

/// PER-NODE configuration of a scenario: nothing is left at the library defaults that a node operator can set differently
/// from its peer — `our_to_self_delay` (144..=1008, the two nodes ALWAYS differ), the reserve each side asks of the other,
/// and the channel type (both nodes must agree on anchors for the channel to be one).
fn draw_cfgs(rng: &mut Rng, anchors: bool) -> (lightning::util::config::UserConfig, lightning::util::config::UserConfig, u16, u16) {
	let draw = |rng: &mut Rng| -> u16 { (match rng.below(20) { 0..=10 => rng.range(144, 190), 11..=16 => rng.range(190, 420), 17 | 18 => rng.range(420, 800), _ => rng.range(800, 1008) }) as u16 };
	let da = draw(rng);
	let mut db = draw(rng);
	if db == da { db = if da < 1000 { da + 1 + rng.below(7) as u16 } else { da - 1 - rng.below(7) as u16 }; }
	let mk = |d: u16, reserve: u32| { let mut c = if anchors { test_default_channel_config() } else { test_legacy_channel_config() };
		c.channel_handshake_config.our_to_self_delay = d; c.channel_handshake_config.their_channel_reserve_proportional_millionths = reserve; c };
	let ra = *rng.pick(&[10_000u32, 20_000, 50_000, 100_000]); let rb = *rng.pick(&[10_000u32, 15_000, 40_000, 100_000]);
	(mk(da, ra), mk(db, rb), da, db)
}

fn close_scenario(seed: u64, thorough: bool) -> Result<Outcome, String> {
	use lightning::sign::OutputSpender;
	let mut rng = Rng::new(seed);
	pkgtrace::enable();      // package-layer differential (shared with c06justice): every update_claims_view_from_matched_txn call / aggregation of BOTH monitors is recorded
	let mut out = Outcome { ops: vec![], class: String::new(), oracle: vec![], est_kind: String::new() };
	// A's channel is closed by A's own latest commitment or by the counterparty's, on legacy AND anchor channels; on anchor channels
	// the closer's claims need external funding: BumpTransaction events of BOTH nodes go to their BumpTransactionEventHandler + test wallet
	let mut holder_close = rng.chance(1, 2);
	let anchors = rng.chance(1, 3);
	// `auto`: nobody force-closes by hand — blocks are connected until one of the two MONITORS goes on chain by itself for an HTLC deadline
	// (should_broadcast_holder_commitment_txn); whoever does is the closer, and the height is compared with Model/ClaimTime.lean `firstOnchain`
	let auto = !anchors && rng.chance(1, 6);
	// `multi` (same-block multi-claim mode, ~1/6 of the scenarios; its draws come from a stream of their own so that the other scenarios are what they
	// were): legacy channel closed by B's commitment carrying 3-5 outbound HTLCs of A with ONE expiry (A claims them with one aggregated timeout
	// transaction), B knows the preimages of 2-3 of them (not all); B's single-input HTLC-success transactions are held back until A's aggregated claim
	// is out and then confirm TOGETHER in one block that does not contain A's claim (OnchainTxHandler::update_claims_view_from_matched_txn splits one
	// pending request twice in one call)
	let mut mrng = Rng::new(seed.rotate_left(23) ^ 0xC07_5A3E_B10C);
	let multi = mrng.chance(1, 6);
	let (anchors, auto) = if multi { (false, false) } else { (anchors, auto) };
	if multi { holder_close = false; }
	// (`multi`: the fee estimator stays <= `multi_est_cap` = 2500 sat/kw and the same-expiry HTLCs are >= 5000 sat.  The request that is left over after a split keeps
	// the `feerate_previous` of the AGGREGATED claim — up to half of the aggregated value over the aggregated weight — and every later claim of it must pay
	// 25% more than that: with the estimator at 60_000 sat/kw a small left-over output can never be claimed again, generate_claim returns None at every
	// block and A's balance never drains.  Reported to the integrator as a candidate finding with its inputs; not generated here)
	// (C07_MULTI_NOCAP=1 lifts both limits: reproduces that input)
	let multi_nocap = std::env::var("C07_MULTI_NOCAP").is_ok();
	let multi_est_cap: u32 = if multi_nocap { 60_000 } else { 2_500 };
	let (cfg_a, cfg_b, d_a, d_b) = draw_cfgs(&mut rng, anchors);
	let mut net = std::mem::ManuallyDrop::new(Net::new(2, vec![Some(cfg_a), Some(cfg_b)]));   // never dropped: skips Node::drop's end-of-test assertions (half-finished scenario by design)
	{	// block-delivery style from the scenario seed (create_network draws it from a per-process RandomState otherwise)
		use ConnectStyle::*;
		let styles = [BestBlockFirst, BestBlockFirstSkippingBlocks, BestBlockFirstReorgsOnlyTip, TransactionsFirst, TransactionsFirstSkippingBlocks,
			TransactionsDuplicativelyFirstSkippingBlocks, HighlyRedundantTransactionsFirstSkippingBlocks, TransactionsFirstReorgsOnlyTip, FullBlockViaListen,
			ReplayedFullBlockViaListen, FullBlockDisconnectionsSkippingViaListen];
		*net.nodes[0].connect_style.borrow_mut() = styles[rng.below(styles.len() as u64) as usize];
	}
	let mut prevouts: HashMap<OutPoint, TxOut> = HashMap::new();
	if anchors {
		let reserve = provide_utxo_reserves(&net.nodes, 6, bitcoin::Amount::from_sat(20_000_000));
		for (i, o) in reserve.output.iter().enumerate() { prevouts.insert(OutPoint { txid: reserve.compute_txid(), vout: i as u32 }, o.clone()); }
	}
	let c = net.open(0, 1, 1_000_000, 400_000_000);
	let chan_id = net.chans[c].2;
	// ---- HTLC mix -----------------------------------------------------------------------------------
	for _ in 0..rng.below(4) {   // some settled history first
		let (x, y) = if rng.chance(1, 2) { (0, 1) } else { (1, 0) };
		if let Ok(p) = net.send(&[x, y], &[c], rng.range(1_000_000, 20_000_000), 42) { net.settle(40); net.claim(p); net.settle(40); }
	}
	let n_htlc = rng.below(if thorough { 9 } else { 6 });
	let mut pays: Vec<usize> = vec![];
	let mut n_mpp = 0u32;
	for _ in 0..n_htlc {
		let (x, y) = if rng.chance(1, 2) { (0, 1) } else { (1, 0) };
		// (`auto`: non-dust HTLCs only — dust ones trigger the same rule but cannot be read back from the closing commitment)
		let amt = match if auto { 3 } else { rng.below(4) } { 0 => rng.range(1_000, 500_000), 1 => rng.range(500_000, 600_000), _ => rng.range(1_000_000, 30_000_000) };
		// (long expiries leave room for a preimage learned k blocks AFTER the close: the receiving ChannelManager gives a payment up
		// HTLC_FAIL_BACK_BUFFER = 39 blocks before its expiry)
		let delta = 42 + if rng.chance(1, 2) { rng.below(40) } else { rng.below(150) } as u32;
		if rng.chance(1, 3) {
			// a multi-part payment with ALL parts over this channel: 2-3 HTLC outputs with the same payment hash
			let n_parts = rng.range(2, 3) as usize;
			let parts: Vec<u64> = (0..n_parts).map(|_| match rng.below(3) { 0 => rng.range(600_000, 1_500_000), _ => rng.range(1_500_000, 12_000_000) }).collect();
			if let Ok(p) = send_mpp_one_channel(&mut net, x, y, c, &parts, delta) { pays.push(p); n_mpp += 1; }
		} else if let Ok(p) = net.send(&[x, y], &[c], amt, delta) { pays.push(p); }
		net.settle(40);
	}
	// (`multi`) 3-5 non-dust outbound HTLCs A->B sent at one height with one final cltv delta: identical cltv_expiry
	let mut multi_pays: Vec<usize> = vec![];
	if multi {
		let n_same = mrng.range(3, 5);
		let delta = 42 + mrng.below(50) as u32;
		for _ in 0..n_same { if let Ok(p) = net.send(&[0, 1], &[c], mrng.range(if multi_nocap { 1_000_000 } else { 5_000_000 }, 30_000_000), delta) { multi_pays.push(p); } net.settle(40); }
		if multi_pays.len() < 3 { return Err("multi: fewer than 3 same-expiry HTLCs".into()); }
	}
	// receivers learn some preimages BEFORE the close (their fulfil messages are NOT delivered: the HTLCs stay in the commitments), some at a
	// chosen number of blocks AFTER the closing commitment confirmed (0 = right after it, .. up to past the point where the manager gave up), some never
	let mut known: BTreeSet<[u8; 32]> = BTreeSet::new();
	let mut late: Vec<(usize, u32)> = vec![];      // (payment, blocks after the close)
	for &p in &pays { match rng.below(5) {
		0 | 1 => { known.insert(net.pays[p].hash.0); net.claim(p); let to = net.pays[p].to; net.process_events(to); },
		2 | 3 => late.push((p, match rng.below(6) { 0 => 0, 1 => 1, 2 => rng.range(2, 6) as u32, 3 => rng.range(6, 14) as u32, _ => rng.range(0, 60) as u32 })),
		_ => {},
	} }
	// (`multi`) B learns 2 (of >= 4 sometimes 3) of the same-expiry preimages the same way — never all of them
	let mut multi_known: BTreeSet<[u8; 32]> = BTreeSet::new();
	if multi {
		let n_known = if multi_pays.len() >= 4 && mrng.chance(1, 2) { 3 } else { 2 };
		let mut order: Vec<usize> = multi_pays.clone();
		for k in 0..n_known { let j = k + mrng.below((order.len() - k) as u64) as usize; order.swap(k, j); }
		for &p in &order[..n_known] { known.insert(net.pays[p].hash.0); multi_known.insert(net.pays[p].hash.0); net.claim(p); let to = net.pays[p].to; net.process_events(to); }
	}
	// ---- closure ----------------------------------------------------------------------------------------
	let a = 0usize; let b = 1usize;
	// the counterparty closes with the commitment that is, in A's monitor, the PREVIOUS one (`prev_counterparty_commitment_txid`): A has signed a
	// newer commitment for B (a new outbound HTLC here; an update_fulfill of a payment A claimed above does the same) that B never received
	if !holder_close && !auto && !multi && rng.chance(1, 3) {
		let amt = match rng.below(3) { 0 => rng.range(1_000, 500_000), _ => rng.range(1_000_000, 20_000_000) };
		let _ = net.send(&[a, b], &[c], amt, 42 + rng.below(100) as u32);      // NOT settled: update_add_htlc + commitment_signed stay in the queue
	}
	let peer_of = |i: usize| if i == a { b } else { a };
	for i in 0..2 { net.nodes[i].tx_broadcaster.txn_broadcasted.lock().unwrap().clear(); }
	let is_commitment = |t: &Transaction| t.input.len() == 1 && t.input[0].previous_output.vout == 0 && t.output.len() >= 1;
	let mut auto_info: Option<(u32, u32)> = None;      // (first height evaluated, height at which the closer's monitor broadcast)
	if auto {
		if pays.is_empty() { return Err("auto: no pending HTLC".into()); }
		let start = net.nodes[a].best_block_info().1 + 1;
		let mut who = None;
		for _ in 0..460 {
			for i in 0..2 { connect_blocks(&net.nodes[i], 1); }
			for i in 0..2 { let _ = net.nodes[i].node.get_and_clear_pending_msg_events(); let _ = net.nodes[i].node.get_and_clear_pending_events(); net.nodes[i].chain_monitor.added_monitors.lock().unwrap().clear(); }
			for i in [a, b] { if who.is_none() && net.nodes[i].tx_broadcaster.txn_broadcasted.lock().unwrap().iter().any(|t| is_commitment(t)) { who = Some(i); } }
			if who.is_some() { break; }
		}
		let who = who.ok_or("auto: nobody went on chain")?;
		holder_close = who == a;
		auto_info = Some((start, net.nodes[who].best_block_info().1));
		// (the other node may have gone on chain in the same block: its transactions are not under test)
	}
	let closer = if holder_close { a } else { b };
	if !auto { net.nodes[closer].node.force_close_broadcasting_latest_txn(&chan_id, &net.ids[peer_of(closer)], "verif".to_string()).map_err(|e| format!("force close: {:?}", e))?; }
	let mut commitment_tx = { let v = net.nodes[closer].tx_broadcaster.txn_broadcasted.lock().unwrap(); v.iter().find(|t| is_commitment(t)).cloned() };
	if commitment_tx.is_none() {
		// anchor channel: the commitment is handed to the user for CPFP instead of being broadcast
		for e in net.nodes[closer].chain_monitor.chain_monitor.get_and_clear_pending_events() {
			if let Event::BumpTransaction(lightning::events::bump_transaction::BumpTransactionEvent::ChannelClose { commitment_tx: t, .. }) = e { commitment_tx = Some(t); }
		}
	}
	let commitment_tx = commitment_tx.ok_or("no commitment broadcast")?;
	let ctxid = commitment_tx.compute_txid();
	// the closing commitment as the non-broadcaster's monitor knows it
	let ct = commitment_for(&net, peer_of(closer), chan_id, ctxid).ok_or("closing commitment unknown to the other monitor")?;
	let trusted = ct.trust();
	if trusted.built_transaction().transaction.output.len() != commitment_tx.output.len() { return Err("commitment shape mismatch".into()); }
	// counterparty close: is the closing commitment the LATEST one A signed for B, or the one before (not yet revoked)?
	let cp_prev = if holder_close { false } else {
		let mon = net.nodes[a].chain_monitor.chain_monitor.get_monitor(chan_id).map_err(|_| "no monitor")?;
		let updates = net.nodes[a].chain_monitor.monitor_updates.lock().unwrap().get(&chan_id).cloned().unwrap_or_default();
		let mut seq: Vec<Txid> = mon.initial_counterparty_commitment_tx().map(|t| t.trust().txid()).into_iter().collect();
		for u in updates.iter() { for t in mon.counterparty_commitment_txs_from_update(u) { seq.push(t.trust().txid()); } }
		match seq.iter().rev().position(|t| *t == ctxid) { Some(0) => false, Some(1) => true, _ => return Err("closing commitment is neither A's current nor A's previous counterparty commitment".into()) }
	};
	// the CSV REALLY in the scripts of A's delayed outputs on A's own commitment: what B chose (harness-side ground truth: the configs)
	let csv_on_a: u32 = d_b as u32;
	let mut items: Vec<Item> = vec![];
	// A's balance output
	if holder_close {
		if let Some(i) = trusted.revokeable_output_index() { items.push(Item { kind: K::S, sat: commitment_tx.output[i].value.to_sat(), vout: i as u32, cltv: 0, hash: [0; 32], hid: 0 }); }
	} else {
		let htlc_idx: BTreeSet<u32> = ct.nondust_htlcs().iter().filter_map(|h| h.transaction_output_index).collect();
		for (i, _o) in commitment_tx.output.iter().enumerate() {
			if anchors && _o.value.to_sat() == 330 { continue; }   // the two anchor outputs
			if Some(i) != trusted.revokeable_output_index() && !htlc_idx.contains(&(i as u32)) { items.push(Item { kind: K::S, sat: commitment_tx.output[i].value.to_sat(), vout: i as u32, cltv: 0, hash: [0; 32], hid: 0 }); }
		}
	}
	let mut hids: Vec<[u8; 32]> = vec![];
	let mut pre_toks: Vec<String> = vec![];
	for h in ct.nondust_htlcs() {
		let vout = h.transaction_output_index.ok_or("non-dust HTLC without index")?;
		let outbound_from_a = h.offered == holder_close;      // offered by the broadcaster
		let kind = if outbound_from_a { K::O } else if known.contains(&h.payment_hash.0) { K::I } else { K::U };
		let hid = match hids.iter().position(|x| *x == h.payment_hash.0) { Some(k) => k + 1, None => { hids.push(h.payment_hash.0); hids.len() } };
		items.push(Item { kind, sat: h.amount_msat / 1000, vout, cltv: h.cltv_expiry, hash: h.payment_hash.0, hid });
		pre_toks.push(format!("{}:{}:{}", match kind { K::S => "S", K::O => "O", K::I => "I", K::U => "U" }, h.amount_msat, h.cltv_expiry));
	}
	if let Some((start, hb)) = auto_info {
		// every HTLC of the closer's commitment as ITS monitor sees it: (expiry, offered by the closer, received with the preimage in the monitor)
		let toks: Vec<String> = ct.nondust_htlcs().iter().map(|h| format!("{}:{}:{}", h.cltv_expiry, h.offered as u8, (!h.offered && known.contains(&h.payment_hash.0)) as u8)).collect();
		out.ops.push((format!("goesany {} 600 {} s{:x}", start, toks.join(" "), seed & 0xffffff), hb.to_string(), format!("goes-onchain:{}:{}", if holder_close { "A" } else { "counterparty" },
			if ct.nondust_htlcs().iter().any(|h| !h.offered && known.contains(&h.payment_hash.0) && h.cltv_expiry <= hb + 36) { "inbound-preimage-deadline" } else { "outbound-expired" })));
	}
	// (B may know preimages of A's outbound HTLCs: then B takes them on chain — a `peer` claim)
	let mut conf_height: HashMap<Txid, u32> = HashMap::new();
	let mut spent: BTreeSet<OutPoint> = BTreeSet::new();
	for (i, o) in commitment_tx.output.iter().enumerate() { prevouts.insert(OutPoint { txid: ctxid, vout: i as u32 }, o.clone()); }
	{	// everything already on chain (funding transaction, wallet reserves)
		let blocks = net.nodes[a].blocks.lock().unwrap();
		for (blk, bh) in blocks.iter() { for t in &blk.txdata { let id = t.compute_txid(); conf_height.insert(id, *bh); for (k, o) in t.output.iter().enumerate() { prevouts.entry(OutPoint { txid: id, vout: k as u32 }).or_insert_with(|| o.clone()); } } }
	}
	{	// the funding output (A may re-broadcast its commitment: it is verified like every other broadcast)
		let fop = commitment_tx.input[0].previous_output;
		let blocks = net.nodes[a].blocks.lock().unwrap();
		for (blk, _) in blocks.iter() { for t in &blk.txdata { if t.compute_txid() == fop.txid { prevouts.insert(fop, t.output[fop.vout as usize].clone()); } } }
		if !prevouts.contains_key(&fop) { return Err("funding transaction not found".into()); }
		if let Err(e) = commitment_tx.verify(|op| prevouts.get(op).cloned()) { out.oracle.push(format!("closing commitment {} fails consensus verification: {:?}", ctxid, e)); }
	}
	let desc = format!("{} close on a{} channel, A's our_to_self_delay {} / B's {}", if holder_close { "holder" } else { "counterparty" }, if anchors { "n anchor" } else { " legacy" }, d_a, d_b);
	if std::env::var("C07_CLOSE_SEED").is_ok() { eprintln!("SCENARIO {}; items {:?}; late {:?}", desc, items.iter().map(|it| format!("{:?}:{}:cltv{}:h{}", it.kind, it.sat, it.cltv, it.hid)).collect::<Vec<_>>(), late.iter().map(|(p, k)| format!("pay{}->node{} +{}", p, net.pays[*p].to, k)).collect::<Vec<_>>()); }
	// ---- chain loop ---------------------------------------------------------------------------------------------
	let mine_both = |net: &Net, txs: &[Transaction]| {
		for i in 0..2 { let refs: Vec<&Transaction> = txs.iter().collect(); if refs.is_empty() { connect_blocks(&net.nodes[i], 1); } else { mine_transactions(&net.nodes[i], &refs); } }
	};
	let drain = |net: &Net| { for i in 0..2 { let _ = net.nodes[i].node.get_and_clear_pending_msg_events(); let _ = net.nodes[i].node.get_and_clear_pending_events(); net.nodes[i].chain_monitor.added_monitors.lock().unwrap().clear(); } };
	let balances_of_a = |net: &Net| -> Vec<Balance> { net.nodes[a].chain_monitor.chain_monitor.get_monitor(chan_id).map(|m| m.get_claimable_balances()).unwrap_or_default() };
	// pre-confirmation sanity (oracle only): the pre-close view reports a ClaimableOnChannelClose
	if !balances_of_a(&net).iter().any(|b| matches!(b, Balance::ClaimableOnChannelClose { .. })) { out.oracle.push("no ClaimableOnChannelClose before the closing transaction confirmed".into()); }
	if holder_close {
		// the pre-confirmation view (ClaimableOnChannelClose + per-HTLC balances) walks A's CURRENT HOLDER commitment — the one that is about to confirm
		out.ops.push((format!("preclose {} {} s{:x}", trusted.to_broadcaster_value_sat(), pre_toks.join(" "), seed & 0xffffff).replace("  ", " "), show_balances(&balances_of_a(&net)), format!("preclose:{}", if anchors { "anchors" } else { "legacy" })));
	}
	// (what the closer broadcast together with its commitment — a legacy holder's HTLC-success transactions — stays in the queue: it is
	// collected, verified and offered to the miner in round 0)
	// (how many transactions A had broadcast BEFORE the closing commitment confirmed: they are collected in round 0 like the later ones)
	let n_pre_a = net.nodes[a].tx_broadcaster.txn_broadcasted.lock().unwrap().len();
	mine_both(&net, &[commitment_tx.clone()]);
	drain(&net);
	let close_h = net.nodes[a].best_block_info().1;
	conf_height.insert(ctxid, close_h);
	spent.insert(commitment_tx.input[0].previous_output);
	// outpoint -> (height, txid) of its spend mined on the best chain
	let mut spent_at: HashMap<OutPoint, (u32, Txid)> = HashMap::new();
	spent_at.insert(commitment_tx.input[0].previous_output, (close_h, ctxid));
	// ---- SpendableOutputs bookkeeping: which outputs pay A, the CSV REALLY in their script, when they must be handed out ----------
	// outpoint -> (true csv of the script, what it is)
	let mut expect: BTreeMap<(Txid, u32), (u32, String, Vec<usize>)> = BTreeMap::new();
	let mut evented: Vec<bool> = items.iter().map(|_| false).collect();
	let mut item_fee: Vec<u64> = items.iter().map(|_| 0).collect();
	let mut taken_at: Vec<Option<u32>> = items.iter().map(|_| None).collect();
	for (idx, it) in items.iter().enumerate() { if it.kind == K::S {
		let csv = if holder_close { csv_on_a } else if anchors { 1 } else { 0 };
		expect.insert((ctxid, it.vout), (csv, format!("A's balance output {}:{} ({} sat)", &ctxid.to_string()[..8], it.vout, it.sat), vec![idx]));
	} }
	let due = |conf: u32, csv: u32| conf + csv.max(lightning::chain::channelmonitor::ANTI_REORG_DELAY) - 1;
	let mut spendable = 0u64; let mut fees = 0u64; let mut lost = 0u64;
	let mut n_spent_descriptors = 0u32;
	let mut conservation_reported = false;
	let secp = bitcoin::secp256k1::Secp256k1::new();
	// events of node i after a call: BumpTransaction events of BOTH nodes are funded; A's SpendableOutputs are checked and SPENT
	macro_rules! process_events { ($i:expr) => {{
		let i: usize = $i;
		let h_ev = net.nodes[i].best_block_info().1;
		for e in net.nodes[i].chain_monitor.chain_monitor.get_and_clear_pending_events() {
			match e {
				Event::BumpTransaction(ev) => {
					if let Err(p) = guarded(AssertUnwindSafe(|| net.nodes[i].bump_tx_handler.handle_event(&ev))) { out.oracle.push(format!("BumpTransactionEventHandler of node {} panicked ({}): {}", i, desc, p.replace('\n', " ").chars().take(200).collect::<String>())); }
				},
				Event::SpendableOutputs { outputs, .. } if i == a => {
					for o in &outputs {
						let (op, value, kind, claimed) = match o {
							SpendableOutputDescriptor::StaticOutput { outpoint, output, .. } => (*outpoint, output.value.to_sat(), "StaticOutput", 0u32),
							SpendableOutputDescriptor::StaticPaymentOutput(d) => (d.outpoint, d.output.value.to_sat(), "StaticPaymentOutput", 0),
							SpendableOutputDescriptor::DelayedPaymentOutput(d) => (d.outpoint, d.output.value.to_sat(), "DelayedPaymentOutput", d.to_self_delay as u32),
						};
						spendable += value;
						let key = (op.txid, op.index as u32);
						match (expect.remove(&key), conf_height.get(&op.txid)) {
							(Some((csv, what, idxs)), Some(conf)) => {
								for ix in idxs { evented[ix] = true; }
								let want = due(*conf, csv);
								if h_ev < want { out.oracle.push(format!("SpendableOutputs for {} at height {}, but confirmed at {} with script CSV {} it is buried / a spend is final in the next block only at height {} (descriptor: {} to_self_delay {}; {})", what, h_ev, conf, csv, want, kind, claimed, desc)); }
								if h_ev > want { out.oracle.push(format!("{} matured at height {} (confirmed at {}, CSV {}) but its SpendableOutputs came only at height {} ({})", what, want, conf, csv, h_ev, desc)); }
								if kind == "DelayedPaymentOutput" && claimed != csv { out.oracle.push(format!("DelayedPaymentOutput descriptor for {} says to_self_delay {} but the output's script has CSV {} ({})", what, claimed, csv, desc)); }
								if (kind == "DelayedPaymentOutput") != (holder_close) { out.oracle.push(format!("{} descriptor for {} in a {} close", kind, what, if holder_close { "holder" } else { "counterparty" })); }
							},
							_ => out.oracle.push(format!("SpendableOutputs at height {} for {}:{} ({} sat, {}), which the harness does not know as an output paying A ({})", h_ev, &op.txid.to_string()[..8], op.index, value, kind, desc)),
						}
					}
					// the node's keys must ACTUALLY be able to spend what was handed out, in the very next block
					let refs: Vec<&SpendableOutputDescriptor> = outputs.iter().collect();
					let change = bitcoin::script::Builder::new().push_opcode(bitcoin::opcodes::all::OP_RETURN).into_script();
					match guarded(AssertUnwindSafe(|| net.nodes[a].keys_manager.backing.spend_spendable_outputs(&refs, Vec::new(), change, 253, None, &secp))) {
						Ok(Ok(tx)) => {
							n_spent_descriptors += outputs.len() as u32;
							if let Err(e) = tx.verify(|op| prevouts.get(op).cloned()) { out.oracle.push(format!("the transaction spend_spendable_outputs built for the SpendableOutputs of height {} FAILS consensus verification: {:?} (inputs {:?}; {})", h_ev, e, tx.input.iter().map(|x| format!("{}:{} seq {}", &x.previous_output.txid.to_string()[..8], x.previous_output.vout, x.sequence.0)).collect::<Vec<_>>(), desc)); }
							for inp in &tx.input {
								if let Some(bitcoin::relative::LockTime::Blocks(n)) = inp.sequence.to_relative_lock_time() {
									let ph = conf_height.get(&inp.previous_output.txid).cloned().unwrap_or(h_ev);
									if tx.version.0 >= 2 && h_ev + 1 < ph + n.value() as u32 { out.oracle.push(format!("the spend of {}:{} (nSequence {}) built at the SpendableOutputs of height {} is not BIP-68 final in the next block: its input confirmed at {} ({})", &inp.previous_output.txid.to_string()[..8], inp.previous_output.vout, n.value(), h_ev, ph, desc)); }
								}
							}
						},
						Ok(Err(())) => out.oracle.push(format!("spend_spendable_outputs REFUSES the descriptors of the SpendableOutputs of height {} ({:?}; {})", h_ev, outputs.iter().map(|o| match o { SpendableOutputDescriptor::DelayedPaymentOutput(d) => format!("delayed {} csv {}", d.output.value.to_sat(), d.to_self_delay), SpendableOutputDescriptor::StaticPaymentOutput(d) => format!("static-payment {}", d.output.value.to_sat()), SpendableOutputDescriptor::StaticOutput { output, .. } => format!("static {}", output.value.to_sat()) }).collect::<Vec<_>>(), desc)),
						Err(p) => out.oracle.push(format!("spend_spendable_outputs panicked at height {}: {} ({})", h_ev, p.replace('\n', " ").chars().take(200).collect::<String>(), desc)),
					}
				},
				_ => {},
			}
		}
	}}; }
	process_events!(a); process_events!(b);
	let item_tok = |it: &Item| format!("{}:{}:{}:{}:{}", match it.kind { K::S => "S", K::O => "O", K::I => "I", K::U => "U" }, it.sat,
		if it.kind == K::O { it.cltv } else { 0 }, if it.kind == K::I || it.kind == K::U { it.cltv } else { 0 }, it.hid);
	let shown0 = format!("{} | {}", show_balances(&balances_of_a(&net)), spendable);
	out.ops.push((format!("close {} {} {} {} {}", close_h, if holder_close { 1 } else if cp_prev { 2 } else { 0 }, d_a, d_b, items.iter().map(item_tok).collect::<Vec<_>>().join(" ")).trim_end().to_string(), shown0, if cp_prev { "close:previous-counterparty-commitment".into() } else { "close".into() }));
	let _ = seed;
	let mut pool: Vec<(Transaction, usize)> = vec![];       // (tx, broadcaster)
	let mut a_history: Vec<Transaction> = vec![];
	let mut first_seen: Vec<Option<u32>> = items.iter().map(|_| None).collect();          // height at which A first broadcast a claim of the item
	let mut issue_heights: Vec<Vec<u32>> = items.iter().map(|_| vec![]).collect();        // heights of A's single-input claims of the item
	let mut multi_input: Vec<bool> = items.iter().map(|_| false).collect();
	let mut claimed_in_block: Vec<Option<u32>> = items.iter().map(|_| None).collect();
	let mut n_respend = 0u32;
	let mut last_fee: BTreeMap<Vec<OutPoint>, u64> = BTreeMap::new();
	let mut item_state: Vec<u8> = items.iter().map(|_| 0).collect();   // 0 open, 1 claimed by A, 2 taken by B
	let mut known_since: Vec<u32> = items.iter().map(|_| close_h).collect();
	let mut unclaimed_reported: Vec<bool> = items.iter().map(|_| false).collect();
	let (mut n_late, mut n_late_refused) = (0u32, 0u32);
	let mut idle = 0;
	let lazy = rng.chance(1, 3);        // slow miners: claims sit unconfirmed long enough for the bump timers to fire
	let mut n_rebroadcast = 0u32;
	let fee_kind = TRAJS[rng.below(6) as usize];
	let mut fee_traj = Est::new(fee_kind, &mut rng);
	out.est_kind = format!("close-estimator:{:?}", fee_kind);
	let rounds = 420 + d_a.max(d_b) as u32;
	// (`multi`) the outputs of the same-expiry group whose preimage B knows (B's HTLC-success transactions spend them), the group's expiry, and the
	// state of the hold-back: 0 = B's transactions for those outputs are held back, 1 = A's aggregated claim was broadcast: THIS round's block takes
	// B's transactions together and none of A's, 2 = over (the loop goes on as usual)
	let multi_ops: BTreeSet<OutPoint> = items.iter().filter(|it| it.kind == K::O && multi_known.contains(&it.hash)).map(|it| OutPoint { txid: ctxid, vout: it.vout }).collect();
	let multi_cltv = items.iter().filter(|it| multi_known.contains(&it.hash)).map(|it| it.cltv).max().unwrap_or(0);
	let mut multi_state: u8 = if multi && multi_ops.len() >= 2 { 0 } else { 2 };
	let mut multi_split: Option<usize> = None;
	let mut a_bcast_seen = 0usize;
	// (a node that is told the new height BEFORE the block's transactions — the BestBlockFirst styles, and ReplayedFullBlockViaListen, which delivers an
	// empty filtered block of that height first — may issue a timer bump / release a parked claim without having seen what that block spends: for these
	// delivery styles only spends of EARLIER blocks count below)
	let a_best_block_first = matches!(*net.nodes[a].connect_style.borrow(), ConnectStyle::BestBlockFirst | ConnectStyle::BestBlockFirstSkippingBlocks | ConnectStyle::BestBlockFirstReorgsOnlyTip | ConnectStyle::ReplayedFullBlockViaListen);
	if std::env::var("C07_CLOSE_SEED").is_ok() { eprintln!("A's block delivery style in this scenario: {:?}; same-block multi-claim mode: {}", *net.nodes[a].connect_style.borrow(), multi); }
	let mut n_double = 0u32;
	for _round in 0..rounds {
		if multi_state == 0 && net.nodes[a].best_block_info().1 > multi_cltv + 3 { multi_state = 2; }      // (A's aggregated claim never showed up: give up holding back)
		// the fee estimator follows a scripted trajectory (falling / rising / oscillating / random walk / spike-then-crash / constant)
		if rng.chance(1, 4) { let v = fee_traj.next(&mut rng).min(if multi { multi_est_cap } else { 60_000 }); *net.nodes[a].fee_estimator.sat_per_kw.lock().unwrap() = v; }
		let h = net.nodes[a].best_block_info().1;
		// ---- a preimage learned only now, `k` blocks after the closing commitment confirmed ----------------------------------------
		let due_now: Vec<usize> = late.iter().filter(|(_, k)| close_h + *k == h).map(|(p, _)| *p).collect();
		for p in due_now {
			let to = net.pays[p].to; let hash = net.pays[p].hash;
			// (an output the counterparty already took back is not "learned": the ledger only upgrades unspent outputs)
			if items.iter().enumerate().any(|(ix, it)| it.hash == hash.0 && item_state[ix] != 0) { continue; }
			net.events[to].clear();
			net.claim(p); net.process_events(to);
			let claimed = net.events[to].iter().any(|e| matches!(e, Event::PaymentClaimed { payment_hash, .. } if *payment_hash == hash));
			drain(&net);
			if !claimed { n_late_refused += 1; continue; }       // the ChannelManager had already given the payment up (expiry - 39)
			if to == a {
				let mut hid = None;
				for (ix, it) in items.iter_mut().enumerate() { if it.hash == hash.0 && it.kind == K::U { it.kind = K::I; hid = Some(it.hid); known_since[ix] = h; } }
				process_events!(a);
				if let Some(hid) = hid {
					n_late += 1;
					out.ops.push((format!("preimage {} {:x}", hid, seed & 0xffffff), format!("{} | {}", show_balances(&balances_of_a(&net)), spendable), format!("preimage:+{}{}{}", (h - close_h).min(9), if items.iter().filter(|it| it.hid == hid).count() > 1 { ":multi-part" } else { "" }, if cp_prev { ":on-previous-counterparty-commitment" } else { "" })));
				}
			}
		}
		// collect broadcasts; A's are checked for validity and finality at THIS height
		for i in 0..2 {
			let v: Vec<Transaction> = net.nodes[i].tx_broadcaster.txn_broadcasted.lock().unwrap().drain(..).collect();
			for t in v {
				if i == a {
					{	// IMPLEMENTATION ORACLE: no transaction A broadcasts (after having seen the spend: not the ones queued before the closing commitment confirmed,
						// not a re-broadcast of the confirmed transaction itself) spends an outpoint that already has a CONFIRMED spend on the best chain.  Hard for
						// every counterparty-commitment close, and for holder closes while that spend has fewer than ANTI_REORG_DELAY confirmations (afterwards it is
						// the accepted observation `obs-claims-of-outputs-already-spent-on-chain`: a late preimage re-requests every holder claim)
						if std::env::var("C07_CLOSE_SEED").is_ok() { eprintln!("A-BROADCAST at height {}: inputs {:?} nLockTime {} fee {:?} (estimator {})", h, t.input.iter().map(|i| format!("{}:{}", &i.previous_output.txid.to_string()[..8], i.previous_output.vout)).collect::<Vec<_>>(), t.lock_time, fee_of(&t, &prevouts), *net.nodes[a].fee_estimator.sat_per_kw.lock().unwrap()); }
						let queued_before_close = a_bcast_seen < n_pre_a;
						a_bcast_seen += 1;
						let tid = t.compute_txid();
						let dbl: Vec<String> = t.input.iter().filter_map(|inp| spent_at.get(&inp.previous_output).filter(|(sh, sid)| *sid != tid && (*sh < h || !a_best_block_first) && (!holder_close || h + 1 < *sh + lightning::chain::channelmonitor::ANTI_REORG_DELAY))
							.map(|(sh, sid)| format!("{}:{} spent by {} at height {} ({} confirmations)", &inp.previous_output.txid.to_string()[..8], inp.previous_output.vout, &sid.to_string()[..8], sh, h + 1 - sh))).collect();
						if !dbl.is_empty() && !queued_before_close && n_double < 3 {
							n_double += 1;
							out.oracle.push(format!("A broadcasts {} at height {} spending an outpoint that already has a CONFIRMED spend on the best chain: {} — inputs {:?}, nLockTime {} (closing commitment {} confirmed at {}; {}{})", &tid.to_string()[..8], h, dbl.join(", "),
								t.input.iter().map(|i| format!("{}:{}", &i.previous_output.txid.to_string()[..8], i.previous_output.vout)).collect::<Vec<_>>(), t.lock_time, &ctxid.to_string()[..8], close_h, desc,
								if multi { format!("; same-block multi-claim mode, {} of B's HTLC-success transactions in one block", multi_split.map(|n| n.to_string()).unwrap_or("-".into())) } else { String::new() }));
						}
						if multi_state == 0 && t.input.iter().filter(|x| x.previous_output.txid == ctxid).count() >= 3 && t.input.iter().filter(|x| multi_ops.contains(&x.previous_output)).count() >= 2 { multi_state = 1; }
					}
					if t.input.iter().any(|inp| !prevouts.contains_key(&inp.previous_output)) { out.oracle.push(format!("A broadcast {} spends an unknown outpoint at height {} (close {}): inputs {:?} outputs {:?} holder_close={}", t.compute_txid(), h, close_h, t.input.iter().map(|i| format!("{}:{}", &i.previous_output.txid.to_string()[..8], i.previous_output.vout)).collect::<Vec<_>>(), t.output.iter().map(|o| o.value.to_sat()).collect::<Vec<_>>(), holder_close)); continue; }
					if let Err(e) = t.verify(|op| prevouts.get(op).cloned()) { out.oracle.push(format!("A's claim {} fails consensus verification: {:?}", t.compute_txid(), e)); }
					if t.lock_time.is_block_height() && t.lock_time.to_consensus_u32() > h { out.oracle.push(format!("A's claim {} has nLockTime {} > broadcast height {}", t.compute_txid(), t.lock_time, h)); }
					for inp in &t.input { if let Some(rel) = inp.sequence.to_relative_lock_time() { if let bitcoin::relative::LockTime::Blocks(n) = rel {
						let ph = conf_height.get(&inp.previous_output.txid).cloned().unwrap_or(h);
						if h + 1 < ph + n.value() as u32 { out.oracle.push(format!("A's claim {} is not CSV-final at broadcast height {}", t.compute_txid(), h)); } } } }
					let mut key: Vec<OutPoint> = t.input.iter().map(|x| x.previous_output).collect(); key.sort();
					// (wallet-funded anchor claims: the handler sets fee = target x SIGNED weight, ECDSA signatures vary by a byte or two)
					let noise = if anchors && holder_close { 4 * (*net.nodes[a].fee_estimator.sat_per_kw.lock().unwrap() as u64).max(253) / 1000 + 2 } else { 0 };
					if let Some(f) = fee_of(&t, &prevouts) { if let Some(prev) = last_fee.get(&key) { n_rebroadcast += 1; if f + noise < *prev { out.oracle.push(format!("A's re-issued claim {} lowers its fee {} -> {}", t.compute_txid(), prev, f)); } } last_fee.insert(key, f); }
					for inp in &t.input { if inp.previous_output.txid == ctxid { if let Some(ix) = items.iter().position(|it| it.vout == inp.previous_output.vout) {
						// (a late preimage on a HOLDER commitment makes the monitor re-request every holder claim, also for outputs whose spend — the counterparty's or
						// A's own — is long buried: such a transaction cannot confirm; it is counted as an observation and is not a "first issue")
						if item_state[ix] != 0 { n_respend += 1; continue; }
						if first_seen[ix].is_none() { first_seen[ix] = Some(h); }
						let n_commitment_inputs = t.input.iter().filter(|x| x.previous_output.txid == ctxid).count();
						if n_commitment_inputs == 1 { if issue_heights[ix].last() != Some(&h) { issue_heights[ix].push(h); } } else { multi_input[ix] = true; }
					} } }
					a_history.push(t.clone());
				}
				// outputs of unconfirmed transactions are needed to verify their children (anchor CPFP)
				let id = t.compute_txid();
				for (k, o) in t.output.iter().enumerate() { prevouts.entry(OutPoint { txid: id, vout: k as u32 }).or_insert_with(|| o.clone()); }
				pool.push((t, i));
			}
		}
		// every unspent inbound HTLC whose preimage A knows must have a claim of A's in flight BEFORE its expiry lets the counterparty take it
		for (ix, it) in items.iter().enumerate() {
			if it.kind == K::I && item_state[ix] == 0 && h < it.cltv && !unclaimed_reported[ix] {
				let op = OutPoint { txid: ctxid, vout: it.vout };
				if !a_history.iter().any(|t| t.input.iter().any(|i| i.previous_output == op)) {
					unclaimed_reported[ix] = true;
					out.oracle.push(format!("inbound HTLC {} ({} sat, output {}:{}, expiry {}{}) with known preimage (since height {}) unclaimed at height {}: A has no claim transaction for it ({})", ix, it.sat, &ctxid.to_string()[..8], it.vout, it.cltv,
						if items.iter().filter(|o| o.hid == it.hid).count() > 1 { ", one of several outputs with the same payment hash" } else { "" }, known_since[ix], h, desc));
				}
			}
		}
		// choose what the next block contains: minable, non-conflicting, latest first, each with probability 2/3
		let mut block: Vec<Transaction> = vec![];
		let mut taken: BTreeSet<OutPoint> = BTreeSet::new();
		let mut claims: Vec<String> = vec![];
		let mut new_expect: Vec<((Txid, u32), (u32, String, Vec<usize>))> = vec![];
		for (t, who) in pool.iter().rev() {
			let ok_inputs = t.input.iter().all(|i| prevouts.contains_key(&i.previous_output) && conf_height.contains_key(&i.previous_output.txid) && !spent.contains(&i.previous_output) && !taken.contains(&i.previous_output));
			let fin = !t.lock_time.is_block_height() || t.lock_time.to_consensus_u32() <= h;
			let csv_ok = t.input.iter().all(|i| match i.sequence.to_relative_lock_time() { Some(bitcoin::relative::LockTime::Blocks(n)) => h + 1 >= conf_height.get(&i.previous_output.txid).cloned().unwrap_or(h + 1) + n.value() as u32, _ => true });
			// (`multi`: the hold-back has priority over the 2/3 selection and over `lazy`)
			let multi_held = multi_state < 2 && *who == b && t.input.iter().any(|i| multi_ops.contains(&i.previous_output));
			if (multi_state == 0 && multi_held) || (multi_state == 1 && *who == a) { continue; }
			if !(ok_inputs && fin && csv_ok) || block.iter().any(|x| x.compute_txid() == t.compute_txid()) || !((multi_state == 1 && multi_held) || if lazy && *who == a { rng.chance(1, 8) } else { rng.chance(2, 3) }) { continue; }
			if t.verify(|op| prevouts.get(op).cloned()).is_err() { continue; }   // B's transactions are not under test
			for i in &t.input { taken.insert(i.previous_output); }
			// ledger ops: which items does this transaction resolve?
			let id = t.compute_txid();
			let mut fee_left = fee_of(t, &prevouts).unwrap_or(0);
			for (input_idx, i) in t.input.iter().enumerate() { if i.previous_output.txid == ctxid {
				if let Some(idx) = items.iter().position(|it| it.vout == i.previous_output.vout) {
					if *who == a {
						// a holder's second-stage HTLC transaction pays input k to output k (one each before anchors, SIGHASH_SINGLE pairs with
						// wallet inputs / change behind them on anchor channels); a claim on the counterparty's commitment sweeps into ONE output
						let f = if holder_close { items[idx].sat.saturating_sub(t.output.get(input_idx).map(|o| o.value.to_sat()).unwrap_or(0)) } else { let f = fee_left.min(items[idx].sat); fee_left -= f; f };
						claims.push(format!("claim {} {} {}", idx, h + 1, items[idx].sat - f));
						item_state[idx] = 1; fees += f; item_fee[idx] = f; claimed_in_block[idx] = Some(h + 1);
						let key = if holder_close { (id, input_idx as u32) } else { (id, 0) };
						new_expect.push((key, (if holder_close { csv_on_a } else { 0 }, format!("the output of A's claim {} for item {} ({} sat)", &id.to_string()[..8], idx, items[idx].sat), vec![idx])));
					} else { claims.push(format!("peer {} {}", idx, h + 1)); item_state[idx] = 2; taken_at[idx] = Some(h + 1); if items[idx].kind != K::U { lost += items[idx].sat; } }
				}
			} }
			block.push(t.clone());
		}
		if multi_state == 1 { multi_split = Some(block.iter().filter(|t| t.input.iter().any(|i| multi_ops.contains(&i.previous_output))).count()); multi_state = 2; }
		for t in &block { let id = t.compute_txid(); for i in &t.input { spent_at.insert(i.previous_output, (h + 1, id)); } }
		for t in &block { let id = t.compute_txid(); for i in &t.input { spent.insert(i.previous_output); } for (i, o) in t.output.iter().enumerate() { prevouts.insert(OutPoint { txid: id, vout: i as u32 }, o.clone()); } conf_height.insert(id, h + 1); }
		for (k, v) in new_expect { match expect.get_mut(&k) { Some(e) => e.2.extend(v.2), None => { expect.insert(k, v); } } }
		mine_both(&net, &block);
		drain(&net);
		process_events!(a); process_events!(b);
		// an output that pays A and whose CSV has run out must have been handed out by now
		let now = h + 1;
		let overdue: Vec<(Txid, u32)> = expect.iter().filter(|(k, v)| conf_height.get(&k.0).map(|c| due(*c, v.0) < now).unwrap_or(false)).map(|(k, _)| *k).collect();
		for k in overdue { let (csv, what, _) = expect.remove(&k).unwrap(); let conf = conf_height[&k.0]; out.oracle.push(format!("{} matured at height {} (confirmed at {}, script CSV {}) but there is no SpendableOutputs for it by height {} ({})", what, due(conf, csv), conf, csv, now, desc)); }
		let bals = balances_of_a(&net);
		let shown = format!("{} | {}", show_balances(&bals), spendable);
		{	// conservation on the implementation side at EVERY block (no model): what A still reports as its own + what was handed out as
			// SpendableOutputs + the fees of the claims handed out + what the counterparty took for good = A's entitlement at closure
			let owned: u64 = bals.iter().map(|b| match b { Balance::ClaimableAwaitingConfirmations { amount_satoshis, .. } | Balance::ContentiousClaimable { amount_satoshis, .. } | Balance::MaybeTimeoutClaimableHTLC { amount_satoshis, .. } => *amount_satoshis, _ => 0 }).sum();
			let fees_done: u64 = (0..items.len()).filter(|&ix| evented[ix]).map(|ix| item_fee[ix]).sum();
			let lost_done: u64 = (0..items.len()).filter(|&ix| items[ix].kind != K::U && taken_at[ix].map(|t| now >= t + lightning::chain::channelmonitor::ANTI_REORG_DELAY - 1).unwrap_or(false)).map(|ix| items[ix].sat).sum();
			let entitled: u64 = items.iter().filter(|it| it.kind != K::U).map(|it| it.sat).sum();
			if owned + spendable + fees_done + lost_done != entitled && !conservation_reported {
				conservation_reported = true;
				out.oracle.push(format!("at height {}: balances A owns {} + SpendableOutputs so far {} + fees of handed-out claims {} + taken by the counterparty {} != entitlement at closure {} (balances {}; {})", now, owned, spendable, fees_done, lost_done, entitled, show_balances(&bals), desc));
			}
		}
		// the claim ops of this block are set-up lines; the block op carries the comparison
		for cl in claims { out.ops.push((cl, "-".into(), "claim".into())); }
		let changed = out.ops.last().map(|l| l.1 != shown).unwrap_or(true);
		out.ops.push((format!("block {} {:x}", h + 1, seed & 0xffffff), shown.clone(), if !block.is_empty() { "block:txs".into() } else if changed { "block:matured".into() } else { "block:quiet".into() }));
		if bals.is_empty() && expect.is_empty() { idle += 1; if idle > 2 { break; } } else { idle = 0; }
	}
	// ---- end-state oracles ------------------------------------------------------------------------------------------
	let bals = balances_of_a(&net);
	if !bals.is_empty() { out.oracle.push(format!("A's balances did not drain: {} ({})", show_balances(&bals), desc)); }
	for (_, (_, what, _)) in expect.iter() { out.oracle.push(format!("{} never became a SpendableOutputs event ({})", what, desc)); }
	let entitlement: u64 = items.iter().filter(|it| it.kind != K::U).map(|it| it.sat).sum();
	if bals.is_empty() && spendable + fees + lost != entitlement { out.oracle.push(format!("SpendableOutputs {} + fees {} + taken by the counterparty {} != entitlement {} ({})", spendable, fees, lost, entitlement, desc)); }
	// ---- WHEN claims were issued (Model/ClaimTime.lean): a timeout claim parked for its locktime comes out exactly at the locktime; a single-input
	// preimage claim on the counterparty's commitment is re-issued exactly at its bump-timer heights until it confirms
	let (mut n_release, mut n_sched) = (0u32, 0u32);
	for (ix, it) in items.iter().enumerate() {
		if it.kind == K::O { if let Some(fs) = first_seen[ix] {
			// (a claim whose locktime had passed when the commitment was broadcast is first SEEN one block late by this harness: only parked ones are compared,
			// and on the counterparty's commitment also those requested when it confirmed)
			let req = if holder_close { close_h.saturating_sub(1) } else { close_h };
			if it.cltv > close_h || !holder_close {
				out.ops.push((format!("release {} {} {} {:x}", if holder_close { "H" } else { "R" }, it.cltv, req, seed & 0xffffff), fs.to_string(), format!("release:{}:{}", if holder_close { "holder-timeout" } else { "counterparty-commitment-timeout" }, if it.cltv > req { "parked" } else { "at-once" })));
				n_release += 1;
			}
		} }
		// (a bump that `compute_package_output` refuses — the fee would eat the output — is retried every block, so re-issues may come LATER than the
		// timer; never earlier)
		if !holder_close && !multi_input[ix] && issue_heights[ix].len() >= 2 && (it.kind == K::I || it.kind == K::O) {
			for w in issue_heights[ix].windows(2) {
				if claimed_in_block[ix].map(|cb| w[1] < cb).unwrap_or(true) && n_sched < 12 {
					out.ops.push((format!("reissue {} {} {} {} {:x}", if it.kind == K::I { "F" } else { "R" }, it.cltv, w[0], w[1], seed & 0xffffff), "not-early".into(),
						format!("reissue:{}:+{}", if it.kind == K::I { "preimage-claim" } else { "timeout-claim" }, (w[1] - w[0]).min(15))));
					n_sched += 1;
				}
			}
		}
	}
	out.ops.push(("totals".into(), format!("0 {} {} {} {}", spendable, fees, lost, entitlement), "totals".into()));
	let cnt = |k: K| items.iter().filter(|it| it.kind == k).count().min(3);
	if n_rebroadcast > 0 { out.ops.push(("totals".into(), format!("0 {} {} {} {}", spendable, fees, lost, entitlement), "rebroadcast-seen".into())); }
	out.class = format!("close:{}{}:O{}:I{}:U{}:S{}", if holder_close { "holder" } else { "counterparty" }, if anchors { "-anchors" } else { "" }, cnt(K::O), cnt(K::I), cnt(K::U), cnt(K::S));
	let dup_in = { let mut m: BTreeMap<usize, usize> = BTreeMap::new(); for it in &items { if it.hid != 0 && (it.kind == K::I || it.kind == K::U) { *m.entry(it.hid).or_insert(0) += 1; } } m.values().cloned().max().unwrap_or(0) };
	out.est_kind = format!("{};delays:{};spent:{};mpp-sent:{};same-hash-inbound-outputs:{};late-preimages:{};late-refused:{};cp-commitment:{};release-ops:{};reissue-ops:{};closed-by:{};obs-claims-of-outputs-already-spent-on-chain:{}", out.est_kind, if d_a > d_b { "A>B" } else { "A<B" }, n_spent_descriptors.min(9), n_mpp.min(3), dup_in, n_late.min(4), n_late_refused.min(3), if holder_close { "-" } else if cp_prev { "previous" } else { "current" }, n_release.min(3), n_sched.min(3), if auto { "monitor-deadline" } else { "force_close" }, n_respend.min(3));
	// (`multi`) how many of B's HTLC-success transactions split A's aggregated claim in ONE block, of how many same-expiry HTLCs ("not-reached": A's aggregated claim never came out)
	out.est_kind = format!("{};same-block-multi-claim:{}", out.est_kind, if !multi { "-".to_string() } else { match multi_split { Some(n) => format!("{}-of-{}", n.min(9), multi_pays.len()), None => "not-reached".to_string() } });
	// … and the translated package_weight against the real weight of every self-funded claim A broadcast (after the trace has been read: it names the input kinds)
	let pkg_cases = pkgtrace::cases();
	{ let mut seen = BTreeSet::new(); for t in a_history.iter() { if seen.insert(t.compute_txid()) { if let Some(c) = pkgtrace::weight_case(t, anchors) { out.ops.push(c); } } } }
	let _ = (item_state, a_history);
	drain(&net);
	// the package layer (Model/Packages.lean): real handler state before each call -> model -> real state after it (stateless ops, any position)
	for (op, res, cl) in pkg_cases { out.ops.push((op, res, cl)); }
	Ok(out)
}

// =====================================================================================================================
// c07fee — "raises their fees monotonically until they confirm", all channel types incl. anchor channels needing external
// fee inputs, all fee-estimator trajectories.
//   (1) differential of the REAL PackageTemplate::compute_package_feerate / compute_package_output (hooks
//       verif_hooks::package::{compute_package_feerate, compute_package_output}) against the translation, over boundary
//       values (prev = 0, around 4x / 5x the estimate, the floor 253, u32 / u64 extremes) and PRNG tuples;
//   (2) trajectories: the real function iterated the way OnchainTxHandler does (`set_feerate(result)`), over falling /
//       rising / oscillating / spiking estimator sequences and mixed strategies — compared with Model `extTargets` /
//       `ownFeerates`;
//   (3) end to end: ANCHOR channels closed unilaterally; the closer's monitor yields BumpTransaction events (commitment
//       bump, HTLC claims) whose target feerates are followed per claim id across blocks / rebroadcasts while the estimator
//       falls, rises or oscillates; events are (optionally) funded by the node's BumpTransactionEventHandler + test wallet;
//       the other node (closed on by its counterparty) re-issues self-funded claims.  Every observed event is one `pf` op.
//   Implementation oracles (no model): "target feerate of claim X went down from a to b", "replacement transaction pays
//   less fee / a lower feerate than the transaction it replaces", consensus validity of the funded transactions.
use bump::ConstFee;
use lightning::events::bump_transaction::BumpTransactionEvent;
use lightning::ln::verif_hooks::package as vp;

static LAST_PANIC_LOCATION: std::sync::Mutex<String> = std::sync::Mutex::new(String::new());
const U32M: u64 = u32::MAX as u64;
/// candidate finding (satoshi-level rounding): a stable text so that known_findings.txt can refer to it
const KF1: &str = "KF-C07-1 re-broadcast of a self-funded claim after an RBF bump pays LESS fee than the transaction it re-issues (feerate_bump stores fee*1000/weight rounded down and RetryPrevious / HighestOfPreviousOrNew recompute the fee from it; at most weight/1000 + 1 sat)";

fn ovf_or_panic(p: &str) -> String { if p.contains("overflow") { "ovf".into() } else { format!("panic {}", p.split('\n').next().unwrap_or("")) } }

/// `compute_package_feerate` through the hook; a u32 overflow panic (debug build) is the outcome `ovf`
fn real_pf(params: &lightning::ln::chan_utils::ChannelTransactionParameters, prev: u64, strat: u8, est: u32) -> Result<u32, String> {
	guarded(AssertUnwindSafe(|| vp::compute_package_feerate(prev, strat, ConstFee(est), params)))
}

/// impl-side oracle for ONE call (no model): never below the previous feerate; a ForceBump that does not raise is capped
fn pf_oracle(rec_fail: &mut Vec<String>, prev: u64, strat: u8, est: u32, r: u32, ctx: &str) {
	let prev32 = prev.min(U32M);
	let bounded = (est as u64).max(253);
	if prev != 0 && (r as u64) < prev32 {
		rec_fail.push(format!("compute_package_feerate LOWERS the target feerate: previous {} strategy {} estimate {} -> {}{}", prev, strat, est, r, ctx));
	} else if prev == 0 && (r as u64) != bounded {
		rec_fail.push(format!("compute_package_feerate first issue: estimate {} -> {} (expected the floor-bounded estimate {}){}", est, r, bounded, ctx));
	} else if strat == 2 && prev != 0 && prev <= U32M && (r as u64) == prev && !(5 * bounded <= prev || prev == U32M) {
		rec_fail.push(format!("compute_package_feerate ForceBump does not raise although not capped: previous {} estimate {} -> {}{}", prev, est, r, ctx));
	} else if (r as u64) > prev32.max(5 * bounded) {
		rec_fail.push(format!("compute_package_feerate overshoots max(previous, 5 x estimate): previous {} strategy {} estimate {} -> {}{}", prev, strat, est, r, ctx));
	}
}

#[derive(Clone, Copy, Debug)]
enum Traj { Falling, Rising, Oscillating, Walk, SpikeCrash, Constant }
const TRAJS: [Traj; 6] = [Traj::Falling, Traj::Rising, Traj::Oscillating, Traj::Walk, Traj::SpikeCrash, Traj::Constant];

struct Est { kind: Traj, k: u32, cur: u32, hi: u32, lo: u32, spike_len: u32 }
impl Est {
	fn new(kind: Traj, rng: &mut Rng) -> Est {
		let hi = rng.range(1500, 40_000) as u32;
		let lo = match rng.below(3) { 0 => 0, 1 => 253, _ => rng.range(1, (hi / 6) as u64) as u32 };
		let cur = match kind { Traj::Falling => hi, Traj::Rising => rng.range(1, 1500) as u32, Traj::Oscillating => hi, Traj::Walk => rng.range(253, 8000) as u32,
			Traj::SpikeCrash => hi, Traj::Constant => *rng.pick(&[0u32, 253, 1000, 7000]) };
		Est { kind, k: 0, cur, hi, lo, spike_len: rng.range(1, 4) as u32 }
	}
	fn next(&mut self, rng: &mut Rng) -> u32 {
		self.k += 1;
		self.cur = match self.kind {
			Traj::Falling => if rng.chance(1, 5) { self.cur / rng.range(4, 9) as u32 } else { (self.cur as u64 * rng.range(55, 99) / 100) as u32 },
			Traj::Rising => (self.cur as u64 + rng.below(self.cur as u64 / 2 + 400)).min(120_000) as u32,
			Traj::Oscillating => if self.k % 2 == 1 { self.lo } else { (self.hi as u64 * rng.range(60, 140) / 100) as u32 },
			Traj::Walk => ((self.cur as u64).max(1) * rng.range(20, 450) / 100).clamp(1, 150_000) as u32,
			Traj::SpikeCrash => if self.k < self.spike_len { self.hi } else { self.lo },
			Traj::Constant => self.cur,
		};
		self.cur
	}
}

fn run_fee_arith(rec: &mut Rec, rng: &mut Rng, thorough: bool, scale: u64) {
	let logger = NullLogger;
	let params = [bump::synth_params(false), bump::synth_params(true)];
	let mut fails: Vec<String> = vec![];
	// ---- (1a) compute_package_feerate: boundary grid -----------------------------------------------------------------
	let ests: Vec<u32> = vec![0, 1, 252, 253, 254, 1000, 5000, 65_535, 858_993_458, 858_993_459, 858_993_460, 1_000_000_000, u32::MAX - 1, u32::MAX];
	let mut n_pf = 0u64;
	let one_pf = |rec: &mut Rec, fails: &mut Vec<String>, prev: u64, strat: u8, est: u32, tag: &str| {
		let r = real_pf(&params[(prev % 2) as usize], prev, strat, est);
		let bounded = (est as u64).max(253);
		let res = match &r { Ok(v) => v.to_string(), Err(p) => ovf_or_panic(p) };
		let class = match &r {
			Ok(v) => format!("pf{}:{}{}", strat, if prev == 0 { "first" } else if (*v as u64) == prev.min(U32M) { "kept" } else if (*v as u64) == bounded { "estimate" } else if (*v as u64) == 5 * bounded { "cap5x" } else { "plus25" }, tag),
			Err(p) => if p.contains("overflow") { "pf:u32-overflow".to_string() } else { "pf:panic".to_string() } };
		match &r {
			Ok(v) => pf_oracle(fails, prev, strat, est, *v, ""),
			// `feerate_estimate * 5` is a u32 product: only an estimate above u32::MAX / 5 may overflow it, and only where it is evaluated
			Err(p) => if !(p.contains("overflow") && strat == 2 && prev != 0 && 5 * bounded > U32M && bounded <= prev.min(U32M)) {
				fails.push(format!("compute_package_feerate panicked: previous {} strategy {} estimate {}: {}", prev, strat, est, p.split('\n').next().unwrap_or(""))); },
		}
		rec.case(&format!("pf {} {} {}", prev, strat, est), &res, &class, true);
	};
	for &est in &ests {
		let b = (est as u64).max(253);
		let mut prevs: Vec<u64> = vec![0, 1, 3, 4, 5, 252, 253, 254, U32M - 1, U32M, U32M + 1, u64::MAX - 1, u64::MAX, 1 << 32, (1 << 33) + 7, U32M * 4 / 5, U32M * 4 / 5 + 1, U32M * 4 / 5 + 2];
		for c in [b, 4 * b, 5 * b, 5 * b * 4 / 5, 6 * b, 25 * b, b / 2] { for d in 0..5u64 { prevs.push((c + d).saturating_sub(2)); } }
		prevs.sort(); prevs.dedup();
		for &prev in &prevs { for strat in 0..3u8 { one_pf(rec, &mut fails, prev, strat, est, ""); n_pf += 1; } }
	}
	// ---- (1b) compute_package_feerate: PRNG tuples --------------------------------------------------------------------
	let n_rand = if thorough { 300_000 } else { 10_000 } * scale;
	for k in 0..n_rand {
		let est = match rng.below(6) { 0 => *rng.pick(&ests), 1 => rng.below(300) as u32, 2 => rng.below(1 << 32) as u32, _ => rng.below(60_000) as u32 };
		let b = (est as u64).max(253);
		let prev = match rng.below(10) { 0 => 0, 1 => rng.near(5 * b), 2 => rng.near(4 * b), 3 => rng.below(6 * b + 10), 4 => rng.range(5 * b, 50 * b), 5 => rng.next() >> rng.below(40), 6 => rng.near(b), _ => rng.range(1, 200_000) };
		one_pf(rec, &mut fails, prev, (k % 3) as u8, est, ""); n_pf += 1;
	}
	// ---- (1c) compute_package_output ------------------------------------------------------------------------------------
	let n_po = if thorough { 200_000 } else { 8_000 } * scale;
	for k in 0..n_po {
		let w = match rng.below(10) { 0 => rng.range(1, 8), 1 => rng.range(1, 2000), _ => rng.range(400, 6000) };
		let est = if rng.chance(1, 3) { rng.below(20_000) } else { *rng.pick(&[0u64, 100, 252, 253, 254, 1000, 5000, 50_000, 4_000_000_000]) };
		let prev = match rng.below(8) { 0 | 1 => 0, 2 => rng.near(est.max(3)), 3 => rng.near(253), 4 => rng.below(1 << 32), 5 => rng.range(5 * est.max(253), 30 * est.max(253)), _ => rng.range(253, 30_000) };
		let dust = *rng.pick(&[1u64, 294, 330, 546, 1000]) + if rng.chance(1, 6) { rng.below(5000) } else { 0 };   // `assert!(dust_limit_sats as i64 > 0)` is a precondition
		let prev_fee = prev * w / 1000;
		let amt = match rng.below(8) { 0 => rng.near(prev_fee + 253 * w / 1000 + dust), 1 => rng.near((prev + prev / 4) * w / 1000 + dust), 2 => rng.near(2 * (253 * w).div_ceil(1000)), 3 => rng.below(3000),
			4 => rng.below(21_000_000 * 100_000_000), _ => rng.range(500, 5_000_000) };
		let strat = (k % 3) as u8;
		let r = guarded(AssertUnwindSafe(|| vp::compute_package_output(amt, w, dust, prev, strat, ConstFee(est as u32), &logger, &params[(k % 2) as usize])));
		let res = match &r { Ok(Some((o, rt))) => format!("{} {}", o, rt), Ok(None) => "none".into(), Err(p) => format!("panic {}", p.split('\n').next().unwrap_or("")) };
		let class = match &r { Ok(Some((o, rt))) => format!("po{}:{}:{}", strat, if prev == 0 { "first" } else if *rt == prev { "same" } else { "replace" }, if *o == dust { "dust-clamped" } else { "above-dust" }), Ok(None) => format!("po{}:none", strat), Err(_) => "po:panic".into() };
		match &r {
			Ok(Some((o, rt))) => {
				if *o < dust || *o > amt.max(dust) { fails.push(format!("compute_package_output amount={} w={} dust={} prev={} strat={} est={} -> output {} outside [dust, inputs]", amt, w, dust, prev, strat, est, o)); }
				if prev != 0 && w >= 4 && *rt < prev { fails.push(format!("compute_package_output LOWERS the feerate: amount={} w={} dust={} prev={} strat={} est={} -> feerate {}", amt, w, dust, prev, strat, est, rt)); }
				if prev == 0 && *rt < 253 { fails.push(format!("compute_package_output first issue below the feerate floor: amount={} w={} dust={} est={} -> feerate {}", amt, w, dust, est, rt)); }
			},
			Ok(None) => {},
			Err(p) => fails.push(format!("compute_package_output panicked amount={} w={} dust={} prev={} strat={} est={}: {}", amt, w, dust, prev, strat, est, p.split('\n').next().unwrap_or(""))),
		}
		rec.case(&format!("po {} {} {} {} {} {}", amt, w, dust, prev, strat, est), &res, &class, true);
	}
	// ---- (2) trajectories: the real functions iterated like OnchainTxHandler (`set_feerate(result)`) -------------------------
	let n_traj = if thorough { 60_000 } else { 3_000 } * scale;
	let mut kf1_seen = false;     // one concrete arithmetic input is enough
	for k in 0..n_traj {
		let kind = TRAJS[((k / 2) % 6) as usize];
		let mut e = Est::new(kind, rng);
		let len = rng.range(1, if thorough { 40 } else { 14 });
		let start: u64 = if rng.chance(2, 3) { 0 } else { rng.range(1, 60_000) };
		if k % 2 == 0 {
			let mut prev = start; let mut steps = vec![]; let mut got: Vec<u64> = vec![]; let mut bad = None;
			for i in 0..len {
				let est = if i == 0 { e.cur } else { e.next(rng) };
				let strat = match rng.below(8) { 0 => 0u8, 1 => 1, _ => 2 };
				steps.push(format!("{}:{}", strat, est));
				match real_pf(&params[1], prev, strat, est) {
					Ok(v) => { pf_oracle(&mut fails, prev, strat, est, v, &format!(" (step {} of trajectory {:?} [{}] from {})", i, kind, steps.join(" "), start));
						if let Some(last) = got.last() { if (v as u64) < *last && bad.is_none() { bad = Some((i, *last, v)); } }
						got.push(v as u64); prev = v as u64; },
					Err(p) => { fails.push(format!("compute_package_feerate panicked in trajectory {:?} [{}]: {}", kind, steps.join(" "), p.split('\n').next().unwrap_or(""))); break; },
				}
			}
			if let Some((i, a, b)) = bad { fails.push(format!("target feerate went DOWN from {} to {} at step {} of estimator trajectory {:?} [{}] (claim first stored feerate {})", a, b, i, kind, steps.join(" "), start)); }
			let res = if got.is_empty() { "-".to_string() } else { got.iter().map(|x| x.to_string()).collect::<Vec<_>>().join(" ") };
			rec.case(&format!("ext {} {}", start, steps.join(" ")), &res, &format!("ext:{:?}:{}", kind, if got.windows(2).all(|w| w[0] == w[1]) { "flat" } else { "raised" }), true);
		} else {
			let mut prev = start; let mut steps = vec![]; let mut got: Vec<u64> = vec![]; let mut all_w4 = true; let mut last_fee: Option<(u64, u64, u64)> = None;
			let base_amt = rng.range(3_000, 3_000_000); let base_w = rng.range(400, 3000);
			for i in 0..len {
				let est = if i == 0 { e.cur } else { e.next(rng) };
				let strat = match rng.below(8) { 0 => 0u8, 1 => 1, _ => 2 };
				// packages get split / merged between issues: amount and weight move
				let amt = if rng.chance(1, 5) { rng.range(600, base_amt) } else { base_amt };
				let w = if rng.chance(1, 5) { rng.range(300, 4000) } else if rng.chance(1, 40) { rng.range(1, 6) } else { base_w };
				let dust = *rng.pick(&[294u64, 330, 546]);
				if w < 4 { all_w4 = false; }
				steps.push(format!("{}:{}:{}:{}:{}", amt, w, dust, strat, est));
				match guarded(AssertUnwindSafe(|| vp::compute_package_output(amt, w, dust, prev, strat, ConstFee(est), &logger, &params[0]))) {
					Ok(Some((o, rt))) => {
						if o > dust {
							let fee = amt - o;
							if let Some((la, lw, lf)) = last_fee { if la == amt && lw == w && fee < lf {
								if lf - fee <= w / 1000 + 1 && strat != 2 && rt == prev { if !kf1_seen { kf1_seen = true; fails.push(format!("{}: {} -> {} sat at step {} of compute_package_output trajectory [{}] from stored feerate {}", KF1, lf, fee, i, steps.join(" "), start)); } }
								else { fails.push(format!("fee of a self-funded claim went DOWN from {} to {} sat (same inputs and weight) at step {} of [{}] from {}", lf, fee, i, steps.join(" "), start)); }
							} }
							last_fee = Some((amt, w, fee));
						} else { last_fee = None; }
						if let Some(last) = got.last() { if rt < *last && all_w4 { fails.push(format!("feerate of a self-funded claim went DOWN from {} to {} at step {} of [{}] from {}", last, rt, i, steps.join(" "), start)); } } got.push(rt); prev = rt; },
					Ok(None) => {},
					Err(p) => { fails.push(format!("compute_package_output panicked in trajectory [{}]: {}", steps.join(" "), p.split('\n').next().unwrap_or(""))); break; },
				}
			}
			let res = if got.is_empty() { "-".to_string() } else { got.iter().map(|x| x.to_string()).collect::<Vec<_>>().join(" ") };
			rec.case(&format!("own {} {}", start, steps.join(" ")), &res, &format!("own:{:?}:{}", kind, got.len().min(6)), true);
		}
	}
	rec.notes.insert("arith".into(), format!("{} compute_package_feerate calls (boundary grid: 14 estimates x ~50 previous feerates x 3 strategies, then PRNG), {} compute_package_output calls, {} trajectories of the real functions", n_pf, n_po, n_traj));
	// at most 3 concrete inputs per kind of failure (the end-to-end scenarios report theirs after these)
	let mut per_kind: BTreeMap<String, u32> = BTreeMap::new();
	for f in fails {
		let kind: String = f.chars().take_while(|c| !c.is_ascii_digit()).take(70).collect();
		let n = per_kind.entry(kind).or_insert(0); *n += 1;
		if *n <= 3 { rec.oracle_fail(f); }
	}
	for (k, n) in per_kind { if n > 3 { rec.notes.insert(format!("more:{}", k), format!("{} inputs in all", n)); } }
}

struct FeeOut { ops: Vec<(String, String, String)>, oracle: Vec<String>, class: String, events: u32, lowered_est_steps: u32, funded: u32, replacements: u32, double_bumps: u32, sig_noise: u32 }

/// one ANCHOR channel closed unilaterally by node `x`; both nodes follow the chain block by block while the fee estimator of
/// both follows a scripted trajectory.  `x` (closed by the HOLDER) yields BumpTransaction events; `y` (closed by its
/// COUNTERPARTY) issues self-funded claims.
fn fee_scenario(seed: u64, thorough: bool) -> Result<FeeOut, String> {
	let mut rng = Rng::new(seed);
	let mut out = FeeOut { ops: vec![], oracle: vec![], class: String::new(), events: 0, lowered_est_steps: 0, funded: 0, replacements: 0, double_bumps: 0, sig_noise: 0 };
	let hook_params = bump::synth_params(true);
	let kind = TRAJS[rng.below(5) as usize];       // Constant is covered by the other generators
	let mut est = Est::new(kind, &mut rng);
	let (cfg_0, cfg_1, d_0, d_1) = draw_cfgs(&mut rng, true);          // anchors_zero_fee_htlc_tx; per-node to_self_delay / reserve
	let mut net = std::mem::ManuallyDrop::new(Net::new(2, vec![Some(cfg_0), Some(cfg_1)]));
	let style = {
		use ConnectStyle::*;
		let styles = [BestBlockFirst, BestBlockFirstSkippingBlocks, BestBlockFirstReorgsOnlyTip, TransactionsFirst, TransactionsFirstSkippingBlocks,
			TransactionsDuplicativelyFirstSkippingBlocks, HighlyRedundantTransactionsFirstSkippingBlocks, TransactionsFirstReorgsOnlyTip, FullBlockViaListen,
			ReplayedFullBlockViaListen, FullBlockDisconnectionsSkippingViaListen];
		let st = styles[rng.below(styles.len() as u64) as usize];
		for i in 0..2 { *net.nodes[i].connect_style.borrow_mut() = st; }
		st
	};
	let reserve = provide_utxo_reserves(&net.nodes, 6, bitcoin::Amount::from_sat(20_000_000));
	let c = net.open(0, 1, 1_000_000, 400_000_000);
	let chan_id = net.chans[c].2;
	let x = rng.below(2) as usize; let y = 1 - x;
	// ---- HTLC mix: non-dust HTLCs in both directions, some preimages known to the receiver (fulfil not delivered) -----------
	let n_htlc = rng.range(1, if thorough { 6 } else { 4 });
	let mut pays = vec![];
	for _ in 0..n_htlc {
		let (p, q) = if rng.chance(1, 2) { (0, 1) } else { (1, 0) };
		if let Ok(pi) = net.send(&[p, q], &[c], rng.range(2_000_000, 30_000_000), 42 + rng.below(12) as u32) { pays.push(pi); }
		net.settle(40);
	}
	for &p in &pays { if rng.chance(1, 2) { net.claim(p); let to = net.pays[p].to; net.process_events(to); } }
	// ---- observation state ---------------------------------------------------------------------------------------------------------
	let fund_policy = rng.below(3);                 // 0 never, 1 always, 2 half of the events
	let lazy = rng.chance(1, 2);
	let commit_delay = rng.range(1, 7) as u32;      // the closing commitment confirms after this many blocks
	let mut prevouts: HashMap<OutPoint, TxOut> = HashMap::new();
	for (i, o) in reserve.output.iter().enumerate() { prevouts.insert(OutPoint { txid: reserve.compute_txid(), vout: i as u32 }, o.clone()); }
	for i in 0..2 { let blocks = net.nodes[i].blocks.lock().unwrap(); for (blk, _) in blocks.iter() { for t in &blk.txdata { let id = t.compute_txid(); for (k, o) in t.output.iter().enumerate() { prevouts.insert(OutPoint { txid: id, vout: k as u32 }, o.clone()); } } } }
	let mut confirmed: HashMap<Txid, u32> = HashMap::new();
	let mut spent: BTreeSet<OutPoint> = BTreeSet::new();
	let mut pool: Vec<(Transaction, usize)> = vec![];
	let mut last_target: BTreeMap<[u8; 32], u32> = BTreeMap::new();
	let mut history: BTreeMap<[u8; 32], Vec<String>> = BTreeMap::new();
	let mut last_funded: BTreeMap<[u8; 32], (Vec<OutPoint>, u64, u64)> = BTreeMap::new();      // claim -> (inputs, fee, weight) of the latest funded package
	let mut last_own: BTreeMap<Vec<OutPoint>, (u64, u64)> = BTreeMap::new();                    // y: inputs -> (fee, weight)
	let mut commitment: Option<Transaction> = None;
	let tag = format!("s{}", seed);      // C07_FEE_SEED=<this number> replays the scenario
	let desc = format!("anchor channel closed by the holder (node {}), connect style {:?}, estimator {:?}, our_to_self_delay {} / {}", x, style, kind, d_0, d_1);
	let set_est = |net: &Net, v: u32| { for i in 0..2 { *net.nodes[i].fee_estimator.sat_per_kw.lock().unwrap() = v; } };
	let fee_of_tx = |t: &Transaction, prevouts: &HashMap<OutPoint, TxOut>| -> Option<u64> { let mut inp = 0u64; for i in &t.input { inp += prevouts.get(&i.previous_output)?.value.to_sat(); } inp.checked_sub(t.output.iter().map(|o| o.value.to_sat()).sum::<u64>()) };
	// what node x's monitor yields after one call (`strat`: which FeerateStrategy that call uses for a claim issued before)
	macro_rules! collect_x { ($strat:expr, $cur_est:expr) => {{
		let h = net.nodes[x].best_block_info().1;
		for e in net.nodes[x].chain_monitor.chain_monitor.get_and_clear_pending_events() {
			if let Event::BumpTransaction(ev) = e {
				let (cid, target, what, n_in) = match &ev {
					BumpTransactionEvent::ChannelClose { claim_id, package_target_feerate_sat_per_1000_weight, commitment_tx, .. } => {
						let id = commitment_tx.compute_txid();
						for (k, o) in commitment_tx.output.iter().enumerate() { prevouts.insert(OutPoint { txid: id, vout: k as u32 }, o.clone()); }
						if commitment.is_none() { commitment = Some(commitment_tx.clone()); }
						(claim_id.0, *package_target_feerate_sat_per_1000_weight, "commitment", 1usize) },
					BumpTransactionEvent::HTLCResolution { claim_id, target_feerate_sat_per_1000_weight, htlc_descriptors, .. } => (claim_id.0, *target_feerate_sat_per_1000_weight, "htlc", htlc_descriptors.len()),
				};
				out.events += 1;
				let prev = last_target.get(&cid).cloned().unwrap_or(0);
				let strat: u8 = $strat;
				let hist = history.entry(cid).or_default();
				hist.push(format!("h{} est={} {}->{}", h, $cur_est, ["retry", "highest", "force"][strat as usize], target));
				if target < prev {
					out.oracle.push(format!("target feerate of {} claim {} went DOWN from {} to {} sat/kW ({}; estimator now {}; history of this claim: {})", what, hex(&cid[..4]), prev, target, desc, $cur_est, hist.join(", ")));
				}
				if prev != 0 && ($cur_est as u64).max(253) < prev as u64 { out.lowered_est_steps += 1; }
				// Events of one claim id replace each other in the monitor's queue, and one block can run generate_claim twice for a claim
				// (its timer fires in best_block_updated AND a confirmed transaction touches / creates the package in
				// transactions_confirmed, in either order): explain the observed target by ONE call, else by TWO successive
				// calls of the real compute_package_feerate (the second a ForceBump) — the model then has to agree with both.
				let cls = format!("e2e:{}:{}", what, if prev == 0 { "first".to_string() } else { format!("{}:{}", ["retry", "highest", "force"][strat as usize], if target == prev { "kept" } else { "raised" }) });
				let one = real_pf(&hook_params, prev as u64, strat, $cur_est).ok();
				let two = one.and_then(|r1| real_pf(&hook_params, r1 as u64, 2, $cur_est).ok().map(|r2| (r1, r2)));
				match (one, two) {
					(Some(r1), Some((_, r2))) if r1 != target && r2 == target && $strat == 2 => {
						out.double_bumps += 1;
						out.ops.push((format!("ext {} {}:{} 2:{} {}", prev, strat, $cur_est, $cur_est, tag), format!("{} {}", r1, target), format!("{}:twice-in-one-block", cls)));
					},
					_ => out.ops.push((format!("pf {} {} {} {}", prev, strat, $cur_est, tag), target.to_string(), cls)),
				}
				last_target.insert(cid, target);
				let fund = match fund_policy { 0 => false, 1 => true, _ => rng.chance(1, 2) };
				if fund {
					let before = net.nodes[x].tx_broadcaster.txn_broadcasted.lock().unwrap().len();
					if let Err(p) = guarded(AssertUnwindSafe(|| net.nodes[x].bump_tx_handler.handle_event(&ev))) { out.oracle.push(format!("BumpTransactionEventHandler panicked on a {} event ({}): {}", what, desc, p.replace('\n', " ").chars().take(200).collect::<String>())); }
					let txs: Vec<Transaction> = net.nodes[x].tx_broadcaster.txn_broadcasted.lock().unwrap().drain(before..).collect();
					if !txs.is_empty() {
						out.funded += 1;
						for t in &txs { let id = t.compute_txid(); for (k, o) in t.output.iter().enumerate() { prevouts.insert(OutPoint { txid: id, vout: k as u32 }, o.clone()); } }
						let mut fee = 0u64; let mut weight = 0u64; let mut known = true; let mut ins: Vec<OutPoint> = vec![];
						for t in &txs {
							match fee_of_tx(t, &prevouts) { Some(f) => fee += f, None => known = false }
							weight += t.weight().to_wu();
							for i in &t.input { ins.push(i.previous_output); }
							if known { if let Err(e) = t.verify(|op| prevouts.get(op).cloned()) { out.oracle.push(format!("funded {} transaction {} fails consensus verification: {:?} ({})", what, t.compute_txid(), e, desc)); } }
						}
						ins.sort();
						if known {
							if let Some((pins, pfee, pweight)) = last_funded.get(&cid) {
								out.replacements += 1;
								let (rate, prate) = (fee * 1000 / weight, pfee * 1000 / pweight);
								// the handler sets fee = target x SIGNED weight: ECDSA signatures vary by a byte or two, so a re-issue at an
								// unchanged target may pay a few sat less (counted, not a failure); anything beyond 4 WU of noise is one
								let noise = 4 * prate / 1000 + 2;
								if *pins == ins && fee < *pfee && fee + noise >= *pfee { out.sig_noise += 1; }
								if *pins == ins && fee + noise < *pfee { out.oracle.push(format!("replacement of {} claim {} pays LESS fee than the transaction it replaces: {} -> {} sat, same inputs (targets {}; {})", what, hex(&cid[..4]), pfee, fee, hist.join(", "), desc)); }
								else if rate * 100 < prate * 99 { out.oracle.push(format!("replacement of {} claim {} pays a LOWER feerate than the transaction it replaces: {} -> {} sat/kW (fee {} -> {}, weight {} -> {}; targets {}; {})", what, hex(&cid[..4]), prate, rate, pfee, fee, pweight, weight, hist.join(", "), desc)); }
							}
							// the funded package is meant to reach the target it was told (4 WU of signature-size noise)
							if (fee + 4 * target as u64 / 1000 + 2) * 1000 / weight < target as u64 { out.oracle.push(format!("funded {} package of claim {} pays {} sat/kW (fee {} over weight {}), below its target {} sat/kW ({})", what, hex(&cid[..4]), fee * 1000 / weight, fee, weight, target, desc)); }
							last_funded.insert(cid, (ins, fee, weight));
						}
						let _ = n_in;
						for t in txs { pool.push((t, x)); }
					}
				}
			}
		}
	}}; }
	// what node y (and x, for its non-event claims) broadcast on its own
	macro_rules! collect_bcast { ($strat:expr) => {{
		for i in 0..2 {
			let v: Vec<Transaction> = net.nodes[i].tx_broadcaster.txn_broadcasted.lock().unwrap().drain(..).collect();
			for t in v {
				let id = t.compute_txid();
				for (k, o) in t.output.iter().enumerate() { prevouts.insert(OutPoint { txid: id, vout: k as u32 }, o.clone()); }
				if i == y {
					if let Some(f) = fee_of_tx(&t, &prevouts) {
						if let Err(e) = t.verify(|op| prevouts.get(op).cloned()) { out.oracle.push(format!("claim {} of the node closed on by its counterparty fails consensus verification: {:?} ({})", id, e, desc)); }
						let mut key: Vec<OutPoint> = t.input.iter().map(|q| q.previous_output).collect(); key.sort();
						let w = t.weight().to_wu();
						if let Some((pf, pw)) = last_own.get(&key) {
							out.replacements += 1;
							if f < *pf {
								if *pf - f <= w.max(*pw) / 1000 + 2 /* signed weights; the fee is computed from the slightly larger PREDICTED weight */ && $strat != 2u8 { out.oracle.push(format!("{}: {} -> {} sat at weight {} (real claim of the node closed on by its counterparty; {}; estimator now {})", KF1, pf, f, w, desc, est.cur)); }
								else { out.oracle.push(format!("self-funded claim re-issued with LESS fee than the transaction it replaces: {} -> {} sat, weight {} -> {} ({}; estimator now {})", pf, f, pw, w, desc, est.cur)); }
							}
							else if f * 1000 / w * 100 < pf * 1000 / pw * 99 { out.oracle.push(format!("self-funded claim re-issued at a LOWER feerate than the transaction it replaces: {} -> {} sat/kW ({})", pf * 1000 / pw, f * 1000 / w, desc)); }
						}
						last_own.insert(key, (f, w));
					}
				}
				pool.push((t, i));
			}
		}
	}}; }
	// ---- closure ----------------------------------------------------------------------------------------------------------------------
	for i in 0..2 { net.nodes[i].tx_broadcaster.txn_broadcasted.lock().unwrap().clear(); let _ = net.nodes[i].chain_monitor.chain_monitor.get_and_clear_pending_events(); }
	set_est(&net, est.cur);
	net.nodes[x].node.force_close_broadcasting_latest_txn(&chan_id, &net.ids[y], "verif".to_string()).map_err(|e| format!("force close: {:?}", e))?;
	collect_x!(2, est.cur);
	collect_bcast!(2u8);
	if commitment.is_none() { return Err("no ChannelClose event after the force close".into()); }
	let drain = |net: &Net| { for i in 0..2 { let _ = net.nodes[i].node.get_and_clear_pending_msg_events(); let _ = net.nodes[i].node.get_and_clear_pending_events(); net.nodes[i].chain_monitor.added_monitors.lock().unwrap().clear(); } };
	let rounds = if thorough { 110 } else { 95 };
	let mut commit_conf: Option<u32> = None;
	for round in 0..rounds {
		// between blocks: rebroadcast_pending_claims (HighestOfPreviousOrNew) / signer_unblocked (RetryPrevious), possibly after the estimator moved
		if rng.chance(1, 5) {
			if rng.chance(1, 2) { let v = est.next(&mut rng); set_est(&net, v); }
			if rng.chance(3, 4) { for i in 0..2 { net.nodes[i].chain_monitor.chain_monitor.rebroadcast_pending_claims(); } collect_x!(1, est.cur); collect_bcast!(1u8); }
			else { for i in 0..2 { net.nodes[i].chain_monitor.chain_monitor.signer_unblocked(None); } collect_x!(0, est.cur); collect_bcast!(0u8); }
		}
		let v = est.next(&mut rng); set_est(&net, v);
		let h = net.nodes[x].best_block_info().1;
		// ---- the next block: latest versions first, parents before children ---------------------------------------------------------
		let mut block: Vec<Transaction> = vec![];
		let mut taken: BTreeSet<OutPoint> = BTreeSet::new();
		let mut in_block: BTreeSet<Txid> = BTreeSet::new();
		let want_commit = commit_conf.is_none() && round + 1 >= commit_delay;
		let cands: Vec<(Transaction, usize)> = pool.iter().rev().cloned().collect();
		for (t, who) in cands.iter() {
			let id = t.compute_txid();
			if confirmed.contains_key(&id) || in_block.contains(&id) { continue; }
			let is_commit = commitment.as_ref().map(|c| c.compute_txid() == id).unwrap_or(false);
			let spends_commit_unconf = commit_conf.is_none() && commitment.as_ref().map(|c| t.input.iter().any(|i| i.previous_output.txid == c.compute_txid())).unwrap_or(false);
			if (is_commit || spends_commit_unconf) && !want_commit { continue; }
			if !is_commit && !spends_commit_unconf { let p = if lazy { (1, 9) } else { (1, 3) }; if !rng.chance(p.0, p.1) { continue; } }
			let _ = who;
			// parents that are not confirmed yet must come along (only the commitment can be one)
			let mut group: Vec<Transaction> = vec![];
			let mut ok = true;
			for i in &t.input {
				let ptx = i.previous_output.txid;
				if confirmed.contains_key(&ptx) || in_block.contains(&ptx) || group.iter().any(|g| g.compute_txid() == ptx) { continue; }
				match (commitment.as_ref(), prevouts.contains_key(&i.previous_output)) {
					(Some(cm), _) if cm.compute_txid() == ptx => group.push(cm.clone()),
					(_, true) if !pool.iter().any(|(q, _)| q.compute_txid() == ptx) => {},   // confirmed long ago (funding, wallet reserve)
					_ => { ok = false; }
				}
			}
			group.push(t.clone());
			if !ok { continue; }
			let mut tk = taken.clone();
			for g in &group {
				if !g.input.iter().all(|i| prevouts.contains_key(&i.previous_output) && !spent.contains(&i.previous_output) && tk.insert(i.previous_output)) { ok = false; }
				if g.lock_time.is_block_height() && g.lock_time.to_consensus_u32() > h { ok = false; }
				for i in &g.input { if let Some(bitcoin::relative::LockTime::Blocks(n)) = i.sequence.to_relative_lock_time() { match confirmed.get(&i.previous_output.txid) { Some(ph) => if h + 1 < ph + n.value() as u32 { ok = false; }, None => if n.value() > 0 && g.version.0 >= 2 { ok = false; } } } }
				if g.verify(|op| prevouts.get(op).cloned()).is_err() { ok = false; }
			}
			if !ok { continue; }
			taken = tk;
			for g in group { in_block.insert(g.compute_txid()); block.push(g); }
		}
		if want_commit && !block.iter().any(|t| Some(t.compute_txid()) == commitment.as_ref().map(|c| c.compute_txid())) {
			let cm = commitment.clone().unwrap();
			if cm.input.iter().all(|i| !spent.contains(&i.previous_output) && !taken.contains(&i.previous_output)) { for i in &cm.input { taken.insert(i.previous_output); } block.insert(0, cm); }
		}
		for t in &block { let id = t.compute_txid(); confirmed.insert(id, h + 1); for i in &t.input { spent.insert(i.previous_output); } if Some(id) == commitment.as_ref().map(|c| c.compute_txid()) { commit_conf = Some(h + 1); } }
		for i in 0..2 { let refs: Vec<&Transaction> = block.iter().collect(); if refs.is_empty() { connect_blocks(&net.nodes[i], 1); } else { mine_transactions(&net.nodes[i], &refs); } }
		drain(&net);
		collect_x!(2, est.cur);
		collect_bcast!(2u8);
		let _ = net.nodes[y].chain_monitor.chain_monitor.get_and_clear_pending_events();
	}
	let n_claims = last_target.len();
	out.class = format!("fee:{:?}:fund{}:claims{}", kind, fund_policy, n_claims.min(4));
	drain(&net);
	Ok(out)
}

fn run_fee(rec: &mut Rec, rng: &mut Rng, thorough: bool, scale: u64) {
	if let Ok(sd) = std::env::var("C07_FEE_SEED") {
		// replay of ONE end-to-end scenario: C07_FEE_SEED=<seed printed in the oracle message> target/debug/c07 c07fee --out <dir>
		silence_stdout();
		match fee_scenario(sd.parse().expect("C07_FEE_SEED"), thorough) {
			Ok(o) => { for (op, res, cl) in &o.ops { eprintln!("{}  ->  {}   [{}]", op, res, cl); rec.case(op, res, cl, true); } for f in o.oracle { eprintln!("ORACLE {}", f); rec.oracle_fail(f); } },
			Err(e) => eprintln!("discarded: {}", e),
		}
		return;
	}
	run_fee_arith(rec, rng, thorough, scale);
	silence_stdout();
	let n = if thorough { 4000 } else { 300 } * scale;
	let (mut events, mut lowered, mut funded, mut repl, mut doubles, mut noise) = (0u64, 0u64, 0u64, 0u64, 0u64, 0u64);
	let mut by_traj: BTreeMap<String, u64> = BTreeMap::new();
	let mut kf1 = 0u64;
	for k in 0..n {
		let s = rng.next();
		match guarded(AssertUnwindSafe(|| fee_scenario(s, thorough))) {
			Ok(Ok(o)) => {
				*rec.classes.entry(o.class.clone()).or_insert(0) += 1;
				*by_traj.entry(o.class.split(':').nth(1).unwrap_or("").to_string()).or_insert(0) += 1;
				events += o.events as u64; lowered += o.lowered_est_steps as u64; funded += o.funded as u64; repl += o.replacements as u64; doubles += o.double_bumps as u64; noise += o.sig_noise as u64;
				for (op, res, cl) in &o.ops { rec.case(op, res, cl, true); }
				for f in o.oracle {
					if f.starts_with(KF1) { kf1 += 1; if kf1 > 3 { continue; } }      // the known rounding finding: three concrete scenarios are enough
					rec.oracle_fail(format!("fee scenario {} (seed {}): {}", k, s, f));
				}
			},
			Ok(Err(e)) => { rec.discarded += 1; *rec.classes.entry(format!("discarded:{}", e.chars().take(40).collect::<String>())).or_insert(0) += 1; },
			Err(p) => rec.oracle_fail(format!("fee scenario {} (seed {}) panicked: {}", k, s, p.replace('\n', " ").chars().take(300).collect::<String>())),
		}
	}
	rec.notes.insert("e2e".into(), format!("{} anchor channels closed unilaterally (each: the closer = holder-side externally funded claims, the other node = counterparty-side self-funded claims), estimator trajectories {:?}; {} BumpTransaction events followed per claim id, {} of them re-issues while the estimate was BELOW the previous target, {} events funded through BumpTransactionEventHandler, {} replacement transactions compared with what they replace ({} re-issues at an unchanged target paid a few sat less within ECDSA signature-size noise); {} events explained by two generate_claim calls in one block", n, by_traj, events, lowered, funded, repl, noise, doubles));
	rec.notes.insert("kf-c07-1".into(), format!("{} re-broadcasts of a real self-funded claim paid 1..weight/1000+1 sat less than the transaction they re-issue (first 3 reported)", kf1));
	rec.notes.insert("rule".into(), "boundary grid + PRNG tuples through the real compute_package_feerate / compute_package_output; the real functions iterated over scripted estimator trajectories (falling, rising, oscillating, random walk, spike-then-crash, constant) with mixed strategies; real anchor channels closed unilaterally with the estimator moving between blocks, every BumpTransaction event = one compared op (target feerate given the claim's previous target, the strategy of the call and the estimate in force); distinct by op text (e2e ops carry the scenario tag)".into());
}

fn main() {
	let args = &parse_args("c07bump");
	let mut rec = Rec::new(&args.out, &args.model);
	let mut rng = Rng::new(args.seed);
	match args.model.as_str() {
		"c07bump" => bump::run_bump(&mut rec, &mut rng, args.thorough, args.scale),
		"c07fee" => run_fee(&mut rec, &mut rng, args.thorough, args.scale),
		"c07close" => {
			silence_stdout();
			if let Ok(sd) = std::env::var("C07_CLOSE_SEED") {
				// replay of ONE scenario: C07_CLOSE_SEED=<seed printed in the oracle message> target/debug/c07 c07close --out <dir>
				std::panic::set_hook(Box::new(|i| eprintln!("PANIC {}\n{}", i, std::backtrace::Backtrace::force_capture())));
				match close_scenario(sd.parse().expect("C07_CLOSE_SEED"), args.thorough) {
					Ok(o) => { for (op, res, cl) in &o.ops { if cl != "block:quiet" { eprintln!("{}  ->  {}   [{}]", op, res, cl); } if res == "-" && cl == "claim" { rec.directive(op); } else { rec.case(op, res, cl, true); } } for f in o.oracle { eprintln!("ORACLE {}", f); rec.oracle_fail(f); } },
					Err(e) => eprintln!("discarded: {}", e),
				}
				rec.finish();
				return;
			}
			let n = if args.thorough { 2000 } else { 400 } * args.scale;
			let mut kf_c11_2 = 0u32;
			let mut kf_c11_2_example: Option<u64> = None;
			std::panic::set_hook(Box::new(|i| { if let Ok(mut l) = LAST_PANIC_LOCATION.lock() { *l = i.location().map(|x| format!("{}:{}", x.file(), x.line())).unwrap_or_default(); } }));
			for k in 0..n {
				let s = rng.next();
				match guarded(AssertUnwindSafe(|| close_scenario(s, args.thorough))) {
					Ok(Ok(o)) => {
						*rec.classes.entry(o.class.clone()).or_insert(0) += 1;
						for part in o.est_kind.split(';') { *rec.classes.entry(format!("close-{}", part.trim_start_matches("close-"))).or_insert(0) += 1; }
						for (op, res, cl) in &o.ops { if res == "-" && cl == "claim" { rec.directive(op); } else { rec.case(&format!("{}", op), res, cl, cl != "block:quiet"); } }
						for f in o.oracle { rec.oracle_fail(format!("scenario {} (seed {}): {}", k, s, f)); }
					},
					Ok(Err(e)) => { rec.discarded += 1; *rec.classes.entry(format!("discarded:{}", e.chars().take(40).collect::<String>())).or_insert(0) += 1; },
					Err(p) => {
							// EXACTLY the debug-only assertion of OnchainTxHandler::update_claims_view_from_requests (chain/onchaintx.rs) about a second package with
							// the same ClaimId (mechanism: KF-C11-2, here reached without a reorg: a late preimage on an ANCHOR holder commitment re-requests
							// HTLC-timeout claims that sit aggregated in locktimed_packages; a release build overwrites the first request with the identical
							// second one and still claims): an OBSERVATION class — the scenario is counted and discarded from that point (the monitor's lock is
							// poisoned by the unwind).  Any other panic is a failure.
							let loc = LAST_PANIC_LOCATION.lock().map(|l| l.clone()).unwrap_or_default();
							if p.contains("self.pending_claim_requests.get(&claim_id).is_none()") && loc.contains("chain/onchaintx.rs") {
								kf_c11_2 += 1; rec.discarded += 1;
								if kf_c11_2_example.is_none() { kf_c11_2_example = Some(s); }
								*rec.classes.entry("obs:duplicate-timelocked-package-debug-assert".to_string()).or_insert(0) += 1;
							} else { rec.oracle_fail(format!("scenario {} (seed {}) panicked at {}: {}", k, s, loc, p.replace('\n', " ").chars().take(300).collect::<String>())) }
						},
				}
			}
			rec.notes.insert("obs:duplicate-timelocked-package-debug-assert".into(), format!("{} scenarios were discarded at the debug-only assertion `pending_claim_requests.get(&claim_id).is_none()` of chain/onchaintx.rs (mechanism of KF-C11-2 reached without a reorg: anchor holder close, >= 2 outbound HTLCs of one expiry aggregated in locktimed_packages, preimage learned after the close); example: C07_CLOSE_SEED={}", kf_c11_2, kf_c11_2_example.map(|x| x.to_string()).unwrap_or("-".into())));
			rec.notes.insert("rule".into(), "one scenario = one real 2-node channel closed by A's or by the counterparty's latest commitment (legacy or anchors, per-node to_self_delay / reserve) with a PRNG-drawn pending-HTLC mix incl. multi-part payments over the one channel (several outputs with one payment hash), preimages known before the close / learned k blocks after it / never; counterparty closes use B's latest commitment, which is A's CURRENT or (A signed a newer one B never received: an undelivered update_add / update_fulfill) A's PREVIOUS unrevoked counterparty commitment; every block is one compared op (A's real get_claimable_balances vs the ledger); holder closes compare the pre-confirmation view (`preclose`); `release` = the height of A's first broadcast of a timeout claim vs requestIssueHeight; `reissue` = a re-issue is never earlier than the bump timer; distinct non-trivial = close / totals / preclose / release lines and blocks that contain transactions".into());
		},
		m => { eprintln!("unknown model {}", m); std::process::exit(2); },
	}
	rec.finish();
}
