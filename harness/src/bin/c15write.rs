//! C15, model `c15write`: the OUTBOUND path of one real `PeerManager` (enqueue_message,
//! do_attempt_write_data, write_buffer_space_avail, timer_tick_occurred, the gossip-broadcast queue and its
//! size limit) driven through a SCRIPTED `SocketDescriptor`: every `send_data` call accepts the next
//! scripted byte count; every (offered length, accepted, resume_read) triple and, after every entry-point
//! call, the whole outbound state of the peer (hook `PeerManager::verif_outbound_state`) is compared with
//! Model/PeerWrite.lean step by step.  The harness is the remote peer (it speaks through the real
//! `PeerChannelEncryptor`), so it also decrypts what the node wrote: implementation-side oracle
//! "the bytes accepted by the socket decrypt to exactly the queued message sequence".
use ldk_verif_harness::common::*;
use bitcoin::constants::ChainHash;
use bitcoin::secp256k1::{Message as SecpMessage, PublicKey, Secp256k1, SecretKey};
use bitcoin::Network;
use lightning::io;
use lightning::ln::msgs::{self, BaseMessageHandler, DecodeError, Init, LightningError, MessageSendEvent, SendOnlyMessageHandler};
use lightning::ln::peer_handler::{CustomMessageHandler, ErroringMessageHandler, IgnoringMessageHandler, MessageHandler, PeerManager, SocketDescriptor, VerifOutboundState};
use lightning::ln::verif_hooks::noise::Enc;
use lightning::ln::wire::{CustomMessageReader, Type};
use lightning::types::features::{InitFeatures, NodeFeatures};
use lightning::util::ser::{LengthLimitedRead, Writeable, Writer};
use lightning::util::test_utils::TestNodeSigner;
use std::collections::VecDeque;
use std::panic::AssertUnwindSafe;
use std::sync::{Arc, Mutex};

type Secp = Secp256k1<bitcoin::secp256k1::All>;

#[derive(Debug, Clone, PartialEq)]
struct Raw { ty: u16, data: Vec<u8> }
impl Writeable for Raw { fn write<W: Writer>(&self, w: &mut W) -> Result<(), io::Error> { w.write_all(&self.data) } }
impl Type for Raw { fn type_id(&self) -> u16 { self.ty } }

struct Handler { outq: Mutex<Vec<(PublicKey, Raw)>> }
impl CustomMessageReader for Handler {
	type CustomMessage = Raw;
	fn read<R: LengthLimitedRead>(&self, ty: u16, buffer: &mut R) -> Result<Option<Raw>, DecodeError> {
		if ty < 32768 { return Ok(None); }
		let mut data = vec![0u8; buffer.remaining_bytes() as usize];
		buffer.read_exact(&mut data).map_err(|_| DecodeError::ShortRead)?;
		Ok(Some(Raw { ty, data }))
	}
}
impl CustomMessageHandler for Handler {
	fn handle_custom_message(&self, _msg: Raw, _from: PublicKey) -> Result<(), LightningError> { Ok(()) }
	fn get_and_clear_pending_msg(&self) -> Vec<(PublicKey, Raw)> { std::mem::take(&mut *self.outq.lock().unwrap()) }
	fn peer_disconnected(&self, _: PublicKey) {}
	fn peer_connected(&self, _: PublicKey, _: &Init, _: bool) -> Result<(), ()> { Ok(()) }
	fn provided_node_features(&self) -> NodeFeatures { NodeFeatures::empty() }
	fn provided_init_features(&self, _: PublicKey) -> InitFeatures { InitFeatures::empty() }
}

/// the send-only handler: a place to queue `MessageSendEvent::BroadcastChannelUpdate` (handled with
/// `allow_large_buffer = false`, so the buffer-size limit of forward_broadcast_msg applies)
struct SendOnly { q: Mutex<Vec<MessageSendEvent>> }
impl BaseMessageHandler for SendOnly {
	fn get_and_clear_pending_msg_events(&self) -> Vec<MessageSendEvent> { std::mem::take(&mut *self.q.lock().unwrap()) }
	fn peer_disconnected(&self, _: PublicKey) {}
	fn provided_node_features(&self) -> NodeFeatures { NodeFeatures::empty() }
	fn provided_init_features(&self, _: PublicKey) -> InitFeatures { InitFeatures::empty() }
	fn peer_connected(&self, _: PublicKey, _: &Init, _: bool) -> Result<(), ()> { Ok(()) }
}
impl SendOnlyMessageHandler for SendOnly {}

#[derive(Default)]
struct Sock {
	/// scripted accept counts for the successive non-empty send_data calls (exhausted => 0)
	script: VecDeque<usize>,
	accept_all: bool,
	calls: Vec<(usize, usize, bool)>,
	out: Vec<u8>,
	disconnected: bool,
}
#[derive(Clone)]
struct Desc { id: u64, s: Arc<Mutex<Sock>> }
impl PartialEq for Desc { fn eq(&self, o: &Desc) -> bool { self.id == o.id } }
impl Eq for Desc {}
impl std::hash::Hash for Desc { fn hash<H: std::hash::Hasher>(&self, h: &mut H) { self.id.hash(h) } }
impl SocketDescriptor for Desc {
	fn send_data(&mut self, data: &[u8], continue_read: bool) -> usize {
		let mut s = self.s.lock().unwrap();
		if data.is_empty() { s.calls.push((0, 0, continue_read)); return 0; }
		let n = if s.accept_all { data.len() } else { s.script.pop_front().unwrap_or(0).min(data.len()) };
		s.calls.push((data.len(), n, continue_read));
		s.out.extend(&data[..n]);
		n
	}
	fn disconnect_socket(&mut self) { self.s.lock().unwrap().disconnected = true; }
}

type PM = PeerManager<Desc, &'static ErroringMessageHandler, &'static IgnoringMessageHandler, &'static IgnoringMessageHandler, &'static NullLogger, &'static Handler, &'static TestNodeSigner, &'static SendOnly>;
fn leak<T>(x: T) -> &'static T { Box::leak(Box::new(x)) }
fn rand_sk(rng: &mut Rng) -> SecretKey { loop { if let Ok(k) = SecretKey::from_slice(&rng.bytes32()) { return k; } } }
fn gen_payload(len: usize, seed: u64) -> Vec<u8> { (0..len).map(|i| (seed as usize + i * 31 + i / 256) as u8).collect() }
fn b01(b: bool) -> &'static str { if b { "1" } else { "0" } }
fn csv(v: &[usize]) -> String { if v.is_empty() { "-".into() } else { v.iter().map(|c| c.to_string()).collect::<Vec<_>>().join(",") } }

struct Sess { pm: PM, h: &'static Handler, so: &'static SendOnly, node_id: PublicKey, me: PublicKey, enc: Enc, d: Desc, their_init: Vec<u8>, dec_pos: usize, decoded: Vec<Vec<u8>>, pending_len: Option<usize> }

fn connect(rng: &mut Rng, secp: &Secp, harness_initiates: bool) -> Result<Sess, String> {
	let h = leak(Handler { outq: Mutex::new(vec![]) });
	let so = leak(SendOnly { q: Mutex::new(vec![]) });
	let mh = MessageHandler { chan_handler: leak(ErroringMessageHandler::new()), route_handler: leak(IgnoringMessageHandler {}), onion_message_handler: leak(IgnoringMessageHandler {}), custom_message_handler: h, send_only_message_handler: so };
	let secret = rand_sk(rng);
	let node_id = PublicKey::from_secret_key(secp, &secret);
	let pm: PM = PeerManager::new(mh, 0, &rng.bytes32(), leak(NullLogger), leak(TestNodeSigner::new(secret)));
	let my = rand_sk(rng);
	let me = PublicKey::from_secret_key(secp, &my);
	let signer = TestNodeSigner::new(my);
	let mut d = Desc { id: 7, s: Arc::new(Mutex::new(Sock::default())) };
	d.s.lock().unwrap().accept_all = true;
	let take = |d: &Desc, n: usize| -> Result<Vec<u8>, String> { let mut s = d.s.lock().unwrap(); if s.out.len() < n { return Err(format!("node wrote {} bytes, {} expected", s.out.len(), n)); } Ok(s.out.drain(..n).collect()) };
	let mut enc;
	if harness_initiates {
		enc = Enc::new_outbound(node_id, rand_sk(rng));
		let act1 = enc.get_act_one(secp);
		pm.new_inbound_connection(d.clone(), None).map_err(|_| "inbound")?;
		pm.read_event(&mut d, &act1).map_err(|_| "act1 rejected")?;
		pm.process_events();
		let act2 = take(&d, 50)?;
		let (act3, _) = enc.process_act_two(&act2, &&signer).map_err(|_| "act2 rejected")?;
		pm.read_event(&mut d, &act3).map_err(|_| "act3 rejected")?;
	} else {
		enc = Enc::new_inbound(&&signer);
		let act1 = pm.new_outbound_connection(me, d.clone(), None).map_err(|_| "outbound")?;
		let act2 = enc.process_act_one_with_keys(&act1, &&signer, rand_sk(rng), secp).map_err(|_| "act1 rejected")?;
		pm.read_event(&mut d, &act2).map_err(|_| "act2 rejected")?;
		pm.process_events();
		let act3 = take(&d, 66)?;
		enc.process_act_three(&act3).map_err(|_| "act3 rejected")?;
	}
	pm.process_events();
	let mut s = Sess { pm, h, so, node_id, me, enc, d, their_init: vec![], dec_pos: 0, decoded: vec![], pending_len: None };
	s.decode_more()?;
	if s.decoded.len() != 1 || s.decoded[0].len() < 2 || s.decoded[0][..2] != [0, 16] { return Err("first message of the node is not Init".into()); }
	s.their_init = s.decoded[0].clone();
	s.decoded.clear();
	// our Init (an echo of theirs: identical features are compatible) completes the node's handshake
	let init = s.their_init.clone();
	s.feed(&init)?;
	s.pm.process_events();
	Ok(s)
}

impl Sess {
	/// decrypt every complete frame the socket has accepted so far
	fn decode_more(&mut self) -> Result<(), String> {
		loop {
			let out = self.d.s.lock().unwrap().out[self.dec_pos..].to_vec();
			if out.len() < 18 { return Ok(()); }
			// decrypting a header advances the nonce: do it once per frame and remember the body length
			let len = match self.pending_len { Some(l) => l, None => { let l = self.enc.decrypt_length_header(&out[..18]).map_err(|_| format!("the node's output does not decrypt (length header of frame #{} at stream offset {})", self.decoded.len(), self.dec_pos))? as usize; self.pending_len = Some(l); l } };
			if out.len() < 18 + len + 16 { return Ok(()); }
			let mut body = out[18..18 + len + 16].to_vec();
			self.enc.decrypt_message(&mut body).map_err(|_| format!("the node's output does not decrypt (body of frame #{} at stream offset {})", self.decoded.len(), self.dec_pos))?;
			body.truncate(len);
			self.decoded.push(body);
			self.dec_pos += 18 + len + 16;
			self.pending_len = None;
		}
	}
	fn feed(&mut self, plain: &[u8]) -> Result<(), String> {
		let f = self.enc.encrypt_buffer(plain).map_err(|_| "encrypt")?;
		self.pm.read_event(&mut self.d, &f).map_err(|_| "the node dropped the connection on a well-formed message".to_string())
	}
	fn state(&self) -> Option<VerifOutboundState> { self.pm.verif_outbound_state(&self.d) }
}

fn state_str(st: &VerifOutboundState) -> String {
	format!("q={} off={} g={} aw={} sp={} m={} t={} rv={}", csv(&st.queue_lens), st.first_msg_offset, st.gossip_caps.len(), b01(st.awaiting_write_event), b01(st.sent_pause_read), st.msgs_sent_since_pong, st.awaiting_pong_timer_tick_intervals, b01(st.received_message_since_timer_tick))
}
fn calls_str(c: &[(usize, usize, bool)]) -> String { if c.is_empty() { "-".into() } else { c.iter().map(|(o, a, r)| format!("{}:{}:{}", o, a, b01(*r))).collect::<Vec<_>>().join(";") } }

fn rand_script(rng: &mut Rng) -> (String, Vec<usize>, bool) {
	match rng.below(12) {
		0 => ("*".into(), vec![], true),
		1 => ("-".into(), vec![], false),
		_ => {
			let n = rng.range(1, 20) as usize;
			let style = rng.below(4);
			let v: Vec<usize> = (0..n).map(|_| match (style, rng.below(10)) {
				(0, _) | (_, 0) | (_, 1) => [0usize, 0, 1, 2, 17, 18, 19, 33, 34, 35][rng.below(10) as usize],
				(1, _) | (_, 2..=4) => rng.range(1, 400) as usize,
				(2, _) | (_, 5 | 6) => rng.range(1, 70000) as usize,
				_ => 1 << 20,
			}).collect();
			(csv(&v), v, false)
		},
	}
}

fn chan_update(secp: &Secp, node_id: PublicKey, me: PublicKey, excess: usize, scid: u64) -> msgs::ChannelUpdate {
	let sk = SecretKey::from_slice(&[3u8; 32]).unwrap();
	let sig = secp.sign_ecdsa(&SecpMessage::from_digest([5u8; 32]), &sk);
	let _ = (node_id, me);
	msgs::ChannelUpdate { signature: sig, contents: msgs::UnsignedChannelUpdate { chain_hash: ChainHash::using_genesis_block(Network::Testnet), short_channel_id: scid, timestamp: 1, message_flags: 1, channel_flags: 0, cltv_expiry_delta: 40, htlc_minimum_msat: 1, htlc_maximum_msat: 1000, fee_base_msat: 1, fee_proportional_millionths: 1, excess_data: vec![7u8; excess] } }
}

fn scenario(rec: &mut Rec, rng: &mut Rng, secp: &Secp, n_ops: usize, style: u64) {
	let hi = rng.chance(1, 2);
	let mut s = match connect(rng, secp, hi) { Ok(s) => s, Err(e) => { rec.oracle_fail(format!("handshake with a real PeerManager failed: {}", e)); return; } };
	let st0 = match s.state() { Some(x) => x, None => { rec.oracle_fail("no peer after the handshake".into()); return; } };
	if !st0.queue_lens.is_empty() || !st0.handshake_complete { rec.oracle_fail(format!("outbound queue not drained by an all-accepting socket after the handshake: {:?}", st0)); return; }
	rec.directive(&format!("winit {} {} {} {} {}", st0.msgs_sent_since_pong, st0.awaiting_pong_timer_tick_intervals, b01(st0.received_message_since_timer_tick), b01(st0.sent_pause_read), b01(st0.awaiting_write_event)));
	s.d.s.lock().unwrap().accept_all = false;
	let mut sent: Vec<Vec<u8>> = vec![]; // every message the handlers queued for the peer, in order (plaintext incl. type)
	let mut sent_gossip: Vec<usize> = vec![]; // plaintext lengths of the broadcasts that passed the buffer-limit gate, in order
	let mut history: Vec<String> = vec![];
	let mut dropped = false;
	let r = guarded(AssertUnwindSafe(|| {
		for _ in 0..n_ops {
			let (sched, script, all) = rand_script(rng);
			{ let mut k = s.d.s.lock().unwrap(); k.script = script.into(); k.accept_all = all; k.calls.clear(); }
			let pick = rng.below(100);
			let (op, class): (String, &str);
			let mut bc_prefix = String::new();
			if pick < 45 {
				// process_events with handler messages
				let n = match (style, rng.below(10)) { (1, 0..=2) => rng.range(10, 40), (_, 0) => rng.range(8, 20), (_, 1) => 0, _ => rng.range(1, 4) } as usize;
				let mut specs = vec![];
				let mut q = s.h.outq.lock().unwrap();
				for _ in 0..n {
					let len = match (style, rng.below(20)) { (2, 0..=5) => rng.range(40000, 65533), (_, 0) => rng.range(60000, 65533), (_, 1 | 2) => rng.range(1500, 4000), (_, 3) => 0, _ => rng.range(0, 300) } as usize;
					let ty = 32768 + 4 * rng.below(8000) as u16 + rng.below(2) as u16;
					let seed = rng.below(256);
					let data = gen_payload(len, seed);
					let mut plain = ty.to_be_bytes().to_vec(); plain.extend(&data);
					sent.push(plain);
					q.push((s.me, Raw { ty, data }));
					specs.push(format!("{}:{}:{}", ty, len, seed));
				}
				drop(q);
				s.pm.process_events();
				op = format!("ev 0 {} {}", sched, if specs.is_empty() { "-".into() } else { specs.join(",") });
				class = if n >= 8 { "ev:burst" } else if n == 0 { "ev:empty" } else { "ev" };
			} else if pick < 70 {
				let _ = s.pm.write_buffer_space_avail(&mut s.d);
				op = format!("wa {}", sched); class = "wa";
			} else if pick < 78 {
				s.pm.timer_tick_occurred();
				op = format!("tick 1 {}", sched); class = "tick";
			} else if pick < 86 {
				// a gossip broadcast through the send-only handler (allow_large_buffer = false); no write attempt may
				// happen between the capacity reading and the gate, so the events are handled with an empty script
				let before = s.state().unwrap();
				let cap: usize = before.queue_caps.iter().sum::<usize>() + before.gossip_caps.iter().sum::<usize>();
				let excess = if rng.chance(1, 6) { rng.range(1000, 60000) } else { rng.range(0, 200) } as usize;
				let upd = chan_update(secp, s.node_id, s.me, excess, rng.next());
				let plain_len = 2 + upd.encode().len();
				s.so.q.lock().unwrap().push(MessageSendEvent::BroadcastChannelUpdate { msg: upd, node_id_1: s.node_id.into(), node_id_2: s.me.into() });
				// process_events = gate, then do_attempt_write_data: model it as `bc` then `ev` with no messages
				let g0 = before.gossip_caps.len();
				{ let mut k = s.d.s.lock().unwrap(); k.script.clear(); k.accept_all = false; }
				// the gate itself cannot be observed in isolation (process_events runs the write attempt right after it),
				// so the implementation answer of `bc` is derived from the hook's own reading of buffer_full_drop_gossip_broadcast
				let queued = !before.buffer_full_drop_gossip_broadcast;
				bc_prefix = format!("{} q={} off={} g={} aw={} sp={} m={} t={} rv={}", if queued { "queued" } else { "skipped" }, csv(&before.queue_lens), before.first_msg_offset, g0 + queued as usize, b01(before.awaiting_write_event), b01(before.sent_pause_read), before.msgs_sent_since_pong, before.awaiting_pong_timer_tick_intervals, b01(before.received_message_since_timer_tick));
				rec.case(&format!("bc {} 0 0 {}", plain_len - 2, cap), &bc_prefix, if queued { "bc:queued" } else { "bc:skipped-buffer-full" }, true);
				history.push(format!("bc {} cap={}", plain_len, cap));
				s.pm.process_events();
				op = "ev 0 - -".to_string(); class = "ev:after-broadcast";
				if queued { sent_gossip.push(plain_len); }
			} else if pick < 92 {
				// the peer answers our pings
				if s.feed(&[0, 19, 0, 0]).is_err() { dropped = true; }
				op = "rpong".into(); class = "rpong";
			} else if pick < 96 {
				let ponglen = *rng.pick(&[0u16, 1, 64, 300, 65531, 65532, 65535]);
				let mut m = vec![0u8, 18]; m.extend(ponglen.to_be_bytes()); m.extend([0u8, 0]);
				if s.feed(&m).is_err() { dropped = true; }
				if ponglen < 65532 { let mut p = vec![0u8, 19]; p.extend(ponglen.to_be_bytes()); p.extend(vec![0u8; ponglen as usize]); sent.push(p); }
				op = format!("rping {}", ponglen); class = "rping";
			} else {
				let mut m = (32768u16 + 4).to_be_bytes().to_vec(); m.extend([1u8, 2, 3]);
				if s.feed(&m).is_err() { dropped = true; }
				op = "rmsg".into(); class = "rmsg";
			}
			let _ = bc_prefix;
			history.push(op.clone());
			if dropped { return; }
			let calls = s.d.s.lock().unwrap().calls.clone();
			for (o, a, _) in calls.iter() { if a > o { rec.oracle_fail(format!("send_data accepted {} of {} bytes", a, o)); } }
			match s.state() {
				None => { rec.case(&op, "disc", "disc", true); dropped = true; return; },
				Some(st) => {
					let ans = if op.starts_with('r') { state_str(&st) } else { format!("{} {}", calls_str(&calls), state_str(&st)) };
					let cl = if st.sent_pause_read { format!("{}:read-paused", class) } else if calls.iter().any(|(o, a, _)| a < o) { format!("{}:partial-write", class) } else { class.to_string() };
					rec.case(&op, &ans, &cl, true);
				},
			}
			if let Err(e) = s.decode_more() { rec.oracle_fail(format!("{} ; ops: {}", e, history.join(" | "))); dropped = true; return; }
		}
	}));
	if let Err(p) = r { rec.oracle_fail(format!("PeerManager panicked on the outbound path: {} ; ops: {}", p, history.join(" | "))); return; }
	if dropped {
		if !history.last().map(|h| h.starts_with("tick")).unwrap_or(false) { rec.oracle_fail(format!("connection dropped outside a timer tick ; ops: {}", history.join(" | "))); }
	} else {
		// drain: the socket keeps accepting; everything queued must come out (pings of the node are answered so
		// that msgs_sent_since_pong does not hold back the broadcast queue)
		let r = guarded(AssertUnwindSafe(|| {
			for _ in 0..200 {
				{ let mut k = s.d.s.lock().unwrap(); k.accept_all = true; k.calls.clear(); }
				let _ = s.pm.write_buffer_space_avail(&mut s.d);
				let st = match s.state() { Some(x) => x, None => return Err("peer vanished while draining".to_string()) };
				rec.case("wa *", &format!("{} {}", calls_str(&s.d.s.lock().unwrap().calls), state_str(&st)), "wa:drain", true);
				if !st.queue_lens.is_empty() { return Err(format!("write_buffer_space_avail with an all-accepting socket left {} buffers queued", st.queue_lens.len())); }
				if st.gossip_caps.is_empty() { return Ok(()); }
				s.feed(&[0, 19, 0, 0])?;
				let st = s.state().ok_or("peer vanished")?;
				rec.case("rpong", &state_str(&st), "rpong:drain", true);
			}
			Err("broadcast queue not drained after 200 rounds".to_string())
		}));
		match r { Ok(Ok(())) => {}, Ok(Err(e)) => { rec.oracle_fail(format!("{} ; ops: {}", e, history.join(" | "))); return; }, Err(p) => { rec.oracle_fail(format!("PeerManager panicked while draining: {} ; ops: {}", p, history.join(" | "))); return; } }
		if let Err(e) = s.decode_more() { rec.oracle_fail(format!("{} ; ops: {}", e, history.join(" | "))); return; }
		let stray = s.d.s.lock().unwrap().out.len() - s.dec_pos;
		if stray != 0 { rec.oracle_fail(format!("{} stray bytes at the end of the node's output ; ops: {}", stray, history.join(" | "))); }
		// delivered-sequence oracle: what the socket accepted decrypts to the queued messages, in order (channel-class
		// messages and broadcasts each in their own order: broadcasts wait in gossip_broadcast_buffer); the node's own
		// pings (70 bytes, type 18) may be interleaved anywhere
		let got: Vec<&Vec<u8>> = s.decoded.iter().filter(|m| !(m.len() == 70 && m[..2] == [0, 18]) && m[..2] != [1, 2]).collect();
		let got_gossip: Vec<usize> = s.decoded.iter().filter(|m| m[..2] == [1, 2]).map(|m| m.len()).collect();
		if got.len() != sent.len() || got.iter().zip(sent.iter()).any(|(g, w)| *g != w) {
			let first = got.iter().zip(sent.iter()).position(|(g, w)| *g != w).unwrap_or(got.len().min(sent.len()));
			rec.oracle_fail(format!("delivered sequence differs from the sent one: the socket accepted {} messages, {} were queued, first difference at #{} ; ops: {}", got.len(), sent.len(), first, history.join(" | ")));
		}
		if got_gossip != sent_gossip {
			rec.oracle_fail(format!("broadcasts that passed the buffer gate were not all written in order: got lengths {:?}, expected {:?} ; ops: {}", got_gossip, sent_gossip, history.join(" | ")));
		}
	}
}

fn main() {
	let args = &parse_args("c15write");
	let mut rec = Rec::new(&args.out, "c15write");
	let mut rng = Rng::new(args.seed ^ 0xc15);
	let secp = Secp256k1::new();
	let n = if args.thorough { 1200 } else { 90 };
	for i in 0..n {
		rec.directive("reset");
		let style = (i % 4) as u64;
		let n_ops = if i % 10 == 9 { 120 } else { rng.range(10, 50) as usize };
		scenario(&mut rec, &mut rng, &secp, n_ops, style);
	}
	rec.notes.insert("rule".into(), "one real PeerManager, scripted SocketDescriptor: every (offered, accepted, resume_read) of every send_data call and the whole outbound state (queue lengths, offset, broadcast queue, awaiting_write_event, sent_pause_read, msgs_sent_since_pong, ping timer) after every process_events / write_buffer_space_avail / timer_tick_occurred / received pong|ping|message / gossip broadcast, compared with Model/PeerWrite.lean; plus: the accepted bytes decrypt to exactly the queued message sequence".into());
	rec.finish();
}
