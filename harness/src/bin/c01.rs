//! C01 — commitment statistics, send limits and commitment building of the real SpecTxBuilder
//! (through hook `ln::verif_hooks::txb`) on generated tuples aimed at every threshold.
//! model `c01txb`, ops:
//!   stats L F chan vth addl feerate spike lim maxdust c0..c6 type n (o|i)<amt>...
//!   build L F chan vts feerate dust type n (o|i)<amt>...        (o = offered)
//!   close vts chan dust funder fee skip                          (real build_closing_transaction through hook channel_closing_probe)
//!   climits funder estMin estNormal target feerate fc chan vts rlen la lb   (real calculate_closing_fee_limits + weight)
use bitcoin::hashes::Hash;
use bitcoin::secp256k1::{PublicKey, Secp256k1, SecretKey};
use bitcoin::Txid;
use ldk_verif_harness::common::*;
use lightning::chain::transaction::OutPoint;
use lightning::ln::chan_utils::{
	ChannelPublicKeys, ChannelTransactionParameters, CounterpartyChannelTransactionParameters,
	HTLCOutputInCommitment,
};
use lightning::ln::channel_keys::{DelayedPaymentBasepoint, HtlcBasepoint, RevocationBasepoint};
use lightning::ln::verif_hooks::txb;
use lightning::types::features::ChannelTypeFeatures;
use lightning::types::payment::PaymentHash;

fn ctype(t: u64) -> (ChannelTypeFeatures, &'static str) {
	match t {
		0 => (ChannelTypeFeatures::only_static_remote_key(), "l"),
		1 => (ChannelTypeFeatures::anchors_zero_htlc_fee_and_dependencies(), "a"),
		_ => (ChannelTypeFeatures::anchors_zero_fee_commitments(), "z"),
	}
}

fn pubkeys(secp: &Secp256k1<bitcoin::secp256k1::All>, base: u8) -> ChannelPublicKeys {
	let pk = |i: u8| PublicKey::from_secret_key(secp, &SecretKey::from_slice(&[base + i; 32]).unwrap());
	ChannelPublicKeys {
		funding_pubkey: pk(1),
		revocation_basepoint: RevocationBasepoint::from(pk(2)),
		payment_point: pk(3),
		delayed_payment_basepoint: DelayedPaymentBasepoint::from(pk(4)),
		htlc_basepoint: HtlcBasepoint::from(pk(5)),
	}
}

const W_BASE: u64 = 724;
const W_BASE_ANCHOR: u64 = 1124;
const W_HTLC: u64 = 172;
const W_SUCCESS: u64 = 703;
const W_TIMEOUT: u64 = 663;

/// a value at / around one of the thresholds that matter, or random
fn amount(rng: &mut Rng, feerate: u64, dust: u64, anchors: bool, bal_msat: u64) -> u64 {
	let succ = if anchors { 0 } else { feerate * W_SUCCESS / 1000 };
	let tout = if anchors { 0 } else { feerate * W_TIMEOUT / 1000 };
	let v = match rng.below(9) {
		0 => (dust + succ) * 1000,
		1 => (dust + tout) * 1000,
		2 => dust * 1000,
		3 => bal_msat / (1 + rng.below(4)),
		4 => rng.below(5_000_000),
		5 => 1 + rng.below(3000),
		6 => (dust + 2 * succ) * 1000,
		7 => (dust + 2 * tout) * 1000,
		_ => rng.below(200_000_000),
	};
	let jitter = match rng.below(6) { 0 => 1, 1 => 999, 2 => 1000, 3 => 1001, _ => 0 };
	if rng.chance(1, 2) { v.saturating_add(jitter) } else { v.saturating_sub(jitter) }
}

/// Cooperative close on boundary tuples: the REAL `build_closing_transaction` / `calculate_closing_fee_limits` /
/// `get_closing_transaction_weight` of a live funded channel (hook `channel_closing_probe`: balance, channel value, dust limit,
/// funder side, fee inputs replaced for the call) against the translated functions, plus the implementation-side oracle:
/// outputs + fee (+ what was dropped as dust, + the sub-satoshi remainder) = channel value, the fundee's output is its whole balance.
fn closing_cases(rec: &mut Rec, rng: &mut Rng, n: u64) {
	use ldk_verif_harness::sim::Net;
	use lightning::chain::chaininterface::ConfirmationTarget;
	let r = guarded(std::panic::AssertUnwindSafe(|| {
		let mut net = Net::new(2, vec![None, None]);
		let c = net.open(0, 1, 1_000_000, 300_000_000);
		(net, c)
	}));
	let (net, c) = match r { Ok(x) => x, Err(p) => { rec.oracle_fail(format!("closing probe: could not open a channel: {}", p)); return; } };
	let (cp, cid) = (net.ids[1], net.chans[c].2);
	for case in 0..n {
		let chan: u64 = match rng.below(5) { 0 => 1000 + rng.below(3000), 1 => 100_000, 2 => 1_000_000 + rng.below(1_000_000), 3 => 16_777_215, _ => 5000 + rng.below(500_000) };
		let dust = match rng.below(5) { 0 => 354, 1 => 546, 2 => 330 + rng.below(3000), 3 => 0, _ => 354 + rng.below(400) };
		let funder = rng.chance(1, 2);
		let fee_guess = match rng.below(5) { 0 => 0, 1 => 170 + rng.below(30), 2 => rng.below(3000), 3 => rng.below(chan + 2), _ => 253 * 672 / 1000 };
		// balance: around the thresholds dust (+fee) ± 1 sat ± 1 msat on either side, 0, everything, random
		let side_sat = match rng.below(8) { 0 => dust, 1 => dust + fee_guess, 2 => fee_guess, 3 => 0, 4 => chan, 5 => rng.below(chan + 1), 6 => dust + 1, _ => (dust + fee_guess).saturating_sub(1) }.min(chan);
		let jitter = match rng.below(7) { 0 => 1, 1 => 999, 2 => 1000, 3 => 1001, 4 => 500, _ => 0 };
		let side_msat = (if rng.chance(1, 2) { (side_sat * 1000).saturating_add(jitter) } else { (side_sat * 1000).saturating_sub(jitter) }).min(chan * 1000);
		let vts = if rng.chance(1, 2) { side_msat } else { chan * 1000 - side_msat };
		let funder_bal = if funder { vts / 1000 } else { (chan * 1000 - vts) / 1000 };
		let fee = match rng.below(7) { 0 => fee_guess, 1 => funder_bal, 2 => funder_bal + 1, 3 => funder_bal.saturating_sub(1), 4 => funder_bal.saturating_sub(dust), 5 => funder_bal.saturating_sub(dust + 1), _ => rng.below(funder_bal + 2) };
		let skip = rng.chance(1, 4);
		let est_min = match rng.below(4) { 0 => 253, 1 => rng.below(253), 2 => 253 + rng.below(5000), _ => 1000 } as u32;
		let est_normal = match rng.below(4) { 0 => est_min, 1 => 253 + rng.below(20_000) as u32, 2 => 2000, _ => rng.below(300) as u32 };
		let target: Option<u32> = match rng.below(4) { 0 => Some(rng.below(30_000) as u32), 1 => Some(est_min), _ => None };
		let fr = match rng.below(3) { 0 => 253, 1 => rng.below(10_000) as u32, _ => 2500 };
		let fc = match rng.below(3) { 0 => 1000, 1 => 0, _ => rng.below(5000) };
		{
			let fe = net.nodes[0].fee_estimator;
			let mut ov = fe.target_override.lock().unwrap();
			ov.insert(ConfirmationTarget::ChannelCloseMinimum, est_min);
			ov.insert(ConfirmationTarget::NonAnchorChannelFee, est_normal);
		}
		let r = lightning::ln::verif_hooks::channel_closing_probe(net.nodes[0].node, &cp, &cid, vts, chan, dust, funder, fee, skip, target, fr, fc);
		let (built, limits, weight) = match r { Some(x) => x, None => { rec.oracle_fail("closing probe: channel not found".into()); break; } };
		if case % 4 != 3 {
			let op = format!("close {} {} {} {} {} {}", vts, chan, dust, funder as u8, fee, skip as u8);
			let (res, class) = match &built {
				Ok((h, cpv, used, outs)) => {
					let mut o = outs.clone(); o.sort();
					// ---- implementation-side oracle (independent of the Lean model) ----
					let (bal_h, bal_c) = (vts / 1000, (chan * 1000 - vts) / 1000);
					let rem = if vts % 1000 == 0 { 0 } else { 1 };
					let (pre_h, pre_c) = if funder { (bal_h - fee.min(bal_h), bal_c) } else { (bal_h, bal_c - fee.min(bal_c)) };
					let dropped = (if *h == 0 { pre_h } else { 0 }) + (if *cpv == 0 { pre_c } else { 0 });
					if *used != fee { rec.oracle_fail(format!("closing: fee used {} differs from the fee asked for: {}", used, op)); }
					if h + cpv + used + dropped + rem != chan { rec.oracle_fail(format!("closing: outputs {} + {} + fee {} + dropped {} + remainder {} != channel value: {}", h, cpv, used, dropped, rem, op)); }
					if *h != 0 && *h != pre_h { rec.oracle_fail(format!("closing: holder is paid {} instead of its balance{} {}: {}", h, if funder { " less the fee" } else { "" }, pre_h, op)); }
					if *cpv != 0 && *cpv != pre_c { rec.oracle_fail(format!("closing: counterparty is paid {} instead of its balance{} {}: {}", cpv, if funder { "" } else { " less the fee" }, pre_c, op)); }
					if (*h == 0 && pre_h > dust) || (*cpv == 0 && !skip && pre_c > dust) { rec.oracle_fail(format!("closing: an output above the dust limit was dropped: {}", op)); }
					if o.iter().sum::<u64>() != h + cpv || o.iter().any(|v| *v == 0) { rec.oracle_fail(format!("closing: built transaction outputs {:?} differ from the values ({}, {}): {}", o, h, cpv, op)); }
					(format!("ok {} {} {} | {}", h, cpv, used, o.iter().map(|x| x.to_string()).collect::<Vec<_>>().join(" ")),
					 format!("close:ok:{}{}{}", if *h == 0 { "holder-dust:" } else { "" }, if *cpv == 0 { "cp-dropped:" } else { "" }, if funder { "funder" } else { "fundee" }))
				},
				Err(e) => {
					if fee <= funder_bal { rec.oracle_fail(format!("closing: build_closing_transaction failed ({}) although the funder can pay the fee: {}", e.chars().take(80).collect::<String>(), op)); }
					("err".to_string(), "close:err".to_string())
				},
			};
			rec.case(&op, &res, &class, true);
		} else {
			let op = format!("climits {} {} {} {} {} {} {} {} {} {} {}", funder as u8, est_min, est_normal, target.map(|t| t.to_string()).unwrap_or("-".into()), fr, fc, chan, vts, 71, 22, 22);
			match limits {
				Ok((mn, mx)) => {
					if !funder && mx != (chan * 1000 - vts) / 1000 { rec.oracle_fail(format!("closing: the fundee's maximum fee {} is not the funder's balance: {}", mx, op)); }
					rec.case(&op, &format!("{} {} {}", mn, mx, weight), if funder { "climits:funder" } else { "climits:fundee" }, true);
				},
				Err(_) => { rec.discarded += 1; },
			}
		}
	}
	net.nodes[0].fee_estimator.target_override.lock().unwrap().clear();
	std::mem::forget(net);
}

fn main() {
	let args = &parse_args("c01txb");
	let mut rec = Rec::new(&args.out, "c01txb");
	let mut rng = Rng::new(args.seed);
	let secp = Secp256k1::new();
	let holder_keys = pubkeys(&secp, 10);
	let cp_keys = pubkeys(&secp, 40);
	let pcp = PublicKey::from_secret_key(&secp, &SecretKey::from_slice(&[77; 32]).unwrap());
	let n_cases = if args.thorough { 400_000 } else { 12_000 } * args.scale;

	for case in 0..n_cases {
		let (ty, tys) = ctype(rng.below(3));
		let anchors = tys == "a";
		let zerofee = tys == "z";
		let chan: u64 = match rng.below(5) { 0 => 1000 + rng.below(3000), 1 => 100_000, 2 => 1_000_000 + rng.below(1_000_000), 3 => 16_777_215, _ => 5000 + rng.below(500_000) };
		let feerate: u64 = if zerofee { 0 } else { match rng.below(7) { 0 => 253, 1 => 0, 2 => 1000 + rng.below(5000), 3 => 2530 * (1 + rng.below(10)), 4 => 25_000 + rng.below(100_000), 5 => rng.below(300), _ => 1 + rng.below(20_000) } };
		let funder = rng.chance(1, 2);
		let local = rng.chance(1, 2);
		let hdust = match rng.below(4) { 0 => 354, 1 => 546, 2 => 330 + rng.below(10_000), _ => 354 + rng.below(400) };
		let cdust = match rng.below(4) { 0 => 354, 1 => 546, 2 => 330 + rng.below(10_000), _ => 354 + rng.below(400) };
		let vth_msat = match rng.below(6) { 0 => 0, 1 => chan * 1000, 2 => chan * 500, 3 => rng.below(chan * 1000 + 1), 4 => (chan * 1000).saturating_sub(rng.below(2_000_000)), _ => rng.below(3_000_000).min(chan * 1000) };
		let nh = match rng.below(6) { 0 => 0, 1 => 1, 2 => 2, 3 => 3 + rng.below(5), 4 => rng.below(3), _ => rng.below(60) } as usize;
		let mut htlcs: Vec<(bool, u64)> = vec![];
		let mut out_sum = 0u64; let mut in_sum = 0u64;
		let dl = if local { hdust } else { cdust };
		for _ in 0..nh {
			let outbound = rng.chance(1, 2);
			let bal = if outbound { vth_msat.saturating_sub(out_sum) } else { (chan * 1000 - vth_msat).saturating_sub(in_sum) };
			let mut a = amount(&mut rng, feerate, dl, anchors || zerofee, bal);
			// mostly-valid: keep sums within balances 7 times out of 8
			if rng.below(8) != 0 { a = a.min(bal); }
			if a == 0 && rng.below(4) != 0 { continue; }
			if outbound { out_sum = out_sum.saturating_add(a); } else { in_sum = in_sum.saturating_add(a); }
			htlcs.push((outbound, a));
		}
		let hs: Vec<String> = htlcs.iter().map(|(o, a)| format!("{}{}", if *o { "o" } else { "i" }, a)).collect();

		if case % 2 == 0 {
			// ---- stats + available balances ---------------------------------------------------
			let fee_base = feerate * if anchors { W_BASE_ANCHOR } else { W_BASE } / 1000;
			let res_c = match rng.below(5) { 0 => 0, 1 => chan / 100, 2 => 1000, 3 => (vth_msat / 1000).saturating_sub(fee_base).saturating_sub(rng.below(3)), _ => rng.below(chan / 10 + 1) };
			let res_h = match rng.below(4) { 0 => 0, 1 => chan / 100, 2 => 1000, _ => rng.below(chan / 10 + 1) };
			let min_htlc = match rng.below(4) { 0 => 0, 1 => 1, 2 => 1000, _ => rng.below(100_000) };
			let max_inflight = match rng.below(4) { 0 => chan * 1000, 1 => chan * 100, 2 => out_sum + rng.below(1_000_000), _ => u64::MAX / 4 };
			let max_accepted = match rng.below(4) { 0 => 483, 1 => 50, 2 => htlcs.iter().filter(|h| h.0).count() as u64 + rng.below(2), _ => 1 + rng.below(100) };
			let cons = [hdust, res_c, cdust, res_h, min_htlc, max_inflight, max_accepted];
			let addl = match rng.below(4) { 0 => 0, 1 => 1, 2 => 2, _ => rng.below(4) } as usize;
			let spike = rng.chance(1, 2);
			let lim: Option<u32> = if zerofee { if rng.chance(1, 2) { None } else { Some(0) } } else { match rng.below(4) { 0 => None, 1 => Some(feerate as u32), 2 => Some((feerate / 2) as u32), _ => Some(rng.below(feerate * 2 + 300) as u32) } };
			let maxdust = match rng.below(5) { 0 => 5_000_000, 1 => 0, 2 => rng.below(50_000_000), 3 => htlcs.iter().map(|h| h.1).sum::<u64>() / 2 + rng.below(2_000_000), _ => 25_000_000 };
			// precondition of get_available_balances (it unwraps): value_to_holder <= channel value
			let op = format!("stats {} {} {} {} {} {} {} {} {} {} {} {} {}", local as u8, funder as u8, chan, vth_msat, addl, feerate, spike as u8,
				lim.map(|x| x.to_string()).unwrap_or("-".into()), maxdust, cons.iter().map(|c| c.to_string()).collect::<Vec<_>>().join(" "), tys, htlcs.len(), hs.join(" "));
			let r = guarded(std::panic::AssertUnwindSafe(|| txb::channel_stats(local, funder, chan, vth_msat, &htlcs, addl, feerate as u32, spike, lim, maxdust, cons, &ty)));
			let (res, class) = match r {
				Ok(Ok((c, a))) => {
					// impl oracle: accepted stats never hand out more than the channel holds
					let total = c[0] as u128 + c[1] as u128 + out_sum as u128 + in_sum as u128;
					if total > chan as u128 * 1000 { rec.oracle_fail(format!("get_next_commitment_stats balances+htlcs exceed channel value: {}", op)); }
					// the limit never exceeds the outbound capacity, the minimum is at least the peer's htlc_minimum
					if a[2] > a[1] { rec.oracle_fail(format!("next_outbound_htlc_limit > outbound_capacity: {}", op)); }
					if a[3] < min_htlc { rec.oracle_fail(format!("next_outbound_htlc_minimum below counterparty htlc_minimum: {}", op)); }
					(format!("ok {} {} {} | {} {} {} {} {}", c[0], c[1], c[2], a[0], a[1], a[2], a[3], a[4]), format!("stats:ok:{}:{}", tys, if a[2] >= a[3] && a[2] > 0 { "sendable" } else { "stuck" }))
				},
				Ok(Err(())) => ("err".to_string(), format!("stats:err:{}", tys)),
				Err(p) => (format!("panic {}", p.chars().take(60).collect::<String>()), "stats:panic".to_string()),
			};
			if res.starts_with("panic") { rec.discarded += 1; continue; } // out-of-contract input (debug_assert / overflow): not compared
			rec.case(&op, &res, &class, !htlcs.is_empty());
		} else {
			// ---- build_commitment_transaction -------------------------------------------------
			let vts = vth_msat;
			let params = ChannelTransactionParameters {
				holder_pubkeys: holder_keys.clone(), holder_selected_contest_delay: 144, is_outbound_from_holder: funder,
				counterparty_parameters: Some(CounterpartyChannelTransactionParameters { pubkeys: cp_keys.clone(), selected_contest_delay: 144 }),
				funding_outpoint: Some(OutPoint { txid: Txid::all_zeros(), index: 0 }), splice_parent_funding_txid: None,
				channel_type_features: ty.clone(), channel_value_satoshis: chan,
			};
			// offered (from the broadcaster's view): for local commitment offered == outbound; for remote, offered == !outbound
			let hin: Vec<HTLCOutputInCommitment> = htlcs.iter().enumerate().map(|(i, (outbound, a))| HTLCOutputInCommitment {
				offered: *outbound == local, amount_msat: *a, cltv_expiry: 500 + (i as u32 % 7), payment_hash: PaymentHash([i as u8; 32]), transaction_output_index: None }).collect();
			let hs2: Vec<String> = hin.iter().map(|h| format!("{}{}", if h.offered { "o" } else { "i" }, h.amount_msat)).collect();
			let op = format!("build {} {} {} {} {} {} {} {} {}", local as u8, funder as u8, chan, vts, feerate, dl, tys, hin.len(), hs2.join(" "));
			let r = guarded(std::panic::AssertUnwindSafe(|| txb::build_commitment_transaction(local, 42, &pcp, &params, &secp, vts, hin.clone(), feerate as u32, dl, &NullLogger)));
			let (res, class) = match r {
				Ok((tx, st)) => {
					let t = tx.trust();
					let mut outs: Vec<u64> = t.built_transaction().transaction.output.iter().map(|o| o.value.to_sat()).collect();
					outs.sort();
					let mut nd: Vec<u64> = tx.nondust_htlcs().iter().map(|h| h.amount_msat).collect();
					nd.sort();
					// ---- impl-side property oracle (independent of the Lean model) -------------
					let total: u128 = outs.iter().map(|x| *x as u128).sum();
					let funder_before = if funder { st[1] } else { st[2] };
					let can_afford = funder_before / 1000 >= st[0];
					let anchors_afforded = !anchors || { let f = if funder == true { vts.saturating_sub(if local { out_sum } else { out_sum }) } else { (chan * 1000 - vts).saturating_sub(in_sum) }; f >= 660_000 };
					if can_afford && anchors_afforded && total > chan as u128 {
						rec.oracle_fail(format!("commitment outputs exceed channel value ({} > {}): {}", total, chan, op));
					}
					// every HTLC exactly once: nondust ⊆ htlcs and every HTLC missing from nondust is below its dust threshold
					let mut all: Vec<u64> = hin.iter().map(|h| h.amount_msat).collect(); all.sort();
					let mut rest = all.clone();
					for x in &nd { if let Some(p) = rest.iter().position(|y| y == x) { rest.remove(p); } else { rec.oracle_fail(format!("nondust HTLC {} not among the pending HTLCs: {}", x, op)); } }
					let max_fee_sat = if anchors || zerofee { 0 } else { feerate * W_SUCCESS / 1000 };
					for x in &rest { if x / 1000 >= dl + max_fee_sat { rec.oracle_fail(format!("HTLC {} msat dropped although above every dust threshold: {}", x, op)); } }
					// implied fee decomposition when the funder can afford it: fee = stated fee + dust + rounding + trimmed balances
					if can_afford && anchors_afforded && total <= chan as u128 {
						let implied = chan as u128 - total;
						let dust_sum: u128 = rest.iter().map(|x| *x as u128).sum();
						let stated = st[0] as u128;
						let trimmed = (if tx.to_broadcaster_value_sat() == 0 { dl } else { 0 } + if tx.to_countersignatory_value_sat() == 0 { dl } else { 0 }) as u128;
						// anchors are paid for by the funder whether or not they materialise as outputs
						let anchors_present = if anchors { outs.iter().filter(|v| **v == 330).count().min(2) as u128 } else { 0 };
						let omitted_anchor_sat = if anchors { 660 - 330 * anchors_present } else { 0 };
						let rounding = nd.len() as u128 + 3;
						if implied < stated.min(implied) || (!zerofee && implied < stated) || implied > stated + (dust_sum + 999) / 1000 + trimmed + omitted_anchor_sat + rounding {
							rec.oracle_fail(format!("implied fee {} outside [stated {}, stated+dust+rounding+trimmed+omitted anchors]: {}", implied, stated, op));
						}
					}
					(format!("ok {} {} {} | {} | {}", tx.to_broadcaster_value_sat(), tx.to_countersignatory_value_sat(), st[0],
						nd.iter().map(|x| x.to_string()).collect::<Vec<_>>().join(" "), outs.iter().map(|x| x.to_string()).collect::<Vec<_>>().join(" ")),
					 format!("build:ok:{}:{}nd", tys, nd.len().min(3)))
				},
				Err(_) => ("panic".to_string(), format!("build:panic:{}", tys)),
			};
			rec.case(&op, &res, &class, !hin.is_empty());
		}
	}
	closing_cases(&mut rec, &mut rng, if args.thorough { 60_000 } else { 4_000 } * args.scale);
	rec.notes.insert("rule".into(), "PRNG tuples: channel type × funder × local/remote × boundary amounts (dust limit ± htlc-tx fee ± 1 sat / ± 1 msat, balance fractions), reserves around the funder balance, dust-exposure limits around the pending dust; non-trivial = at least one pending HTLC; distinct by op text".into());
	rec.finish();
}
