//! C03 — every outbound payment reaches a truthful terminal outcome.
//! model `c03pay`: the REAL `OutboundPayments` (through `verif_hooks::outbound::Facade`) is driven with
//!   generated op sequences (1–4 parts, duplicate/out-of-order claim, finalize, fail, abandon, retries through a
//!   scripted router, timer ticks, event handling, persist / restart with arbitrary monitor views); the pushed
//!   events, `DuplicatePayment`, assertion panics and the map dump are compared with the Lean model.
//! model `c03e2e`: real nodes (sim engine): the sender's event stream and `list_recent_payments` are compared
//!   with the model fed by the HTLC resolutions observed at the sender.
//! op lines: see lean/LdkModel/Driver/C03.lean.
use std::collections::{BTreeMap, BTreeSet};
use std::panic::AssertUnwindSafe;

use ldk_verif_harness::common::*;
use lightning::ln::channelmanager::PaymentId;
use lightning::ln::verif_hooks::outbound::Facade;
use lightning::types::payment::{PaymentHash, PaymentPreimage};

mod e2e { pub fn run(_a: &ldk_verif_harness::common::Args) { unimplemented!() } }

fn pid(n: u64) -> PaymentId { let mut b = [0u8; 32]; b[24..].copy_from_slice(&n.to_be_bytes()); PaymentId(b) }
fn pid_num(hex32: &str) -> u64 { u64::from_str_radix(&hex32[48..], 16).unwrap_or(u64::MAX) }
fn preimage_of(id: u64, gen: u64) -> PaymentPreimage { let mut b = [9u8; 32]; b[..8].copy_from_slice(&id.to_be_bytes()); b[8..16].copy_from_slice(&gen.to_be_bytes()); PaymentPreimage(b) }
fn hash_of(p: &PaymentPreimage) -> PaymentHash { use bitcoin::hashes::{sha256, Hash}; PaymentHash(sha256::Hash::hash(&p.0).to_byte_array()) }

/// facade event text -> model event text
pub fn canon_ev(t: &str) -> (u64, String) {
	let w: Vec<&str> = t.split(' ').collect();
	match w[0] {
		"PaymentSent" => { let i = pid_num(w[1]); (i, format!("sent:{}", i)) },
		"PaymentFailed" => { let i = pid_num(w[1]); (i, format!("failed:{}:{}", i, w[2])) },
		"PaymentPathSuccessful" => { let i = pid_num(w[1]); (i, format!("pathok:{}:{}", i, w[2])) },
		"PaymentPathFailed" => { let i = pid_num(w[1]); (i, format!("pathfail:{}:{}", i, w[2])) },
		_ => (u64::MAX, format!("other:{}", t.replace(' ', "_"))),
	}
}
pub fn canon(status: &str, evs: &[String]) -> String {
	let mut v: Vec<(u64, String)> = evs.iter().map(|e| canon_ev(e)).collect();
	v.sort_by_key(|e| e.0); // stable
	let mut s = status.to_string();
	for (_, e) in v { s.push(' '); s.push_str(&e); }
	s
}

#[derive(Clone, Default)]
struct PayMeta { strategy: Option<u32>, count: u32, gen: u64 }

#[derive(Clone, Copy)]
struct Part { id: u64, sp: [u8; 32], }

/// per-instance tallies for the implementation-side oracle (independent of the Lean model)
#[derive(Clone, Default)]
struct Tally { sent: u32, failed: u32, claim_hit: bool, restarted: bool }

struct Seq<'a> {
	f: Facade,
	rec: &'a mut Rec,
	rng: &'a mut Rng,
	meta: BTreeMap<u64, PayMeta>,
	snap_meta: BTreeMap<u64, PayMeta>,
	parts: BTreeMap<u64, Part>,
	next_part: u64,
	gens: u64,
	tally: BTreeMap<u64, Tally>,
	present: BTreeSet<u64>,
	trace: Vec<String>,
	dead: bool,
}

impl<'a> Seq<'a> {
	fn list_line(&self) -> (String, BTreeMap<u64, (String, usize)>) {
		let mut s = "list".to_string();
		let mut m = BTreeMap::new();
		for (id, name, n, extra) in self.f.list() {
			let i = pid_num(&hex(&id.0));
			match name {
				"AwaitingInvoice" => s.push_str(&format!(" {}:PreHtlc:0:{}", i, extra)),
				"Fulfilled" => s.push_str(&format!(" {}:Fulfilled:{}:{}", i, n, extra)),
				other => s.push_str(&format!(" {}:{}:{}", i, other, n)),
			}
			m.insert(i, (name.to_string(), n));
		}
		(s, m)
	}
	fn auto(&self, id: u64, state: &BTreeMap<u64, (String, usize)>) -> bool {
		match (state.get(&id), self.meta.get(&id)) {
			(Some((name, _)), Some(m)) if name == "Retryable" => m.strategy.map(|s| s > m.count).unwrap_or(false),
			_ => false,
		}
	}
	/// record one compared case and feed the oracle
	fn emit(&mut self, op: String, status: &str, evs: &[String], class: &str) {
		let ans = canon(status, evs);
		self.trace.push(format!("{} => {}", op, ans));
		for e in evs {
			let w: Vec<&str> = e.split(' ').collect();
			if w[0] == "PaymentSent" {
				let i = pid_num(w[1]);
				let t = self.tally.entry(i).or_default();
				t.sent += 1;
				if w[2] != "preimage_ok=true" { let tr = self.trace.join(" | "); self.rec.oracle_fail(format!("PaymentSent preimage does not hash to the payment hash: {}", tr)); }
			} else if w[0] == "PaymentFailed" {
				let i = pid_num(w[1]);
				self.tally.entry(i).or_default().failed += 1;
			}
		}
		self.rec.case(&op, &ans, class, true);
		if status != "panic" { self.after(); }
	}
	/// oracle bookkeeping after every op: instance boundaries come from the real map
	fn after(&mut self) {
		let (_, st) = self.list_line();
		let now: BTreeSet<u64> = st.keys().cloned().collect();
		let ids: BTreeSet<u64> = self.tally.keys().cloned().chain(now.iter().cloned()).chain(self.present.iter().cloned()).collect();
		for i in ids {
			let t = self.tally.get(&i).cloned().unwrap_or_default();
			let tr = || self.trace.join(" | ");
			if !t.restarted {
				if t.sent > 1 { self.rec.oracle_fail(format!("PaymentSent twice for one payment instance id={}: {}", i, tr())); }
				if t.failed > 1 { self.rec.oracle_fail(format!("PaymentFailed twice for one payment instance id={}: {}", i, tr())); }
				if t.sent > 0 && t.failed > 0 { self.rec.oracle_fail(format!("PaymentSent and PaymentFailed for one payment instance id={}: {}", i, tr())); }
				if t.sent > 0 && !t.claim_hit { self.rec.oracle_fail(format!("PaymentSent without any claim id={}: {}", i, tr())); }
				if t.failed > 0 && t.claim_hit { self.rec.oracle_fail(format!("PaymentFailed although a part was claimed id={}: {}", i, tr())); }
				if self.present.contains(&i) && !now.contains(&i) && t.sent + t.failed != 1 {
					self.rec.oracle_fail(format!("payment id={} dropped from the map with {} terminal events: {}", i, t.sent + t.failed, tr()));
				}
			}
			if !now.contains(&i) { self.tally.remove(&i); }
		}
		self.present = now;
	}
	fn new_parts(&mut self, id: u64, n: u64) -> Vec<u64> {
		let v: Vec<u64> = (0..n).map(|k| self.next_part + k).collect();
		self.next_part += n;
		let _ = id;
		v
	}
	fn csv(v: &[u64]) -> String { if v.is_empty() { "-".into() } else { v.iter().map(|x| x.to_string()).collect::<Vec<_>>().join(",") } }
	fn pick_part(&mut self, prefer_live: bool) -> (u64, u64, [u8; 32]) {
		// (id, part, session priv); sometimes a part that never existed
		if self.parts.is_empty() || self.rng.chance(1, 12) {
			let id = self.rng.range(1, 4);
			let p = 900 + self.rng.below(5);
			let mut sp = [0x55u8; 32]; sp[31] = p as u8;
			return (id, p, sp);
		}
		let keys: Vec<u64> = self.parts.keys().cloned().collect();
		let live: Vec<u64> = keys.iter().cloned().filter(|k| self.present.contains(&self.parts[k].id)).collect();
		let k = if prefer_live && !live.is_empty() && self.rng.chance(4, 5) { *self.rng.pick(&live) } else { *self.rng.pick(&keys) };
		let p = self.parts[&k];
		// rarely address the part under another payment id
		let id = if self.rng.chance(1, 25) { self.rng.range(1, 4) } else { p.id };
		(id, k, p.sp)
	}

	fn step(&mut self) {
		let (_, st) = self.list_line();
		let r = self.rng.below(100);
		if r < 14 {
			// send (new or duplicate id)
			let id = self.rng.range(1, 4);
			let n = if self.rng.chance(1, 20) { 0 } else { self.rng.range(1, 4) };
			let strategy = match self.rng.below(4) { 0 => None, 1 => Some(0), 2 => Some(1), _ => Some(2) };
			let parts = self.new_parts(id, n);
			self.gens += 1;
			let gen = self.gens;
			let hash = hash_of(&preimage_of(id, gen));
			let f = &self.f;
			let res = guarded(AssertUnwindSafe(|| f.add(pid(id), hash, &parts, strategy)));
			match res {
				Ok(Ok(sps)) => {
					for (p, sp) in parts.iter().zip(sps.iter()) { self.parts.insert(*p, Part { id, sp: *sp }); }
					self.meta.insert(id, PayMeta { strategy, count: 0, gen });
					self.tally.insert(id, Tally::default());
					self.emit(format!("send {} {}", id, Self::csv(&parts)), "ok", &[], "send:ok");
				},
				Ok(Err(e)) => {
					if e != "DuplicatePayment" || !st.contains_key(&id) { let tr = self.trace.join(" | "); self.rec.oracle_fail(format!("send of id={} refused with {} (present={}): {}", id, e, st.contains_key(&id), tr)); }
					let (before, _) = (st.clone(), ());
					self.emit(format!("send {} {}", id, Self::csv(&parts)), "dup", &[], "send:dup");
					let (_, after) = self.list_line();
					if before != after { let tr = self.trace.join(" | "); self.rec.oracle_fail(format!("refused duplicate send changed the map: {}", tr)); }
				},
				Err(p) => { self.emit(format!("send {} {}", id, Self::csv(&parts)), "panic", &[], "send:panic"); self.dead = true; let _ = p; },
			}
		} else if r < 36 {
			let (id, part, sp) = self.pick_part(true);
			let oc = self.rng.chance(1, 3);
			let gen = self.meta.get(&id).map(|m| m.gen).unwrap_or(0);
			let hit = st.get(&id).map(|(n, _)| n != "AwaitingInvoice").unwrap_or(false);
			let f = &self.f;
			let res = guarded(AssertUnwindSafe(|| f.claim(pid(id), preimage_of(id, gen), sp, part, oc)));
			if hit { self.tally.entry(id).or_default().claim_hit = true; }
			match res {
				Ok(evs) => self.emit(format!("claim {} {} {}", id, part, oc as u8), "ok", &evs, if evs.is_empty() { "claim:dup" } else if oc { "claim:onchain" } else { "claim:offchain" }),
				Err(_) => { self.emit(format!("claim {} {} {}", id, part, oc as u8), "panic", &[], "claim:panic"); self.dead = true; },
			}
		} else if r < 50 {
			let (id, part, sp) = self.pick_part(true);
			// finalize_claims asserts is_fulfilled: mostly respect it
			let fulfilled = st.get(&id).map(|(n, _)| n == "Fulfilled").unwrap_or(true);
			if !fulfilled && !self.rng.chance(1, 30) { return; }
			let f = &self.f;
			let res = guarded(AssertUnwindSafe(|| f.finalize(pid(id), sp, part)));
			match res {
				Ok(evs) => self.emit(format!("finalize {} {}", id, part), "ok", &evs, if evs.is_empty() { "finalize:dup" } else { "finalize:ok" }),
				Err(_) => { self.emit(format!("finalize {} {}", id, part), "panic", &[], "finalize:panic"); self.dead = true; },
			}
		} else if r < 70 {
			let (id, part, sp) = self.pick_part(true);
			let perm = self.rng.chance(1, 3);
			let auto = self.auto(id, &st);
			let gen = self.meta.get(&id).map(|m| m.gen).unwrap_or(0);
			let hash = hash_of(&preimage_of(id, gen));
			let f = &self.f;
			let res = guarded(AssertUnwindSafe(|| f.fail(pid(id), hash, sp, part, perm)));
			match res {
				Ok(evs) => {
					let class = if evs.is_empty() { "fail:silent" } else if evs.len() == 2 { "fail:terminal" } else if auto && !perm { "fail:retryable" } else { "fail:abandon" };
					for e in evs.iter() { if e.starts_with("PaymentPathFailed") && !e.ends_with(&format!("perm={}", perm)) { let tr = self.trace.join(" | "); self.rec.oracle_fail(format!("PaymentPathFailed.payment_failed_permanently != injected failure kind: {} {}", e, tr)); } }
					self.emit(format!("fail {} {} {} {}", id, part, auto as u8, perm as u8), "ok", &evs, class)
				},
				Err(_) => { self.emit(format!("fail {} {} {} {}", id, part, auto as u8, perm as u8), "panic", &[], "fail:panic"); self.dead = true; },
			}
		} else if r < 74 {
			let id = self.rng.range(1, 4);
			let f = &self.f;
			let evs = f.abandon(pid(id));
			self.emit(format!("abandon {} UserAbandoned", id), "ok", &evs, if evs.is_empty() { "abandon:quiet" } else { "abandon:terminal" });
		} else if r < 82 {
			let n = if self.rng.chance(1, 4) { self.rng.range(2, 9) } else { 1 };
			for _ in 0..n {
				let evs = self.f.tick();
				let (_, before) = self.list_line();
				let _ = before;
				self.emit("tick".to_string(), "ok", &evs, if evs.is_empty() { "tick" } else { "tick:expired" });
			}
		} else if r < 86 {
			self.f.handle();
			self.emit("handle".to_string(), "ok", &[], "handle");
		} else if r < 88 {
			let id = self.rng.range(1, 4);
			let t = self.rng.below(4);
			match self.f.await_invoice(pid(id), t) {
				Ok(()) => { self.meta.insert(id, PayMeta { strategy: None, count: 0, gen: 0 }); self.tally.insert(id, Tally::default()); self.emit(format!("await {} {}", id, t), "ok", &[], "await:ok") },
				Err(()) => self.emit(format!("await {} {}", id, t), "dup", &[], "await:dup"),
			}
		} else if r < 95 {
			// check_retry_payments with a scripted router
			let mut plan = vec![];
			let mut plan_parts = vec![];
			for _ in 0..4 {
				if self.rng.chance(2, 3) { let n = self.rng.range(1, 2); let ps = self.new_parts(0, n); plan.push(Some(ps.clone())); plan_parts.push(ps); } else { plan.push(None); plan_parts.push(vec![]); }
			}
			let f = &self.f;
			let res = guarded(AssertUnwindSafe(|| f.check_retry(plan)));
			match res {
				Ok((evs, calls, sent)) => {
					let mut items = vec![];
					for (k, (id, found)) in calls.iter().enumerate() {
						let i = pid_num(&hex(&id.0));
						if *found {
							items.push(format!("{}={}", i, Self::csv(&plan_parts[k])));
							if let Some(m) = self.meta.get_mut(&i) { m.count += 1; }
						} else { items.push(format!("{}=x", i)); }
					}
					for (id, sp, scid) in sent { self.parts.insert(scid, Part { id: pid_num(&hex(&id.0)), sp }); }
					let (_, st2) = self.list_line();
					// ids that are auto-retryable at the time of the final retain: Retryable entries that survived
					// are judged by their (updated) attempt counts; entries removed by the retain were not auto
					let autos: Vec<u64> = self.meta.iter().filter(|(i, m)| m.strategy.map(|s| s > m.count).unwrap_or(false) && st2.get(*i).map(|(n, _)| n == "Retryable").unwrap_or(false)).map(|(i, _)| *i).collect();
					let class = if calls.is_empty() { if evs.is_empty() { "check:idle" } else { "check:sweep" } } else { "check:retry" };
					self.emit(format!("check {} {}", if items.is_empty() { "-".to_string() } else { items.join(";") }, Self::csv(&autos)), "ok", &evs, class);
				},
				Err(_) => { self.emit("check - -".to_string(), "panic", &[], "check:panic"); self.dead = true; },
			}
		} else if r < 97 {
			self.f.persist();
			self.snap_meta = self.meta.clone();
			self.emit("persist".to_string(), "ok", &[], "persist");
		} else {
			// restart: restore the written map, then what the monitors know (arbitrary view, not nec. consistent)
			if let Err(e) = self.f.restore() { self.rec.oracle_fail(format!("persisted map does not read back: {}", e)); self.dead = true; return; }
			self.meta = self.snap_meta.clone();
			// `retry_strategy` / `attempts` are not written (static_value None / new()): nothing auto-retries after a reload
			for (_, m) in self.meta.iter_mut() { m.strategy = None; m.count = 0; }
			let (_, st0) = self.list_line();
			for (_, t) in self.tally.iter_mut() { t.restarted = true; }
			for i in st0.keys() { self.tally.entry(*i).or_default().restarted = true; }
			let keys: Vec<u64> = self.parts.keys().cloned().collect();
			let mut view: Vec<(u64, u64, u8, bool)> = vec![]; // id, part, res(0 p,1 c,2 f), perm
			for k in keys { if self.rng.chance(1, 3) { let p = self.parts[&k]; view.push((p.id, k, self.rng.below(3) as u8, self.rng.chance(1, 3))); } }
			let mut evs_all: Vec<String> = vec![];
			let mut panicked = false;
			for (id, part, _, _) in view.iter() {
				let gen = self.meta.get(id).map(|m| m.gen).unwrap_or(0);
				let existed = { let (_, s) = self.list_line(); s.get(id).map(|(n, _)| n != "AwaitingInvoice").unwrap_or(false) };
				self.f.insert_from_monitor(pid(*id), hash_of(&preimage_of(*id, gen)), self.parts[part].sp, *part);
				if !existed { self.meta.insert(*id, PayMeta { strategy: None, count: 0, gen }); self.tally.entry(*id).or_default().restarted = true; }
			}
			let mut items = vec![];
			for (id, part, res, _) in view.iter() { if *res == 0 { items.push(format!("{}:{}:p", id, part)); } }
			for (id, part, res, _) in view.iter() {
				if *res != 1 { continue; }
				let gen = self.meta.get(id).map(|m| m.gen).unwrap_or(0);
				let f = &self.f; let sp = self.parts[part].sp;
				match guarded(AssertUnwindSafe(|| f.claim(pid(*id), preimage_of(*id, gen), sp, *part, true))) { Ok(e) => evs_all.extend(e), Err(_) => panicked = true }
				self.tally.entry(*id).or_default().claim_hit = true;
				items.push(format!("{}:{}:c", id, part));
			}
			for (id, part, res, perm) in view.iter() {
				if *res != 2 { continue; }
				let (_, s) = self.list_line();
				let auto = self.auto(*id, &s);
				let gen = self.meta.get(id).map(|m| m.gen).unwrap_or(0);
				let f = &self.f; let sp = self.parts[part].sp;
				match guarded(AssertUnwindSafe(|| f.fail(pid(*id), hash_of(&preimage_of(*id, gen)), sp, *part, *perm))) { Ok(e) => evs_all.extend(e), Err(_) => panicked = true }
				items.push(format!("{}:{}:f{}{}", id, part, auto as u8, *perm as u8));
			}
			// the driver expands `restart` in the order inserts, claims, fails — keep the same item order per kind
			let line = format!("restart {}", if items.is_empty() { "-".to_string() } else { items.join(",") });
			if panicked { self.emit(line, "panic", &[], "restart:panic"); self.dead = true; } else { self.emit(line, "ok", &evs_all, "restart"); }
		}
		if !self.dead && self.rng.chance(1, 3) {
			let (l, _) = self.list_line();
			self.trace.push(l.clone());
			self.rec.case("list", &l, "list", true);
		}
	}
}

fn run_pay(args: &Args) {
	let mut rec = Rec::new(&args.out, "c03pay");
	let mut rng = Rng::new(args.seed);
	let n_seq = if args.thorough { 60_000 } else { 2_500 } * args.scale;
	for s in 0..n_seq {
		rec.directive("reset");
		let len = if rng.chance(1, 10) { rng.range(40, 120) } else { rng.range(5, 40) };
		let mut seq = Seq { f: Facade::new(rng.bytes32(), 10_000), rec: &mut rec, rng: &mut rng, meta: BTreeMap::new(), snap_meta: BTreeMap::new(), parts: BTreeMap::new(),
			next_part: 1 + 100 * (s % 400), gens: s * 1000, tally: BTreeMap::new(), present: BTreeSet::new(), trace: vec![], dead: false };
		for _ in 0..len { if seq.dead { break; } seq.step(); }
		if !seq.dead {
			let (l, _) = seq.list_line();
			seq.rec.case("list", &l, "list", true);
		}
		std::mem::forget(seq.f); // a poisoned mutex inside must not abort on drop
	}
	rec.notes.insert("rule".into(), "PRNG op sequences (5–120 ops over 4 payment ids, 0–4 parts each, retry strategies None/0/1/2) on the real OutboundPayments through verif_hooks::outbound::Facade; every op line is a case (events pushed, dup, panic), plus map dumps; distinct = distinct op text".into());
	rec.finish();
}

fn main() {
	let args = &parse_args("c03pay");
	if std::env::var("C03_DEBUG").is_ok() { std::panic::set_hook(Box::new(|i| { eprintln!("PANIC {}", i); })); }
	match args.model.as_str() {
		"c03pay" => run_pay(args),
		"c03e2e" => e2e::run(args),
		m => { eprintln!("unknown model {}", m); std::process::exit(2); },
	}
}
