//! C03 — every outbound payment reaches a truthful terminal outcome.
//! model `c03pay`: the REAL `OutboundPayments` (through `verif_hooks::outbound::Facade`) is driven with
//!   generated op sequences (1–4 parts, duplicate/out-of-order claim, finalize, fail, abandon, retries through a
//!   scripted router, timer ticks, event handling, persist / restart with arbitrary monitor views); the pushed
//!   events, `DuplicatePayment`, assertion panics and the map dump are compared with the Lean model.
//! model `c03e2e`: real nodes (sim engine): the sender's event stream and `list_recent_payments` are compared
//!   with the model fed by the HTLC resolutions observed at the sender.
//! op lines: see lean/LdkModel/Driver/C03.lean.
use std::collections::{BTreeMap, BTreeSet};
use std::panic::AssertUnwindSafe;

use ldk_verif_harness::common::*;
use lightning::ln::channelmanager::PaymentId;
use lightning::ln::verif_hooks::outbound::{CallTrace, Facade, PathAnswer};
use lightning::types::payment::{PaymentHash, PaymentPreimage};


/// c03e2e — real nodes. Node 0 is the sender; 1 and 2 are hops / recipients. Channels: c0, c1: 0-1; c2: 1-2;
/// c3: 0-2. Every message is delivered individually in PRNG order. The ops fed to the model are derived from what
/// is observable at the sender independently of its payment events: an `update_fulfill_htlc` delivered to it
/// (claim), and an outbound HTLC leaving `ChannelDetails::pending_outbound_htlcs` (finalize if it had been
/// fulfilled, fail otherwise). The sender's payment events and `list_recent_payments` are the compared outputs.
mod e2e {
	use std::collections::{BTreeMap, BTreeSet};
	use ldk_verif_harness::common::*;
	use ldk_verif_harness::sim::{self, Net, Wire};
	use lightning::events::Event;
	use lightning::ln::channelmanager::{PaymentId, RecentPaymentDetails};
	use lightning::ln::functional_test_utils::{get_payment_preimage_hash, test_legacy_channel_config};
	use lightning::util::config::MaxDustHTLCExposure;
	use lightning::chain::ChannelMonitorUpdateStatus;
	use lightning::ln::channel_state::OutboundHTLCSource;
	use lightning::ln::outbound_payment::{RecipientOnionFields, Retry, RetryableSendFailure};
	use lightning::ln::verif_hooks as vh;
	use lightning::routing::router::{Path, PaymentParameters, Route, RouteHop, RouteParameters};
	use lightning::types::features::{ChannelFeatures, NodeFeatures};
	use lightning::types::payment::{PaymentHash, PaymentPreimage, PaymentSecret};

	struct Pay { mid: u64, id: PaymentId, hash: PaymentHash, preimage: PaymentPreimage, secret: PaymentSecret, to: usize, total: u64, fee: u64,
		parts: Vec<(u64, usize)>, // (part number, first-hop channel index)
		routes: Vec<(Vec<usize>, Vec<usize>, u64)>,
		sent_ev: u32, failed_ev: u32, recipient_claimed: bool, recipient_action: u8, decided: bool,
		/// parts whose HTLC was seen leaving the sender's channel unfulfilled / parts named by a PaymentPathFailed
		failed_htlcs: BTreeSet<u64>, path_failed: BTreeSet<u64>,
		/// routing fees of all paths the payment may use (first-hop HTLC amounts include them)
		max_fee: u64,
		/// a probe (send_probe): ProbeSuccessful / ProbeFailed events seen
		is_probe: bool, probe_ev: u32 }

	struct Ctx<'a> { net: Net, rec: &'a mut Rec, rng: &'a mut Rng, buf: Vec<(String, u32)>, group: u32, htlcs: BTreeMap<(usize, u64), (usize, u64, bool)>,
		live: BTreeSet<(usize, u64)>, ev_seen: Vec<usize>, pays: Vec<Pay>, next_part: u64, log: Vec<String>, sender_balance: u64,
		/// ` tried=..` suffix of the next compared answer (a `sendr` / `retryr` op is in the next flush)
		tried: String,
		/// first-hop channels of the sender with a monitor update left InProgress by the harness; peers to reconnect
		paused: Vec<usize>, to_reconnect: Vec<(usize, usize)>,
		/// a call into the sender panicked (guarded): its locks may be poisoned, the network is given up
		broken: bool,
		/// HTLCs of probes seen leaving the sender's channel since the last drain: (payment number, part)
		probe_buf: Vec<(u64, u64)> }

	fn hops(net: &Net, nodes: &[usize], chans: &[usize], amt: u64) -> (Path, u64) {
		let mut h = vec![]; let mut fee = 0;
		for k in 1..nodes.len() {
			let last = k == nodes.len() - 1;
			let c = net.chans[chans[k - 1]];
			if !last { fee += 1000; }
			h.push(RouteHop { pubkey: net.ids[nodes[k]], node_features: NodeFeatures::empty(), short_channel_id: c.3, channel_features: ChannelFeatures::empty(),
				fee_msat: if last { amt } else { 1000 }, cltv_expiry_delta: if last { 60 } else { 48 }, maybe_announced_channel: true });
		}
		(Path { hops: h, blinded_tail: None }, fee)
	}

	impl<'a> Ctx<'a> {
		fn sender_htlcs(&self) -> BTreeMap<(usize, u64), PaymentHash> {
			let mut m = BTreeMap::new();
			for ch in self.net.nodes[0].node.list_channels() {
				let c = self.net.chan_idx(&ch.channel_id);
				for h in ch.pending_outbound_htlcs.iter() { if let Some(i) = h.htlc_id { m.insert((c, i), h.payment_hash); } }
			}
			m
		}
		/// HTLCs of payment `p` that are pending in the sender's channels, read from the channels alone (independent of the
		/// OutboundPayments map): committed ones — also while the monitor update that commits them is still in progress —
		/// and ones waiting in the holding cell. Returns (count, sum of amounts).
		fn live_of(&self, p: usize) -> (usize, u64) {
			let (mut n, mut sum) = (0, 0);
			for ch in self.net.nodes[0].node.list_channels() {
				for h in ch.pending_outbound_htlcs.iter() {
					let ours = match &h.source { Some(OutboundHTLCSource::Local { payment_id }) => *payment_id == self.pays[p].id, Some(_) => false, None => h.payment_hash == self.pays[p].hash };
					if ours && h.payment_hash == self.pays[p].hash { n += 1; sum += h.amount_msat; }
				}
			}
			(n, sum)
		}
		fn balance(&self) -> u64 {
			let n = self.net.nodes[0].node; let mut t = 0;
			for ch in n.list_channels() { t += vh::channel_value_to_self_msat(n, &ch.counterparty.node_id, &ch.channel_id).unwrap_or(0); }
			t
		}
		/// HTLCs that left the sender's channels since the last look
		fn observe(&mut self) {
			let cur = self.sender_htlcs();
			let gone: Vec<(usize, u64)> = self.live.iter().filter(|k| !cur.contains_key(k)).cloned().collect();
			self.group += 1;
			for k in gone {
				self.live.remove(&k);
				if let Some((p, part, fulfilled)) = self.htlcs.get(&k).cloned() {
					if !fulfilled { self.pays[p].failed_htlcs.insert(part); }
					let mid = self.pays[p].mid;
					if self.pays[p].is_probe { self.probe_buf.push((mid, part)); continue; }
					let g = self.group; if fulfilled { self.buf.push((format!("finalize {} {}", mid, part), g)); } else { self.buf.push((format!("fail {} {} 0 ?{}", mid, part, part), g)); }
				}
			}
			for (k, hash) in cur.iter() {
				if !self.live.contains(k) && !self.htlcs.contains_key(k) {
					// a new HTLC: which payment / part?
					if let Some(p) = self.pays.iter().position(|x| x.hash == *hash) {
						let part = self.pays[p].parts.iter().find(|(pt, c)| *c == k.0 && !self.htlcs.values().any(|v| v.1 == *pt)).map(|x| x.0);
						if let Some(part) = part { self.htlcs.insert(*k, (p, part, false)); self.live.insert(*k); }
					}
				}
			}
		}
		fn part_of(&self, p: usize, scid: u64) -> u64 {
			let c = self.net.chans.iter().position(|x| x.3 == scid).unwrap_or(usize::MAX);
			self.pays[p].parts.iter().find(|(_, pc)| *pc == c).map(|x| x.0).unwrap_or(0)
		}
		/// drain the sender's events; emit one compared line for everything buffered
		fn flush(&mut self, extra: Option<&str>) {
			self.net.process_events(0);
			self.observe();
			let new: Vec<Event> = self.net.events[0][self.ev_seen[0]..].to_vec();
			self.ev_seen[0] = self.net.events[0].len();
			let mut texts: Vec<(u64, String)> = vec![];
			let mut fee_paid: Vec<(u64, Option<u64>)> = vec![];
			let mut probe_texts: Vec<(u64, u64, bool)> = vec![];
			let mut perm: BTreeMap<u64, bool> = BTreeMap::new();
			for e in new.iter() {
				match e {
					Event::PaymentSent { payment_id, payment_preimage, payment_hash, fee_paid_msat, amount_msat, .. } => {
						let p = self.pays.iter().position(|x| Some(x.id) == *payment_id);
						if let Some(p) = p {
							use bitcoin::hashes::{sha256, Hash};
							let pay = &mut self.pays[p]; pay.sent_ev += 1;
							let mid = pay.mid;
							if sha256::Hash::hash(&payment_preimage.0).to_byte_array() != payment_hash.0 || *payment_hash != pay.hash { self.rec.oracle_fail(format!("PaymentSent preimage/hash mismatch pay={} :: {}", mid, self.log.join(" | "))); }
							if *fee_paid_msat != Some(pay.fee) || *amount_msat != Some(pay.total) { self.rec.oracle_fail(format!("PaymentSent amount/fee {:?}/{:?} != sent {}/{} pay={} :: {}", amount_msat, fee_paid_msat, pay.total, pay.fee, mid, self.log.join(" | "))); }
							texts.push((mid, format!("sent:{}", mid)));
							fee_paid.push((mid, *fee_paid_msat));
						} else { texts.push((0, "sent:unknown".into())); }
					},
					Event::PaymentFailed { payment_id, reason, .. } => {
						if let Some(p) = self.pays.iter().position(|x| x.id == *payment_id) {
							self.pays[p].failed_ev += 1; let mid = self.pays[p].mid; texts.push((mid, format!("failed:{}:{}", mid, reason.map(|r| format!("{:?}", r)).unwrap_or("None".into()))));
							// truthful terminal event: PaymentFailed only once NO HTLC of the payment is in flight any more
							// (read from the sender's channels, independent of the OutboundPayments map)
							let (live, _) = self.live_of(p);
							if live > 0 { self.rec.oracle_fail(format!("PaymentFailed for payment {} while {} of its HTLCs are still pending in the sender's channels (committed, possibly behind an in-progress monitor update, or in the holding cell) :: {}", mid, live, self.log.join(" | "))); }
						}
					},
					Event::ProbeSuccessful { payment_id, path, .. } | Event::ProbeFailed { payment_id, path, .. } => {
						if let Some(p) = self.pays.iter().position(|x| x.id == *payment_id) {
							let ok = matches!(e, Event::ProbeSuccessful { .. });
							let mid = self.pays[p].mid; let part = self.part_of(p, path.hops[0].short_channel_id);
							self.pays[p].probe_ev += 1;
							if !self.pays[p].is_probe { self.rec.oracle_fail(format!("probe event for payment {} which is not a probe :: {}", mid, self.log.join(" | "))); }
							probe_texts.push((mid, part, ok));
						}
					},
					Event::PaymentPathSuccessful { payment_id, path, .. } => {
						if let Some(p) = self.pays.iter().position(|x| x.id == *payment_id) { let mid = self.pays[p].mid; texts.push((mid, format!("pathok:{}:{}", mid, self.part_of(p, path.hops[0].short_channel_id)))); }
					},
					Event::PaymentPathFailed { payment_id, path, payment_failed_permanently, short_channel_id, .. } => {
						if let Some(p) = self.pays.iter().position(|x| Some(x.id) == *payment_id) {
							let mid = self.pays[p].mid; let part = self.part_of(p, path.hops[0].short_channel_id);
							perm.insert(part, *payment_failed_permanently);
							self.pays[p].path_failed.insert(part);
							// ... and not a path whose HTLC is still pending in the sender's channel (e.g. paused behind a monitor update)
							let cur = self.sender_htlcs();
							if self.htlcs.iter().any(|(k, v)| v.0 == p && v.1 == part && cur.contains_key(k)) { self.rec.oracle_fail(format!("PaymentPathFailed for part {} of payment {} although its HTLC is still pending in the sender's channel :: {}", part, mid, self.log.join(" | "))); }
							// failure attribution: a failure from the recipient names no channel; one from a hop names a channel of the path
							if let Some(s) = short_channel_id { if !path.hops.iter().any(|h| h.short_channel_id == *s) { self.rec.oracle_fail(format!("PaymentPathFailed.short_channel_id {} is not on the failed path pay={} :: {}", s, mid, self.log.join(" | "))); } }
							if *payment_failed_permanently && self.pays[p].recipient_action != 2 && self.pays[p].decided { self.rec.oracle_fail(format!("permanent failure reported although the recipient did not reject pay={} :: {}", mid, self.log.join(" | "))); }
							texts.push((mid, format!("pathfail:{}:{}", mid, part)));
						}
					},
					_ => {},
				}
			}
			for (mid, t) in texts.iter() { if self.pays.iter().any(|x| x.mid == *mid && x.is_probe) { self.rec.oracle_fail(format!("payment event {} for probe {} :: {}", t, mid, self.log.join(" | "))); } }
			// HTLCs seen leaving in one look (e.g. several RAAs released by one event drain) have no observable order:
			// order such a group like the implementation's path events
			let ev_parts: Vec<String> = texts.iter().filter(|t| t.1.starts_with("path")).map(|t| { let w: Vec<&str> = t.1.split(':').collect(); format!("{} {}", w[1], w[2]) }).collect();
			let mut raw: Vec<(String, u32)> = self.buf.drain(..).collect();
			// (finalize_claims / fail_htlc run when the RAA's monitor update completes, which an unhandled PaymentSent
			// can hold back: removals observed at different moments may be processed together, in the map's order)
			let key = |o: &String| -> usize { let w: Vec<&str> = o.split(' ').collect(); let k = format!("{} {}", w[1], w[2]); ev_parts.iter().position(|x| *x == k).unwrap_or(usize::MAX) };
			let slots: Vec<usize> = (0..raw.len()).filter(|k| raw[*k].1 != 0).collect();
			let mut moved: Vec<(String, u32)> = slots.iter().map(|k| raw[*k].clone()).collect();
			moved.sort_by_key(|o| key(&o.0));
			for (k, v) in slots.iter().zip(moved.into_iter()) { raw[*k] = v; }
			let mut ops: Vec<String> = raw.into_iter().map(|x| x.0).collect();
			for o in ops.iter_mut() { if let Some(i) = o.find('?') { let part: u64 = o[i + 1..].parse().unwrap(); let pm = perm.get(&part).cloned().unwrap_or(false); o.truncate(i); o.push_str(if pm { "1" } else { "0" }); } }
			// PendingOutboundPayment::remove runs first in fail_htlc: the fee ledger sees the removal before the state changes
			let ops_expanded: Vec<String> = ops.iter().flat_map(|o| { let w: Vec<&str> = o.split(' ').collect(); if w[0] == "fail" { vec![format!("fee rem {} {}", w[1], w[2]), o.clone()] } else { vec![o.clone()] } }).collect();
			let mut ops = ops_expanded;
			if let Some(x) = extra { ops.push(x.to_string()); }
			ops.push("handle".to_string());
			texts.sort_by_key(|t| t.0);
			let mut ans = "ok".to_string(); for (_, t) in texts.iter() { ans.push(' '); ans.push_str(t); }
ans.push_str(&self.tried); self.tried.clear();
			let line = format!("seq {}", ops.join(" ; "));
			let class = if texts.is_empty() { "quiet" } else if texts.iter().any(|t| t.1.starts_with("sent")) { "sent" } else if texts.iter().any(|t| t.1.starts_with("failed")) { "failed" } else { "path-events" };
			self.log.push(format!("{} => {}", line, ans));
			if ops.len() > 1 || !texts.is_empty() { self.rec.case(&line, &ans, &format!("flush:{}", class), ops.len() > 1); }
			// probes: the HTLCs seen leaving since the last drain, each with the probe event of this drain
			let gone: Vec<(u64, u64)> = self.probe_buf.drain(..).collect();
			for (mid, part) in gone.iter() {
				let ev = probe_texts.iter().find(|t| t.0 == *mid && t.1 == *part);
				let a = match ev { Some((_, _, true)) => format!("ok probeok:{}:{}", mid, part), Some((_, _, false)) => format!("ok probefail:{}:{}", mid, part), None => "ok".to_string() };
				let op = format!("pfail {} {} 0 {}", mid, part, ev.map(|t| t.2 as u8).unwrap_or(0));
				self.log.push(format!("{} => {}", op, a));
				self.rec.case(&op, &a, "probe:fail", true);
			}
			for t in probe_texts.iter() { if !gone.iter().any(|g| g.0 == t.0 && g.1 == t.1) { self.rec.oracle_fail(format!("probe event for payment {} part {} although its HTLC was not seen leaving the sender's channel :: {}", t.0, t.1, self.log.join(" | "))); } }
			// PaymentSent.fee_paid_msat against the model's fee ledger
			for (mid, f) in fee_paid { let a = format!("feepaid {} {}", mid, f.map(|x| x.to_string()).unwrap_or("none".into())); self.log.push(a.clone()); self.rec.case(&format!("feepaid {}", mid), &a, "feepaid", true); }
			self.oracle_counts();
		}
		fn oracle_counts(&mut self) {
			// never more in flight than the payment's total: an amount must not be sent again while its HTLC is still pending
			if !self.pays.is_empty() {
				let p = self.pays.len() - 1;
				let (n, sum) = self.live_of(p);
				if sum > self.pays[p].total + self.pays[p].max_fee { self.rec.oracle_fail(format!("payment {}: amount re-sent although still in flight (sum of its {} pending HTLCs {} > total {} + routing fees {}) :: {}", self.pays[p].mid, n, sum, self.pays[p].total, self.pays[p].max_fee, self.log.join(" | "))); }
			}
			for pay in self.pays.iter() {
				if pay.sent_ev > 1 || pay.failed_ev > 1 || (pay.sent_ev > 0 && pay.failed_ev > 0) {
					self.rec.oracle_fail(format!("payment {} got {} PaymentSent and {} PaymentFailed events (no restart) :: {}", pay.mid, pay.sent_ev, pay.failed_ev, self.log.join(" | ")));
				}
			}
		}
		fn recent(&mut self) {
			let mut v: Vec<(u64, &'static str)> = vec![];
			for r in self.net.nodes[0].node.list_recent_payments() {
				let (id, n) = match r { RecentPaymentDetails::AwaitingInvoice { payment_id } => (payment_id, "AwaitingInvoice"), RecentPaymentDetails::Pending { payment_id, .. } => (payment_id, "Pending"),
					RecentPaymentDetails::Fulfilled { payment_id, .. } => (payment_id, "Fulfilled"), RecentPaymentDetails::Abandoned { payment_id, .. } => (payment_id, "Abandoned") };
				if let Some(p) = self.pays.iter().find(|x| x.id == id) { v.push((p.mid, n)); }
			}
			v.sort();
			let mut s = "recent".to_string(); for (i, n) in v { s.push_str(&format!(" {}:{}", i, n)); }
			self.log.push(s.clone());
			self.rec.case("recent", &s, "recent", false);
		}
		fn send(&mut self, mid: u64, to: usize, routes: Vec<(Vec<usize>, Vec<usize>, u64)>) -> Option<usize> {
			let total: u64 = routes.iter().map(|r| r.2).sum();
			let (preimage, hash, secret) = get_payment_preimage_hash(&self.net.nodes[to], Some(total), None);
			let mut paths = vec![]; let mut fee = 0; let mut parts = vec![]; let mut fee_ops = vec![];
			for (nodes, chans, amt) in routes.iter() { let (p, f) = hops(&self.net, nodes, chans, *amt); paths.push(p); fee += f; fee_ops.push(format!("fee ins {} {} {}", mid, self.next_part, f)); parts.push((self.next_part, chans[0])); self.next_part += 1; }
			let params = PaymentParameters::from_node_id(self.net.ids[to], 60);
			let route = Route { paths, route_params: RouteParameters::from_payment_params_and_value(params, total) };
			fee_ops.insert(0, format!("fee new {} {}", mid, route.route_params.max_total_routing_fee_msat.map(|m| m.to_string()).unwrap_or("-".into())));
			let id = PaymentId(hash.0);
			let r = self.net.nodes[0].node.send_payment_with_route(route, hash, RecipientOnionFields::secret_only(secret, total), id);
			self.net.pump(0);
			match r {
				Ok(()) => {
					self.pays.push(Pay { mid, id, hash, preimage, secret, to, total, fee, parts: parts.clone(), routes, sent_ev: 0, failed_ev: 0, recipient_claimed: false, recipient_action: 0, decided: false, failed_htlcs: BTreeSet::new(), path_failed: BTreeSet::new(), max_fee: fee, is_probe: false, probe_ev: 0 });
					self.observe();
					let csv: Vec<String> = parts.iter().map(|p| p.0.to_string()).collect();
					self.flush(Some(&format!("send {} {} ; strategy {} a0 ; {}", mid, csv.join(","), mid, fee_ops.join(" ; "))));
					Some(self.pays.len() - 1)
				},
				Err(e) => { self.rec.discarded += 1; self.log.push(format!("send refused {:?}", e)); None },
			}
		}
		/// complete one paused monitor update of the sender, or reconnect one disconnected peer (PRNG order)
		fn resume_one(&mut self) {
			let pick_pause = !self.paused.is_empty() && (self.to_reconnect.is_empty() || self.rng.chance(1, 2));
			if pick_pause {
				let c = self.paused.remove(0);
				for id in self.net.pending_updates(0, c) { self.net.complete(0, c, id); }
				self.observe();
				self.log.push(format!("monitor update of c{} completed", c));
			} else if !self.to_reconnect.is_empty() {
				let pr = self.to_reconnect.remove(0);
				self.net.reconnect(pr.0, pr.1); self.observe();
				self.log.push(format!("reconnect {:?}", pr));
			}
		}
		/// A send whose paths meet different fates in the SAME send call: first-hop channels whose ChannelMonitorUpdate
		/// persists asynchronously (`send_payment_along_path` answers MonitorUpdateInProgress: the HTLC is committed and
		/// goes out once the update completes), first hops whose peer is disconnected (ChannelUnavailable: never sent),
		/// and ordinary ones. What each path met is read back from the sender's channels (HTLC present? update pending?).
		/// variants: 0 paused + refused; 1 ok + paused + refused; 2 ok + paused; 3 paused alone; 4 all refused;
		/// 5 paused + refused with one retry left (the retry goes over the second 0-1 channel); 6 paused direct + refused 2-hop
		fn send_async(&mut self, mid: u64, v: u64) -> Option<usize> {
			let amt = 50_000 + self.rng.below(100) * 1000;
			let via0: (Vec<usize>, Vec<usize>) = (vec![0, 1, 2], vec![0, 2]);
			let via1: (Vec<usize>, Vec<usize>) = (vec![0, 1, 2], vec![1, 2]);
			let direct: (Vec<usize>, Vec<usize>) = (vec![0, 2], vec![3]);
			use ChannelMonitorUpdateStatus::{Completed, InProgress};
			let (routes, rets, disc, retry): (Vec<(Vec<usize>, Vec<usize>, u64)>, Vec<ChannelMonitorUpdateStatus>, Vec<(usize, usize)>, bool) = match v {
				0 => (vec![(via0.0, via0.1, amt), (direct.0, direct.1, amt + 2000)], vec![InProgress], vec![(0, 2)], false),
				1 => (vec![(via0.0, via0.1, amt), (via1.0, via1.1, amt + 1000), (direct.0, direct.1, amt + 2000)], vec![Completed, InProgress], vec![(0, 2)], false),
				2 => (vec![(via0.0, via0.1, amt), (via1.0, via1.1, amt + 1000)], vec![Completed, InProgress], vec![], false),
				3 => (vec![if self.rng.chance(1, 2) { (via0.0, via0.1, amt) } else { (direct.0, direct.1, amt) }], vec![InProgress], vec![], false),
				4 => (vec![(via0.0, via0.1, amt), (direct.0, direct.1, amt + 2000)], vec![], vec![(0, 1), (0, 2)], false),
				5 => (vec![(via0.0, via0.1, amt), (direct.0, direct.1, amt + 2000)], vec![InProgress], vec![(0, 2)], true),
				_ => (vec![(direct.0, direct.1, amt), (via0.0, via0.1, amt + 2000)], vec![InProgress], vec![(0, 1)], false),
			};
			let to = 2;
			let total: u64 = routes.iter().map(|r| r.2).sum();
			let (preimage, hash, secret) = get_payment_preimage_hash(&self.net.nodes[to], Some(total), None);
			let mut paths = vec![]; let mut fees = vec![]; let mut parts = vec![];
			for (nodes, chans, a) in routes.iter() { let (p, f) = hops(&self.net, nodes, chans, *a); paths.push(p); fees.push(f); parts.push((self.next_part, chans[0])); self.next_part += 1; }
			let params = PaymentParameters::from_node_id(self.net.ids[to], 60);
			let route_params = RouteParameters::from_payment_params_and_value(params, total);
			let route = Route { paths, route_params: route_params.clone() };
			let max_fee_budget = route_params.max_total_routing_fee_msat;
			let id = PaymentId(hash.0);
			for pr in disc.iter() { self.net.disconnect(pr.0, pr.1); self.to_reconnect.push(*pr); self.log.push(format!("disconnect {:?}", pr)); }
			self.observe();
			{ let mut q = self.net.persisters[0].update_rets.lock().unwrap(); q.clear(); for r in rets.iter() { q.push_back(*r); } }
			// the retry (variant 5): what the router is asked after the partial failure, and the route it answers with
			let mut retry_part: Option<(u64, usize)> = None;
			let mut retry_route_txt = None;
			if retry {
				let router = self.net.nodes[0].router;
				router.expect_find_route(route_params.clone(), Ok(route.clone()));
				let mut rp = route_params.clone();
				rp.final_value_msat = routes[1].2;
				rp.max_total_routing_fee_msat = rp.max_total_routing_fee_msat.map(|m| m.saturating_sub(fees[0]));
				rp.payment_params.previously_failed_channels.push(self.net.chans[3].3);
				let via1b: (Vec<usize>, Vec<usize>) = (vec![0, 1, 2], vec![1, 2]);
				let (p2, f2) = hops(&self.net, &via1b.0, &via1b.1, routes[1].2);
				router.expect_find_route(rp.clone(), Ok(Route { paths: vec![p2], route_params: rp }));
				retry_part = Some((self.next_part, 1)); self.next_part += 1;
				retry_route_txt = Some((via1b.0.clone(), via1b.1.clone(), routes[1].2, f2));
			}
			let node = self.net.nodes[0].node;
			let onion = RecipientOnionFields::secret_only(secret, total);
			let r = guarded(std::panic::AssertUnwindSafe(|| if retry { node.send_payment(hash, onion, id, route_params, Retry::Attempts(1)) } else { node.send_payment_with_route(route, hash, onion, id) }));
			self.net.persisters[0].update_rets.lock().unwrap().clear();
			let r = match r { Ok(r) => r, Err(e) => {
				// variant 5: the TestRouter asserts the RouteParameters of the retry (left = asked, right = expected: the amount NOT in flight)
				let vals: Vec<&str> = e.match_indices("final_value_msat: ").map(|(i, m)| { let t = &e[i + m.len()..]; &t[..t.find(|c: char| !c.is_ascii_digit()).unwrap_or(t.len())] }).collect();
				let what = if vals.len() == 2 { format!("the retry asked the router for final_value_msat {} but only {} is not in flight (amount re-sent although still in flight)", vals[0], vals[1]) } else { e.chars().take(300).collect::<String>() };
				self.rec.oracle_fail(format!("send call panicked (async variant {}): {} :: {}", v, what, self.log.join(" | ")));
				self.broken = true;
				return None;
			} };
			self.net.pump(0);
			match r {
				Ok(()) => {
					let mut all_parts = parts.clone();
					if let Some(rp) = retry_part { all_parts.push(rp); }
					let all_routes = routes.clone();
					self.pays.push(Pay { mid, id, hash, preimage, secret, to, total, fee: 0, parts: all_parts.clone(), routes: all_routes, sent_ev: 0, failed_ev: 0, recipient_claimed: false, recipient_action: 0, decided: false, failed_htlcs: BTreeSet::new(), path_failed: BTreeSet::new(), max_fee: fees.iter().sum::<u64>() + 1000, is_probe: false, probe_ev: 0 });
					let p = self.pays.len() - 1;
					self.observe();
					// what each path met, read from the channels
					let res_of = |ctx: &Self, c: usize| -> char {
						let cid = ctx.net.chans[c].2;
						let has = ctx.net.nodes[0].node.list_channels().iter().any(|ch| ch.channel_id == cid && ch.pending_outbound_htlcs.iter().any(|h| h.payment_hash == hash));
						if !has { 'e' } else if !ctx.net.pending_updates(0, c).is_empty() { 'm' } else { 'o' }
					};
					let res: Vec<char> = parts.iter().map(|(_, c)| res_of(self, *c)).collect();
					let mut fee = 0;
					for (k, r) in res.iter().enumerate() { if *r != 'e' { fee += fees[k]; } if *r == 'm' { self.paused.push(parts[k].1); } }
					let csv = |v: &Vec<(u64, usize)>| v.iter().map(|p| p.0.to_string()).collect::<Vec<_>>().join(",");
					let mut line = format!("sendr {} {} {} 0", mid, csv(&parts), res.iter().map(|c| c.to_string()).collect::<Vec<_>>().join(","));
					line.push_str(&format!(" ; strategy {} a{}", mid, if retry { 1 } else { 0 }));
					// the fee ledger: create_pending_payment inserts every path, handle_pay_route_err removes the refused ones
					line.push_str(&format!(" ; fee new {} {}", mid, max_fee_budget.map(|m| m.to_string()).unwrap_or("-".into())));
					for (k, pt) in parts.iter().enumerate() { line.push_str(&format!(" ; fee ins {} {} {}", mid, pt.0, fees[k])); }
					for (k, pt) in parts.iter().enumerate() { if res[k] == 'e' { line.push_str(&format!(" ; fee rem {} {}", mid, pt.0)); } }
					let mut tried: Vec<String> = parts.iter().map(|p| p.0.to_string()).collect();
					if res.iter().any(|c| *c == 'e') {
						// handle_pay_route_err goes back to the router: one retry left and a route (variant 5), or no route
						match retry_part {
							Some((pt, c)) => { let r2 = res_of(self, c); if r2 != 'e' { fee += retry_route_txt.as_ref().unwrap().3; } line.push_str(&format!(" ; retryr {} {} 1 {} 0 ; fee ins {} {} {}", mid, pt, r2, mid, pt, retry_route_txt.as_ref().unwrap().3)); if r2 == 'e' { line.push_str(&format!(" ; fee rem {} {}", mid, pt)); } tried.push(pt.to_string()); },
							None => line.push_str(&format!(" ; abandon {} RouteNotFound", mid)),
						}
					}
					self.pays[p].fee = fee;
					self.log.push(format!("async send variant {} results {:?}", v, res));
					self.tried = format!(" tried={}", tried.join(","));
					self.flush(Some(&line));
					let class = format!("async:{}:{}", v, res.iter().collect::<String>());
					*self.rec.classes.entry(class).or_insert(0) += 1;
					Some(p)
				},
				Err(e) => { self.rec.discarded += 1; self.log.push(format!("async send refused {:?}", e)); while !self.to_reconnect.is_empty() { self.resume_one(); } None },
			}
		}
		fn dup_send(&mut self, p: usize) {
			let listed = self.net.nodes[0].node.list_recent_payments().iter().any(|r| match r { RecentPaymentDetails::Pending { payment_id, .. } | RecentPaymentDetails::Fulfilled { payment_id, .. } | RecentPaymentDetails::Abandoned { payment_id, .. } | RecentPaymentDetails::AwaitingInvoice { payment_id } => *payment_id == self.pays[p].id });
			if !listed { return; }
			self.flush(None);
			let pay = &self.pays[p];
			let mut paths = vec![];
			for (nodes, chans, amt) in pay.routes.iter() { paths.push(hops(&self.net, nodes, chans, *amt).0); }
			let params = PaymentParameters::from_node_id(self.net.ids[pay.to], 60);
			let route = Route { paths, route_params: RouteParameters::from_payment_params_and_value(params, pay.total) };
			let r = self.net.nodes[0].node.send_payment_with_route(route, pay.hash, RecipientOnionFields::secret_only(pay.secret, pay.total), pay.id);
			self.net.pump(0);
			let mid = pay.mid;
			let ans = match r { Err(RetryableSendFailure::DuplicatePayment) => "dup".to_string(), other => { self.rec.oracle_fail(format!("second send with a pending PaymentId returned {:?} pay={} :: {}", other, mid, self.log.join(" | "))); format!("other:{:?}", other) } };
			self.log.push(format!("dupsend {} => {}", mid, ans));
			self.rec.case(&format!("seq send {} 9999", mid), &ans, "dup-send", true);
		}
		/// recipients / hops: handle their events, decide claim or reject
		fn others_events(&mut self, i: usize) {
			self.net.process_events(i);
			let new: Vec<Event> = self.net.events[i][self.ev_seen[i]..].to_vec();
			self.ev_seen[i] = self.net.events[i].len();
			for e in new {
				match e {
					Event::PaymentClaimable { payment_hash, .. } => {
						if let Some(p) = self.pays.iter().position(|x| x.hash == payment_hash) {
							if !self.pays[p].decided {
								let a = if self.rng.chance(3, 5) { 1 } else { 2 };
								self.pays[p].recipient_action = a; self.pays[p].decided = true;
								if a == 1 { self.net.nodes[i].node.claim_funds(self.pays[p].preimage); } else { self.net.nodes[i].node.fail_htlc_backwards(&payment_hash); }
								self.net.pump(i);
								self.log.push(format!("recipient n{} {} pay={}", i, if a == 1 { "claims" } else { "rejects" }, self.pays[p].mid));
							}
						}
					},
					Event::PaymentClaimed { payment_hash, .. } => { if let Some(p) = self.pays.iter().position(|x| x.hash == payment_hash) { self.pays[p].recipient_claimed = true; } },
					_ => {},
				}
			}
		}
		fn deliver(&mut self, i: usize, j: usize) {
			if j == 0 {
				if let Some(Wire::Fulfill(m)) = self.net.q.get(&(i, j)).and_then(|q| q.front()) {
					let c = self.net.chan_idx(&m.channel_id);
					if let Some(v) = self.htlcs.get_mut(&(c, m.htlc_id)) { v.2 = true; let (p, part, _) = *v; let mid = self.pays[p].mid; self.buf.push((format!("claim {} {} 0", mid, part), 0)); }
				}
			}
			let k = self.net.deliver(i, j);
			if j == 0 || i == 0 { self.observe(); }
			let _ = k;
		}
		fn quiescent(&self) -> bool {
			self.net.any_queued().is_none() && (0..3).all(|i| !self.net.nodes[i].node.needs_pending_htlc_processing())
		}
		fn run_payment(&mut self, mid: u64, calm: bool) {
			// route choice
			let kind = self.rng.below(6);
			let amt = 50_000 + self.rng.below(100) * 1000;
			let routes: Vec<(Vec<usize>, Vec<usize>, u64)> = match kind {
				0 => vec![(vec![0, 1], vec![0], amt)],
				1 => vec![(vec![0, 1, 2], vec![0, 2], amt)],
				2 => vec![(vec![0, 1], vec![0], amt), (vec![0, 1], vec![1], amt + 1000)],
				3 => vec![(vec![0, 1, 2], vec![1, 2], amt), (vec![0, 2], vec![3], amt + 2000)],
				4 => vec![(vec![0, 2], vec![3], amt)],
				_ => vec![(vec![0, 1, 2], vec![0, 2], amt), (vec![0, 1, 2], vec![1, 2], amt), (vec![0, 2], vec![3], amt)],
			};
			let to = *routes[0].0.last().unwrap();
			self.log.clear();
			let bal0 = self.balance();
			let asyncv = if self.rng.chance(3, 10) { Some(self.rng.below(7)) } else { None };
			let p = match asyncv {
				Some(v) => match self.send_async(mid, v) { Some(p) => p, None => return },
				None => match self.send(mid, to, routes) { Some(p) => p, None => return },
			};
			let mut disconnected: Option<(usize, usize)> = None;
			let mut abandoned = false;
			let mut restarted = false;
			for _round in 0..600 {
				if self.quiescent() && disconnected.is_none() && self.paused.is_empty() && self.to_reconnect.is_empty() { break; }
				if (!self.paused.is_empty() || !self.to_reconnect.is_empty()) && self.rng.chance(1, 6) { self.resume_one(); continue; }
				let r = self.rng.below(100);
				if r < 62 {
					let pairs: Vec<(usize, usize)> = self.net.q.iter().filter(|(_, q)| !q.is_empty()).map(|(k, _)| *k).collect();
					if !pairs.is_empty() { let (i, j) = *self.rng.pick(&pairs); self.deliver(i, j); }
				} else if r < 74 {
					let i = 1 + self.rng.below(2) as usize; self.net.forward(i); self.others_events(i);
				} else if r < 86 {
					self.net.forward(0); self.observe(); self.flush(None);
				} else if r < 89 && !calm {
					self.net.nodes[0].node.timer_tick_occurred(); self.net.pump(0); self.observe(); self.buf.push(("tick".into(), 0));
				} else if r < 92 && !calm {
					self.dup_send(p);
				} else if r < 94 && !calm && !abandoned {
					abandoned = true;
					self.net.nodes[0].node.abandon_payment(self.pays[p].id); self.net.pump(0); self.observe();
					self.buf.push((format!("abandon {} UserAbandoned", mid), 0));
				} else if r < 97 && !calm {
					if !self.to_reconnect.is_empty() { continue; }
					match disconnected {
						None => { let pr = if self.rng.chance(1, 2) { (0, 1) } else if self.rng.chance(1, 2) { (1, 2) } else { (0, 2) }; self.net.disconnect(pr.0, pr.1); disconnected = Some(pr); self.observe(); self.log.push(format!("disconnect {:?}", pr)); },
						Some(pr) => { self.net.reconnect(pr.0, pr.1); disconnected = None; self.observe(); self.log.push(format!("reconnect {:?}", pr)); },
					}
				} else if r < 99 { self.recent_checked(); }
				else if !calm && disconnected.is_none() { if self.restart_sender(false) { restarted = true; } }
			}
			let tag = format!("{}{}{}", if abandoned { ":abandoned" } else { "" }, match asyncv { Some(v) => format!(":async{}", v), None => String::new() }, if restarted { ":restarted" } else { "" });
			self.drain_and_judge(&[p], bal0, disconnected, &tag);
		}
		/// drain: complete paused monitor updates, reconnect, let MPP parts time out at the recipient, deliver everything;
		/// then the implementation-side oracles (independent of the model) for the payments `ps` sent since `bal0` was read
		fn drain_and_judge(&mut self, ps: &[usize], bal0: u64, disconnected: Option<(usize, usize)>, tag: &str) {
			let p = *ps.last().unwrap();
			while !self.paused.is_empty() || !self.to_reconnect.is_empty() { self.resume_one(); }
			if let Some(pr) = disconnected { self.net.reconnect(pr.0, pr.1); self.observe(); }
			for phase in 0..6 {
				for _ in 0..400 {
					if self.quiescent() { break; }
					if let Some((i, j)) = self.net.any_queued() { self.deliver(i, j); }
					for i in 1..3 { if self.net.nodes[i].node.needs_pending_htlc_processing() { self.net.forward(i); } self.others_events(i); }
					if self.net.nodes[0].node.needs_pending_htlc_processing() { self.net.forward(0); self.observe(); }
					self.flush(None);
				}
				for i in 1..3 { self.others_events(i); }
				self.flush(None);
				if ps.iter().all(|p| self.pays[*p].sent_ev + self.pays[*p].failed_ev > 0) && self.sender_htlcs().is_empty() && self.quiescent() { break; }
				// undelivered / incomplete MPP: the recipient's timer fails the held parts back
				if phase < 5 { for i in 1..3 { self.net.nodes[i].node.timer_tick_occurred(); self.net.pump(i); self.others_events(i); } }
			}
			self.recent_checked();
			// implementation-side oracle, independent of the model
			let tr = self.log.join(" | ");
			let mut expect = 0;
			for p in ps.iter() {
				let pay = &self.pays[*p];
				if pay.sent_ev + pay.failed_ev != 1 { self.rec.oracle_fail(format!("payment {} ended with {} PaymentSent + {} PaymentFailed events although none of its HTLCs is pending any more (listed by the sender: {}) :: {}", pay.mid, pay.sent_ev, pay.failed_ev, self.listed(*p), tr)); }
				if (pay.sent_ev == 1) != pay.recipient_claimed { self.rec.oracle_fail(format!("payment {}: PaymentSent={} but recipient PaymentClaimed={} :: {}", pay.mid, pay.sent_ev, pay.recipient_claimed, tr)); }
				// every HTLC of the payment that was resolved (failed) at the sender produced its PaymentPathFailed, unless the payment had succeeded
				if pay.sent_ev == 0 { for part in pay.failed_htlcs.iter() { if !pay.path_failed.contains(part) { self.rec.oracle_fail(format!("payment {}: HTLC of part {} was resolved (failed) at the sender for an unknown payment / untracked part: no event produced :: {}", pay.mid, part, tr)); } } }
				if pay.sent_ev == 1 { expect += pay.total + pay.fee; }
			}
			let bal1 = self.balance();
			if self.sender_htlcs().is_empty() && bal0 as i128 - bal1 as i128 != expect as i128 { self.rec.oracle_fail(format!("payment {}: sender balance fell by {} msat, expected {} :: {}", self.pays[p].mid, bal0 as i128 - bal1 as i128, expect, tr)); }
			self.sender_balance = bal1;
			let class = format!("pay:{}parts:{}{}", self.pays[p].parts.len(), if self.pays[p].sent_ev == 1 { "sent" } else { "failed" }, tag);
			*self.rec.classes.entry(class).or_insert(0) += 1;
		}
		/// how `list_recent_payments` lists payment `p` right now
		fn listed(&self, p: usize) -> &'static str {
			for r in self.net.nodes[0].node.list_recent_payments() {
				let (id, n) = match r { RecentPaymentDetails::AwaitingInvoice { payment_id } => (payment_id, "AwaitingInvoice"), RecentPaymentDetails::Pending { payment_id, .. } => (payment_id, "Pending"),
					RecentPaymentDetails::Fulfilled { payment_id, .. } => (payment_id, "Fulfilled"), RecentPaymentDetails::Abandoned { payment_id, .. } => (payment_id, "Abandoned") };
				if id == self.pays[p].id { return n; }
			}
			"not listed"
		}
		/// deliver / forward / let the recipient act until the only message left anywhere is node 1's final `revoke_and_ack` for
		/// node 0 (c0 is then idle but for that RAA); false if that point was not reached
		fn run_to_final_raa(&mut self, p: usize) -> bool {
			for _ in 0..400 {
				let only_raa = self.net.q.iter().all(|(k, q)| if *k == (1, 0) { q.len() == 1 && matches!(q.front(), Some(Wire::Raa(_))) } else { q.is_empty() });
				if only_raa && self.pays[p].decided && !self.net.nodes[1].node.needs_pending_htlc_processing() { return true; }
				if let Some((i, j)) = self.net.any_queued() { self.deliver(i, j); }
				for i in 1..3 { if self.net.nodes[i].node.needs_pending_htlc_processing() { self.net.forward(i); } self.others_events(i); }
				if self.net.nodes[0].node.needs_pending_htlc_processing() { self.net.forward(0); self.observe(); }
				self.flush(None);
				if self.quiescent() && self.net.any_queued().is_none() { return false; }
			}
			false
		}
		/// HOLDING-CELL scenario (sender config: legacy channel, max_dust_htlc_exposure = FeeRateMultiplier(5000)):
		/// an outbound HTLC is queued in c0's holding cell — because a ChannelMonitorUpdate of c0 is still in progress
		/// (`how` 0, 1) or because c0 awaits the peer's revoke_and_ack (`how` 2) — and, if `refuse`, the sender's fee
		/// estimate falls before the holding cell is released, so that `send_htlc` refuses the HTLC at release time (its
		/// value no longer fits the dust-exposure limit). Release: 0 = the monitor update completes
		/// (channel_monitor_updated); 1 = the peer disconnects, the update completes meanwhile, the holding cell is freed by
		/// channel_reestablish; 2 = the peer's revoke_and_ack. The refused HTLC never left the node: the model is fed
		/// `fail` for it when it is gone from the channel (read from list_channels), the real sender must report
		/// PaymentPathFailed + PaymentFailed and stop listing the payment.
		fn hc_payment(&mut self, mid: u64, how: u64, refuse: bool) {
			self.log.clear();
			let bal0 = self.balance();
			let set_fee = |ctx: &Self, v: u32| { *ctx.net.nodes[0].fee_estimator.sat_per_kw.lock().unwrap() = v; };
			// baseline estimate 506 sat/kW: dust-exposure limit 2_530_000 msat (at 253: 1_265_000 msat, below the buffered dust
			// threshold of 2_310 sat, where no dust HTLC can be sent at all)
			set_fee(self, 506);
			let amt0 = 50_000 + self.rng.below(100) * 1000;
			let mut ps = vec![];
			let p0 = match self.send(mid, 1, vec![(vec![0, 1], vec![0], amt0)]) { Some(p) => p, None => { set_fee(self, 253); return } };
			ps.push(p0);
			if !self.run_to_final_raa(p0) { self.rec.discarded += 1; self.drain_and_judge(&ps, bal0, None, ":hc-setup-missed"); set_fee(self, 253); return; }
			let mut next_mid = mid + 1;
			let mut held: Vec<(String, u32)> = vec![];
			if how < 2 {
				{ let mut q = self.net.persisters[0].update_rets.lock().unwrap(); q.clear(); q.push_back(ChannelMonitorUpdateStatus::InProgress); }
				self.deliver(1, 0);
				self.net.persisters[0].update_rets.lock().unwrap().clear();
				if self.net.pending_updates(0, 0).is_empty() { self.rec.discarded += 1; self.drain_and_judge(&ps, bal0, None, ":hc-setup-missed"); set_fee(self, 253); return; }
				self.log.push("final RAA of c0 handled with the monitor update left in progress".into());
				// the HTLC of the first payment has left the channel, but fail_htlc / finalize_claims run only when the RAA's
				// monitor update completes: the observed removal is handed to the model then
				held = self.buf.drain(..).collect();
			} else {
				self.deliver(1, 0); self.flush(None);
				// a second small payment whose update_add + commitment_signed stay undelivered: c0 awaits the peer's RAA
				let amt = 50_000 + self.rng.below(100) * 1000;
				let r = self.nodes0_send_quiet(next_mid, amt);
				next_mid += 1;
				match r { Some(pb) => ps.push(pb), None => { self.drain_and_judge(&ps, bal0, None, ":hc-setup-missed"); set_fee(self, 253); return; } }
			}
			let amt1 = 1_300_000 + self.rng.below(900) * 1000;
			// sometimes a 2-part MPP: the second part goes out over the other 0-1 channel at once and waits at the recipient
			let mpp = self.rng.chance(1, 3);
			let mut routes1 = vec![(vec![0, 1], vec![0], amt1)];
			if mpp { routes1.push((vec![0, 1], vec![1], 50_000 + self.rng.below(100) * 1000)); }
			let p1 = match self.send(next_mid, 1, routes1) { Some(p) => p, None => { self.paused.push(0); self.drain_and_judge(&ps, bal0, None, ":hc-send-refused"); set_fee(self, 253); return; } };
			ps.push(p1);
			let part1 = self.pays[p1].parts[0].0;
			let hash1 = self.pays[p1].hash;
			let cid0 = self.net.chans[0].2;
			let in_c0 = |ctx: &Self, with_id: Option<bool>| -> usize { ctx.net.nodes[0].node.list_channels().iter().filter(|ch| ch.channel_id == cid0).map(|ch| ch.pending_outbound_htlcs.iter().filter(|h| h.payment_hash == hash1 && with_id.map(|w| h.htlc_id.is_some() == w).unwrap_or(true)).count()).sum() };
			let queued = in_c0(self, Some(false)) == 1 && in_c0(self, Some(true)) == 0;
			self.log.push(format!("payment {} of {} msat sent over c0: {}", next_mid, amt1, if queued { "in the holding cell" } else { "NOT in the holding cell" }));
			if self.rng.chance(1, 2) { self.dup_send(p1); }
			if refuse { set_fee(self, 253); self.log.push("sender's fee estimate falls 506 -> 253 sat/kW".into()); }
			let mut disconnected = None;
			match how {
				0 => { for id in self.net.pending_updates(0, 0) { self.net.complete(0, 0, id); } self.buf.extend(held.drain(..)); self.observe(); self.log.push("monitor update of c0 completed".into()); },
				1 => {
					self.net.disconnect(0, 1); self.observe(); self.log.push("disconnect (0, 1)".into());
					for id in self.net.pending_updates(0, 0) { self.net.complete(0, 0, id); } self.buf.extend(held.drain(..)); self.observe(); self.log.push("monitor update of c0 completed while disconnected".into());
					self.flush(None);
					self.net.reconnect(0, 1); self.observe(); self.log.push("reconnect (0, 1)".into());
					for _ in 0..12 { if let Some((i, j)) = self.net.any_queued() { let re = matches!(self.net.q.get(&(i, j)).and_then(|q| q.front()), Some(Wire::Reestablish(_)) | Some(Wire::Ready(_)) | Some(Wire::ChanUpdate(_)) | Some(Wire::AnnSigs(_))); if !re { break; } self.deliver(i, j); } }
				},
				_ => {
					// the peer answers the helper payment's commitment: its RAA releases the holding cell
					for _ in 0..6 { if self.net.queued(0, 1) > 0 { self.deliver(0, 1); } }
					if self.net.queued(1, 0) > 0 && matches!(self.net.q.get(&(1, 0)).and_then(|q| q.front()), Some(Wire::Raa(_))) { self.deliver(1, 0); }
					self.log.push("peer's revoke_and_ack delivered".into());
				},
			}
			let _ = &mut disconnected;
			set_fee(self, 506);
			self.observe();
			// what became of the queued HTLC, read from the channel alone
			let gone = in_c0(self, None) == 0 && !self.htlcs.values().any(|v| v.0 == p1 && v.1 == part1);
			if queued && gone {
				self.log.push(format!("the queued HTLC of payment {} was refused at release and dropped from the channel", next_mid));
				self.pays[p1].failed_htlcs.insert(part1);
				self.buf.push((format!("fail {} {} 0 ?{}", next_mid, part1, part1), 0));
				self.flush(None);
				// truthful terminal outcome, at once: no HTLC of the payment is pending anywhere
				let pay = &self.pays[p1];
				if !mpp && (pay.failed_ev != 1 || pay.sent_ev != 0) { let tr = self.log.join(" | "); self.rec.oracle_fail(format!("payment {}: its only HTLC was refused when the holding cell was released (never sent, dropped from the channel) but the sender reported {} PaymentFailed / {} PaymentSent and lists the payment as {} :: {}", pay.mid, pay.failed_ev, pay.sent_ev, self.listed(p1), tr)); }
				if mpp && !self.pays[p1].path_failed.contains(&part1) { let tr = self.log.join(" | "); self.rec.oracle_fail(format!("payment {}: the HTLC of part {} was refused when the holding cell was released (never sent, dropped from the channel) but no PaymentPathFailed names it :: {}", self.pays[p1].mid, part1, tr)); }
				if !mpp { self.dup_free(p1); }
			}
			let class = format!("hc:{}:{}:{}{}", ["monitor", "reestablish", "raa"][how as usize], if refuse { "feedrop" } else { "steady" }, if !queued { "notqueued" } else if gone { "refused" } else { "released" }, if mpp { ":mpp" } else { "" });
			*self.rec.classes.entry(class).or_insert(0) += 1;
			self.drain_and_judge(&ps, bal0, disconnected, &format!(":hc{}", how));
			set_fee(self, 253);
		}
		/// a one-part payment 0 -> 1 over c0 whose messages are left in the queue
		fn nodes0_send_quiet(&mut self, mid: u64, amt: u64) -> Option<usize> { self.send(mid, 1, vec![(vec![0, 1], vec![0], amt)]) }
		/// after a terminal PaymentFailed the id must be free again (not listed): the oracle of "safe to retry"
		fn dup_free(&mut self, p: usize) {
			let l = self.listed(p);
			if self.pays[p].failed_ev == 1 && l != "not listed" { let tr = self.log.join(" | "); self.rec.oracle_fail(format!("payment {} is still listed as {} after its PaymentFailed :: {}", self.pays[p].mid, l, tr)); }
		}
		/// PROBE: `send_probe` over a 2-hop path; the last node does not know the payment hash and fails the HTLC back
		/// (a permanent failure from the destination = ProbeSuccessful), or — `cut` — the last hop is disconnected and
		/// node 1 fails it (ProbeFailed). Exactly one probe event, no PaymentSent / PaymentFailed / PaymentPathFailed, the id
		/// is not listed afterwards, the balance is unchanged.
		fn probe_payment(&mut self, mid: u64) {
			self.log.clear();
			let bal0 = self.balance();
			let amt = 50_000 + self.rng.below(100) * 1000;
			let first = if self.rng.chance(1, 2) { 0 } else { 1 };
			let (path, fee) = hops(&self.net, &[0, 1, 2], &[first, 2], amt);
			let part = self.next_part; self.next_part += 1;
			let cut = self.rng.chance(1, 3);
			if cut { self.net.disconnect(1, 2); self.log.push("disconnect (1, 2)".into()); }
			let r = self.net.nodes[0].node.send_probe(path);
			self.net.pump(0);
			let (hash, id) = match r { Ok(x) => x, Err(e) => { self.rec.discarded += 1; self.log.push(format!("send_probe refused {:?}", e)); if cut { self.net.reconnect(1, 2); } return; } };
			self.pays.push(Pay { mid, id, hash, preimage: PaymentPreimage([0; 32]), secret: PaymentSecret([0; 32]), to: 2, total: amt, fee, parts: vec![(part, first)], routes: vec![(vec![0, 1, 2], vec![first, 2], amt)],
				sent_ev: 0, failed_ev: 0, recipient_claimed: false, recipient_action: 0, decided: false, failed_htlcs: BTreeSet::new(), path_failed: BTreeSet::new(), max_fee: fee, is_probe: true, probe_ev: 0 });
			let p = self.pays.len() - 1;
			self.observe();
			self.flush(None);
			let op = format!("probe {} {} o", mid, part);
			self.log.push(format!("{} => probe ok", op));
			self.rec.case(&op, "probe ok", "probe:send", true);
			let ticks = self.rng.chance(1, 4);
			for _ in 0..400 {
				if self.quiescent() { break; }
				if let Some((i, j)) = self.net.any_queued() { self.deliver(i, j); }
				for i in 1..3 { if self.net.nodes[i].node.needs_pending_htlc_processing() { self.net.forward(i); } self.others_events(i); }
				if self.net.nodes[0].node.needs_pending_htlc_processing() { self.net.forward(0); self.observe(); }
				if ticks && self.rng.chance(1, 6) { self.net.nodes[0].node.timer_tick_occurred(); self.net.pump(0); self.observe(); self.buf.push(("tick".into(), 0)); }
				self.flush(None);
			}
			if cut { self.net.reconnect(1, 2); self.observe(); self.log.push("reconnect (1, 2)".into()); for _ in 0..40 { if let Some((i, j)) = self.net.any_queued() { self.deliver(i, j); } else { break; } } }
			self.recent_checked();
			let tr = self.log.join(" | ");
			let pay = &self.pays[p];
			if pay.probe_ev != 1 || pay.sent_ev + pay.failed_ev != 0 || !pay.path_failed.is_empty() { self.rec.oracle_fail(format!("probe {} ended with {} probe events, {} PaymentSent, {} PaymentFailed, {} PaymentPathFailed (expected exactly one ProbeSuccessful / ProbeFailed and nothing else) :: {}", pay.mid, pay.probe_ev, pay.sent_ev, pay.failed_ev, pay.path_failed.len(), tr)); }
			if self.listed(p) != "not listed" { self.rec.oracle_fail(format!("probe {} is still listed as {} after its HTLC was resolved :: {}", self.pays[p].mid, self.listed(p), tr)); }
			let bal1 = self.balance();
			if self.sender_htlcs().is_empty() && bal0 != bal1 { self.rec.oracle_fail(format!("probe {}: sender balance changed by {} msat :: {}", self.pays[p].mid, bal0 as i128 - bal1 as i128, tr)); }
			self.sender_balance = bal1;
			*self.rec.classes.entry(format!("probe:{}", if cut { "cut" } else { "through" })).or_insert(0) += 1;
		}
		/// RESTART of the sender while payments are in flight: its events are drained, the ChannelManager and the
		/// ChannelMonitors are written and read back (a crash right after a persist), the peers reconnect later. With
		/// `stale_map`: the manager that is read back was written BEFORE the last timer ticks (only the payments map
		/// and timers are older; no channel state changed in between). The model does `persist` ... `restore`; retry
		/// strategies and attempt counts do not survive.
		fn restart_sender(&mut self, _stale_map: bool) -> bool {
			if !self.paused.is_empty() || !self.to_reconnect.is_empty() { return false; }
			// nothing may be pending between the node and its persister / event handler
			self.flush(None);
			if (0..self.net.chans.len()).any(|c| self.net.chans[c].0 == 0 && !self.net.pending_updates(0, c).is_empty()) { return false; }
			let peers: Vec<usize> = (1..3).filter(|j| self.net.connected.contains(&(0, *j))).collect();
			match self.net.restart(0) {
				Ok(()) => {},
				Err(e) => { self.rec.oracle_fail(format!("the sender's ChannelManager does not read back: {} :: {}", e, self.log.join(" | "))); self.broken = true; return false; },
			}
			self.ev_seen[0] = self.net.events[0].len();
			self.observe();
			self.buf.push(("persist".into(), 0));
			self.buf.push(("restore".into(), 0));
			let mids: Vec<u64> = self.pays.iter().filter(|x| !x.is_probe).map(|x| x.mid).collect();
			for m in mids { self.buf.push((format!("strategy {} -", m), 0)); }
			for j in peers { self.to_reconnect.push((0, j)); }
			self.log.push("sender restarted from its freshly written ChannelManager and ChannelMonitors".into());
			*self.rec.classes.entry("restart:sender".into()).or_insert(0) += 1;
			true
		}
		fn recent_checked(&mut self) { self.flush(None); self.recent(); }
		fn ticks(&mut self, n: usize) {
			// STALE payments map: the manager that will be read back is written now, before the ticks (which age Fulfilled
			// entries and drop them); no channel or monitor state changes in between
			let stale = if self.paused.is_empty() && self.to_reconnect.is_empty() && self.rng.chance(1, 4) {
				self.flush(None);
				if (0..self.net.chans.len()).any(|c| self.net.chans[c].0 == 0 && !self.net.pending_updates(0, c).is_empty()) || !self.sender_htlcs().is_empty() { None }
				else { self.buf.push(("persist".into(), 0)); self.log.push("sender's ChannelManager written".into()); Some(self.net.snapshot(0).0) }
			} else { None };
			for _ in 0..n { self.net.nodes[0].node.timer_tick_occurred(); self.net.pump(0); self.observe(); self.flush(Some("tick")); }
			self.recent();
			if let Some(mgr) = stale {
				let mons = self.net.snapshot(0).1;
				let peers: Vec<usize> = (1..3).filter(|j| self.net.connected.contains(&(0, *j))).collect();
				match self.net.restart_from(0, &mgr, &mons) {
					Ok(()) => {
						self.ev_seen[0] = self.net.events[0].len();
						self.observe();
						self.buf.push(("restore".into(), 0));
						let mids: Vec<u64> = self.pays.iter().filter(|x| !x.is_probe).map(|x| x.mid).collect();
						for m in mids { self.buf.push((format!("strategy {} -", m), 0)); }
						for j in peers { self.net.reconnect(0, j); }
						self.observe();
						for _ in 0..60 { if let Some((i, j)) = self.net.any_queued() { self.deliver(i, j); } else { break; } }
						self.log.push(format!("sender restarted from the ChannelManager written {} ticks ago and its current ChannelMonitors", n));
						self.flush(None);
						self.recent();
						*self.rec.classes.entry("restart:stale-map".into()).or_insert(0) += 1;
					},
					Err(e) => { self.rec.oracle_fail(format!("the sender's ChannelManager (written {} ticks ago) does not read back with its current monitors: {} :: {}", n, e, self.log.join(" | "))); self.broken = true; },
				}
			}
		}
	}

	pub fn run(args: &Args) {
		sim::silence_stdout();
		let mut rec = Rec::new(&args.out, "c03e2e");
		let mut rng = Rng::new(args.seed ^ 0xe2e0_3);
		let n_nets = if args.thorough { 150 } else { 20 } * args.scale;
		let per_net = if args.thorough { 80 } else { 40 };
		for _ in 0..n_nets {
			rec.directive("reset");
			let mut net = Net::new(3, vec![None, None, None]);
			net.open(0, 1, 2_000_000, 500_000_000);
			net.open(0, 1, 2_000_000, 500_000_000);
			net.open(1, 2, 2_000_000, 500_000_000);
			net.open(0, 2, 2_000_000, 500_000_000);
			let mut ctx = Ctx { net, rec: &mut rec, rng: &mut rng, buf: vec![], group: 0, htlcs: BTreeMap::new(), live: BTreeSet::new(), ev_seen: vec![0; 3], pays: vec![], next_part: 1, log: vec![], sender_balance: 0, tried: String::new(), paused: vec![], to_reconnect: vec![], broken: false, probe_buf: vec![] };
			for k in 0..per_net {
				let calm = ctx.rng.chance(1, 4);
				if ctx.rng.chance(1, 8) { ctx.probe_payment(k as u64 + 1); } else { ctx.run_payment(k as u64 + 1, calm); }
				if ctx.broken { break; }
				if ctx.net.nodes[0].node.list_channels().len() < 3 { break; } // a channel closed: start over with a fresh network
				if ctx.rng.chance(1, 3) { let n = ctx.rng.range(1, 9) as usize; ctx.ticks(n); }
			}
			if !ctx.broken { ctx.ticks(10); }
			std::mem::forget(ctx.net);
		}
		// holding-cell networks: sender with a tight dust-exposure limit; HTLCs queued behind an in-progress monitor update /
		// an awaited RAA, refused at release when the fee estimate fell meanwhile; release by monitor completion,
		// channel_reestablish, revoke_and_ack
		let n_hc = if args.thorough { 24 } else { 4 } * args.scale;
		for _ in 0..n_hc {
			rec.directive("reset");
			let mut c0 = test_legacy_channel_config();
			c0.channel_config.max_dust_htlc_exposure = MaxDustHTLCExposure::FeeRateMultiplier(5_000);
			let mut net = Net::new(3, vec![Some(c0), Some(test_legacy_channel_config()), Some(test_legacy_channel_config())]);
			net.open(0, 1, 2_000_000, 500_000_000);
			net.open(0, 1, 2_000_000, 500_000_000);
			net.open(1, 2, 2_000_000, 500_000_000);
			net.open(0, 2, 2_000_000, 500_000_000);
			let mut ctx = Ctx { net, rec: &mut rec, rng: &mut rng, buf: vec![], group: 0, htlcs: BTreeMap::new(), live: BTreeSet::new(), ev_seen: vec![0; 3], pays: vec![], next_part: 1, log: vec![], sender_balance: 0, tried: String::new(), paused: vec![], to_reconnect: vec![], broken: false, probe_buf: vec![] };
			for k in 0..12u64 {
				let how = k % 3;
				let refuse = ctx.rng.chance(3, 4);
				ctx.hc_payment(10 * k + 1, how, refuse);
				if ctx.broken { break; }
				if ctx.net.nodes[0].node.list_channels().len() < 3 { break; }
				if ctx.rng.chance(1, 3) { let n = ctx.rng.range(1, 4) as usize; ctx.ticks(n); }
			}
			if !ctx.broken { ctx.ticks(10); }
			std::mem::forget(ctx.net);
		}
		rec.notes.insert("rule".into(), "3 real nodes, 4 channels, sequential payments (1-hop, 2-hop, 2- and 3-part MPP over distinct first-hop channels), every peer message delivered singly in PRNG order with recipient claim/reject, sender ticks, abandon, duplicate sends, disconnect/reconnect, probes (send_probe over 2 hops, last hop cut or not) and sender restarts (manager + monitors written and read back while payments are in flight; a manager written before the last timer ticks) interleaved; holding-cell networks (sender with a tight dust-exposure limit: an HTLC queued behind an in-progress monitor update / an awaited RAA is refused at release after the fee estimate fell; released by monitor completion, channel_reestablish, revoke_and_ack); fee ledger and PaymentSent.fee_paid_msat, retry gate flags checked by the driver; one case per sender event drain (the ops observed since the last drain) and per list_recent_payments dump; distinct = distinct op text with at least one observed op".into());
		rec.finish();
	}
}

/// c03chain — restart reconstruction of on-chain failed HTLCs (`ChannelMonitor::get_onchain_failed_outbound_htlcs`, read by
/// `ChannelManager::read` for closed channels). Real nodes 0 (sender) - 1 (recipient), one legacy channel. Payment 1 is fully
/// committed and held by the recipient; payment 2 (optional) is caught in the commitment dance (`update_add_htlc` +
/// `commitment_signed` not delivered / delivered but the answer lost). The channel is closed on chain by either side with its
/// latest commitment — which, seen from the sender, is the counterparty's PREVIOUS unrevoked commitment, the counterparty's
/// current one, or the holder's current one —, confirmed to ANTI_REORG_DELAY - 1 and then ANTI_REORG_DELAY, the sender restarts
/// at any of the check points, then the recipient claims payment 1's output with the preimage / nobody claims / the sender
/// times it out. At every check point the monitor's view (`verif_onchain_failed_view`) is one `ocf` case: the real result
/// against Model/OnchainFailed.lean; the oracles state the property on what the real node did.
mod chain {
	use std::collections::BTreeMap;
	use ldk_verif_harness::common::*;
	use ldk_verif_harness::sim::{self, Net};
	use bitcoin::Transaction;
	use lightning::chain::channelmonitor::ANTI_REORG_DELAY;
	use lightning::events::Event;
	use lightning::ln::channelmanager::{PaymentId, RecentPaymentDetails};
	use lightning::ln::functional_test_utils::{connect_blocks, mine_transaction, test_legacy_channel_config};
	use lightning::ln::types::ChannelId;
	use lightning::ln::verif_hooks as vh;

	#[derive(Clone, Copy, Debug)]
	pub struct World { pub closer_sender: bool, pub dance: u8, pub dust: bool, pub res: u8, pub restarts: u8 }

	#[derive(Default)]
	struct Tally { sent: u32, failed: u32, path_failed: u32 }

	struct Sc<'a> { net: Net, rec: &'a mut Rec, cid: ChannelId, tag: String, txids: BTreeMap<String, u64>, srcs: BTreeMap<String, u64>, log: Vec<String>,
		ids: Vec<PaymentId>, tallies: Vec<Tally>, ev_seen: usize, restarted: u32, listed_now: Vec<usize>, last_fields: String, last_pre: Vec<String> }

	fn intern(m: &mut BTreeMap<String, u64>, k: &str) -> String { if k == "-" { return "-".into(); } let n = m.len() as u64 + 1; m.entry(k.to_string()).or_insert(n).to_string() }

	impl<'a> Sc<'a> {
		fn blocks(&mut self, f: impl Fn(&sim::N)) { for i in 0..self.net.nodes.len() { f(&self.net.nodes[i]); } self.net.pump_all(); }
		/// the sender's new events, counted per payment
		fn drain(&mut self) -> Vec<String> {
			self.net.process_events(0);
			let new: Vec<Event> = self.net.events[0][self.ev_seen..].to_vec();
			self.ev_seen = self.net.events[0].len();
			let mut out = vec![];
			for e in new.iter() {
				match e {
					Event::PaymentSent { payment_id, payment_preimage, payment_hash, .. } => { if let Some(p) = self.ids.iter().position(|x| Some(*x) == *payment_id) {
						use bitcoin::hashes::{sha256, Hash};
						if sha256::Hash::hash(&payment_preimage.0).to_byte_array() != payment_hash.0 { self.rec.oracle_fail(format!("PaymentSent with a preimage that does not hash to the payment hash :: {}", self.tag)); }
						self.tallies[p].sent += 1; out.push(format!("sent:{}", p + 1)); } },
					Event::PaymentFailed { payment_id, .. } => { if let Some(p) = self.ids.iter().position(|x| x == payment_id) { self.tallies[p].failed += 1; out.push(format!("failed:{}", p + 1)); } },
					Event::PaymentPathFailed { payment_id, .. } => { if let Some(p) = self.ids.iter().position(|x| Some(*x) == *payment_id) { self.tallies[p].path_failed += 1; out.push(format!("pathfail:{}", p + 1)); } },
					_ => {},
				}
			}
			if !out.is_empty() { self.log.push(format!("events {}", out.join(" "))); }
			out
		}
		fn pending(&self, p: usize) -> bool {
			self.net.nodes[0].node.list_recent_payments().iter().any(|r| matches!(r, RecentPaymentDetails::Pending { payment_id, .. } if *payment_id == self.ids[p]))
		}
		/// one `ocf` case from the monitor as it is now; returns the numbers of the payments the real function reports failed
		fn ocf(&mut self, stage: &str) -> Vec<usize> {
			let mon = match self.net.nodes[0].chain_monitor.chain_monitor.get_monitor(self.cid) { Ok(m) => m, Err(_) => return vec![] };
			let view = mon.verif_onchain_failed_view();
			let real = vh::monitor_onchain_failed_outbound_htlc_keys(&mon);
			let listed = vh::monitor_outbound_htlcs_dump(&mon);
			drop(mon);
			let (mut best, mut fsc, mut cur, mut prev, mut hct, mut hpt) = (String::new(), "-".to_string(), "-".to_string(), "-".to_string(), "0".to_string(), "-".to_string());
			let (mut aw, mut roc, mut rtu): (Vec<String>, Vec<String>, Vec<String>) = (vec![], vec![], vec![]);
			let mut lists: BTreeMap<&str, String> = BTreeMap::new();
			let mut alt = false;
			for l in view.iter() {
				let w: Vec<&str> = l.split(' ').filter(|x| !x.is_empty()).collect();
				let htlcs = |sc: &mut BTreeMap<String, u64>, ws: &[&str]| -> String {
					let v: Vec<String> = ws.iter().map(|h| { let (s, i) = h.rsplit_once('@').unwrap(); format!("{}@{}", if s == "-" { "x".to_string() } else { intern(sc, s) }, if i == "-" { "x" } else { i }) }).collect();
					if v.is_empty() { "-".into() } else { v.join(",") }
				};
				match w[0] {
					"best" => best = w[1].to_string(),
					"fsc" => fsc = intern(&mut self.txids, w[1]),
					"aw" => aw.push(format!("{}:{}:{}", intern(&mut self.txids, w[1]), w[2], w[3])),
					"alt" => alt = w[1] == "1",
					"curcp" => cur = intern(&mut self.txids, w[1]),
					"prevcp" => prev = intern(&mut self.txids, w[1]),
					"cpc" => { let t = htlcs(&mut self.srcs, &w[1..]); lists.insert("cpc", t); },
					"cpp" => { let t = htlcs(&mut self.srcs, &w[1..]); lists.insert("cpp", t); },
					"hcur" => { hct = intern(&mut self.txids, w[1]); let t = htlcs(&mut self.srcs, &w[2..]); lists.insert("hcur", t); },
					"hprev" => { hpt = intern(&mut self.txids, w[1]); let t = if w.len() > 2 { htlcs(&mut self.srcs, &w[2..]) } else { "-".into() }; lists.insert("hprev", t); },
					"rtu" => { for k in &w[1..] { rtu.push(intern(&mut self.srcs, k)); } },
					"roc" => roc.push(format!("{}:{}", if w[1] == "-" { "x" } else { w[1] }, w[2])),
					_ => {},
				}
			}
			if alt { self.rec.discarded += 1; return vec![]; }
			let j = |v: &Vec<String>| if v.is_empty() { "-".to_string() } else { v.join(",") };
			let op = format!("ocf {} {} {} {} {} {} {} {} {} {} {} {} {}", best, fsc, j(&aw), cur, prev, lists.get("cpc").cloned().unwrap_or("-".into()), lists.get("cpp").cloned().unwrap_or("-".into()),
				hct, lists.get("hcur").cloned().unwrap_or("-".into()), hpt, lists.get("hprev").cloned().unwrap_or("-".into()), j(&rtu), j(&roc));
			let mut nums: Vec<u64> = real.iter().map(|k| intern(&mut self.srcs, k).parse().unwrap()).collect();
			nums.sort(); nums.dedup();
			let ans = format!("failed {}", if nums.is_empty() { "-".to_string() } else { nums.iter().map(|n| n.to_string()).collect::<Vec<_>>().join(",") });
			// which arm of the recognition chain this view takes (class counter = the branch was really reached)
			let conf = if fsc != "-" { fsc.clone() } else { aw.iter().filter_map(|a| { let x: Vec<&str> = a.split(':').collect(); let b: u32 = best.parse().unwrap_or(0); let h: u32 = x[1].parse().unwrap_or(0);
				if x[2] == "1" && h + ANTI_REORG_DELAY - 1 <= b { Some(x[0].to_string()) } else { None } }).next().unwrap_or("-".into()) };
			let arm = if conf == "-" { "unconfirmed" } else if conf == cur { "counterparty-current" } else if conf == prev { "counterparty-previous" } else if conf == hct { "holder-current" } else if conf == hpt { "holder-previous" } else { "other" };
			self.last_fields = op[4..].to_string();
			self.last_pre = listed.iter().filter(|l| l.ends_with("preimage=1")).map(|l| intern(&mut self.srcs, l.split(' ').next().unwrap_or(""))).collect();
			self.log.push(format!("[{}] {} => {}", stage, op, ans));
			self.rec.case(&op, &ans, &format!("ocf:{}:{}", arm, if nums.is_empty() { "none" } else { "some" }), arm != "unconfirmed");
			// get_all_current_outbound_htlcs on the same view
			let mut lnums: Vec<u64> = listed.iter().map(|l| intern(&mut self.srcs, l.split(' ').next().unwrap_or("")).parse().unwrap()).collect();
			lnums.sort(); lnums.dedup();
			let op2 = format!("acur {} {} {} {} {}", cur, prev, lists.get("cpc").cloned().unwrap_or("-".into()), lists.get("cpp").cloned().unwrap_or("-".into()), j(&rtu));
			let ans2 = format!("listed {}", if lnums.is_empty() { "-".to_string() } else { lnums.iter().map(|n| n.to_string()).collect::<Vec<_>>().join(",") });
			self.rec.case(&op2, &ans2, &format!("acur:{}", lnums.len().min(3)), !lnums.is_empty());
			self.listed_now = listed.iter().filter_map(|k| self.ids.iter().position(|id| k.starts_with(&format!("route:{}:", id)))).collect();
			real.iter().filter_map(|k| self.ids.iter().position(|id| k.starts_with(&format!("route:{}:", id)))).collect()
		}
		/// one `fub` case right after the commitment transaction `ctxid` was mined: what the live `fail_unbroadcast_htlcs!` check
		/// queued (HTLCUpdate entries without an output index, read through the add-only hook `verif_unbroadcast_view`) against
		/// Model/Unbroadcast.lean on the lists the monitor holds; `in_tx[k]` = payment k has a (non-dust) output in the mined transaction
		fn fub(&mut self, ctxid: bitcoin::Txid, in_tx: &[bool]) {
			let mon = match self.net.nodes[0].chain_monitor.chain_monitor.get_monitor(self.cid) { Ok(m) => m, Err(_) => return };
			let view = mon.verif_unbroadcast_view();
			drop(mon);
			let mut hashes: BTreeMap<String, u64> = BTreeMap::new();
			let (mut cur, mut prev, mut hct, mut hpt) = ("-".to_string(), "-".to_string(), "0".to_string(), "-".to_string());
			let mut lists: BTreeMap<&str, String> = BTreeMap::new();
			let (mut ful, mut queued_keys, mut cand_keys): (Vec<String>, Vec<String>, Vec<String>) = (vec![], vec![], vec![]);
			let t = intern(&mut self.txids, &format!("{}", ctxid));
			for l in view.iter() {
				let w: Vec<&str> = l.split(' ').filter(|x| !x.is_empty()).collect();
				let mut htlcs = |sc: &mut BTreeMap<String, u64>, ws: &[&str], cand: Option<&mut Vec<String>>| -> String {
					let mut keys = vec![];
					let v: Vec<String> = ws.iter().map(|h| { let f: Vec<&str> = h.split('@').collect(); if f[0] != "-" { keys.push(f[0].to_string()); }
						format!("{}@{}@{}@{}", if f[0] == "-" { "x".to_string() } else { intern(sc, f[0]) }, if f[1] == "-" { "x" } else { f[1] }, intern(&mut hashes, f[2]), f[3]) }).collect();
					if let Some(c) = cand { c.extend(keys); }
					if v.is_empty() { "-".into() } else { v.join(",") }
				};
				match w[0] {
					"curcp" => cur = intern(&mut self.txids, w[1]),
					"prevcp" => prev = intern(&mut self.txids, w[1]),
					"cpc" => { let x = htlcs(&mut self.srcs, &w[1..], Some(&mut cand_keys)); lists.insert("cpc", x); },
					"cpp" => { let x = htlcs(&mut self.srcs, &w[1..], Some(&mut cand_keys)); lists.insert("cpp", x); },
					"hcur" => { hct = intern(&mut self.txids, w[1]); let x = htlcs(&mut self.srcs, &w[2..], None); lists.insert("hcur", x); },
					"hprev" => { hpt = intern(&mut self.txids, w[1]); let x = if w.len() > 2 { htlcs(&mut self.srcs, &w[2..], None) } else { "-".into() }; lists.insert("hprev", x); },
					"ful" => { for k in &w[1..] { ful.push(intern(&mut self.srcs, k)); } },
					"hu" => { if w[3] == format!("{}", ctxid) { queued_keys.push(w[1].to_string()); } },
					_ => {},
				}
			}
			let j = |v: &Vec<String>| if v.is_empty() { "-".to_string() } else { v.join(",") };
			let g = |k: &str| lists.get(k).cloned().unwrap_or("-".into());
			let op = format!("fub {} {} {} {} {} {} {} {} {} {}", t, cur, prev, g("cpc"), g("cpp"), hct, g("hcur"), hpt, g("hprev"), j(&ful));
			let mut nums: Vec<u64> = queued_keys.iter().map(|k| intern(&mut self.srcs, k).parse().unwrap()).collect();
			nums.sort(); nums.dedup();
			let ans = format!("queued {}", if nums.is_empty() { "-".to_string() } else { nums.iter().map(|n| n.to_string()).collect::<Vec<_>>().join(",") });
			let arm = if t == cur { "counterparty-current" } else if t == prev { "counterparty-previous" } else if t == hct { "holder-current" } else if t == hpt { "holder-previous" } else { "other" };
			self.log.push(format!("[confirmed] {} => {}", op, ans));
			self.rec.case(&op, &ans, &format!("fub:{}:{}", arm, nums.len().min(3)), true);
			for k in 0..self.ids.len().min(in_tx.len()) {
				let pre = format!("route:{}:", self.ids[k]);
				let queued = queued_keys.iter().any(|q| q.starts_with(&pre));
				let cand = cand_keys.iter().any(|q| q.starts_with(&pre));
				let fulfilled = view.iter().any(|l| l.starts_with("ful ") && l.contains(&pre));
				if in_tx[k] && queued { self.rec.oracle_fail(format!("fail_unbroadcast_htlcs queued payment {}'s HTLC to FAIL at the confirmation of commitment transaction {} although it has a non-dust output in that transaction :: {} :: {}", k + 1, ctxid, self.tag, self.log.join(" | "))); }
				if !in_tx[k] && cand && !fulfilled && !queued { self.rec.oracle_fail(format!("payment {}'s HTLC has no output in the confirmed commitment transaction {} but fail_unbroadcast_htlcs queued no failure for it (without a restart the payment stays pending forever) :: {} :: {}", k + 1, ctxid, self.tag, self.log.join(" | "))); }
			}
		}
		/// a restart right after the sender's events were handled, as one `rout` case per payment without a terminal event so far:
		/// what `ChannelManager::read` makes of the payment (PaymentSent / PaymentFailed / still pending), against restartOutcome
		fn restart_rout(&mut self, extra_open_part: bool) -> Result<(), String> {
			self.drain();
			self.ocf("pre-restart");
			let before: Vec<(u32, u32)> = self.tallies.iter().map(|t| (t.sent, t.failed)).collect();
			let mut persisted: Vec<Option<String>> = vec![];
			for k in 0..self.ids.len() {
				let listed = self.net.nodes[0].node.list_recent_payments().iter().any(|r| match r { RecentPaymentDetails::Pending { payment_id, .. } | RecentPaymentDetails::Abandoned { payment_id, .. } => *payment_id == self.ids[k], _ => false });
				let pre = format!("route:{}:", self.ids[k]);
				let num = self.srcs.iter().find(|(key, _)| key.starts_with(&pre)).map(|(_, n)| n.to_string());
				persisted.push(if listed && before[k] == (0, 0) { num } else { None });
			}
			let (fields, pre) = (self.last_fields.clone(), self.last_pre.clone());
			self.restart()?;
			self.drain();
			for k in 0..self.ids.len() {
				if let Some(num) = &persisted[k] {
					let t = &self.tallies[k];
					let obs = if t.sent > before[k].0 { "sent" } else if t.failed > before[k].1 { "failed" } else { "pending" };
					let op = format!("rout {}{} {} 0 {} {}", num, if extra_open_part { ",99" } else { "" }, if pre.is_empty() { "-".to_string() } else { pre.join(",") }, if extra_open_part { 1 } else { 0 }, fields);
					let ans = format!("outcome {}", obs);
					self.log.push(format!("{} => {}", op, ans));
					self.rec.case(&op, &ans, &format!("rout:{}:{}", obs, if extra_open_part { "mpp" } else { "single" }), true);
				}
			}
			Ok(())
		}
		/// which payments the manager holds as pending right now (source numbers), for a later restart from THIS manager
		fn persisted_now(&mut self) -> Vec<Option<String>> {
			let mut persisted = vec![];
			for k in 0..self.ids.len() {
				let listed = self.net.nodes[0].node.list_recent_payments().iter().any(|r| match r { RecentPaymentDetails::Pending { payment_id, .. } | RecentPaymentDetails::Abandoned { payment_id, .. } => *payment_id == self.ids[k], _ => false });
				let pre = format!("route:{}:", self.ids[k]);
				let num = self.srcs.iter().find(|(key, _)| key.starts_with(&pre)).map(|(_, n)| n.to_string());
				persisted.push(if listed && self.tallies[k].sent == 0 && self.tallies[k].failed == 0 { num } else { None });
			}
			persisted
		}
		/// restart from a manager written EARLIER (`mgr`, with `persisted` = persisted_now() at that time) and the CURRENT monitors; the
		/// user has handled no event since (nothing was released to the monitors). The manager is then told the current tip.
		fn restart_stale(&mut self, mgr: &[u8], persisted: Vec<Option<String>>, extra_open_part: bool) -> Result<(), String> {
			self.ocf("pre-restart,stale-manager");
			let before: Vec<(u32, u32)> = self.tallies.iter().map(|t| (t.sent, t.failed)).collect();
			let (fields, pre) = (self.last_fields.clone(), self.last_pre.clone());
			let (_, mons) = self.net.snapshot(0);
			self.net.restart_from(0, mgr, &mons).map_err(|e| format!("restart failed: {}", e))?;
			self.restarted += 1; self.log.push("RESTART sender (manager written before the last block(s), current monitor)".into());
			{
				use lightning::chain::Confirm;
				let (header, height) = { let b = self.net.nodes[0].blocks.lock().unwrap(); let l = b.last().unwrap(); (l.0.header, l.1) };
				self.net.nodes[0].node.best_block_updated(&header, height);
				self.net.pump(0);
			}
			self.drain();
			for k in 0..self.ids.len() {
				if let Some(num) = &persisted[k] {
					let t = &self.tallies[k];
					let obs = if t.sent > before[k].0 { "sent" } else if t.failed > before[k].1 { "failed" } else { "pending" };
					let op = format!("rout {}{} {} 0 {} {}", num, if extra_open_part { ",99" } else { "" }, if pre.is_empty() { "-".to_string() } else { pre.join(",") }, if extra_open_part { 1 } else { 0 }, fields);
					let ans = format!("outcome {}", obs);
					self.log.push(format!("{} => {}", op, ans));
					self.rec.case(&op, &ans, &format!("rout:{}:{}:stale-manager", obs, if extra_open_part { "mpp" } else { "single" }), true);
				}
			}
			Ok(())
		}
		fn restart(&mut self) -> Result<(), String> {
			let (mgr, mons) = self.net.snapshot(0);
			self.net.restart_from(0, &mgr, &mons).map_err(|e| format!("restart failed: {}", e))?;
			self.restarted += 1; self.log.push("RESTART sender (current manager + monitor)".into());
			Ok(())
		}
	}

	fn spending(node: &sim::N, txid: bitcoin::Txid, vout: Option<u32>) -> Vec<Transaction> {
		let b = node.tx_broadcaster.txn_broadcasted.lock().unwrap();
		let mut out: Vec<Transaction> = vec![];
		// newest first; a transaction that spends an outpoint already spent by a chosen one (a fee bump of the same claim) is left out
		for tx in b.iter().rev() {
			if tx.input.iter().any(|i| i.previous_output.txid == txid && vout.map(|v| v == i.previous_output.vout).unwrap_or(true))
				&& !out.iter().any(|o| o.input.iter().any(|oi| tx.input.iter().any(|ti| ti.previous_output == oi.previous_output))) { out.push(tx.clone()); }
		}
		out
	}

	pub fn scenario(w: World, rec: &mut Rec, seed: u64) -> Result<(), String> {
		let mut net = Net::new(2, vec![Some(test_legacy_channel_config()), Some(test_legacy_channel_config())]);
		let c = net.open(0, 1, 1_000_000, 200_000_000);
		let cid = net.chans[c].2;
		let mut sc = Sc { net, rec, cid, tag: format!("c03chain {:?} seed={}", w, seed), txids: BTreeMap::new(), srcs: BTreeMap::new(), log: vec![], ids: vec![], tallies: vec![], ev_seen: 0, restarted: 0, listed_now: vec![], last_fields: String::new(), last_pre: vec![] };
		let r = guarded(std::panic::AssertUnwindSafe(|| world(w, &mut sc, c, seed)));
		// the test nodes assert on drop that nothing is left unhandled: not our concern here
		let Sc { net, rec, tag, log, .. } = sc; std::mem::forget(net);
		match r { Ok(x) => x, Err(p) => { rec.oracle_fail(format!("panic while driving the real nodes: {} :: {} :: {}", p.chars().take(300).collect::<String>(), tag, log.join(" | "))); Ok(()) } }
	}

	fn world(w: World, sc: &mut Sc, c: usize, seed: u64) -> Result<(), String> {
		let mut rng = Rng::new(seed);
		let cid = sc.cid;
		// distinct amounts (the HTLC outputs are recognised by value): payment 1 dust or not, payment 2 always non-dust
		let amt1: u64 = if w.dust { 100_000 + rng.below(150) * 1000 } else { 8_000_000 + rng.below(4000) * 1000 };
		let amt2: u64 = 4_000_000 + rng.below(3000) * 1000;
		let p1 = sc.net.send(&[0, 1], &[c], amt1, 60)?; sc.net.settle(10);
		if !sc.net.claimable[1].iter().any(|x| x.0 == sc.net.pays[p1].hash) { return Err("payment 1 did not reach the recipient".into()); }
		sc.ids.push(sc.net.pays[p1].id);
		if w.dance == 1 || w.dance == 2 {
			let p2 = sc.net.send(&[0, 1], &[c], amt2, 60)?; sc.ids.push(sc.net.pays[p2].id);
			if w.dance == 2 { while sc.net.queued(0, 1) > 0 { sc.net.deliver(0, 1); } }
		}
		if w.dance == 3 {
			// removal mid-dance: the recipient fails payment 1 back; the sender processes update_fail_htlc + commitment_signed and
			// answers revoke_and_ack + commitment_signed (its CURRENT counterparty commitment no longer has the HTLC, the PREVIOUS
			// unrevoked one still does); the answer is lost and the recipient closes with the commitment that still has the HTLC
			sc.net.fail_back(p1); sc.net.forward(1); sc.net.pump(1);
			for _ in 0..4 { if sc.net.queued(1, 0) > 0 { sc.net.deliver(1, 0); } }
		}
		sc.net.q.remove(&(0, 1)); sc.net.q.remove(&(1, 0));
		sc.tag = format!("c03chain {:?} amt1={} amt2={} seed={}", w, amt1, amt2, seed);
		let n_ids = sc.ids.len();
		sc.tallies = (0..n_ids).map(|_| Tally::default()).collect();
		sc.ev_seen = sc.net.events[0].len();
		sc.ocf("open");
		// ---- the close: the closer's latest holder commitment is mined everywhere
		let closer = if w.closer_sender { 0 } else { 1 };
		let closing_tx = sc.net.nodes[closer].chain_monitor.chain_monitor.get_monitor(cid).map_err(|_| "no monitor")?.unsafe_get_latest_holder_commitment_txn(&sc.net.nodes[closer].logger)[0].clone();
		let peer_id = sc.net.ids[1 - closer];
		sc.net.nodes[closer].node.force_close_broadcasting_latest_txn(&cid, &peer_id, "closed by the application".to_string()).map_err(|e| format!("{:?}", e))?;
		sc.net.pump(closer); sc.net.process_events(closer);
		sc.net.disconnect(0, 1);
		let ctxid = closing_tx.compute_txid();
		// ground truth from the transaction itself: does payment k have an output in it?
		let has_output = |amt: u64| closing_tx.output.iter().any(|o| o.value.to_sat() == amt / 1000);
		let amts = [amt1, amt2];
		let in_tx: Vec<bool> = (0..n_ids).map(|k| has_output(amts[k])).collect();
		sc.log.push(format!("close by node {} with {} outputs; HTLC outputs present: {:?}", closer, closing_tx.output.len(), in_tx));
		if in_tx[0] == w.dust { return Err(format!("payment 1 dust={} but output present={}", w.dust, in_tx[0])); }
		sc.blocks(|n| { mine_transaction(n, &closing_tx); });
		sc.fub(ctxid, &in_tx);
		sc.blocks(|n| { connect_blocks(n, ANTI_REORG_DELAY - 2); });
		// ---- ANTI_REORG_DELAY - 1 confirmations: nothing may be reported, no terminal event
		let mut timed_out = vec![false; n_ids];
		let check = |sc: &mut Sc, stage: &str, buried: bool, timed_out: &Vec<bool>| {
			// the view before the sender's pending events are handled (what a restart at this instant reads), then after
			let mut rep = sc.ocf(&format!("{},events-pending", stage));
			// completeness: a payment whose HTLC has no output in the buried commitment, or whose output the sender claimed back
			// (buried), and of which the user has not been told yet, MUST be reported (else a restart now would leave it pending forever)
			for k in 0..sc.ids.len() {
				let t = &sc.tallies[k];
				if buried && (!in_tx[k] || timed_out[k]) && t.failed == 0 && t.sent == 0 && t.path_failed == 0 && !rep.contains(&k) && sc.listed_now.contains(&k) {
					sc.rec.oracle_fail(format!("restart reconstruction (get_onchain_failed_outbound_htlcs) does NOT report payment {} although {} and the user has not been told (a restart now leaves it pending forever) [{}] :: {} :: {}", k + 1,
						if !in_tx[k] { "its HTLC has no output in the irrevocably confirmed commitment transaction" } else { "its output was claimed back by the sender's timeout transaction, buried ANTI_REORG_DELAY deep" }, stage, sc.tag, sc.log.join(" | ")));
				}
			}
			let ev = sc.drain();
			for k in sc.ocf(stage) { if !rep.contains(&k) { rep.push(k); } }
			if !buried && !rep.is_empty() { sc.rec.oracle_fail(format!("get_onchain_failed_outbound_htlcs reports payments {:?} failed although the commitment transaction has fewer than ANTI_REORG_DELAY confirmations [{}] :: {} :: {}", rep.iter().map(|k| k + 1).collect::<Vec<usize>>(), stage, sc.tag, sc.log.join(" | "))); }
			for k in 0..sc.ids.len() {
				let live = in_tx[k] && !timed_out[k];
				if live && rep.contains(&k) { sc.rec.oracle_fail(format!("restart reconstruction (get_onchain_failed_outbound_htlcs) reports payment {}'s HTLC FAILED although it has a live non-dust output in the confirmed commitment transaction {} [{}] :: {} :: {}", k + 1, ctxid, stage, sc.tag, sc.log.join(" | "))); }
				if live && sc.tallies[k].sent == 0 && (sc.tallies[k].failed > 0 || sc.tallies[k].path_failed > 0) { sc.rec.oracle_fail(format!("payment {} reported failed (PaymentPathFailed x{}, PaymentFailed x{}) while its HTLC output in the confirmed commitment transaction is still live [{}] :: {} :: {}", k + 1, sc.tallies[k].path_failed, sc.tallies[k].failed, stage, sc.tag, sc.log.join(" | "))); }
				if live && sc.tallies[k].sent == 0 && !sc.listed_now.contains(&k) { sc.rec.oracle_fail(format!("get_all_current_outbound_htlcs does not list payment {} although its HTLC output is live and no PaymentSent was seen (a restart would forget it) [{}] :: {} :: {}", k + 1, stage, sc.tag, sc.log.join(" | "))); }
				if live && sc.tallies[k].sent == 0 && !sc.pending(k) { sc.rec.oracle_fail(format!("payment {} is no longer listed Pending by list_recent_payments although its HTLC output is live (a retry would pay twice) [{}] :: {} :: {}", k + 1, stage, sc.tag, sc.log.join(" | "))); }
				if !buried && (sc.tallies[k].failed > 0 || sc.tallies[k].sent > 0) { sc.rec.oracle_fail(format!("terminal event for payment {} before the close reached ANTI_REORG_DELAY confirmations [{}] :: {} :: {}", k + 1, stage, sc.tag, sc.log.join(" | "))); }
			}
			let _ = ev;
		};
		check(sc, "depth=ARD-1", false, &timed_out);
		if w.restarts & 1 != 0 { sc.restart_rout(false)?; check(sc, "depth=ARD-1,restarted", false, &timed_out); }
		// ---- ANTI_REORG_DELAY confirmations
		// bit 64: the manager on disk was written BEFORE the block that buries the close (the monitor is current): the restart
		// reconstruction is then the only source of the failures
		let early = w.restarts & 16 != 0;
		let stale = if w.restarts & 64 != 0 && !early { use lightning::util::ser::Writeable; let p = sc.persisted_now(); Some((sc.net.nodes[0].node.encode(), p)) } else { None };
		sc.blocks(|n| { connect_blocks(n, 1); });
		// a restart at the very block that buries the close, BEFORE the sender's events were handled: a terminal event may then
		// be repeated once (it had not been handled and persisted), never contradicted
		if early { sc.restart()?; }
		if let Some((m, p)) = stale { sc.restart_stale(&m, p, false)?; }
		check(sc, "depth=ARD", true, &timed_out);
		if w.restarts & 2 != 0 { sc.restart_rout(false)?; check(sc, "depth=ARD,restarted", true, &timed_out); }
		// ---- resolution of payment 1's output
		let mut claimed = false;
		if w.res == 0 && in_tx[0] {
			let pre = sc.net.pays[p1].preimage;
			sc.net.nodes[1].node.claim_funds(pre); sc.net.pump(1); sc.net.process_events(1);
			let txs: Vec<Transaction> = spending(&sc.net.nodes[1], ctxid, None).into_iter().filter(|t| t.compute_txid() != ctxid).collect();
			if txs.is_empty() { sc.rec.discarded += 1; sc.log.push("recipient broadcast no claim".into()); }
			else {
				for tx in txs.iter() { sc.blocks(|n| { mine_transaction(n, tx); }); }
				claimed = true; sc.log.push(format!("recipient's preimage claim mined ({} tx)", txs.len()));
				// bit 32: the sender does not handle its events until the claim is buried (PaymentSent unhandled while
				// htlcs_resolved_on_chain gains the entry with the preimage)
				if w.restarts & 32 == 0 { check(sc, "claim-mined", true, &timed_out); }
				if w.restarts & 4 != 0 { sc.restart()?; if w.restarts & 32 == 0 { check(sc, "claim-mined,restarted", true, &timed_out); } }
				sc.blocks(|n| { connect_blocks(n, ANTI_REORG_DELAY - 1); });
				check(sc, "claim-buried", true, &timed_out);
			}
		} else if w.res == 2 && in_tx[0] {
			// nobody claims: past the HTLC's expiry the sender claims the output back
			sc.blocks(|n| { connect_blocks(n, 90); });
			check(sc, "expired", true, &timed_out);
			let txs: Vec<Transaction> = spending(&sc.net.nodes[0], ctxid, None).into_iter().filter(|t| t.compute_txid() != ctxid).collect();
			if txs.is_empty() { sc.rec.discarded += 1; sc.log.push("sender broadcast no timeout claim".into()); }
			else {
				for tx in txs.iter() { sc.blocks(|n| { mine_transaction(n, tx); }); }
				for k in 0..n_ids { timed_out[k] = in_tx[k]; }
				sc.log.push(format!("sender's timeout claims mined ({} tx)", txs.len()));
				if w.restarts & 4 != 0 { sc.restart()?; }
				sc.blocks(|n| { connect_blocks(n, ANTI_REORG_DELAY - 1); });
				check(sc, "timeout-buried", true, &timed_out);
			}
		}
		if w.restarts & 8 != 0 { sc.restart_rout(false)?; check(sc, "end,restarted", true, &timed_out); }
		sc.blocks(|n| { connect_blocks(n, 2); });
		check(sc, "end", true, &timed_out);
		// ---- exactly one truthful terminal outcome per payment
		for k in 0..n_ids {
			let t = &sc.tallies[k];
			let (want_sent, want_failed): (Option<u32>, Option<u32>) =
				if k == 0 && claimed { (Some(1), Some(0)) }
				else if !in_tx[k] || timed_out[k] { (Some(0), Some(1)) }       // no output (dust / never included) or timed out on chain
				else { (Some(0), Some(0)) };                                    // output still live: pending
			let cnt_ok = |want: u32, got: u32| if (early || (w.restarts & 36 == 36)) && want == 1 { got == 1 || got == 2 } else { got == want };
			let ok = want_sent.map(|n| cnt_ok(n, t.sent)).unwrap_or(true) && want_failed.map(|n| cnt_ok(n, t.failed)).unwrap_or(true) && !(t.sent > 0 && t.path_failed > 0);
			if !ok { sc.rec.oracle_fail(format!("payment {}: {} PaymentSent, {} PaymentFailed, {} PaymentPathFailed but the chain says {} (expected {} PaymentSent, {} PaymentFailed; {} restarts) :: {} :: {}", k + 1, t.sent, t.failed, t.path_failed,
				if k == 0 && claimed { "the recipient claimed its output with the preimage" } else if !in_tx[k] { "it has no output in the confirmed commitment transaction" } else if timed_out[k] { "the sender claimed its output back after the timeout" } else { "its output is still unspent" },
				want_sent.unwrap_or(0), want_failed.unwrap_or(0), sc.restarted, sc.tag, sc.log.join(" | "))); }
			let class = format!("outcome:{}:{}", if k == 0 && claimed { "claimed" } else if !in_tx[k] { "no-output" } else if timed_out[k] { "timed-out" } else { "live" }, if sc.restarted > 0 { "restarted" } else { "no-restart" });
			*sc.rec.classes.entry(class).or_insert(0) += 1;
		}
		Ok(())
	}

	/// 2-part MPP payment over TWO channels 0-1; channel c0 is closed on chain (either side's latest commitment), c1 stays open.
	/// Restart reconstruction must re-add / keep both parts; PaymentFailed is forbidden while the part on the live channel is pending,
	/// whatever happens to the part on the closed one (dust: implicitly failed once buried; non-dust: live output).
	pub fn scenario_mpp(w: World, rec: &mut Rec, seed: u64) -> Result<(), String> {
		let mut net = Net::new(2, vec![Some(test_legacy_channel_config()), Some(test_legacy_channel_config())]);
		let c0 = net.open(0, 1, 1_000_000, 200_000_000);
		let c1 = net.open(0, 1, 1_000_000, 200_000_000);
		let cid = net.chans[c0].2;
		let mut sc = Sc { net, rec, cid, tag: format!("c03chain MPP {:?} seed={}", w, seed), txids: BTreeMap::new(), srcs: BTreeMap::new(), log: vec![], ids: vec![], tallies: vec![], ev_seen: 0, restarted: 0, listed_now: vec![], last_fields: String::new(), last_pre: vec![] };
		let r = guarded(std::panic::AssertUnwindSafe(|| world_mpp(w, &mut sc, c0, c1, seed)));
		let Sc { net, rec, tag, log, .. } = sc; std::mem::forget(net);
		match r { Ok(x) => x, Err(p) => { rec.oracle_fail(format!("panic while driving the real nodes: {} :: {} :: {}", p.chars().take(300).collect::<String>(), tag, log.join(" | "))); Ok(()) } }
	}

	fn world_mpp(w: World, sc: &mut Sc, c0: usize, c1: usize, seed: u64) -> Result<(), String> {
		use lightning::ln::functional_test_utils::get_payment_preimage_hash;
		use lightning::ln::outbound_payment::RecipientOnionFields;
		use lightning::routing::router::{Path, PaymentParameters, Route, RouteHop, RouteParameters};
		use lightning::types::features::{ChannelFeatures, NodeFeatures};
		let mut rng = Rng::new(seed);
		let cid = sc.cid; let cid1 = sc.net.chans[c1].2;
		let a: u64 = if w.dust { 100_000 + rng.below(150) * 1000 } else { 8_000_000 + rng.below(4000) * 1000 };
		let b: u64 = 4_000_000 + rng.below(3000) * 1000;
		let total = a + b;
		let (preimage, hash, secret) = get_payment_preimage_hash(&sc.net.nodes[1], Some(total), None);
		let hop = |c: usize, amt: u64| Path { hops: vec![RouteHop { pubkey: sc.net.ids[1], node_features: NodeFeatures::empty(), short_channel_id: sc.net.chans[c].3, channel_features: ChannelFeatures::empty(), fee_msat: amt, cltv_expiry_delta: 60, maybe_announced_channel: true }], blinded_tail: None };
		let route = Route { paths: vec![hop(c0, a), hop(c1, b)], route_params: RouteParameters::from_payment_params_and_value(PaymentParameters::from_node_id(sc.net.ids[1], 60), total) };
		let id = PaymentId(hash.0);
		sc.net.nodes[0].node.send_payment_with_route(route, hash, RecipientOnionFields::secret_only(secret, total), id).map_err(|e| format!("{:?}", e))?;
		sc.net.pump(0); sc.net.settle(12);
		if !sc.net.claimable[1].iter().any(|x| x.0 == hash) { return Err("the MPP payment did not reach the recipient".into()); }
		sc.ids.push(id); sc.tallies = vec![Tally::default()];
		sc.tag = format!("c03chain MPP {:?} part-on-closed-channel={} part-on-live-channel={} seed={}", w, a, b, seed);
		sc.ev_seen = sc.net.events[0].len();
		let closer = if w.closer_sender { 0 } else { 1 };
		let closing_tx = sc.net.nodes[closer].chain_monitor.chain_monitor.get_monitor(cid).map_err(|_| "no monitor")?.unsafe_get_latest_holder_commitment_txn(&sc.net.nodes[closer].logger)[0].clone();
		let peer_id = sc.net.ids[1 - closer];
		sc.net.nodes[closer].node.force_close_broadcasting_latest_txn(&cid, &peer_id, "closed by the application".to_string()).map_err(|e| format!("{:?}", e))?;
		sc.net.pump(closer); sc.net.process_events(closer);
		sc.net.disconnect(0, 1);
		let ctxid = closing_tx.compute_txid();
		let in_tx = closing_tx.output.iter().any(|o| o.value.to_sat() == a / 1000);
		if in_tx == w.dust { return Err(format!("part on the closed channel dust={} but output present={}", w.dust, in_tx)); }
		sc.log.push(format!("channel c0 closed by node {}; output of the part on it present: {}; channel c1 stays open", closer, in_tx));
		// the part on the LIVE channel, read from the channel itself
		let live_part = |sc: &Sc| sc.net.nodes[0].node.list_channels().iter().any(|ch| ch.channel_id == cid1 && ch.pending_outbound_htlcs.iter().any(|h| h.payment_hash == hash));
		let listed_recent = |sc: &Sc| sc.net.nodes[0].node.list_recent_payments().iter().any(|r| match r { RecentPaymentDetails::Pending { payment_id, .. } | RecentPaymentDetails::Abandoned { payment_id, .. } => *payment_id == id, _ => false });
		let check = |sc: &mut Sc, stage: &str, buried: bool| {
			let mut rep = sc.ocf(&format!("{},events-pending", stage));
			sc.drain();
			for k in sc.ocf(stage) { if !rep.contains(&k) { rep.push(k); } }
			let t = &sc.tallies[0]; let (sent, failed) = (t.sent, t.failed);
			let live1 = live_part(sc);
			if !buried && !rep.is_empty() { sc.rec.oracle_fail(format!("get_onchain_failed_outbound_htlcs reports the MPP part failed before ANTI_REORG_DELAY confirmations [{}] :: {} :: {}", stage, sc.tag, sc.log.join(" | "))); }
			if in_tx && !rep.is_empty() { sc.rec.oracle_fail(format!("restart reconstruction reports the MPP part on the closed channel FAILED although it has a live non-dust output in the confirmed commitment transaction {} [{}] :: {} :: {}", ctxid, stage, sc.tag, sc.log.join(" | "))); }
			if failed > 0 && (live1 || in_tx) && sent == 0 { sc.rec.oracle_fail(format!("PaymentFailed for an MPP payment although {} [{}] :: {} :: {}", if live1 { "its part on the LIVE channel is still pending in that channel" } else { "its part on the closed channel has a live output" }, stage, sc.tag, sc.log.join(" | "))); }
			if sent == 0 && (live1 || in_tx) && !listed_recent(sc) { sc.rec.oracle_fail(format!("MPP payment with a part in flight is no longer listed by list_recent_payments (a retry would pay twice) [{}] :: {} :: {}", stage, sc.tag, sc.log.join(" | "))); }
			if sent == 0 && !live1 && sc.restarted == 0 { sc.rec.oracle_fail(format!("the part on the live channel vanished without a fulfil [{}] :: {} :: {}", stage, sc.tag, sc.log.join(" | "))); }
		};
		sc.blocks(|n| { mine_transaction(n, &closing_tx); });
		sc.fub(ctxid, &[in_tx]);
		sc.blocks(|n| { connect_blocks(n, ANTI_REORG_DELAY - 2); });
		check(sc, "mpp,depth=ARD-1", false);
		if w.restarts & 1 != 0 { sc.restart_rout(true)?; check(sc, "mpp,depth=ARD-1,restarted", false); }
		sc.blocks(|n| { connect_blocks(n, 1); });
		if w.restarts & 16 != 0 { sc.restart()?; }
		check(sc, "mpp,depth=ARD", true);
		if w.restarts & 2 != 0 { sc.restart_rout(true)?; check(sc, "mpp,depth=ARD,restarted", true); }
		let mut claimed = false;
		if w.res == 0 {
			sc.net.nodes[1].node.claim_funds(preimage); sc.net.pump(1); sc.net.process_events(1);
			if in_tx { let txs: Vec<Transaction> = spending(&sc.net.nodes[1], ctxid, None).into_iter().filter(|t| t.compute_txid() != ctxid).collect(); for tx in txs.iter() { sc.blocks(|n| { mine_transaction(n, tx); }); } sc.log.push(format!("recipient's on-chain claim mined ({} tx)", txs.len())); }
			sc.net.reconnect(0, 1); sc.net.settle(12);
			claimed = true; sc.log.push("recipient claimed; peers reconnected (fulfil over the live channel)".into());
			sc.drain();
			if w.restarts & 4 != 0 { sc.restart()?; sc.drain(); }
			sc.blocks(|n| { connect_blocks(n, ANTI_REORG_DELAY - 1); });
			sc.ocf("mpp,claim-buried,events-pending"); sc.drain(); sc.ocf("mpp,claim-buried");
		}
		if w.restarts & 8 != 0 { sc.restart()?; if !claimed { check(sc, "mpp,end,restarted", true); } else { sc.drain(); } }
		if !claimed { check(sc, "mpp,end", true); }
		let t = &sc.tallies[0];
		let ok = if claimed { t.sent == 1 && t.failed == 0 } else { t.sent == 0 && t.failed == 0 };
		if !ok { sc.rec.oracle_fail(format!("MPP payment: {} PaymentSent, {} PaymentFailed, {} PaymentPathFailed but {} ({} restarts) :: {} :: {}", t.sent, t.failed, t.path_failed,
			if claimed { "the recipient claimed it (one part on chain, one over the live channel): exactly one PaymentSent, no PaymentFailed" } else { "nobody resolved the part on the live channel: no terminal event yet" }, sc.restarted, sc.tag, sc.log.join(" | "))); }
		*sc.rec.classes.entry(format!("outcome-mpp:{}:{}:{}", if claimed { "claimed" } else { "pending" }, if w.dust { "closed-part-dust" } else { "closed-part-live" }, if sc.restarted > 0 { "restarted" } else { "no-restart" })).or_insert(0) += 1;
		Ok(())
	}

	pub fn run(args: &Args) {
		sim::silence_stdout();
		let mut rec = Rec::new(&args.out, "c03chain");
		let mut rng = Rng::new(args.seed ^ 0xC03C);
		let n = if args.thorough { 3000 } else { 240 } * args.scale.max(1);
		let mut errs = 0u64;
		for k in 0..n {
			// the first worlds are directed (previous counterparty commitment confirmed, restart once it is buried, then the claim)
			let w = match k {
				0 => World { closer_sender: false, dance: 1, dust: false, res: 0, restarts: 2 },
				1 => World { closer_sender: false, dance: 1, dust: false, res: 2, restarts: 6 },
				2 => World { closer_sender: false, dance: 2, dust: false, res: 0, restarts: 2 },
				3 => World { closer_sender: true, dance: 1, dust: false, res: 0, restarts: 3 },
				4 => World { closer_sender: false, dance: 0, dust: true, res: 1, restarts: 2 },
				5 => World { closer_sender: false, dance: 1, dust: true, res: 1, restarts: 10 },
				6 => World { closer_sender: false, dance: 1, dust: false, res: 0, restarts: 16 },
				7 => World { closer_sender: true, dance: 2, dust: false, res: 2, restarts: 20 },
				8 => World { closer_sender: false, dance: 1, dust: false, res: 0, restarts: 32 + 8 },
				9 => World { closer_sender: true, dance: 0, dust: false, res: 0, restarts: 32 + 4 },
				10 => World { closer_sender: false, dance: 3, dust: false, res: 2, restarts: 0 },
				11 => World { closer_sender: false, dance: 3, dust: false, res: 2, restarts: 6 },
				12 => World { closer_sender: false, dance: 3, dust: false, res: 1, restarts: 2 },
				15 => World { closer_sender: false, dance: 1, dust: false, res: 0, restarts: 64 },
				16 => World { closer_sender: true, dance: 1, dust: true, res: 1, restarts: 64 + 8 },
				k if k % 6 == 1 => World { closer_sender: false, dance: 3, dust: false, res: if rng.chance(2, 3) { 2 } else { 1 }, restarts: rng.below(128) as u8 },
				_ => World { closer_sender: rng.chance(1, 3), dance: rng.below(3) as u8, dust: rng.chance(1, 4), res: rng.below(3) as u8, restarts: rng.below(128) as u8 },
			};
			rec.directive("reset");
			let seed = rng.next();
			let mpp = k == 13 || k == 14 || (k > 14 && k % 5 == 3);
			let w = if k == 13 { World { closer_sender: false, dance: 0, dust: false, res: 0, restarts: 2 } } else if k == 14 { World { closer_sender: false, dance: 0, dust: true, res: 1, restarts: 10 } } else { w };
			match if mpp { scenario_mpp(w, &mut rec, seed) } else { scenario(w, &mut rec, seed) } {
				Ok(()) => {},
				Err(e) => { errs += 1; rec.discarded += 1; rec.notes.insert(format!("discarded world {}", k), format!("{:?}: {}", w, e)); },
			}
		}
		rec.notes.insert("rule".into(), format!("{} on-chain worlds (closer sender / recipient x payment 2 absent / add+commitment_signed undelivered / delivered and answer lost x payment 1 dust / non-dust x recipient claims with the preimage / nobody claims / sender times out x restarts of the sender at ARD-1, ARD, claim mined, end); {} could not be set up; every check point is one `ocf` case (real get_onchain_failed_outbound_htlcs vs Model/OnchainFailed.lean on the dumped monitor view)", n, errs));
		rec.finish();
	}
}

fn pid(n: u64) -> PaymentId { let mut b = [0u8; 32]; b[24..].copy_from_slice(&n.to_be_bytes()); PaymentId(b) }
fn pid_num(hex32: &str) -> u64 { u64::from_str_radix(&hex32[48..], 16).unwrap_or(u64::MAX) }
fn preimage_of(id: u64, gen: u64) -> PaymentPreimage { let mut b = [9u8; 32]; b[..8].copy_from_slice(&id.to_be_bytes()); b[8..16].copy_from_slice(&gen.to_be_bytes()); PaymentPreimage(b) }
fn hash_of(p: &PaymentPreimage) -> PaymentHash { use bitcoin::hashes::{sha256, Hash}; PaymentHash(sha256::Hash::hash(&p.0).to_byte_array()) }

/// facade event text -> model event text
pub fn canon_ev(t: &str) -> (u64, String) {
	let w: Vec<&str> = t.split(' ').collect();
	match w[0] {
		"PaymentSent" => { let i = pid_num(w[1]); (i, format!("sent:{}", i)) },
		"PaymentFailed" => { let i = pid_num(w[1]); (i, format!("failed:{}:{}", i, w[2])) },
		"PaymentPathSuccessful" => { let i = pid_num(w[1]); (i, format!("pathok:{}:{}", i, w[2])) },
		"PaymentPathFailed" => { let i = pid_num(w[1]); (i, format!("pathfail:{}:{}", i, w[2])) },
		_ => (u64::MAX, format!("other:{}", t.replace(' ', "_"))),
	}
}
pub fn canon(status: &str, evs: &[String]) -> String {
	let mut v: Vec<(u64, String)> = evs.iter().map(|e| canon_ev(e)).collect();
	v.sort_by_key(|e| e.0); // stable
	let mut s = status.to_string();
	for (_, e) in v { s.push(' '); s.push_str(&e); }
	s
}

#[derive(Clone, Default)]
struct PayMeta { strategy: Option<u32>, count: u32, gen: u64, no_secret: bool }

#[derive(Clone, Copy)]
struct Part { id: u64, sp: [u8; 32], }

/// per-instance tallies for the implementation-side oracle (independent of the Lean model)
#[derive(Clone, Default)]
struct Tally { sent: u32, failed: u32, claim_hit: bool, restarted: bool }

struct Seq<'a> {
	f: Facade,
	rec: &'a mut Rec,
	rng: &'a mut Rng,
	meta: BTreeMap<u64, PayMeta>,
	snap_meta: BTreeMap<u64, PayMeta>,
	parts: BTreeMap<u64, Part>,
	next_part: u64,
	gens: u64,
	tally: BTreeMap<u64, Tally>,
	present: BTreeSet<u64>,
	trace: Vec<String>,
	dead: bool,
	/// GROUND TRUTH kept by the harness (independent of the payments map and of the Lean model): (payment, part) of
	/// every HTLC that `send_payment_along_path` accepted (answer Ok or MonitorUpdateInProgress; for `add` and the
	/// all-Ok `check`: every part) and that has not been resolved yet by a fail / finalize / on-chain claim call
	inflight: BTreeSet<(u64, u64)>,
	amt: u64,
}

impl<'a> Seq<'a> {
	fn list_line(&self) -> (String, BTreeMap<u64, (String, usize)>) {
		let mut s = "list".to_string();
		let mut m = BTreeMap::new();
		for (id, name, n, extra) in self.f.list() {
			let i = pid_num(&hex(&id.0));
			match name {
				"AwaitingInvoice" => s.push_str(&format!(" {}:PreHtlc:0:{}", i, extra)),
				"Fulfilled" => s.push_str(&format!(" {}:Fulfilled:{}:{}", i, n, extra)),
				other => s.push_str(&format!(" {}:{}:{}", i, other, n)),
			}
			m.insert(i, (name.to_string(), n));
		}
		(s, m)
	}
	fn auto(&self, id: u64, state: &BTreeMap<u64, (String, usize)>) -> bool {
		match (state.get(&id), self.meta.get(&id)) {
			(Some((name, _)), Some(m)) if name == "Retryable" => m.strategy.map(|s| s > m.count).unwrap_or(false),
			_ => false,
		}
	}
	/// record one compared case and feed the oracle
	fn emit(&mut self, op: String, status: &str, evs: &[String], class: &str) {
		let ans = canon(status, evs);
		self.trace.push(format!("{} => {}", op, ans));
		self.path_failed_oracle(evs);
		for e in evs {
			let w: Vec<&str> = e.split(' ').collect();
			if w[0] == "PaymentSent" {
				let i = pid_num(w[1]);
				let t = self.tally.entry(i).or_default();
				t.sent += 1;
				if w[2] != "preimage_ok=true" { let tr = self.trace.join(" | "); self.rec.oracle_fail(format!("PaymentSent preimage does not hash to the payment hash: {}", tr)); }
			} else if w[0] == "PaymentFailed" {
				let i = pid_num(w[1]);
				let t = self.tally.entry(i).or_default();
				t.failed += 1;
				let restarted = t.restarted;
				// truthful terminal event: PaymentFailed only once NO HTLC of the payment is in flight
				let live: Vec<u64> = self.inflight.iter().filter(|k| k.0 == i).map(|k| k.1).collect();
				if !restarted && !live.is_empty() { let tr = self.trace.join(" | "); self.rec.oracle_fail(format!("PaymentFailed for payment {} while {} of its HTLCs are still in flight (parts {:?}; accepted by send_payment_along_path with Ok / MonitorUpdateInProgress, not yet resolved): {}", i, live.len(), live, tr)); }
			}
		}
		self.rec.case(&op, &ans, class, true);
		if status != "panic" { self.after(); }
	}
	/// oracle bookkeeping after every op: instance boundaries come from the real map
	fn after(&mut self) {
		let (_, st) = self.list_line();
		let now: BTreeSet<u64> = st.keys().cloned().collect();
		let ids: BTreeSet<u64> = self.tally.keys().cloned().chain(now.iter().cloned()).chain(self.present.iter().cloned()).collect();
		for i in ids {
			let t = self.tally.get(&i).cloned().unwrap_or_default();
			let tr = || self.trace.join(" | ");
			if !t.restarted {
				if t.sent > 1 { self.rec.oracle_fail(format!("PaymentSent twice for one payment instance id={}: {}", i, tr())); }
				if t.failed > 1 { self.rec.oracle_fail(format!("PaymentFailed twice for one payment instance id={}: {}", i, tr())); }
				if t.sent > 0 && t.failed > 0 { self.rec.oracle_fail(format!("PaymentSent and PaymentFailed for one payment instance id={}: {}", i, tr())); }
				if t.sent > 0 && !t.claim_hit { self.rec.oracle_fail(format!("PaymentSent without any claim id={}: {}", i, tr())); }
				if t.failed > 0 && t.claim_hit { self.rec.oracle_fail(format!("PaymentFailed although a part was claimed id={}: {}", i, tr())); }
				if self.present.contains(&i) && !now.contains(&i) && t.sent + t.failed != 1 {
					self.rec.oracle_fail(format!("payment id={} dropped from the map with {} terminal events: {}", i, t.sent + t.failed, tr()));
				}
			}
			if !t.restarted {
				let live = self.inflight.iter().filter(|k| k.0 == i).count();
				if self.present.contains(&i) && !now.contains(&i) && live > 0 {
					self.rec.oracle_fail(format!("payment id={} dropped from the map (the id can be re-used) while {} of its HTLCs are still in flight: {}", i, live, tr()));
				}
				if let Some((name, n)) = st.get(&i) {
					if name != "AwaitingInvoice" && *n != live {
						self.rec.oracle_fail(format!("payment id={} ({}) tracks {} in-flight parts but {} of its HTLCs are in flight: {}", i, name, n, live, tr()));
					}
				}
			}
			if !now.contains(&i) { self.tally.remove(&i); }
		}
		for (pidx, pending, total) in self.f.amounts() {
			let i = pid_num(&hex(&pidx.0));
			if self.tally.get(&i).map(|t| t.restarted).unwrap_or(true) { continue; }
			let live = self.inflight.iter().filter(|k| k.0 == i).count() as u64;
			if pending != live * self.amt {
				let tr = self.trace.join(" | ");
				self.rec.oracle_fail(format!("payment id={}: pending_amt_msat {} != {} = sum over its {} in-flight HTLCs: {}", i, pending, live * self.amt, live, tr));
			}
			if live * self.amt > total {
				let tr = self.trace.join(" | ");
				self.rec.oracle_fail(format!("payment id={}: amount re-sent although still in flight (sum of in-flight parts {} > total {}): {}", i, live * self.amt, total, tr));
			}
		}
		self.present = now;
	}
	fn new_parts(&mut self, id: u64, n: u64) -> Vec<u64> {
		let v: Vec<u64> = (0..n).map(|k| self.next_part + k).collect();
		self.next_part += n;
		let _ = id;
		v
	}
	fn csv(v: &[u64]) -> String { if v.is_empty() { "-".into() } else { v.iter().map(|x| x.to_string()).collect::<Vec<_>>().join(",") } }
	fn pick_part(&mut self, prefer_live: bool) -> (u64, u64, [u8; 32]) {
		// (id, part, session priv); sometimes a part that never existed
		if self.parts.is_empty() || self.rng.chance(1, 12) {
			let id = self.rng.range(1, 4);
			let p = 1_000_000 + self.rng.below(5);
			let mut sp = [0x55u8; 32]; sp[31] = p as u8;
			return (id, p, sp);
		}
		let keys: Vec<u64> = self.parts.keys().cloned().collect();
		let live: Vec<u64> = keys.iter().cloned().filter(|k| self.present.contains(&self.parts[k].id)).collect();
		let k = if prefer_live && !live.is_empty() && self.rng.chance(4, 5) { *self.rng.pick(&live) } else { *self.rng.pick(&keys) };
		let p = self.parts[&k];
		// rarely address the part under another payment id
		let id = if self.rng.chance(1, 25) { self.rng.range(1, 4) } else { p.id };
		(id, k, p.sp)
	}

	fn step(&mut self) {
		let r0 = self.rng.below(100);
		if r0 < 11 { self.random_send_with(); if !self.dead && self.rng.chance(1, 3) { self.dump(); } return; }
		if r0 < 16 { self.random_check_with(); if !self.dead && self.rng.chance(1, 3) { self.dump(); } return; }
		let (_, st) = self.list_line();
		let r = self.rng.below(100);
		if r < 14 {
			// send (new or duplicate id)
			let id = self.rng.range(1, 4);
			let n = if self.rng.chance(1, 20) { 0 } else { self.rng.range(1, 4) };
			let strategy = match self.rng.below(4) { 0 => None, 1 => Some(0), 2 => Some(1), _ => Some(2) };
			let parts = self.new_parts(id, n);
			self.gens += 1;
			let gen = self.gens;
			let hash = hash_of(&preimage_of(id, gen));
			let f = &self.f;
			let res = guarded(AssertUnwindSafe(|| f.add(pid(id), hash, &parts, strategy)));
			match res {
				Ok(Ok(sps)) => {
					for (p, sp) in parts.iter().zip(sps.iter()) { self.parts.insert(*p, Part { id, sp: *sp }); }
					self.meta.insert(id, PayMeta { strategy, count: 0, gen, no_secret: false });
					self.tally.insert(id, Tally::default());
					self.inflight.retain(|k| k.0 != id);
					for p in parts.iter() { self.inflight.insert((id, *p)); }
					self.emit(format!("send {} {}", id, Self::csv(&parts)), "ok", &[], "send:ok");
					self.rec.directive(&format!("strategy {} {}", id, strategy.map(|n| format!("a{}", n)).unwrap_or("-".into())));
				},
				Ok(Err(e)) => {
					if e != "DuplicatePayment" || !st.contains_key(&id) { let tr = self.trace.join(" | "); self.rec.oracle_fail(format!("send of id={} refused with {} (present={}): {}", id, e, st.contains_key(&id), tr)); }
					let (before, _) = (st.clone(), ());
					self.emit(format!("send {} {}", id, Self::csv(&parts)), "dup", &[], "send:dup");
					let (_, after) = self.list_line();
					if before != after { let tr = self.trace.join(" | "); self.rec.oracle_fail(format!("refused duplicate send changed the map: {}", tr)); }
				},
				Err(p) => { self.emit(format!("send {} {}", id, Self::csv(&parts)), "panic", &[], "send:panic"); self.dead = true; let _ = p; },
			}
		} else if r < 36 {
			let (id, part, sp) = self.pick_part(true);
			let oc = self.rng.chance(1, 3);
			let gen = self.meta.get(&id).map(|m| m.gen).unwrap_or(0);
			let hit = st.get(&id).map(|(n, _)| n != "AwaitingInvoice").unwrap_or(false);
			let f = &self.f;
			let res = guarded(AssertUnwindSafe(|| f.claim(pid(id), preimage_of(id, gen), sp, part, oc)));
			if hit { self.tally.entry(id).or_default().claim_hit = true; }
			let was = self.inflight.contains(&(id, part)) && !self.tally.get(&id).map(|t| t.restarted).unwrap_or(true);
			let before = st.get(&id).map(|x| x.0.clone()).unwrap_or("Absent".into());
			if res.is_ok() && oc { self.inflight.remove(&(id, part)); }
			if let Ok(evs) = &res { if was && before != "Fulfilled" && !evs.iter().any(|e| e.starts_with("PaymentSent")) { let tr = self.trace.join(" | "); self.rec.oracle_fail(format!("in-flight HTLC (part {}) of payment {} fulfilled at the sender, payment state {}: no PaymentSent produced: {} | claim {} {} {}", part, id, before, tr, id, part, oc as u8)); } }
			match res {
				Ok(evs) => self.emit(format!("claim {} {} {}", id, part, oc as u8), "ok", &evs, if evs.is_empty() { "claim:dup" } else if oc { "claim:onchain" } else { "claim:offchain" }),
				Err(_) => { self.emit(format!("claim {} {} {}", id, part, oc as u8), "panic", &[], "claim:panic"); self.dead = true; },
			}
		} else if r < 50 {
			let (id, part, sp) = self.pick_part(true);
			// finalize_claims asserts is_fulfilled: mostly respect it
			let fulfilled = st.get(&id).map(|(n, _)| n == "Fulfilled").unwrap_or(true);
			if !fulfilled && !self.rng.chance(1, 30) { return; }
			let f = &self.f;
			let res = guarded(AssertUnwindSafe(|| f.finalize(pid(id), sp, part)));
			if res.is_ok() { self.inflight.remove(&(id, part)); }
			match res {
				Ok(evs) => self.emit(format!("finalize {} {}", id, part), "ok", &evs, if evs.is_empty() { "finalize:dup" } else { "finalize:ok" }),
				Err(_) => { self.emit(format!("finalize {} {}", id, part), "panic", &[], "finalize:panic"); self.dead = true; },
			}
		} else if r < 70 {
			let (id, part, sp) = self.pick_part(true);
			let perm = self.rng.chance(1, 3);
			let auto = self.auto(id, &st);
			let gen = self.meta.get(&id).map(|m| m.gen).unwrap_or(0);
			let hash = hash_of(&preimage_of(id, gen));
			let f = &self.f;
			let res = guarded(AssertUnwindSafe(|| f.fail(pid(id), hash, sp, part, perm)));
			let was = self.inflight.contains(&(id, part)) && !self.tally.get(&id).map(|t| t.restarted).unwrap_or(true);
			let before = st.get(&id).map(|x| x.0.clone()).unwrap_or("Absent".into());
			if res.is_ok() { self.inflight.remove(&(id, part)); }
			if let Ok(evs) = &res { if was && before != "Fulfilled" && evs.is_empty() { let tr = self.trace.join(" | "); self.rec.oracle_fail(format!("in-flight HTLC (part {}) of payment {} failed at the sender, payment state {}: no event produced (payment unknown or part not tracked): {} | fail {} {}", part, id, before, tr, id, part)); } }
			match res {
				Ok(evs) => {
					let class = if evs.is_empty() { "fail:silent" } else if evs.len() == 2 { "fail:terminal" } else if auto && !perm { "fail:retryable" } else { "fail:abandon" };
					for e in evs.iter() { if e.starts_with("PaymentPathFailed") && !e.ends_with(&format!("perm={}", perm)) { let tr = self.trace.join(" | "); self.rec.oracle_fail(format!("PaymentPathFailed.payment_failed_permanently != injected failure kind: {} {}", e, tr)); } }
					self.emit(format!("fail {} {} {} {}", id, part, auto as u8, perm as u8), "ok", &evs, class)
				},
				Err(_) => { self.emit(format!("fail {} {} {} {}", id, part, auto as u8, perm as u8), "panic", &[], "fail:panic"); self.dead = true; },
			}
		} else if r < 74 {
			let id = self.rng.range(1, 4);
			let f = &self.f;
			let evs = f.abandon(pid(id));
			self.emit(format!("abandon {} UserAbandoned", id), "ok", &evs, if evs.is_empty() { "abandon:quiet" } else { "abandon:terminal" });
		} else if r < 82 {
			let n = if self.rng.chance(1, 4) { self.rng.range(2, 9) } else { 1 };
			for _ in 0..n {
				let evs = self.f.tick();
				let (_, before) = self.list_line();
				let _ = before;
				self.emit("tick".to_string(), "ok", &evs, if evs.is_empty() { "tick" } else { "tick:expired" });
			}
		} else if r < 86 {
			self.f.handle();
			self.emit("handle".to_string(), "ok", &[], "handle");
		} else if r < 88 {
			let id = self.rng.range(1, 4);
			let t = self.rng.below(4);
			match self.f.await_invoice(pid(id), t) {
				Ok(()) => { self.meta.insert(id, PayMeta { strategy: None, count: 0, gen: 0, no_secret: false }); self.tally.insert(id, Tally::default()); self.inflight.retain(|k| k.0 != id); self.emit(format!("await {} {}", id, t), "ok", &[], "await:ok"); self.rec.directive(&format!("strategy {} -", id)) },
				Err(()) => self.emit(format!("await {} {}", id, t), "dup", &[], "await:dup"),
			}
		} else if r < 95 {
			// check_retry_payments with a scripted router
			let mut plan = vec![];
			let mut plan_parts = vec![];
			for _ in 0..4 {
				if self.rng.chance(2, 3) { let ps = self.new_parts(0, 4); plan.push(Some(ps.clone())); plan_parts.push(ps); } else { plan.push(None); plan_parts.push(vec![]); }
			}
			let f = &self.f;
			let res = guarded(AssertUnwindSafe(|| f.check_retry(plan)));
			match res {
				Ok((evs, calls, sent)) => {
					let mut items = vec![];
					for (k, (id, found)) in calls.iter().enumerate() {
						let i = pid_num(&hex(&id.0));
						if *found {
							// the parts of plan entry k that the router really used (one per missing part)
							let used: Vec<u64> = plan_parts[k].iter().cloned().filter(|sc| sent.iter().any(|(sid, _, scid)| scid == sc && sid == id)).collect();
							items.push(format!("{}={}", i, Self::csv(&used)));
							if let Some(m) = self.meta.get_mut(&i) { m.count += 1; }
						} else { items.push(format!("{}=x", i)); }
					}
					for (id, sp, scid) in sent { let i = pid_num(&hex(&id.0)); self.parts.insert(scid, Part { id: i, sp }); self.inflight.insert((i, scid)); }
					let (_, st2) = self.list_line();
					// ids that are auto-retryable at the time of the final retain: Retryable entries that survived
					// are judged by their (updated) attempt counts; entries removed by the retain were not auto
					let autos: Vec<u64> = self.meta.iter().filter(|(i, m)| m.strategy.map(|s| s > m.count).unwrap_or(false) && st2.get(*i).map(|(n, _)| n == "Retryable").unwrap_or(false)).map(|(i, _)| *i).collect();
					let class = if calls.is_empty() { if evs.is_empty() { "check:idle" } else { "check:sweep" } } else { "check:retry" };
					self.emit(format!("check {} {}", if items.is_empty() { "-".to_string() } else { items.join(";") }, Self::csv(&autos)), "ok", &evs, class);
				},
				Err(_) => { self.emit("check - -".to_string(), "panic", &[], "check:panic"); self.dead = true; },
			}
		} else if r < 97 {
			self.f.persist();
			self.snap_meta = self.meta.clone();
			self.emit("persist".to_string(), "ok", &[], "persist");
		} else {
			// restart: restore the written map, then what the monitors know (arbitrary view, not nec. consistent)
			if let Err(e) = self.f.restore() { self.rec.oracle_fail(format!("persisted map does not read back: {}", e)); self.dead = true; return; }
			self.meta = self.snap_meta.clone();
			// `retry_strategy` / `attempts` are not written (static_value None / new()): nothing auto-retries after a reload
			for (_, m) in self.meta.iter_mut() { m.strategy = None; m.count = 0; }
			let (_, st0) = self.list_line();
			for (_, t) in self.tally.iter_mut() { t.restarted = true; }
			for i in st0.keys() { self.tally.entry(*i).or_default().restarted = true; }
			let keys: Vec<u64> = self.parts.keys().cloned().collect();
			let mut view: Vec<(u64, u64, u8, bool)> = vec![]; // id, part, res(0 p,1 c,2 f), perm
			for k in keys { if self.rng.chance(1, 3) { let p = self.parts[&k]; view.push((p.id, k, self.rng.below(3) as u8, self.rng.chance(1, 3))); } }
			let mut evs_all: Vec<String> = vec![];
			let mut panicked = false;
			for (id, part, _, _) in view.iter() {
				let gen = self.meta.get(id).map(|m| m.gen).unwrap_or(0);
				let existed = { let (_, s) = self.list_line(); s.get(id).map(|(n, _)| n != "AwaitingInvoice").unwrap_or(false) };
				self.f.insert_from_monitor(pid(*id), hash_of(&preimage_of(*id, gen)), self.parts[part].sp, *part);
				if !existed { self.meta.insert(*id, PayMeta { strategy: None, count: 0, gen, no_secret: false }); self.tally.entry(*id).or_default().restarted = true; }
			}
			let mut items = vec![];
			for (id, part, res, _) in view.iter() { if *res == 0 { items.push(format!("{}:{}:p", id, part)); } }
			for (id, part, res, _) in view.iter() {
				if *res != 1 { continue; }
				let gen = self.meta.get(id).map(|m| m.gen).unwrap_or(0);
				let f = &self.f; let sp = self.parts[part].sp;
				match guarded(AssertUnwindSafe(|| f.claim(pid(*id), preimage_of(*id, gen), sp, *part, true))) { Ok(e) => evs_all.extend(e), Err(_) => panicked = true }
self.inflight.remove(&(*id, *part));
				self.tally.entry(*id).or_default().claim_hit = true;
				items.push(format!("{}:{}:c", id, part));
			}
			for (id, part, res, perm) in view.iter() {
				if *res != 2 { continue; }
				let (_, s) = self.list_line();
				let auto = self.auto(*id, &s);
				let gen = self.meta.get(id).map(|m| m.gen).unwrap_or(0);
				let f = &self.f; let sp = self.parts[part].sp;
				match guarded(AssertUnwindSafe(|| f.fail(pid(*id), hash_of(&preimage_of(*id, gen)), sp, *part, *perm))) { Ok(e) => evs_all.extend(e), Err(_) => panicked = true }
self.inflight.remove(&(*id, *part));
				items.push(format!("{}:{}:f{}{}", id, part, auto as u8, *perm as u8));
			}
			// the driver expands `restart` in the order inserts, claims, fails — keep the same item order per kind
			let line = format!("restart {}", if items.is_empty() { "-".to_string() } else { items.join(",") });
			// `retry_strategy` / `attempts` do not survive a reload: every payment is retried manually from now on
			let ids: Vec<u64> = self.meta.keys().cloned().collect();
			for i in ids { self.rec.directive(&format!("strategy {} -", i)); }
			if panicked { self.emit(line, "panic", &[], "restart:panic"); self.dead = true; } else { self.emit(line, "ok", &evs_all, "restart"); }
		}
		if !self.dead && self.rng.chance(1, 3) { self.dump(); }
	}
	fn dump(&mut self) {
		let (l, _) = self.list_line();
		self.trace.push(l.clone());
		self.rec.case("list", &l, "list", true);
		let mut a = "amounts".to_string();
		for (i, pending, total) in self.f.amounts() { a.push_str(&format!(" {}:{}:{}", pid_num(&hex(&i.0)), pending, total)); }
		self.trace.push(a.clone());
		self.rec.case("amounts", &a, "amounts", true);
	}

	fn ans_char(a: PathAnswer) -> char { match a { PathAnswer::Ok => 'o', PathAnswer::MonitorUpdateInProgress => 'm', PathAnswer::ChannelUnavailable => 'e' } }

	/// Turn what one real send / check_retry call did (router calls, routes, per-path answers) into model ops, and keep
	/// the ground truth. `first` = (payment number, sent without secret) when the first router call is the initial send.
	fn ops_of_trace(&mut self, first: Option<(u64, bool)>, tr: &CallTrace) -> Vec<String> {
		let answer: BTreeMap<u64, PathAnswer> = tr.path_calls.iter().map(|c| (c.2, c.3)).collect();
		let mut ops = vec![];
		for (k, (idb, route)) in tr.router_calls.iter().enumerate() {
			let i = pid_num(&hex(&idb.0));
			match route {
				None => ops.push(format!("abandon {} RouteNotFound", i)),
				Some(paths) => {
					let parts: Vec<u64> = paths.iter().map(|p| p.0).collect();
					let res: Vec<String> = paths.iter().map(|(scid, bad)| if *bad { "b".to_string() } else { answer.get(scid).map(|a| Self::ans_char(*a)).unwrap_or('o').to_string() }).collect();
					if k == 0 && first.is_some() {
						ops.push(format!("sendr {} {} {} {}", i, Self::csv(&parts), res.join(","), first.unwrap().1 as u8));
					} else {
						let (now, ns) = match self.meta.get(&i) { Some(m) => (m.strategy.map(|s| s > m.count).unwrap_or(true), m.no_secret), None => (true, false) };
						ops.push(format!("retryr {} {} {} {} {}", i, Self::csv(&parts), now as u8, res.join(","), ns as u8));
						if now { if let Some(m) = self.meta.get_mut(&i) { m.count += 1; } }
					}
				},
			}
		}
		for (idb, sp, scid, a) in tr.path_calls.iter() {
			let i = pid_num(&hex(&idb.0));
			self.parts.insert(*scid, Part { id: i, sp: *sp });
			if *a != PathAnswer::ChannelUnavailable { self.inflight.insert((i, *scid)); }
		}
		ops
	}
	fn tried_suffix(tr: &CallTrace) -> String {
		if tr.path_calls.is_empty() { String::new() } else { format!(" tried={}", tr.path_calls.iter().map(|c| c.2.to_string()).collect::<Vec<_>>().join(",")) }
	}

	/// one `send_payment` call: route of `n` parts (`first_route[k]`: path k fails the parameter check; None = no route),
	/// follow-up router answers `retries_plan` (None = no route, Some(n_bad) = a route whose first n_bad paths are bad),
	/// per-path answers of send_payment_along_path in call order
	fn send_with_op(&mut self, id: u64, n: u64, retries: u32, with_secret: bool, first_route: Option<Vec<bool>>, retries_plan: Vec<Option<u64>>, answers: Vec<PathAnswer>) {
		let (_, st) = self.list_line();
		let mut plan: Vec<Option<Vec<(u64, bool)>>> = vec![];
		plan.push(first_route.map(|bad| { let ps = self.new_parts(id, bad.len() as u64); ps.into_iter().zip(bad.into_iter()).collect() }));
		for r in retries_plan.iter() { plan.push(r.map(|nb| { let ps = self.new_parts(id, 4); ps.into_iter().enumerate().map(|(k, p)| (p, (k as u64) < nb)).collect() })); }
		self.gens += 1;
		let gen = self.gens;
		let hash = hash_of(&preimage_of(id, gen));
		let present = st.contains_key(&id);
		let old_meta = self.meta.get(&id).cloned();
		let old_inflight = self.inflight.clone();
		if !present { self.meta.insert(id, PayMeta { strategy: Some(retries), count: 0, gen, no_secret: !with_secret }); self.inflight.retain(|k| k.0 != id); }
		let f = &self.f;
		let res = guarded(AssertUnwindSafe(|| f.send_with(pid(id), hash, n, retries, with_secret, plan, answers)));
		match res {
			Ok(tr) => {
				match tr.result.as_str() {
					"Ok" => {
						if present { let t = self.trace.join(" | "); self.rec.oracle_fail(format!("second send with a pending PaymentId {} was accepted: {}", id, t)); }
						self.tally.insert(id, Tally::default());
						let mut ops = self.ops_of_trace(Some((id, !with_secret)), &tr);
						if ops.first().map(|o| o.starts_with("sendr ")).unwrap_or(false) { ops.insert(1, format!("strategy {} a{}", id, retries)); }
						let class = format!("sendw:{}calls:{}", tr.router_calls.len().min(3), if tr.path_calls.iter().any(|c| c.3 == PathAnswer::MonitorUpdateInProgress) { "mip" } else if tr.path_calls.iter().any(|c| c.3 == PathAnswer::ChannelUnavailable) { "err" } else if tr.path_calls.is_empty() { "param" } else { "ok" });
						let line = format!("chain {}", ops.join(" ; "));
						let ans = format!("{}{} chain=ok", canon("ok", &tr.events), Self::tried_suffix(&tr));
						self.emit_raw(line, ans, &tr.events, &class);
					},
					"DuplicatePayment" => {
						if !present { let t = self.trace.join(" | "); self.rec.oracle_fail(format!("send of id={} refused with DuplicatePayment although the id is not listed: {}", id, t)); }
						if let Some(m) = old_meta { self.meta.insert(id, m); }
						if let Some(Some(paths)) = tr.router_calls.get(0).map(|c| c.1.clone()) {
							let parts: Vec<u64> = paths.iter().map(|p| p.0).collect();
							let res: Vec<&str> = paths.iter().map(|p| if p.1 { "b" } else { "o" }).collect();
							self.emit_raw(format!("chain sendr {} {} {} {}", id, Self::csv(&parts), res.join(","), !with_secret as u8), "dup chain=ok".to_string(), &[], "sendw:dup");
						}
						let (_, after) = self.list_line();
						if st != after { let t = self.trace.join(" | "); self.rec.oracle_fail(format!("refused duplicate send changed the map: {}", t)); }
					},
					other => {
						if !present { self.meta.remove(&id); self.inflight = old_inflight; }
						if other != "RouteNotFound" { let t = self.trace.join(" | "); self.rec.oracle_fail(format!("send_payment returned {}: {}", other, t)); }
						self.rec.discarded += 1;
					},
				}
			},
			Err(e) => { let t = self.trace.join(" | "); self.rec.oracle_fail(format!("the real code panicked in send_payment (id {}, {} parts, {} retries): {} :: {}", id, n, retries, e.chars().take(200).collect::<String>(), t)); self.emit(format!("chain sendr {} - - {}", id, !with_secret as u8), "panic", &[], "sendw:panic"); self.dead = true; },
		}
	}

	/// one `check_retry_payments` call with scripted per-path answers
	fn check_with_op(&mut self, plan_spec: Vec<Option<u64>>, answers: Vec<PathAnswer>) {
		let plan: Vec<Option<Vec<(u64, bool)>>> = plan_spec.iter().map(|r| r.map(|nb| { let ps = self.new_parts(0, 4); ps.into_iter().enumerate().map(|(k, p)| (p, (k as u64) < nb)).collect() })).collect();
		let f = &self.f;
		let res = guarded(AssertUnwindSafe(|| f.check_retry_with(plan, answers)));
		match res {
			Ok(tr) => {
				let mut ops = self.ops_of_trace(None, &tr);
				let (_, st2) = self.list_line();
				let autos: Vec<u64> = self.meta.iter().filter(|(i, m)| m.strategy.map(|s| s > m.count).unwrap_or(false) && st2.get(*i).map(|(n, _)| n == "Retryable").unwrap_or(false)).map(|(i, _)| *i).collect();
				ops.push(format!("sweep {}", Self::csv(&autos)));
				let class = if tr.router_calls.is_empty() { if tr.events.is_empty() { "checkw:idle" } else { "checkw:sweep" } } else if tr.path_calls.iter().any(|c| c.3 == PathAnswer::MonitorUpdateInProgress) { "checkw:mip" } else { "checkw:retry" };
				let ans = format!("{}{}", canon("ok", &tr.events), Self::tried_suffix(&tr));
				self.emit_raw(format!("seq {}", ops.join(" ; ")), ans, &tr.events, class);
				// the loop of check_retry_payments only ends when no auto-retryable payment is short of its total
				self.rec.case(&format!("unsettled {}", Self::csv(&autos)), "unsettled", "checkw:settled", true);
			},
			Err(e) => { let t = self.trace.join(" | "); self.rec.oracle_fail(format!("the real code panicked in check_retry_payments: {} :: {}", e.chars().take(200).collect::<String>(), t)); self.emit("seq sweep -".to_string(), "panic", &[], "checkw:panic"); self.dead = true; },
		}
	}

	/// resolve one in-flight HTLC: claim (off-chain fulfil + finalize) or fail
	fn resolve_op(&mut self, id: u64, part: u64, claim: bool) {
		let sp = self.parts[&part].sp;
		let gen = self.meta.get(&id).map(|m| m.gen).unwrap_or(0);
		let (_, st) = self.list_line();
		let before = st.get(&id).map(|x| x.0.clone()).unwrap_or("Absent".into());
		if claim {
			self.tally.entry(id).or_default().claim_hit = before != "Absent";
			let f = &self.f;
			match guarded(AssertUnwindSafe(|| f.claim(pid(id), preimage_of(id, gen), sp, part, false))) {
				Ok(evs) => {
					if before != "Fulfilled" && !evs.iter().any(|e| e.starts_with("PaymentSent")) { let tr = self.trace.join(" | "); self.rec.oracle_fail(format!("in-flight HTLC (part {}) of payment {} fulfilled at the sender, payment state {}: no PaymentSent produced: {} | claim {} {} 0", part, id, before, tr, id, part)); }
					self.emit(format!("claim {} {} 0", id, part), "ok", &evs, "resolve:claim");
				},
				Err(_) => { self.emit(format!("claim {} {} 0", id, part), "panic", &[], "resolve:panic"); self.dead = true; return; },
			}
			let (_, st1) = self.list_line();
			if st1.get(&id).map(|x| x.0 == "Fulfilled").unwrap_or(false) {
				let f = &self.f;
				let r = guarded(AssertUnwindSafe(|| f.finalize(pid(id), sp, part)));
				self.inflight.remove(&(id, part));
				match r { Ok(evs) => self.emit(format!("finalize {} {}", id, part), "ok", &evs, "resolve:finalize"), Err(_) => { self.emit(format!("finalize {} {}", id, part), "panic", &[], "resolve:panic"); self.dead = true; } }
			} else { self.inflight.remove(&(id, part)); }
		} else {
			let auto = self.auto(id, &st);
			let hash = hash_of(&preimage_of(id, gen));
			let f = &self.f;
			let r = guarded(AssertUnwindSafe(|| f.fail(pid(id), hash, sp, part, false)));
			self.inflight.remove(&(id, part));
			match r {
				Ok(evs) => {
					if before != "Fulfilled" && evs.is_empty() { let tr = self.trace.join(" | "); self.rec.oracle_fail(format!("in-flight HTLC (part {}) of payment {} failed at the sender, payment state {}: no event produced (payment unknown or part not tracked): {} | fail {} {}", part, id, before, tr, id, part)); }
					self.emit(format!("fail {} {} {} 0", id, part, auto as u8), "ok", &evs, "resolve:fail");
				},
				Err(_) => { self.emit(format!("fail {} {} {} 0", id, part, auto as u8), "panic", &[], "resolve:panic"); self.dead = true; },
			}
		}
	}

	fn random_answers(&mut self, n: usize) -> Vec<PathAnswer> {
		(0..n).map(|_| match self.rng.below(4) { 0 | 1 => PathAnswer::Ok, 2 => PathAnswer::MonitorUpdateInProgress, _ => PathAnswer::ChannelUnavailable }).collect()
	}
	fn random_send_with(&mut self) {
		let id = self.rng.range(1, 4);
		let n = self.rng.range(1, 4);
		let retries = self.rng.below(3) as u32;
		let with_secret = !self.rng.chance(1, 10);
		let first = if self.rng.chance(1, 14) { None } else { Some((0..n).map(|_| self.rng.chance(1, 14)).collect::<Vec<bool>>()) };
		let mut rp = vec![];
		for _ in 0..3 { rp.push(if self.rng.chance(1, 3) { None } else { Some(if self.rng.chance(1, 12) { 1 } else { 0 }) }); }
		let k = self.rng.below(9) as usize;
		let answers = self.random_answers(k);
		self.send_with_op(id, n, retries, with_secret, first, rp, answers);
	}
	fn random_check_with(&mut self) {
		let mut rp = vec![];
		for _ in 0..4 { rp.push(if self.rng.chance(1, 3) { None } else { Some(if self.rng.chance(1, 12) { 1 } else { 0 }) }); }
		let k = self.rng.below(9) as usize;
		let answers = self.random_answers(k);
		self.check_with_op(rp, answers);
	}
	/// a PaymentPathFailed must not name a part whose HTLC is in flight (e.g. paused behind a monitor update)
	fn path_failed_oracle(&mut self, evs: &[String]) {
		for e in evs {
			let w: Vec<&str> = e.split(' ').collect();
			if w[0] != "PaymentPathFailed" { continue; }
			let i = pid_num(w[1]);
			let part: u64 = w[2].parse().unwrap_or(u64::MAX);
			if self.tally.get(&i).map(|t| t.restarted).unwrap_or(true) { continue; }
			if self.inflight.contains(&(i, part)) { let tr = self.trace.join(" | "); self.rec.oracle_fail(format!("PaymentPathFailed for part {} of payment {} although its HTLC is in flight: {}", part, i, tr)); }
		}
	}
	/// like `emit`, with a ready-made answer line
	fn emit_raw(&mut self, op: String, ans: String, evs: &[String], class: &str) {
		self.trace.push(format!("{} => {}", op, ans));
		self.path_failed_oracle(evs);
		for e in evs {
			let w: Vec<&str> = e.split(' ').collect();
			if w[0] == "PaymentSent" { let i = pid_num(w[1]); self.tally.entry(i).or_default().sent += 1; }
			else if w[0] == "PaymentFailed" {
				let i = pid_num(w[1]);
				let t = self.tally.entry(i).or_default();
				t.failed += 1;
				let restarted = t.restarted;
				let live: Vec<u64> = self.inflight.iter().filter(|k| k.0 == i).map(|k| k.1).collect();
				if !restarted && !live.is_empty() { let tr = self.trace.join(" | "); self.rec.oracle_fail(format!("PaymentFailed for payment {} while {} of its HTLCs are still in flight (parts {:?}; accepted by send_payment_along_path with Ok / MonitorUpdateInProgress, not yet resolved): {}", i, live.len(), live, tr)); }
			}
		}
		self.rec.case(&op, &ans, class, true);
		self.after();
	}
}

fn run_pay(args: &Args) {
	let mut rec = Rec::new(&args.out, "c03pay");
	let mut rng = Rng::new(args.seed);
	let n_seq = if args.thorough { 60_000 } else { 5_000 } * args.scale;
	// (a) every per-path result vector of a 1-, 2- and 3-path send x retry budget x what the chained retry meets,
	//     then every in-flight HTLC is resolved (failed, or the first one claimed) and the map swept
	let answers3 = [PathAnswer::Ok, PathAnswer::MonitorUpdateInProgress, PathAnswer::ChannelUnavailable];
	let mut combos: Vec<(u64, Vec<PathAnswer>, u32, u8, bool)> = vec![];
	for n in 1..=3u64 {
		for code in 0..3u64.pow(n as u32) {
			let v: Vec<PathAnswer> = (0..n).map(|k| answers3[((code / 3u64.pow(k as u32)) % 3) as usize]).collect();
			for retries in 0..2u32 { for follow in 0..5u8 { for claim in [false, true] { combos.push((n, v.clone(), retries, follow, claim)); } } }
		}
	}
	for (ci, (n, v, retries, follow, claim)) in combos.into_iter().enumerate() {
		rec.directive("reset");
		let amt = [10_000u64, 7, 123_456][ci % 3];
		rec.directive(&format!("amtall {}", amt));
		let mut seq = Seq { f: Facade::new(rng.bytes32(), amt), rec: &mut rec, rng: &mut rng, meta: BTreeMap::new(), snap_meta: BTreeMap::new(), parts: BTreeMap::new(),
			next_part: 1 + 50 * (ci as u64 % 500), gens: 5_000_000 + ci as u64 * 10, tally: BTreeMap::new(), present: BTreeSet::new(), trace: vec![], dead: false, inflight: BTreeSet::new(), amt };
		// follow: 0 no route on the chained retry; 1 route, all Ok; 2 route, first path MonitorUpdateInProgress; 3 route, first path
		// refused; 4 route with a path that fails the parameter check
		let mut answers = v.clone();
		let rp = match follow { 0 => vec![None], 4 => vec![Some(1), None], _ => vec![Some(0), None] };
		match follow { 2 => answers.push(PathAnswer::MonitorUpdateInProgress), 3 => answers.push(PathAnswer::ChannelUnavailable), _ => {} }
		seq.send_with_op(1, n, retries, true, Some(vec![false; n as usize]), rp, answers);
		if !seq.dead { seq.dump(); }
		let mut first = true;
		loop {
			if seq.dead { break; }
			let next = seq.inflight.iter().next().cloned();
			let (id, part) = match next { Some(x) => x, None => break };
			seq.resolve_op(id, part, claim && first);
			first = false;
		}
		if !seq.dead { seq.check_with_op(vec![None], vec![]); }
		if !seq.dead {
			seq.dump();
			// every HTLC resolved and the retry budget swept: the payment must have ended with exactly one terminal event
			let (_, st) = seq.list_line();
			if let Some((name, np)) = st.get(&1) { if name != "Fulfilled" { let t = seq.trace.join(" | "); seq.rec.oracle_fail(format!("payment 1 still listed as {} with {} parts although every HTLC was resolved and check_retry_payments ran: {}", name, np, t)); } }
		}
		std::mem::forget(seq.f);
	}
	for s in 0..n_seq {
		rec.directive("reset");
		let amt = [10_000u64, 7, 123_456][(s % 3) as usize];
		rec.directive(&format!("amtall {}", amt));
		let len = if rng.chance(1, 10) { rng.range(40, 120) } else { rng.range(5, 40) };
		let mut seq = Seq { f: Facade::new(rng.bytes32(), amt),
 rec: &mut rec, rng: &mut rng, meta: BTreeMap::new(), snap_meta: BTreeMap::new(), parts: BTreeMap::new(),
			next_part: 1 + 100 * (s % 400), gens: s * 1000, tally: BTreeMap::new(), present: BTreeSet::new(), trace: vec![], dead: false, inflight: BTreeSet::new(), amt };
		for _ in 0..len { if seq.dead { break; } seq.step(); }
		if !seq.dead {
			let (l, _) = seq.list_line();
			seq.rec.case("list", &l, "list", true);
		}
		std::mem::forget(seq.f); // a poisoned mutex inside must not abort on drop
	}
	rec.notes.insert("rule".into(), "PRNG op sequences (5–120 ops over 4 payment ids, 0–4 parts each, retry strategies None/0/1/2) on the real OutboundPayments through verif_hooks::outbound::Facade; every op line is a case (events pushed, dup, panic), plus map dumps; distinct = distinct op text".into());
	rec.finish();
}

fn main() {
	let args = &parse_args("c03pay");
	if std::env::var("C03_DEBUG").is_ok() { std::panic::set_hook(Box::new(|i| { eprintln!("PANIC {}", i); })); }
	match args.model.as_str() {
		"c03pay" => run_pay(args),
		"c03e2e" => e2e::run(args),
		"c03chain" => chain::run(args),
		m => { eprintln!("unknown model {}", m); std::process::exit(2); },
	}
}
