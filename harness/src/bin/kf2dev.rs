use ldk_verif_harness::common::*;
use ldk_verif_harness::sim::*;

/// variant flags: fee (own update_fee in flight, else a small HTLC in flight), asym (fundee demands 10% reserve), claim_first
fn run(fee: bool, asym: bool, claim_first: bool, with_claim: bool, f2: u32) -> String {
	let base = lightning::ln::functional_test_utils::test_default_channel_config();
	let (c0, mut c1) = (base.clone(), base);
	if asym { c1.channel_handshake_config.their_channel_reserve_proportional_millionths = 100_000; }
	let mut net = Net::new(2, vec![Some(c0), Some(c1)]);
	let c = net.open(0, 1, 1_000_000, 400_000_000);
	let p = match net.send(&[1, 0], &[c], 250_000_000, 80) { Ok(p) => p, Err(e) => return format!("setup send failed: {}", e) };
	net.settle(8);
	if !net.claimable[0].iter().any(|x| x.0 == net.pays[p].hash) { return "setup: not claimable".into(); }
	// node 0 gets a commitment in flight (AwaitingRemoteRevoke): own update_fee, or a small HTLC
	if fee {
		for i in 0..2 { *net.nodes[i].fee_estimator.sat_per_kw.lock().unwrap() = f2; }
		net.nodes[0].node.timer_tick_occurred(); net.pump(0);
	} else {
		if net.send(&[0, 1], &[c], 1_000_000, 80).is_err() { return "small send failed".into(); }
	}
	let q = net.queued(0, 1);
	let lim0 = net.nodes[0].node.list_channels()[0].next_outbound_htlc_limit_msat;
	if claim_first && with_claim { net.claim(p); }
	let lim = net.nodes[0].node.list_channels()[0].next_outbound_htlc_limit_msat;
	let r = net.send(&[0, 1], &[c], lim, 80);
	if !claim_first && with_claim { net.claim(p); }
	let q2 = net.queued(0, 1);
	net.settle(10);
	let errs: Vec<String> = net.trace.iter().filter_map(|o| if let Obs::ProtoError { node, text } = o { Some(format!("n{}: {}", node, text.chars().take(140).collect::<String>())) } else { None }).collect();
	let s = format!("queued={}→{} lim_before_claim={} lim={} send={:?} closed={:?} errs={:?}", q, q2, lim0, lim, r.is_ok(), net.closed.iter().map(|c| c.0).collect::<Vec<_>>(), errs.first());
	std::mem::forget(net);
	s
}

fn main() {
	silence_stdout();
	for (fee, asym, cf, wc, f2) in [(true, true, true, true, 5321u32), (true, false, true, true, 5321), (true, false, false, true, 5321), (true, false, true, false, 5321), (false, false, true, true, 0), (false, true, true, true, 0), (true, false, true, true, 1000), (true, false, true, true, 20000)] {
		let r = guarded(std::panic::AssertUnwindSafe(|| run(fee, asym, cf, wc, f2)));
		eprintln!("fee={} asym={} claim_first={} with_claim={} f2={}: {:?}", fee, asym, cf, wc, f2, r);
	}
}
