//! C15 Init gate: EVERY wire message type as the first post-handshake message (and right after Init) against a PeerManager
//! whose channel / routing / onion / custom handlers RECORD every call.
//!
//! ops (model c15peer):  pconn ; f raw <hex> … ; runc <chunk sizes>  ->  `calls=<handler methods in order|-> open|disc`
//! impl oracles (no model): while the peer's Init is outstanding NO handler method at all may be invoked (not handle_*, not
//! message_received, not peer_connected / peer_disconnected) unless the message IS the Init, and a non-Init first message
//! must end the connection (`read_event` returns Err and the peer is gone: a later read_event fails as well).
use super::*;
use bitcoin::hashes::Hash;
use bitcoin::secp256k1::ecdsa::Signature;
use bitcoin::constants::ChainHash;
use lightning::ln::msgs::{BaseMessageHandler, ChannelMessageHandler, MessageSendEvent, OnionMessageHandler, RoutingMessageHandler};
use lightning::ln::types::ChannelId;
use lightning::routing::gossip::NodeId;
use lightning::types::features::{ChannelFeatures, ChannelTypeFeatures};
use lightning::types::payment::{PaymentHash, PaymentPreimage};

pub type Log = Arc<Mutex<Vec<String>>>;
pub(super) struct RecCM { pub log: Log }
pub(super) struct RecRM { pub log: Log }
pub(super) struct RecOM { pub log: Log }
pub(super) struct RecCustom { pub log: Log }
fn put(l: &Log, s: &str) { l.lock().unwrap().push(s.to_string()); }

macro_rules! base {
	($t: ty, $p: expr) => {
		impl BaseMessageHandler for $t {
			fn get_and_clear_pending_msg_events(&self) -> Vec<MessageSendEvent> { vec![] }
			fn peer_disconnected(&self, _: PublicKey) { put(&self.log, concat!($p, ".peer_disconnected")); }
			fn provided_node_features(&self) -> NodeFeatures { NodeFeatures::empty() }
			fn provided_init_features(&self, _: PublicKey) -> InitFeatures { InitFeatures::empty() }
			fn peer_connected(&self, _: PublicKey, _: &Init, _: bool) -> Result<(), ()> { put(&self.log, concat!($p, ".peer_connected")); Ok(()) }
		}
	};
}
base!(RecCM, "chan");
base!(RecRM, "route");
base!(RecOM, "onion");

macro_rules! rec_ref { ($($f: ident: $t: ident),*) => { $( fn $f(&self, _: PublicKey, _: &msgs::$t) { put(&self.log, concat!("chan.", stringify!($f))); } )* }; }
macro_rules! rec_val { ($($f: ident: $t: ident),*) => { $( fn $f(&self, _: PublicKey, _: msgs::$t) { put(&self.log, concat!("chan.", stringify!($f))); } )* }; }
impl ChannelMessageHandler for RecCM {
	rec_ref!(handle_open_channel: OpenChannel, handle_open_channel_v2: OpenChannelV2, handle_accept_channel: AcceptChannel, handle_accept_channel_v2: AcceptChannelV2,
		handle_funding_created: FundingCreated, handle_funding_signed: FundingSigned, handle_channel_ready: ChannelReady, handle_shutdown: Shutdown,
		handle_closing_signed: ClosingSigned, handle_stfu: Stfu, handle_splice_init: SpliceInit, handle_splice_ack: SpliceAck, handle_splice_locked: SpliceLocked,
		handle_tx_add_input: TxAddInput, handle_tx_add_output: TxAddOutput, handle_tx_remove_input: TxRemoveInput, handle_tx_remove_output: TxRemoveOutput,
		handle_tx_complete: TxComplete, handle_tx_signatures: TxSignatures, handle_tx_init_rbf: TxInitRbf, handle_tx_ack_rbf: TxAckRbf, handle_tx_abort: TxAbort,
		handle_update_add_htlc: UpdateAddHTLC, handle_update_fail_htlc: UpdateFailHTLC, handle_update_fail_malformed_htlc: UpdateFailMalformedHTLC,
		handle_commitment_signed: CommitmentSigned, handle_revoke_and_ack: RevokeAndACK, handle_update_fee: UpdateFee,
		handle_announcement_signatures: AnnouncementSignatures, handle_channel_reestablish: ChannelReestablish, handle_channel_update: ChannelUpdate,
		handle_error: ErrorMessage);
	rec_val!(handle_peer_storage: PeerStorage, handle_peer_storage_retrieval: PeerStorageRetrieval, handle_update_fulfill_htlc: UpdateFulfillHTLC);
	fn handle_commitment_signed_batch(&self, _: PublicKey, _: ChannelId, _: Vec<msgs::CommitmentSigned>) { put(&self.log, "chan.handle_commitment_signed_batch"); }
	fn get_chain_hashes(&self) -> Option<Vec<ChainHash>> { None }
	fn message_received(&self) { put(&self.log, "chan.message_received"); }
}
impl RoutingMessageHandler for RecRM {
	fn handle_node_announcement(&self, _: Option<PublicKey>, _: &msgs::NodeAnnouncement) -> Result<bool, LightningError> { put(&self.log, "route.handle_node_announcement"); Ok(false) }
	fn handle_channel_announcement(&self, _: Option<PublicKey>, _: &msgs::ChannelAnnouncement) -> Result<bool, LightningError> { put(&self.log, "route.handle_channel_announcement"); Ok(false) }
	fn handle_channel_update(&self, _: Option<PublicKey>, _: &msgs::ChannelUpdate) -> Result<Option<(NodeId, NodeId)>, LightningError> { put(&self.log, "route.handle_channel_update"); Ok(None) }
	fn get_next_channel_announcement(&self, _: u64) -> Option<(msgs::ChannelAnnouncement, Option<msgs::ChannelUpdate>, Option<msgs::ChannelUpdate>)> { None }
	fn get_next_node_announcement(&self, _: Option<&NodeId>) -> Option<msgs::NodeAnnouncement> { None }
	fn handle_reply_channel_range(&self, _: PublicKey, _: msgs::ReplyChannelRange) -> Result<(), LightningError> { put(&self.log, "route.handle_reply_channel_range"); Ok(()) }
	fn handle_reply_short_channel_ids_end(&self, _: PublicKey, _: msgs::ReplyShortChannelIdsEnd) -> Result<(), LightningError> { put(&self.log, "route.handle_reply_short_channel_ids_end"); Ok(()) }
	fn handle_query_channel_range(&self, _: PublicKey, _: msgs::QueryChannelRange) -> Result<(), LightningError> { put(&self.log, "route.handle_query_channel_range"); Ok(()) }
	fn handle_query_short_channel_ids(&self, _: PublicKey, _: msgs::QueryShortChannelIds) -> Result<(), LightningError> { put(&self.log, "route.handle_query_short_channel_ids"); Ok(()) }
	fn processing_queue_high(&self) -> bool { false }
}
impl OnionMessageHandler for RecOM {
	fn handle_onion_message(&self, _: PublicKey, _: &msgs::OnionMessage) { put(&self.log, "onion.handle_onion_message"); }
	fn next_onion_message_for_peer(&self, _: PublicKey) -> Option<msgs::OnionMessage> { None }
	fn timer_tick_occurred(&self) {}
}
impl CustomMessageReader for RecCustom {
	type CustomMessage = Raw;
	fn read<R: LengthLimitedRead>(&self, ty: u16, buffer: &mut R) -> Result<Option<Raw>, DecodeError> {
		if !reader_knows(ty) { return Ok(None); }
		let mut data = vec![0u8; buffer.remaining_bytes() as usize];
		buffer.read_exact(&mut data).map_err(|_| DecodeError::ShortRead)?;
		Ok(Some(Raw { ty, data }))
	}
}
impl CustomMessageHandler for RecCustom {
	fn handle_custom_message(&self, _: Raw, _: PublicKey) -> Result<(), LightningError> { put(&self.log, "custom.handle_custom_message"); Ok(()) }
	fn get_and_clear_pending_msg(&self) -> Vec<(PublicKey, Raw)> { vec![] }
	fn peer_disconnected(&self, _: PublicKey) { put(&self.log, "custom.peer_disconnected"); }
	fn peer_connected(&self, _: PublicKey, _: &Init, _: bool) -> Result<(), ()> { put(&self.log, "custom.peer_connected"); Ok(()) }
	fn provided_node_features(&self) -> NodeFeatures { NodeFeatures::empty() }
	fn provided_init_features(&self, _: PublicKey) -> InitFeatures { InitFeatures::empty() }
}

type RPM = PeerManager<Desc, &'static RecCM, &'static RecRM, &'static RecOM, &'static CapLogger, &'static RecCustom, &'static TestNodeSigner, &'static IgnoringMessageHandler>;

/// one valid message of EVERY wire type of the build (type ‖ payload), plus the interesting variants of the control messages
pub fn all_first_messages(rng: &mut Rng, secp: &Secp) -> Vec<(String, Vec<u8>)> {
	let pkr = |rng: &mut Rng| pk(secp, &rand_sk(rng));
	let sigr = |rng: &mut Rng| -> Signature { let m = bitcoin::secp256k1::Message::from_digest(rng.bytes32()); secp.sign_ecdsa(&m, &rand_sk(rng)) };
	let cid = |rng: &mut Rng| { let mut b = rng.bytes32(); b[0] |= 1; ChannelId(b) }; // never all-zero
	let txid = |rng: &mut Rng| bitcoin::Txid::from_byte_array(rng.bytes32());
	let chain = ChainHash::using_genesis_block(bitcoin::Network::Testnet);
	let script = |rng: &mut Rng| { let n = rng.below(34) as usize; bitcoin::ScriptBuf::from(rng.bytes(n)) };
	let mut out: Vec<(String, Vec<u8>)> = vec![];
	macro_rules! add { ($name: expr, $ty: expr, $m: expr) => {{ let mut v = ($ty as u16).to_be_bytes().to_vec(); v.extend($m.encode()); out.push(($name.to_string(), v)); }}; }
	macro_rules! addb { ($name: expr, $ty: expr, $b: expr) => {{ let mut v = ($ty as u16).to_be_bytes().to_vec(); v.extend($b); out.push(($name.to_string(), v)); }}; }
	let text = |rng: &mut Rng| "e".repeat(rng.below(30) as usize);
	add!("Error(channel_id!=0)", 17, msgs::ErrorMessage { channel_id: cid(rng), data: text(rng) });
	add!("Error(channel_id=0)", 17, msgs::ErrorMessage { channel_id: ChannelId([0; 32]), data: text(rng) });
	add!("Error(channel_id=0..01)", 17, msgs::ErrorMessage { channel_id: ChannelId({ let mut b = [0u8; 32]; b[31] = 1; b }), data: String::new() });
	add!("Warning(channel_id!=0)", 1, msgs::WarningMessage { channel_id: cid(rng), data: text(rng) });
	add!("Warning(channel_id=0)", 1, msgs::WarningMessage { channel_id: ChannelId([0; 32]), data: text(rng) });
	add!("Ping(answered)", 18, msgs::Ping { ponglen: rng.below(300) as u16, byteslen: rng.below(50) as u16 });
	add!("Ping(ponglen=65535)", 18, msgs::Ping { ponglen: 65535, byteslen: 0 });
	add!("Pong", 19, msgs::Pong { byteslen: rng.below(50) as u16 });
	add!("PeerStorage", 7, msgs::PeerStorage { data: { let n = rng.below(100) as usize; rng.bytes(n) } });
	add!("PeerStorageRetrieval", 9, msgs::PeerStorageRetrieval { data: { let n = rng.below(100) as usize; rng.bytes(n) } });
	let ct = if rng.chance(1, 2) { Some(ChannelTypeFeatures::only_static_remote_key()) } else { None };
	let open_common = |rng: &mut Rng| msgs::CommonOpenChannelFields { chain_hash: chain, temporary_channel_id: cid(rng), funding_satoshis: rng.next(), dust_limit_satoshis: rng.next(), max_htlc_value_in_flight_msat: rng.next(),
		htlc_minimum_msat: rng.next(), commitment_feerate_sat_per_1000_weight: rng.next() as u32, to_self_delay: rng.next() as u16, max_accepted_htlcs: rng.next() as u16, funding_pubkey: pkr(rng), revocation_basepoint: pkr(rng),
		payment_basepoint: pkr(rng), delayed_payment_basepoint: pkr(rng), htlc_basepoint: pkr(rng), first_per_commitment_point: pkr(rng), channel_flags: rng.next() as u8, shutdown_scriptpubkey: Some(script(rng)), channel_type: ct.clone() };
	let accept_common = |rng: &mut Rng| msgs::CommonAcceptChannelFields { temporary_channel_id: cid(rng), dust_limit_satoshis: rng.next(), max_htlc_value_in_flight_msat: rng.next(), htlc_minimum_msat: rng.next(), minimum_depth: rng.next() as u32,
		to_self_delay: rng.next() as u16, max_accepted_htlcs: rng.next() as u16, funding_pubkey: pkr(rng), revocation_basepoint: pkr(rng), payment_basepoint: pkr(rng), delayed_payment_basepoint: pkr(rng), htlc_basepoint: pkr(rng),
		first_per_commitment_point: pkr(rng), shutdown_scriptpubkey: None, channel_type: ct.clone() };
	add!("OpenChannel", 32, msgs::OpenChannel { common_fields: open_common(rng), push_msat: rng.next(), channel_reserve_satoshis: rng.next() });
	add!("OpenChannelV2", 64, msgs::OpenChannelV2 { common_fields: open_common(rng), funding_feerate_sat_per_1000_weight: rng.next() as u32, locktime: rng.next() as u32, second_per_commitment_point: pkr(rng), require_confirmed_inputs: None, disable_channel_reserve: None });
	add!("AcceptChannel", 33, msgs::AcceptChannel { common_fields: accept_common(rng), channel_reserve_satoshis: rng.next() });
	add!("AcceptChannelV2", 65, msgs::AcceptChannelV2 { common_fields: accept_common(rng), funding_satoshis: rng.next(), second_per_commitment_point: pkr(rng), require_confirmed_inputs: None, disable_channel_reserve: None });
	add!("FundingCreated", 34, msgs::FundingCreated { temporary_channel_id: cid(rng), funding_txid: txid(rng), funding_output_index: rng.next() as u16, signature: sigr(rng) });
	add!("FundingSigned", 35, msgs::FundingSigned { channel_id: cid(rng), signature: sigr(rng) });
	add!("Stfu", 2, msgs::Stfu { channel_id: cid(rng), initiator: rng.chance(1, 2) });
	add!("SpliceInit", 80, msgs::SpliceInit { channel_id: cid(rng), funding_contribution_satoshis: rng.next() as i64, funding_feerate_per_kw: rng.next() as u32, locktime: rng.next() as u32, funding_pubkey: pkr(rng), require_confirmed_inputs: None });
	add!("SpliceAck", 81, msgs::SpliceAck { channel_id: cid(rng), funding_contribution_satoshis: rng.next() as i64, funding_pubkey: pkr(rng), require_confirmed_inputs: None });
	add!("SpliceLocked", 77, msgs::SpliceLocked { channel_id: cid(rng), splice_txid: txid(rng) });
	add!("TxAddInput", 66, msgs::TxAddInput { channel_id: cid(rng), serial_id: rng.next(), prevtx: None, prevtx_out: rng.next() as u32, sequence: rng.next() as u32, shared_input_txid: Some(txid(rng)) });
	add!("TxAddOutput", 67, msgs::TxAddOutput { channel_id: cid(rng), serial_id: rng.next(), sats: rng.next(), script: script(rng) });
	add!("TxRemoveInput", 68, msgs::TxRemoveInput { channel_id: cid(rng), serial_id: rng.next() });
	add!("TxRemoveOutput", 69, msgs::TxRemoveOutput { channel_id: cid(rng), serial_id: rng.next() });
	add!("TxComplete", 70, msgs::TxComplete { channel_id: cid(rng) });
	add!("TxSignatures", 71, msgs::TxSignatures { channel_id: cid(rng), tx_hash: txid(rng), witnesses: vec![bitcoin::Witness::from_slice(&[rng.bytes(20)])], shared_input_signature: None });
	add!("TxInitRbf", 72, msgs::TxInitRbf { channel_id: cid(rng), locktime: rng.next() as u32, feerate_sat_per_1000_weight: rng.next() as u32, funding_output_contribution: Some(rng.next() as i64) });
	add!("TxAckRbf", 73, msgs::TxAckRbf { channel_id: cid(rng), funding_output_contribution: None });
	add!("TxAbort", 74, msgs::TxAbort { channel_id: cid(rng), data: rng.bytes(12) });
	add!("ChannelReady", 36, msgs::ChannelReady { channel_id: cid(rng), next_per_commitment_point: pkr(rng), short_channel_id_alias: Some(rng.next()) });
	add!("Shutdown", 38, msgs::Shutdown { channel_id: cid(rng), scriptpubkey: script(rng) });
	add!("ClosingSigned", 39, msgs::ClosingSigned { channel_id: cid(rng), fee_satoshis: rng.next(), signature: sigr(rng), fee_range: Some(msgs::ClosingSignedFeeRange { min_fee_satoshis: 1, max_fee_satoshis: rng.next() }) });
	add!("OnionMessage", 513, msgs::OnionMessage { blinding_point: pkr(rng), onion_routing_packet: lightning::onion_message::packet::Packet { version: 0, public_key: pkr(rng), hop_data: rng.bytes(1300), hmac: rng.bytes32() } });
	// batch_size 2 without a known message type: ignored by the holding-lock part (no batch is opened)
	add!("StartBatch", 127, msgs::StartBatch { channel_id: cid(rng), batch_size: 2, message_type: None });
	let onion = msgs::OnionPacket { version: 0, public_key: Ok(pkr(rng)), hop_data: [7u8; 1300], hmac: rng.bytes32() };
	add!("UpdateAddHTLC", 128, msgs::UpdateAddHTLC { channel_id: cid(rng), htlc_id: rng.next(), amount_msat: rng.next(), payment_hash: PaymentHash(rng.bytes32()), cltv_expiry: rng.next() as u32, skimmed_fee_msat: None, onion_routing_packet: onion, blinding_point: None, hold_htlc: None, accountable: None });
	add!("UpdateFulfillHTLC", 130, msgs::UpdateFulfillHTLC { channel_id: cid(rng), htlc_id: rng.next(), payment_preimage: PaymentPreimage(rng.bytes32()), attribution_data: None });
	{ let mut b = cid(rng).0.to_vec(); b.extend(rng.next().to_be_bytes()); let reason = rng.bytes(40); b.extend((reason.len() as u16).to_be_bytes()); b.extend(reason); addb!("UpdateFailHTLC", 131, b); }
	{ let mut b = cid(rng).0.to_vec(); b.extend(rng.next().to_be_bytes()); b.extend(rng.bytes32()); b.extend((0x8000u16 | 0x4000 | 5).to_be_bytes()); addb!("UpdateFailMalformedHTLC", 135, b); }
	add!("CommitmentSigned", 132, msgs::CommitmentSigned { channel_id: cid(rng), signature: sigr(rng), htlc_signatures: vec![sigr(rng), sigr(rng)], funding_txid: None });
	add!("RevokeAndACK", 133, msgs::RevokeAndACK { channel_id: cid(rng), per_commitment_secret: rng.bytes32(), next_per_commitment_point: pkr(rng), release_htlc_message_paths: vec![] });
	add!("UpdateFee", 134, msgs::UpdateFee { channel_id: cid(rng), feerate_per_kw: rng.next() as u32 });
	add!("ChannelReestablish", 136, msgs::ChannelReestablish { channel_id: cid(rng), next_local_commitment_number: rng.next(), next_remote_commitment_number: rng.next(), your_last_per_commitment_secret: rng.bytes32(), my_current_per_commitment_point: pkr(rng), next_funding: None, my_current_funding_locked: None });
	add!("AnnouncementSignatures", 259, msgs::AnnouncementSignatures { channel_id: cid(rng), short_channel_id: rng.next(), node_signature: sigr(rng), bitcoin_signature: sigr(rng) });
	let nid = |rng: &mut Rng| NodeId::from_pubkey(&pkr(rng));
	add!("ChannelAnnouncement", 256, msgs::ChannelAnnouncement { node_signature_1: sigr(rng), node_signature_2: sigr(rng), bitcoin_signature_1: sigr(rng), bitcoin_signature_2: sigr(rng),
		contents: msgs::UnsignedChannelAnnouncement { features: ChannelFeatures::empty(), chain_hash: chain, short_channel_id: rng.next(), node_id_1: nid(rng), node_id_2: nid(rng), bitcoin_key_1: nid(rng), bitcoin_key_2: nid(rng), excess_data: vec![] } });
	add!("NodeAnnouncement", 257, msgs::NodeAnnouncement { signature: sigr(rng), contents: msgs::UnsignedNodeAnnouncement { features: NodeFeatures::empty(), timestamp: rng.next() as u32, node_id: nid(rng), rgb: [1, 2, 3],
		alias: lightning::routing::gossip::NodeAlias([5; 32]), addresses: vec![msgs::SocketAddress::TcpIpV4 { addr: [127, 0, 0, 1], port: 9735 }], excess_address_data: vec![], excess_data: vec![] } });
	add!("ChannelUpdate", 258, msgs::ChannelUpdate { signature: sigr(rng), contents: msgs::UnsignedChannelUpdate { chain_hash: chain, short_channel_id: rng.next(), timestamp: rng.next() as u32, message_flags: 1, channel_flags: rng.next() as u8 & 3,
		cltv_expiry_delta: rng.next() as u16, htlc_minimum_msat: rng.next(), htlc_maximum_msat: rng.next(), fee_base_msat: rng.next() as u32, fee_proportional_millionths: rng.next() as u32, excess_data: vec![] } });
	add!("QueryShortChannelIds", 261, msgs::QueryShortChannelIds { chain_hash: chain, short_channel_ids: vec![rng.next(), rng.next()] });
	add!("ReplyShortChannelIdsEnd", 262, msgs::ReplyShortChannelIdsEnd { chain_hash: chain, full_information: true });
	add!("QueryChannelRange", 263, msgs::QueryChannelRange { chain_hash: chain, first_blocknum: rng.next() as u32 >> 8, number_of_blocks: 100 });
	add!("ReplyChannelRange", 264, msgs::ReplyChannelRange { chain_hash: chain, first_blocknum: 5, number_of_blocks: 10, sync_complete: true, short_channel_ids: vec![rng.next()] });
	add!("GossipTimestampFilter", 265, msgs::GossipTimestampFilter { chain_hash: chain, first_timestamp: rng.next() as u32, timestamp_range: rng.next() as u32 });
	// outside the table of wire.rs: the custom reader's range, unknown odd / even (below and inside the custom range)
	out.push(("Custom(known to the reader)".into(), custom(known_ty(rng), rng.below(20) as usize, 5)));
	out.push(("Unknown(odd)".into(), custom(20001 + 2 * rng.below(1000) as u16, 6, 1)));
	out.push(("Unknown(even)".into(), custom(20000 + 2 * rng.below(1000) as u16, 6, 1)));
	out.push(("Unknown(odd, custom range)".into(), custom(32768 + 3 + 4 * rng.below(1000) as u16, 6, 1)));
	out.push(("Unknown(even, custom range)".into(), custom(32768 + 2 + 4 * rng.below(1000) as u16, 6, 1)));
	out.push(("Unknown(odd, type 3)".into(), custom(3, 4, 1)));
	out.push(("Unknown(even, type 40: closing_complete, cfg simple_close off)".into(), custom(40, 4, 1)));
	// every message must decode with the real reader (otherwise the scenario would exercise the decode-error table instead of the gate)
	out
}

fn is_handler_call(s: &str) -> bool { s.contains(".handle_") }

/// Sends `plain` (type ‖ payload each; `None` = echo the node's own Init) over a fresh connection, returns
/// (handler log, disconnected?, Err position) and records the comparison with the model.
/// returns false when the PeerManager panicked (its locks are poisoned: no further connection can be made)
fn one_connection(rec: &mut Rec, rng: &mut Rng, secp: &Secp, pm: &RPM, node_id: PublicKey, log: &Log, plan: &[(String, Option<Vec<u8>>)], class: &str, conn_id: u64) -> bool {
	let mut d = Desc::new(conn_id);
	let (mut enc, init) = match enc_handshake_generic(pm, node_id, rng, secp, &mut d) { Ok(x) => x, Err(e) => { rec.oracle_fail(format!("handshake with the recording PeerManager failed: {}", e)); return true; } };
	if init.len() < 2 || init[0] != 0 || init[1] != 16 { rec.oracle_fail("the node's first message is not Init".into()); return true; }
	let before = log.lock().unwrap().clone();
	if !before.is_empty() { rec.oracle_fail(format!("handler methods invoked during the noise handshake, before any message: {:?}", before)); log.lock().unwrap().clear(); }
	rec.directive("pconn");
	let seq = plan.iter().map(|(n, _)| n.clone()).collect::<Vec<_>>().join(" , ");
	let mut stream = vec![]; let mut ends = vec![];
	for (_, m) in plan.iter() {
		let m: &Vec<u8> = m.as_ref().unwrap_or(&init);
		stream.extend(enc.encrypt_buffer(m).unwrap()); ends.push(stream.len());
		rec.directive(&format!("f raw {}", hex(m)));
	}
	let mut chunks = vec![]; let mut pos = 0; let mut disc = false;
	// per message: the handler log as it was when the message had been read completely
	let mut seen_init = false; let mut k = 0usize;
	let r = guarded(AssertUnwindSafe(|| {
		while pos < stream.len() {
			let n = rand_chunk(rng, stream.len() - pos).min(ends[k] - pos); // never read past the end of the current message: attribute calls to it
			chunks.push(n);
			let res = pm.read_event(&mut d, &stream[pos..pos + n]);
			pos += n;
			let done = pos == ends[k];
			let now = log.lock().unwrap().clone();
			let is_init = plan[k].1.is_none();
			if !seen_init && !is_init && !now.is_empty() {
				return Err(format!("handler method(s) {:?} invoked while the peer's Init is outstanding: first post-handshake message {} ; message sequence: {}", now, plan[k].0, seq));
			}
			if !seen_init && !is_init && done && res.is_ok() {
				return Err(format!("a non-Init first message did not end the connection (read_event returned Ok): {} ; message sequence: {}", plan[k].0, seq));
			}
			if res.is_err() { disc = true; break; }
			if done {
				if is_init && !seen_init {
					seen_init = true;
					let want = ["route.peer_connected", "chan.peer_connected", "onion.peer_connected", "custom.peer_connected", "chan.message_received"];
					if now != want { return Err(format!("after the peer's Init the handlers saw {:?}, expected {:?}", now, want)); }
				}
				k += 1;
			}
			pm.process_events();
			if d.s.lock().unwrap().disconnected { disc = true; break; }
			d.s.lock().unwrap().budget = usize::MAX / 2;
			d.s.lock().unwrap().out.clear();
		}
		Ok(())
	}));
	match r {
		Err(p) => { rec.oracle_fail(format!("PeerManager panicked ({}): {} ; message sequence: {}", class, p, seq)); log.lock().unwrap().clear(); return false; },
		Ok(Err(v)) => { rec.oracle_fail(v); },
		Ok(Ok(())) => {},
	}
	if disc {
		// the peer must be gone: further bytes are refused
		if pm.read_event(&mut d, &[0u8; 18]).is_ok() { rec.oracle_fail(format!("read_event returned Err but the peer was not removed ; message sequence: {}", seq)); }
	} else { pm.socket_disconnected(&d); }
	let all = std::mem::take(&mut *log.lock().unwrap());
	let calls: Vec<String> = all.iter().filter(|s| is_handler_call(s)).cloned().collect();
	rec.case(&format!("runc {}", lens(&chunks)), &format!("calls={} {}", if calls.is_empty() { "-".to_string() } else { calls.join(",") }, if disc { "disc" } else { "open" }), class, true);
	// message_received is only ever reported after a peer_connected
	if let Some(i) = all.iter().position(|s| s == "chan.message_received") { if !all[..i].iter().any(|s| s == "chan.peer_connected") { rec.oracle_fail(format!("message_received before peer_connected: {:?} ; message sequence: {}", all, seq)); } }
	true
}

pub fn gate_scenarios(rec: &mut Rec, rng: &mut Rng, secp: &Secp, rounds: usize) {
	let log: Log = Arc::new(Mutex::new(vec![]));
	let node_secret = rand_sk(rng);
	let mh = MessageHandler { chan_handler: leak(RecCM { log: log.clone() }), route_handler: leak(RecRM { log: log.clone() }), onion_message_handler: leak(RecOM { log: log.clone() }),
		custom_message_handler: leak(RecCustom { log: log.clone() }), send_only_message_handler: leak(IgnoringMessageHandler {}) };
	let pm: RPM = PeerManager::new(mh, 0, &rng.bytes32(), leak(CapLogger::new()), leak(TestNodeSigner::new(node_secret)));
	let node_id = pk(secp, &node_secret);
	let mut conn = 20_000u64;
	for _ in 0..rounds {
		let msgs = all_first_messages(rng, secp);
		// every generated message decodes with the real reader
		for (name, m) in msgs.iter() {
			match lightning::ln::verif_hooks::wire::read(&m[..]) {
				Err((e, _)) => rec.oracle_fail(format!("generated {} does not decode: {:?}", name, e)),
				Ok(r) => { let base = name.split('(').next().unwrap(); if r.variant != base && !(base == "Custom" && r.variant == "Unknown") { rec.oracle_fail(format!("generated {} decodes as {}", name, r.variant)); } },
			}
		}
		let marker = custom(known_ty(rng), 3, 9);
		for (name, m) in msgs.iter() {
			conn += 1;
			// (a) as the FIRST post-handshake message, the Init and a custom message after it
			if !one_connection(rec, rng, secp, &pm, node_id, &log, &[(name.clone(), Some(m.clone())), ("Init".into(), None), ("Custom(marker)".into(), Some(marker.clone()))], "gate:first-message-every-type", conn) { return; }
			conn += 1;
			// (b) right after the Init, followed by a custom message
			if !one_connection(rec, rng, secp, &pm, node_id, &log, &[("Init".into(), None), (name.clone(), Some(m.clone())), ("Custom(marker)".into(), Some(marker.clone()))], "gate:after-init-every-type", conn) { return; }
		}
		// Init first (accepted), Init twice (second one drops), repeated error / warning before Init
		conn += 1; if !one_connection(rec, rng, secp, &pm, node_id, &log, &[("Init".into(), None), ("Custom(marker)".into(), Some(marker.clone()))], "gate:init-first", conn) { return; }
		conn += 1; if !one_connection(rec, rng, secp, &pm, node_id, &log, &[("Init".into(), None), ("Init".into(), None), ("Custom(marker)".into(), Some(marker.clone()))], "gate:second-init", conn) { return; }
		let e = msgs[0].clone(); let w = msgs[3].clone();
		conn += 1; if !one_connection(rec, rng, secp, &pm, node_id, &log, &[(e.0.clone(), Some(e.1.clone())), (e.0.clone(), Some(e.1.clone())), (w.0.clone(), Some(w.1.clone())), ("Init".into(), None)], "gate:errors-before-init", conn) { return; }
		conn += 1; if !one_connection(rec, rng, secp, &pm, node_id, &log, &[("Init".into(), None), (e.0.clone(), Some(e.1.clone())), (w.0.clone(), Some(w.1.clone())), (e.0.clone(), Some(e.1.clone())), (msgs[1].0.clone(), Some(msgs[1].1.clone())), ("Custom(marker)".into(), Some(marker.clone()))], "gate:errors-after-init", conn) { return; }
	}
}
